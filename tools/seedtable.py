#!/usr/bin/env python3
"""Rewrites the seeded-change table in DESIGN.md (between the markers) from seeded/*/meta.json and result.json."""
import glob, json, os, re
V = os.path.dirname(os.path.dirname(os.path.abspath(__file__)))
rows = []
for d in sorted(glob.glob(os.path.join(V, "seeded", "C*-*m*"))):
    meta = json.load(open(os.path.join(d, "meta.json")))
    res = json.load(open(os.path.join(d, "result.json"))) if os.path.exists(os.path.join(d, "result.json")) else {"checks": {}}
    name = os.path.basename(d)
    title = meta.get("title", "").replace("|", "/")
    title = re.sub(r"^m\d\s*[—–:-]\s*", "", title)[:150]
    conf = "yes" if meta.get("confirmation", {}).get("confirmed") else "NO"
    if meta.get("obsolete_on_current_tree"):
        conf += " (harmless on the repaired tree, see its meta.json)"
    outs = []
    for k, v in sorted(res.get("checks", {}).items()):
        outs.append("%s: **%s**%s" % (k, v["verdict"], (" — " + v["detail"][:110].replace("|", "/")) if v.get("detail") else ""))
    rows.append("| %s | %s | %s | %s |" % (name, title, conf, "<br>".join(outs) or "not run"))
tbl = "<!-- SEEDED-TABLE-BEGIN -->\n| seed | change (as described by its author) | confirmed by me | our checks |\n|---|---|---|---|\n" + "\n".join(rows) + "\n<!-- SEEDED-TABLE-END -->"
p = os.path.join(V, "DESIGN.md")
s = open(p).read()
if "<!-- SEEDED-TABLE-BEGIN -->" in s:
    s = re.sub(r"<!-- SEEDED-TABLE-BEGIN -->.*?<!-- SEEDED-TABLE-END -->", lambda m: tbl, s, flags=re.S)
else:
    s = s.replace("SEEDED_TABLE_PLACEHOLDER", tbl)
open(p, "w").write(s)
print(len(rows), "rows")
