#!/bin/bash
# tools/mkws.sh <name>: scratch workspace for one builder: copy of /verif (with build cache) + clone of /repo
set -e
n=$1
mkdir -p /tmp/ag/$n
rm -rf /tmp/ag/$n/verif /tmp/ag/$n/repo
cp -r /verif /tmp/ag/$n/verif
rm -rf /tmp/ag/$n/verif/.git /tmp/ag/$n/verif/.scratch /tmp/ag/$n/verif/replays
git clone -q /repo /tmp/ag/$n/repo
(cd /tmp/ag/$n/verif && git init -q && git add -A && git commit -qm base) 
echo /tmp/ag/$n
