#!/bin/bash
# tools/seedsweep2.sh [tier] [glob]: run the seeded changes matching glob (default: round 2) against the check of their own property
cd "$(dirname "$0")/.."
tier=${1:-quick}
glob=${2:-seeded/C*-r2m*}
out=seeded/SUMMARY-r2.txt
for d in $glob; do
  python3 tools/seedtest.py run $d --tier $tier 2>&1 | tail -1 | cut -c1-260 | tee -a $out
done
./check --regen >/dev/null 2>&1
