#!/bin/bash
# tools/seedsweep.sh [tier]: run every seeded change against the check of its own property; summary in seeded/SUMMARY.txt
cd "$(dirname "$0")/.."
tier=${1:-quick}
: > seeded/SUMMARY.txt
for d in seeded/C*-m*; do
  python3 tools/seedtest.py run $d --tier $tier 2>&1 | tail -1 | cut -c1-260 | tee -a seeded/SUMMARY.txt
done
./check --regen >/dev/null 2>&1
