#!/usr/bin/env python3
"""Self-test of the C14 / C15 checks: applies hand-made mutations to a checkout of brutella/hc (HC_REPO), confirms each
compiles and passes hc's own tests, runs ./check and reports whether it exits 1 with a concrete replay. The tree is
restored with `git checkout` after every mutation. Usage: HC_REPO=<clone> tools/selftest_catalog.py [C14|C15]"""
import os, subprocess, sys, re
V = os.path.dirname(os.path.dirname(os.path.abspath(__file__)))
R = os.environ["HC_REPO"]
ENV = dict(os.environ, GOFLAGS="-mod=mod", GOPROXY="off", GOSUMDB="off", GOTOOLCHAIN="local")

def sub(path, old, new, count=1):
    p = os.path.join(R, path); s = open(p).read()
    assert old in s, (path, old)
    open(p, "w").write(s.replace(old, new, count))

MUT = {
 "C15": [
  ("brightness loses the events permission", lambda: sub("characteristic/brightness.go", "[]string{PermRead, PermWrite, PermEvents}", "[]string{PermRead, PermWrite}")),
  ("Hue gets the type id of Saturation's neighbour (13 -> 14)", lambda: sub("characteristic/hue.go", 'TypeHue = "13"', 'TypeHue = "14"')),
  ("Saturation max 100 -> 101", lambda: sub("characteristic/saturation.go", "SetMaxValue(100)", "SetMaxValue(101)")),
  ("CurrentTemperature step 0.1 -> 0.10000000000000002", lambda: sub("characteristic/current_temperature.go", "SetStepValue(0.1)", "SetStepValue(0.10000000000000002)")),
  ("Fan service loses its required On characteristic", lambda: sub("service/fan.go", "svc.AddCharacteristic(svc.On.Characteristic)", "")),
  ("RotationSpeed unit percentage -> lux", lambda: sub("characteristic/rotation_speed.go", "UnitPercentage", "UnitLux")),
  ("accessory.NewOutlet forgets to create its service (nil dereference)", lambda: sub("accessory/outlet.go", "acc.Outlet = service.NewOutlet()", "")),
  ("Volume format uint8 -> int32 by hand", lambda: sub("characteristic/volume.go", "FormatUInt8", "FormatInt32")),
  ("LockTargetState default value set before bounds and out of range", lambda: sub("characteristic/lock_target_state.go", "char.SetValue(0)", "char.Value = 7")),
  ("service Speaker contains Mute twice", lambda: sub("service/speaker.go", "return &svc", "svc.AddCharacteristic(characteristic.NewMute().Characteristic)\n\treturn &svc")),
 ],
 "C14": [
  ("characteristic ids restart for every service", lambda: sub("accessory/accessory.go", "\t\t\tc.ID = a.idCount\n\t\t\ta.idCount++", "\t\t\tc.ID = s.ID + uint64(len(s.Characteristics))\n\t\t\ta.idCount++")),
  ("duplicate check happens before the automatic id is assigned", lambda: (sub("accessory/container.go", "\tif a.ID == 0 {\n\t\ta.ID = m.idCount\n\t\tm.idCount++\n\t}\n\n\tif m.as[a.ID] != nil {\n\t\treturn fmt.Errorf(\"duplicate accessory id %d\", a.ID)\n\t}\n",
      "\tif m.as[a.ID] != nil {\n\t\treturn fmt.Errorf(\"duplicate accessory id %d\", a.ID)\n\t}\n\tif a.ID == 0 {\n\t\ta.ID = m.idCount\n\t\tm.idCount++\n\t}\n"))),
  ("a service without characteristics does not advance the counter", lambda: sub("accessory/accessory.go", "\t\ts.ID = a.idCount\n\t\ta.idCount++", "\t\ts.ID = a.idCount\n\t\tif len(s.Characteristics) > 0 {\n\t\t\ta.idCount++\n\t\t}")),
  ("perms gets omitempty", lambda: sub("characteristic/characteristic.go", '`json:"perms"`', '`json:"perms,omitempty"`')),
  ("linked ids are marshalled from the linking service", lambda: sub("service/service.go", "\tfor _, s := range s.Linked {\n\t\tids = append(ids, s.ID)", "\tfor range s.Linked {\n\t\tids = append(ids, s.ID)")),
  ("automatic accessory ids start at 0", lambda: sub("accessory/container.go", "idCount:     1,", "idCount:     0,")),
  ("hidden flag never marshalled", lambda: sub("service/service.go", "\tif s.Hidden {", "\tif s.Hidden && s.Primary {")),
  ("UpdateIDs restarts at 1 on every call (ids stable but counter reset)", lambda: sub("accessory/accessory.go", "func (a *Accessory) UpdateIDs() {\n", "func (a *Accessory) UpdateIDs() {\n\ta.idCount = 2\n")),
  ("automatic ids are not remembered in the container's map", lambda: sub("accessory/container.go", "\tif a.ID == 0 {\n\t\ta.ID = m.idCount\n\t\tm.idCount++\n\t}\n\n\tif m.as[a.ID] != nil {\n\t\treturn fmt.Errorf(\"duplicate accessory id %d\", a.ID)\n\t}\n\n\tm.as[a.ID] = a\n",
      "\tauto := a.ID == 0\n\tif a.ID == 0 {\n\t\ta.ID = m.idCount\n\t\tm.idCount++\n\t}\n\n\tif m.as[a.ID] != nil {\n\t\treturn fmt.Errorf(\"duplicate accessory id %d\", a.ID)\n\t}\n\n\tif !auto {\n\t\tm.as[a.ID] = a\n\t}\n")),
  ("UpdateIDs skipped for accessories with an explicit id", lambda: sub("accessory/container.go", "\ta.UpdateIDs()\n", "\tif a.ID == 0 {\n\t\ta.UpdateIDs()\n\t}\n")),
  ("format gets omitempty", lambda: sub("characteristic/characteristic.go", '`json:"format"`', '`json:"format,omitempty"`')),
  ("accessory id marshalled under key id instead of aid", lambda: sub("accessory/accessory.go", '`json:"aid"`', '`json:"id"`')),
  ("primary flag marshalled for hidden services too", lambda: sub("service/service.go", "\tif s.Primary {", "\tif s.Primary || s.Hidden {")),
  ("NewWifiCapabilities has an unknown permission string", lambda: sub("characteristic/wifi_capabilities.go", "[]string{PermRead}", '[]string{"rd"}')),
 ],
}

def run(cmd, cwd, env=ENV):
    p = subprocess.run(cmd, cwd=cwd, env=env, stdout=subprocess.PIPE, stderr=subprocess.STDOUT)
    return p.returncode, p.stdout.decode()

which = sys.argv[1:] or ["C15", "C14"]
for pid in which:
    for name, f in MUT[pid]:
        subprocess.run(["git", "checkout", "-q", "."], cwd=R)
        f()
        rc, out = run(["go", "test", "-vet=off", "-count=1", "./..."], R)
        tests = "tests pass" if rc == 0 else "TESTS FAIL"
        rc, out = run([os.path.join(V, "check"), pid, "quick"], V, dict(ENV, HC_REPO=R))
        line = [l for l in out.split("\n") if l.startswith(("VIOLATION", "OK", "KNOWN"))]
        kind = "MISSED"
        if rc == 1 and line:
            kind = "no-failing-input-found" if "no-failing-input-found" in line[-1] else "concrete replay"
        sig = ""
        m = re.search(r"replay=(\S+)", line[-1]) if line else None
        if m and os.path.exists(m.group(1)):
            import json
            sig = json.load(open(m.group(1))).get("signature", "")
        print("%s | %-75s | %s | exit %d | %s | %s" % (pid, name, tests, rc, kind, sig), flush=True)
    subprocess.run(["git", "checkout", "-q", "."], cwd=R)
