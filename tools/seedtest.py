#!/usr/bin/env python3
"""tools/seedtest.py <seeded-dir> [--tier quick|thorough] [--checks C01,C02|all]

Runs our checks against one seeded change (a directory holding patch.diff and meta.json): applies the patch to /repo
(git apply), confirms that hc still builds and passes its own tests, runs the property's check (or the listed ones),
and ALWAYS reverts /repo afterwards (git checkout -- . ; removes untracked files the patch added).
Prints one line per check and writes <seeded-dir>/result.json."""
import json, os, subprocess, sys, time

V = os.path.dirname(os.path.dirname(os.path.abspath(__file__)))
REPO = "/repo"
ENV = dict(os.environ, GOFLAGS="-mod=mod", GOPROXY="off", GOSUMDB="off", GOTOOLCHAIN="local")


def sh(cmd, cwd=None, timeout=1800):
    p = subprocess.run(cmd, shell=True, cwd=cwd, env=ENV, stdout=subprocess.PIPE, stderr=subprocess.STDOUT, timeout=timeout)
    return p.returncode, p.stdout.decode("utf-8", "replace")


def main():
    d = os.path.abspath(sys.argv[1])
    tier = "quick"
    checks = None
    a = sys.argv[2:]
    while a:
        if a[0] == "--tier":
            tier = a[1]; a = a[2:]
        elif a[0] == "--checks":
            checks = a[1]; a = a[2:]
        else:
            a = a[1:]
    meta = json.load(open(os.path.join(d, "meta.json")))
    prop = meta["property"]
    if checks is None:
        ids = [prop]
    elif checks == "all":
        ids = [c["property_id"] for c in json.load(open(os.path.join(V, "MANIFEST.json")))["checks"]]
    else:
        ids = checks.split(",")
    rc, out = sh("git status --porcelain", REPO)
    if out.strip():
        print("refusing: /repo is not clean:\n" + out)
        sys.exit(2)
    res = {"seed": os.path.basename(d), "property": prop, "tier": tier, "checks": {}}
    try:
        rc, out = sh("git apply %s" % os.path.join(d, "patch.diff"), REPO)
        if rc != 0:
            print("patch does not apply:\n" + out)
            res["error"] = "patch does not apply"
            return res
        rc, out = sh("go build ./... && go test -vet=off -count=1 ./... 2>&1 | grep -v 'no test files' | grep -v '^ok' ; true", REPO)
        res["hc_build_and_tests"] = "ok" if not out.strip() else out[-800:]
        for cid in ids:
            t = time.time()
            rc, out = sh("./check %s %s" % (cid, tier), V)
            lines = [l for l in out.split("\n") if l.startswith(("VIOLATION", "OK ", "KNOWN-FINDING"))]
            verdict = "MISSED"
            replay = ""
            for l in lines:
                if l.startswith("VIOLATION"):
                    verdict = "caught-no-input" if l.rstrip().endswith("no-failing-input-found") else "caught"
                    replay = l.split("replay=")[1].split()[0]
            detail = ""
            if replay and os.path.exists(replay):
                try:
                    r = json.load(open(replay))
                    detail = (r.get("signature") or r.get("theorem_or_stream") or "")[:200]
                except Exception:
                    pass
            res["checks"][cid] = {"verdict": verdict, "rc": rc, "wall_s": round(time.time() - t, 1), "detail": detail}
            print("%s on %s: %s (%.0fs) %s" % (cid, res["seed"], verdict, time.time() - t, detail))
    finally:
        sh("git checkout -- . && git clean -fdq", REPO)
    return res


if __name__ == "__main__":
    r = main()
    if r:
        json.dump(r, open(os.path.join(os.path.abspath(sys.argv[1]), "result.json"), "w"), indent=1)
