#!/usr/bin/env python3
"""Seeded-change tooling.

  tools/seedtest.py import <Cxx> <srcdir> [--name NAME]   copy an independently produced change (patch.diff, demo,
                                                           README.md) into /verif/seeded/<Cxx>-<name>/ and write meta.json
  tools/seedtest.py confirm <seeded-dir>                   in a scratch worktree of /repo (outside /repo and /verif):
                                                           demo passes on the clean tree; with the patch hc builds, hc's own
                                                           tests pass, and the demo FAILS
  tools/seedtest.py run <seeded-dir> [--tier quick|thorough] [--checks C01,C02|all]
                                                           run our checks against the patched tree (HC_REPO=<scratch worktree>;
                                                           /repo itself is never touched) and write result.json
Every scratch worktree is removed again, with its build output."""
import json, os, re, shutil, subprocess, sys, time

V = os.path.dirname(os.path.dirname(os.path.abspath(__file__)))
REPO = "/repo"
ENV = dict(os.environ, GOFLAGS="-mod=mod", GOPROXY="off", GOSUMDB="off", GOTOOLCHAIN="local")


def sh(cmd, cwd=None, timeout=2400, env=None):
    p = subprocess.run(cmd, shell=True, cwd=cwd, env=env or ENV, stdout=subprocess.PIPE, stderr=subprocess.STDOUT, timeout=timeout)
    return p.returncode, p.stdout.decode("utf-8", "replace")


class Worktree:
    def __init__(self, tag):
        self.path = "/tmp/seedrun-%s-%d" % (tag, os.getpid())

    def __enter__(self):
        sh("git worktree remove --force %s" % self.path, REPO)
        rc, out = sh("git worktree add -q --detach %s %s" % (self.path, os.environ.get("SEED_BASE", "HEAD")), REPO)
        if rc != 0:
            raise SystemExit("cannot create worktree: " + out)
        return self.path

    def __exit__(self, *a):
        sh("git worktree remove --force %s" % self.path, REPO)
        shutil.rmtree(self.path, ignore_errors=True)
        sh("git worktree prune", REPO)


def cmd_import(args):
    prop, src = args[0], os.path.abspath(args[1])
    name = os.path.basename(src.rstrip("/"))
    if "--name" in args:
        name = args[args.index("--name") + 1]
    dst = os.path.join(V, "seeded", "%s-%s" % (prop, name))
    os.makedirs(dst, exist_ok=True)
    for f in os.listdir(src):
        p = os.path.join(src, f)
        if os.path.isdir(p):
            shutil.copytree(p, os.path.join(dst, f), dirs_exist_ok=True)
        else:
            shutil.copy(p, dst)
    readme = open(os.path.join(dst, "README.md")).read() if os.path.exists(os.path.join(dst, "README.md")) else ""
    ticks = re.findall(r"`([^`\n]+)`", readme)
    dest = next((t for t in ticks if t.endswith("_test.go") and "/" in t and not t.startswith("_seed")), "")
    run = next((t for t in ticks if t.startswith("go test") and "-run" in t), "")
    demo = next((f for f in sorted(os.listdir(dst)) if f.endswith("_test.go")), "")
    title = readme.strip().split("\n")[0].lstrip("# ").strip()
    needs = ""
    m = re.search(r"##\s*(?:What is needed to manifest|Needed to manifest|What it needs to manifest|Trigger)[^\n]*\n(.*?)(?=\n## |\Z)", readme, re.S | re.I)
    if m:
        needs = " ".join(m.group(1).split())[:900]
    meta = {"property": prop, "title": title, "origin": "independent sub-agent given only the property text and its own scratch worktree",
            "needs_to_manifest": needs, "demo_file": demo, "demo_dest": dest, "demo_run": run}
    json.dump(meta, open(os.path.join(dst, "meta.json"), "w"), indent=1)
    print(dst, "| dest:", dest, "| run:", run)
    return dst


def confirm(d, wt):
    meta = json.load(open(os.path.join(d, "meta.json")))
    out = {}
    dest = os.path.join(wt, meta["demo_dest"])

    def demo():
        copied = []
        if meta.get("demo_dir_dest"):          # several test files that go into one (possibly new) package directory
            dd = os.path.join(wt, meta["demo_dir_dest"])
            os.makedirs(dd, exist_ok=True)
            for f in os.listdir(d):
                if f.endswith("_test.go"):
                    shutil.copy(os.path.join(d, f), os.path.join(dd, f))
                    copied.append(os.path.join(dd, f))
        elif meta.get("demo_file"):
            os.makedirs(os.path.dirname(dest), exist_ok=True)
            shutil.copy(os.path.join(d, meta["demo_file"]), dest)
            copied.append(dest)
        tree = None
        if meta.get("demo_tree_dest"):         # a demonstration program: the directory `demo` goes to that place
            tree = os.path.join(wt, meta["demo_tree_dest"])
            shutil.copytree(os.path.join(d, "demo"), tree)
        rc, o = sh(meta["demo_run"], wt, timeout=900)
        for f in copied:
            os.remove(f)
        if tree:
            shutil.rmtree(tree)
        return rc, o

    rc, o = demo()
    out["demo_on_clean_tree"] = "pass" if rc == 0 else "FAIL: " + o[-400:]
    rc, o = sh("git apply %s" % os.path.join(d, "patch.diff"), wt)
    if rc != 0:
        out["error"] = "patch does not apply: " + o[-300:]
        return out
    rc, o = sh("go build ./... && go test -vet=off -count=1 ./... 2>&1 | grep -v 'no test files' | grep -v '^ok' ; true", wt)
    out["hc_build_and_tests_with_patch"] = "ok" if not o.strip() else o[-600:]
    rc, o = demo()
    out["demo_with_patch"] = "fails (as required)" if rc != 0 else "PASSES (change not demonstrated)"
    out["confirmed"] = (out["demo_on_clean_tree"] == "pass" and out["hc_build_and_tests_with_patch"] == "ok" and rc != 0)
    return out


def cmd_confirm(args):
    d = os.path.abspath(args[0])
    with Worktree(os.path.basename(d)) as wt:
        out = confirm(d, wt)
    meta = json.load(open(os.path.join(d, "meta.json")))
    meta["confirmation"] = out
    meta["what_was_run"] = ["scratch worktree of /repo " + os.environ.get("SEED_BASE", "HEAD"), meta.get("demo_run", ""), "go build ./... && go test -vet=off -count=1 ./..."]
    json.dump(meta, open(os.path.join(d, "meta.json"), "w"), indent=1)
    print(os.path.basename(d), json.dumps(out))
    return out


def cmd_run(args):
    # every scratch worktree path compiles hc anew into Go's build cache (~0.4 GB per run): keep the disk from filling up
    try:
        if shutil.disk_usage("/").free < 40 * 2**30:
            subprocess.run(["go", "clean", "-cache"], stdout=subprocess.DEVNULL, stderr=subprocess.DEVNULL)
    except Exception:
        pass
    d = os.path.abspath(args[0])
    tier, checks = "quick", None
    a = args[1:]
    while a:
        if a[0] == "--tier":
            tier = a[1]; a = a[2:]
        elif a[0] == "--checks":
            checks = a[1]; a = a[2:]
        else:
            a = a[1:]
    meta = json.load(open(os.path.join(d, "meta.json")))
    prop = meta["property"]
    if checks is None:
        ids = [prop]
    elif checks == "all":
        ids = [c["property_id"] for c in json.load(open(os.path.join(V, "MANIFEST.json")))["checks"]]
    else:
        ids = checks.split(",")
    respath = os.path.join(d, "result.json")
    res = json.load(open(respath)) if os.path.exists(respath) else {}
    res.update({"seed": os.path.basename(d), "property": prop})
    res.setdefault("checks", {})
    with Worktree(os.path.basename(d)) as wt:
        rc, o = sh("git apply %s" % os.path.join(d, "patch.diff"), wt)
        if rc != 0:
            print("patch does not apply:\n" + o)
            return
        env = dict(ENV, HC_REPO=wt)
        for cid in ids:
            t = time.time()
            rc, o = sh("./check %s %s" % (cid, tier), V, env=env)
            verdict, replay = "MISSED", ""
            for l in o.split("\n"):
                if l.startswith("VIOLATION"):
                    verdict = "caught-no-input" if l.rstrip().endswith("no-failing-input-found") else "caught"
                    replay = l.split("replay=")[1].split()[0]
            detail = ""
            if replay and os.path.exists(replay):
                try:
                    r = json.load(open(replay))
                    detail = (r.get("signature") or r.get("theorem_or_stream") or "")[:200]
                except Exception:
                    pass
            res["checks"]["%s/%s" % (cid, tier)] = {"verdict": verdict, "wall_s": round(time.time() - t, 1), "detail": detail}
            print("%-22s %s/%s: %s (%.0fs) %s" % (res["seed"], cid, tier, verdict, time.time() - t, detail))
    # leave the generated tables of /verif in the state of /repo
    sh("./check --regen >/dev/null 2>&1", V)
    json.dump(res, open(respath, "w"), indent=1)


if __name__ == "__main__":
    if len(sys.argv) < 3:
        print(__doc__); sys.exit(2)
    {"import": cmd_import, "confirm": cmd_confirm, "run": cmd_run}[sys.argv[1]](sys.argv[2:])
