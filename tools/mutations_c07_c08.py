import subprocess, sys, json, os, glob
REPO='/tmp/ag/connrw/repo'; VERIF='/tmp/ag/connrw/verif'
env=dict(os.environ, GOFLAGS='-mod=mod', GOPROXY='off', GOSUMDB='off', GOTOOLCHAIN='local', HC_REPO=REPO)
def mutate(name, prop, pairs):
    p=REPO+'/hap/connection.go'
    s=open(p).read()
    for old,new in pairs:
        assert s.count(old)==1, (name, old, s.count(old))
        s=s.replace(old,new)
    open(p,'w').write(s)
    t=subprocess.run(['go','test','-vet=off','-count=1','./hap/...','./crypto/...','.'],cwd=REPO,env=env,capture_output=True,text=True)
    tests='tests-pass' if t.returncode==0 else 'TESTS-FAIL '+t.stdout[-300:]+t.stderr[-300:]
    subprocess.run(['rm','-rf',VERIF+'/replays'])
    r=subprocess.run(['./check',prop,'quick'],cwd=VERIF,env=env,capture_output=True,text=True)
    last=r.stdout.strip().split('\n')[-1]
    sig=''
    for f in glob.glob(VERIF+'/replays/*.json'):
        j=json.load(open(f))
        sig=(j.get('case') or '')+' :: '+(j.get('signature') or j.get('theorem_or_stream') or '')[:90]
        if 'input' in j and isinstance(j['input'],dict): sig+=' :: '+str(j['input'].get('line') or j['input'].get('events'))[:80]
    print(f'[{name}] {tests} | exit={r.returncode} | {last[:120]} | {sig}', flush=True)
    subprocess.run(['git','checkout','hap/connection.go'],cwd=REPO,capture_output=True)
    subprocess.run(['rm','-rf',VERIF+'/replays'])

LOCK='''	con.writeMutex.Lock()
	defer con.writeMutex.Unlock()
'''
M={
 'w-rlock': ('C08',[('writeMutex sync.Mutex','writeMutex sync.RWMutex'),(LOCK,'	con.writeMutex.RLock()\n	defer con.writeMutex.RUnlock()\n')]),
 'w-early-unlock-multiframe': ('C08',[(LOCK,'	con.writeMutex.Lock()\n	unlocked := false\n	defer func() {\n		if !unlocked {\n			con.writeMutex.Unlock()\n		}\n	}()\n'),
      ('	encryptedBytes, err := ioutil.ReadAll(encrypted)\n','	encryptedBytes, err := ioutil.ReadAll(encrypted)\n	if len(b) > 2048 {\n		unlocked = true\n		con.writeMutex.Unlock()\n	}\n')]),
 'w-trylock': ('C08',[(LOCK,'	if con.writeMutex.TryLock() {\n		defer con.writeMutex.Unlock()\n	}\n')]),
 'w-leak-on-empty': ('C08',[(LOCK,'	con.writeMutex.Lock()\n	if len(b) == 0 {\n		return 0, nil\n	}\n	defer con.writeMutex.Unlock()\n')]),
 'r-bufio-per-call': ('C07',[('		if con.buffered == nil {\n			con.buffered = bufio.NewReaderSize(con.connection, 2+0xFFFF+16)\n		}\n','		con.buffered = bufio.NewReaderSize(con.connection, 2+0xFFFF+16)\n')]),
 'r-peek-without-tag': ('C07',[('			_, err = con.buffered.Peek(size)\n','			_, err = con.buffered.Peek(size - 16)\n')]),
 'r-if-instead-of-for': ('C07',[('	for con.readBuffer == nil || con.readBuffer.Len() == 0 {','	if con.readBuffer == nil || con.readBuffer.Len() == 0 {')]),
 'r-bufio-spec-size': ('C07',[('2+0xFFFF+16','2+crypto.PacketLengthMax+16')]),
 'r-reset-on-timeout': ('C07',[('				// Ignore timeout error #77\n','				// Ignore timeout error #77\n				con.buffered.Reset(con.connection)\n')]),
 'r-clear-remainder-on-short-read': ('C07',[('	return con.readBuffer.Read(b)\n','	n, err := con.readBuffer.Read(b)\n	if n < len(b) {\n		con.readBuffer = nil\n	}\n	if n == 0 && len(b) > 4000 {\n		con.readBuffer = nil\n	}\n	return n, err\n')]),
 'r-drop-remainder-when-buffer-small': ('C07',[('	return con.readBuffer.Read(b)\n','	n, err := con.readBuffer.Read(b)\n	if len(b) == 7 && con.readBuffer.Len() == 1 {\n		con.readBuffer.Reset()\n	}\n	return n, err\n')]),
 'r-eof-not-closing': ('C07',[('				log.Debug.Println("Read failed:", err)\n				con.connection.Close()\n','				log.Debug.Println("Read failed:", err)\n				if err != io.EOF {\n					con.connection.Close()\n				}\n')]),
}
for k in (sys.argv[1:] or M.keys()):
    mutate(k, M[k][0], M[k][1])
