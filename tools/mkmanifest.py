#!/usr/bin/env python3
"""Regenerates /verif/MANIFEST.json from tools/props_table.json (keeps it schema-valid at all times)."""
import json, os
V = os.path.dirname(os.path.dirname(os.path.abspath(__file__)))
tab = json.load(open(os.path.join(V, "tools", "props_table.json")))
ids = [json.loads(l)["id"] for l in open(os.path.join(V, "properties.jsonl")) if l.strip()]
checks, na = [], []
for pid in ids:
    e = tab.get(pid, {})
    if e.get("claimed"):
        checks.append({
            "property_id": pid,
            "quick_cmd": "./check %s quick" % pid,
            "thorough_cmd": "./check %s thorough" % pid,
            "evidence_file": "/verif/evidence/%s.json" % pid,
            "replay_cmd_template": "./check %s --replay {path}" % pid,
            "engine": "lean4-proof+correspondence",
            "level_claimed": {"category": "proof", "text": e["text"], "design_ref": e.get("design_ref", "DESIGN.md §6 " + pid)},
            "level_note": e["note"],
            "technique": e["technique"],
        })
    else:
        na.append({"property_id": pid, "reason": e.get("reason", "not claimed yet: the Lean model, theorems and correspondence check for this property are not built in the committed state (planned, see DESIGN.md §6 %s); Lean proof is applicable in principle" % pid)})
m = {
    "version": 1,
    "setup_cmd": "./check --setup",
    "hooks": {
        "guard": "verif",
        "enable": "go build -tags verif (the harness module /verif/harness replaces github.com/brutella/hc by /repo)",
        "baseline_off_cmd": "cd /repo && GOFLAGS=-mod=mod GOPROXY=off GOSUMDB=off go test -vet=off -count=1 ./...",
        "source_commits": json.load(open(os.path.join(V, "tools", "hook_commits.json"))) if os.path.exists(os.path.join(V, "tools", "hook_commits.json")) else [],
        "add_only": True,
    },
    "engines": [
        {"name": "lean4-proof+correspondence", "path": "/verif/lean (lake project: HcModel = executable models, HcProofs/Props = property theorems, Main.lean = line-protocol driver) + /verif/harness (Go: cmd/extract regenerates tables from /repo, cmd/drive runs real code vs model)",
         "serves_properties": [c["property_id"] for c in checks],
         "kind_free_text": "machine-checked proof in Lean 4 about an executable model; model tied to /repo on every run by regenerated tables and differential execution"}
    ],
    "checks": checks,
    "not_applicable": na,
    "notes": "See DESIGN.md. known_findings.json lists recorded findings and fixed defects. Every check: regenerate → lake build + #print axioms audit → go build -tags verif against /repo → correspondence streams + direct oracles → evidence.",
}
json.dump(m, open(os.path.join(V, "MANIFEST.json"), "w"), indent=1)
print("claimed:", [c["property_id"] for c in checks])
