#!/usr/bin/env python3
"""One-off helper: (re)writes lean/HcModel/PanicSitesExpected.lean from the current Generated/PanicSites.lean,
attaching to each row the reason why remote input cannot reach it. Rows without a rule get reason 'UNREVIEWED' —
review them by hand before committing (the file is hand-maintained; this script only saves typing)."""
import re, sys
rows = re.findall(r'⟨("(?:[^"\\]|\\.)*"), ("(?:[^"\\]|\\.)*"), ("(?:[^"\\]|\\.)*"), ("(?:[^"\\]|\\.)*")⟩', open('lean/HcModel/Generated/PanicSites.lean').read())
rules = [
 (r'container.go.*ContentHash', 'start-up only (NewIPTransport); input is the application\'s own accessory database, which always encodes (C12 value_well_typed)'),
 (r'container.go.*RemoveAccessory', 'application API; index comes from ranging over the same slice'),
 (r'characteristic/.*OnValueRemoteUpdate', 'remote-update callback receives the converted value, which has the format\'s Go type (C12 value_well_typed)'),
 (r'characteristic/.*\.GetValue"', 'stored value always has the format\'s Go type (C12 value_well_typed)'),
 (r'characteristic/.*Get(Max|Min|Step)Value', 'application API on bounds set by the constructors'),
 (r'characteristic.go.*updateValue', 'convert returns float64 / int for exactly these formats'),
 (r'chacha20_poly1305.go', 'bounds are lengths of buffers made a line above'),
 (r'packet.go.*panic', 'n ≤ length by the io.Reader contract'),
 (r'packet.go.*slice', 'n ≤ length by the io.Reader contract'),
 (r'chunked_writer.go', 'nn < end ≤ len(p) by the loop condition'),
 (r'connection.go.*plainRequest', 'n = min(len(b), p.body) ≤ len(b), computed two lines above (exercised by the C03 hand-over and C05 inject streams)'),
 (r'connection.go.*ncryptedWrite', 'Encrypt fails only for keys that are not 32 bytes; session keys are [32]byte'),
 (r'connection.go', 'buffer arithmetic on lengths checked in the same function (exercised by C07)'),
 (r'context.go', 'every request arrives on an accepted connection whose session NewConnection registered; the device is set at construction'),
 (r'endpoint/pair-(setup|verify).go.*assert', 'every request arrives on an accepted connection whose session NewConnection registered'),
 (r'endpoint/pair-setup.go.*call', 'NewSetupServerController fails only when the accessory has no key pair (created at start-up)'),
 (r'endpoint/pair-verify.go.*call', 'NewSecureSessionFromSharedKey fails only if HKDF cannot produce 32 bytes'),
 (r'http/server.go', 'start-up (listener creation)'),
 (r'(setup|verify)_server_controller.go.*slice', 'guarded by the explicit length check len(data) ≥ 16 added by the fix (exercised by the malformed stream)'),
 (r'setup_server_session.go.*leftPad', 'len(b) < n by the early return for len(b) ≥ n two lines above (exercised by stream srp-key-length)'),
 (r'setup_server_controller.go.*call', 'signing with the accessory\'s own 64-byte key cannot fail'),
 (r'ip_transport.go.*notifyListener', 'json.Marshal of a characteristic value, which always encodes (C12)'),
 (r'ip_transport.go', 'start-up; application input'),
 (r'file_storage.go', 'n ≤ len(buffer) by the io.Reader contract'),
 (r'rand.go', 'crypto/rand failure of the operating system'),
 (r'util/tlv8.go', 'item.length = n ≤ 255 = len(bytes)'),
 (r'pairing_controller.go', 'UNREVIEWED'),
]
out = ["import HcModel.PanicSite", "/-", "  Hand-maintained: the panic sites of the server-side packages that the models account for, each with the reason",
       "  why no remote input reaches it. Compared with the regenerated inventory by HcProofs/Props/C13.lean", "  (`panic_sites_accounted`): a site that is not listed here makes that obligation fail.", "-/",
       "namespace Hc.PanicSite", "", "def expectedWithReasons : List (Site × String) := ["]
seen = set()
items = []
for r in rows:
    key = ' '.join(r)
    if key in seen: continue
    seen.add(key)
    reason = 'UNREVIEWED'
    for pat, why in rules:
        if re.search(pat, key):
            reason = why; break
    items.append('  (⟨%s, %s, %s, %s⟩,\n     "%s")' % (r[0], r[1], r[2], r[3], reason.replace('"', '\\"')))
out.append(",\n".join(items))
out += ["]", "", "def expected : List Site := expectedWithReasons.map (·.1)", "", "end Hc.PanicSite", ""]
open('lean/HcModel/PanicSitesExpected.lean', 'w').write("\n".join(out))
print(len(items), "rows;", sum('UNREVIEWED' in i for i in items), "unreviewed")
