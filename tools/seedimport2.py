#!/usr/bin/env python3
"""Import round-2 seeds from /tmp/seed2/<Cxx>/_seed/mK into /verif/seeded/<Cxx>-r2mK (see tools/seedtest.py)."""
import json, os, re, subprocess, sys
V = os.path.dirname(os.path.dirname(os.path.abspath(__file__)))
for prop in sys.argv[1:]:
    base = "/tmp/seed2/%s/_seed" % prop
    for m in sorted(os.listdir(base)):
        if not re.match(r"m\d+$", m):
            continue
        src = os.path.join(base, m)
        dst = os.path.join(V, "seeded", "%s-r2%s" % (prop, m))
        subprocess.check_call([sys.executable, os.path.join(V, "tools/seedtest.py"), "import", prop, src, "--name", "r2" + m], stdout=subprocess.DEVNULL)
        readme = open(os.path.join(src, "README.md")).read()
        runs = [l.strip() for l in re.findall(r"go test[^`\n]*", readme)]
        runs = [re.split(r"\s+(?:#|->|\()", r)[0].strip() for r in runs]
        runs = [r for r in runs if "-run" in r and "./..." not in r and "-race" not in r]
        run = runs[0]
        pkg = run.split()[-1]
        meta = json.load(open(os.path.join(dst, "meta.json")))
        meta["demo_run"] = run
        meta["demo_dir_dest"] = pkg.lstrip("./") or "."
        meta["demo_dest"] = ""
        meta["round"] = 2
        json.dump(meta, open(os.path.join(dst, "meta.json"), "w"), indent=1)
        print(dst, "|", meta["demo_dir_dest"], "|", run)
