#!/usr/bin/env python3
"""Import the seeds of a later round:  tools/seedimport2.py [--round N] Cxx …
from /tmp/seedN/<Cxx>/_seed/mK into /verif/seeded/<Cxx>-rNmK (see tools/seedtest.py). Default round: 2."""
import json, os, re, subprocess, sys
V = os.path.dirname(os.path.dirname(os.path.abspath(__file__)))
args = sys.argv[1:]
rnd = 2
if args and args[0] == "--round":
    rnd = int(args[1]); args = args[2:]
for prop in args:
    base = "/tmp/seed%d/%s/_seed" % (rnd, prop)
    for m in sorted(os.listdir(base)):
        if not re.match(r"m\d+$", m):
            continue
        src = os.path.join(base, m)
        dst = os.path.join(V, "seeded", "%s-r%d%s" % (prop, rnd, m))
        subprocess.check_call([sys.executable, os.path.join(V, "tools/seedtest.py"), "import", prop, src, "--name", "r%d" % rnd + m], stdout=subprocess.DEVNULL)
        readme = open(os.path.join(src, "README.md")).read()
        runs = [l.strip() for l in re.findall(r"go test[^`\n]*", readme)]
        runs = [re.split(r"\s+(?:#|->|\()", r)[0].strip() for r in runs]
        runs = [r for r in runs if "-run" in r and "./..." not in r and "-race" not in r]
        run = runs[0]
        pkg = run.split()[-1]
        meta = json.load(open(os.path.join(dst, "meta.json")))
        meta["demo_run"] = run
        meta["demo_dir_dest"] = pkg.lstrip("./") or "."
        meta["demo_dest"] = ""
        meta["round"] = rnd
        json.dump(meta, open(os.path.join(dst, "meta.json"), "w"), indent=1)
        print(dst, "|", meta["demo_dir_dest"], "|", run)
