#!/bin/bash
# tools/runall.sh [quick|thorough] — run every claimed check sequentially and summarise
tier=${1:-quick}
cd "$(dirname "$0")/.."
for p in $(python3 -c "import json;print(' '.join(c['property_id'] for c in json.load(open('MANIFEST.json'))['checks']))"); do
  s=$(date +%s.%N)
  out=$(./check $p $tier 2>&1 | grep -E "^(OK|VIOLATION|KNOWN-FINDING)" | cut -c1-150 | tr '\n' '|')
  rc=${PIPESTATUS[0]}
  e=$(date +%s.%N)
  printf "%s %5.1fs %s\n" $p $(echo "$e - $s" | bc) "$out"
done
