// Package tlvsty reflects Go struct types with `tlv8` field tags into the type language of the Lean
// model HcModel/Tlv8Struct.lean (Ty / Fields). Shared by the extractor (Generated/RtpTypes.lean)
// and the correspondence driver (C17).
package tlvsty

import (
	"fmt"
	"go/ast"
	"go/parser"
	"go/token"
	"path/filepath"
	"reflect"
	"sort"
	"strconv"
	"strings"

	"github.com/brutella/hc/rtp"
)

// Ty mirrors the Lean inductive: Kind is one of u8 u16 u32 u64 i16 i32 i64 f32 bool str bytes,
// "S" (struct), "L" (tagged list of structs), "I" (inline list of structs). Fields are those of the
// struct, or of the element struct of a list.
type Ty struct {
	Kind   string
	Fields []Field
}

type Field struct {
	Tag   byte
	Ty    *Ty
	Index int // index of the Go struct field
	Name  string
}

var basic = map[reflect.Type]string{
	reflect.TypeOf(uint8(0)):    "u8",
	reflect.TypeOf(uint16(0)):   "u16",
	reflect.TypeOf(uint32(0)):   "u32",
	reflect.TypeOf(uint64(0)):   "u64",
	reflect.TypeOf(int8(0)):     "i8",
	reflect.TypeOf(int16(0)):    "i16",
	reflect.TypeOf(int32(0)):    "i32",
	reflect.TypeOf(int64(0)):    "i64",
	reflect.TypeOf(float32(0)):  "f32",
	reflect.TypeOf(false):       "bool",
	reflect.TypeOf(""):          "str",
	reflect.TypeOf([]byte(nil)): "bytes",
}

// Of reflects a struct type. Fields without a tlv8 tag are skipped (as the library does); anything the
// library's type switch does not support is an error.
func Of(t reflect.Type) (*Ty, error) {
	if t.Kind() != reflect.Struct {
		return nil, fmt.Errorf("%v: not a struct", t)
	}
	fs, err := fieldsOf(t)
	if err != nil {
		return nil, err
	}
	return &Ty{"S", fs}, nil
}

func fieldsOf(t reflect.Type) ([]Field, error) {
	var fs []Field
	for i := 0; i < t.NumField(); i++ {
		f := t.Field(i)
		s, ok := f.Tag.Lookup("tlv8")
		if !ok {
			continue
		}
		inline := s == "-"
		var tag uint64
		if !inline {
			var err error
			tag, err = strconv.ParseUint(strings.Split(s, ",")[0], 10, 8) // options may follow the tag: `tlv8:"4,optional"`
			if err != nil {
				return nil, fmt.Errorf("%v.%s: unsupported tlv8 tag %q", t, f.Name, s)
			}
		}
		var ty *Ty
		if k, ok := basic[f.Type]; ok {
			ty = &Ty{Kind: k}
		} else if f.Type.Kind() == reflect.Struct {
			sub, err := fieldsOf(f.Type)
			if err != nil {
				return nil, err
			}
			ty = &Ty{"S", sub}
		} else if f.Type.Kind() == reflect.Slice && f.Type.Elem().Kind() == reflect.Struct {
			sub, err := fieldsOf(f.Type.Elem())
			if err != nil {
				return nil, err
			}
			ty = &Ty{"L", sub}
			if inline {
				ty.Kind = "I"
			}
		} else {
			return nil, fmt.Errorf("%v.%s: unsupported field type %v", t, f.Name, f.Type)
		}
		if inline && ty.Kind != "I" {
			return nil, fmt.Errorf("%v.%s: tag \"-\" on a non-slice field", t, f.Name)
		}
		fs = append(fs, Field{byte(tag), ty, i, f.Name})
	}
	return fs, nil
}

// Tokens is the line-protocol form of the type.
func (t *Ty) Tokens() string {
	var sb strings.Builder
	t.tokens(&sb)
	return strings.TrimSpace(sb.String())
}

func (t *Ty) tokens(sb *strings.Builder) {
	switch t.Kind {
	case "S", "L", "I":
		fmt.Fprintf(sb, "%s %d ", t.Kind, len(t.Fields))
		for _, f := range t.Fields {
			fmt.Fprintf(sb, "%d ", f.Tag)
			f.Ty.tokens(sb)
		}
	default:
		sb.WriteString(t.Kind + " ")
	}
}

// Lean renders the type as a term of Hc.Tlv8Struct.Ty.
func (t *Ty) Lean() string {
	switch t.Kind {
	case "S":
		return "(.struct " + leanFields(t.Fields) + ")"
	case "L":
		return "(.list false " + leanFields(t.Fields) + ")"
	case "I":
		return "(.list true " + leanFields(t.Fields) + ")"
	}
	return "." + t.Kind
}

func leanFields(fs []Field) string {
	s := ".nil"
	for i := len(fs) - 1; i >= 0; i-- {
		s = fmt.Sprintf("(.cons %d %s %s)", fs[i].Tag, fs[i].Ty.Lean(), s)
	}
	return s
}

type Named struct {
	Name string
	Type reflect.Type
}

// RtpTypes lists every struct type of package rtp that carries tlv8 tags. RtpSourceNames is used to
// check on every run that this list is complete for the working tree.
func RtpTypes() []Named {
	vs := []interface{}{
		rtp.AudioStreamConfiguration{}, rtp.AudioCodecConfiguration{}, rtp.AudioCodecParameters{},
		rtp.Configuration{}, rtp.SupportedCryptoSuite{},
		rtp.SetupEndpoints{}, rtp.SetupEndpointsResponse{}, rtp.Addr{}, rtp.CryptoSuite{}, rtp.CryptoSuiteType{},
		rtp.StreamConfiguration{}, rtp.SessionControlCommand{}, rtp.VideoParameters{}, rtp.AudioParameters{}, rtp.RTPParams{},
		rtp.StreamingStatus{},
		rtp.VideoStreamConfiguration{}, rtp.VideoCodecConfiguration{}, rtp.VideoCodecParameters{},
		rtp.VideoCodecProfile{}, rtp.VideoCodecLevel{}, rtp.VideoCodecPacketization{}, rtp.VideoCodecAttributes{},
	}
	var out []Named
	for _, v := range vs {
		t := reflect.TypeOf(v)
		out = append(out, Named{t.Name(), t})
	}
	sort.Slice(out, func(i, j int) bool { return out[i].Name < out[j].Name })
	return out
}

// RtpSourceNames parses <repo>/rtp/*.go (tests excluded) and returns the names of all struct types with
// at least one tlv8-tagged field, sorted.
func RtpSourceNames(repo string) ([]string, error) {
	files, err := filepath.Glob(filepath.Join(repo, "rtp", "*.go"))
	if err != nil {
		return nil, err
	}
	var names []string
	fset := token.NewFileSet()
	for _, fn := range files {
		if strings.HasSuffix(fn, "_test.go") {
			continue
		}
		f, err := parser.ParseFile(fset, fn, nil, 0)
		if err != nil {
			return nil, err
		}
		ast.Inspect(f, func(n ast.Node) bool {
			ts, ok := n.(*ast.TypeSpec)
			if !ok {
				return true
			}
			st, ok := ts.Type.(*ast.StructType)
			if !ok {
				return true
			}
			for _, fl := range st.Fields.List {
				if fl.Tag == nil {
					continue
				}
				s, err := strconv.Unquote(fl.Tag.Value)
				if err != nil {
					continue
				}
				if _, ok := reflect.StructTag(s).Lookup("tlv8"); ok {
					names = append(names, ts.Name.Name)
					break
				}
			}
			return true
		})
	}
	sort.Strings(names)
	return names, nil
}
