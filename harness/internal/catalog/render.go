package catalog

import (
	"bytes"
	"fmt"
	"math/big"
	"regexp"
	"strconv"
	"strings"
)

// ---- exact decimals -----------------------------------------------------------------------------------

// Dec is m·10^e.
type Dec struct {
	M *big.Int
	E int
}

var decRe = regexp.MustCompile(`^([+-]?)([0-9]+)(?:\.([0-9]+))?(?:[eE]([+-]?[0-9]+))?$`)

// ParseDec reads a JSON number literal or a strconv 'g' float representation exactly.
func ParseDec(s string) (Dec, bool) {
	m := decRe.FindStringSubmatch(s)
	if m == nil {
		return Dec{}, false
	}
	digits := m[2] + m[3]
	e := -len(m[3])
	if m[4] != "" {
		x, err := strconv.Atoi(m[4])
		if err != nil {
			return Dec{}, false
		}
		e += x
	}
	n, ok := new(big.Int).SetString(digits, 10)
	if !ok {
		return Dec{}, false
	}
	if m[1] == "-" {
		n.Neg(n)
	}
	return Dec{n, e}, true
}

// Cmp compares two decimals exactly.
func (a Dec) Cmp(b Dec) int {
	lo := a.E
	if b.E < lo {
		lo = b.E
	}
	x := new(big.Int).Mul(a.M, new(big.Int).Exp(big.NewInt(10), big.NewInt(int64(a.E-lo)), nil))
	y := new(big.Int).Mul(b.M, new(big.Int).Exp(big.NewInt(10), big.NewInt(int64(b.E-lo)), nil))
	return x.Cmp(y)
}

func (a Dec) lean() string { return fmt.Sprintf("⟨%s, %d⟩", a.M.String(), a.E) }

// ---- identifiers ----------------------------------------------------------------------------------------

var shortRe = regexp.MustCompile(`^[1-9A-F][0-9A-F]{0,7}$`)

// ShortType parses a HAP short type id in canonical form (what gen/golang minifyUUID produces).
func ShortType(s string) (uint64, bool) {
	if !shortRe.MatchString(s) {
		return 0, false
	}
	v, err := strconv.ParseUint(s, 16, 64)
	return v, err == nil
}

const appleBase = "-0000-1000-8000-0026BB765291"

// MetaUUID parses an Apple-base UUID of the metadata file to its short numeric id.
func MetaUUID(s string) (uint64, bool) {
	if len(s) != 36 || !strings.HasSuffix(s, appleBase) {
		return 0, false
	}
	v, err := strconv.ParseUint(s[:8], 16, 64)
	return v, err == nil
}

func optNat(v uint64, ok bool) string {
	if !ok {
		return "none"
	}
	return fmt.Sprintf("some 0x%X", v)
}

func leanStr(s string) string {
	var b strings.Builder
	b.WriteByte('"')
	for _, r := range s {
		switch {
		case r == '"' || r == '\\':
			b.WriteByte('\\')
			b.WriteRune(r)
		case r >= 0x20 && r < 0x7f:
			b.WriteRune(r)
		case r <= 0xffff:
			fmt.Fprintf(&b, "\\u%04x", r)
		default:
			b.WriteString("?")
		}
	}
	b.WriteByte('"')
	return b.String()
}

func leanBool(b bool) string {
	if b {
		return "true"
	}
	return "false"
}

var formats = map[string]string{"string": "string", "bool": "bool", "float": "float", "uint8": "uint8", "uint16": "uint16",
	"uint32": "uint32", "int32": "int32", "uint64": "uint64", "data": "data", "tlv8": "tlv8"}

func FormatName(s string) string {
	if f, ok := formats[s]; ok {
		return f
	}
	return "unknown"
}

var units = map[string]string{"": "none", "percentage": "percentage", "arcdegrees": "arcdegrees", "celsius": "celsius", "lux": "lux",
	"seconds": "seconds", "ppm": "ppm"}

func UnitName(s string) string {
	if u, ok := units[s]; ok {
		return u
	}
	return "unknown"
}

var perms = map[string]string{"pr": "pr", "pw": "pw", "ev": "ev", "hd": "hd", "wr": "wr"}

func PermName(s string) string {
	if p, ok := perms[s]; ok {
		return p
	}
	return "unknown"
}

// MetaPerms maps metadata "Properties" to HAP permissions exactly as gen/golang/characteristic.go permissionDecl does.
func MetaPerms(props []string) ([]string, error) {
	var out []string
	for _, p := range props {
		switch p {
		case "read":
			out = append(out, "pr")
		case "write":
			out = append(out, "pw")
		case "cnotify":
			out = append(out, "ev")
		case "uncnotify":
		default:
			return nil, fmt.Errorf("undefined characteristic property %q", p)
		}
	}
	return out, nil
}

func permList(ps []string) string {
	var l []string
	for _, p := range ps {
		l = append(l, "."+PermName(p))
	}
	return "[" + strings.Join(l, ", ") + "]"
}

func (v Val) lean() string {
	switch v.Kind {
	case "nil":
		return ".none"
	case "int":
		n, ok := new(big.Int).SetString(v.Repr, 10)
		if !ok {
			return ".other " + leanStr("int:"+v.Repr)
		}
		if n.Sign() < 0 {
			return ".int (" + n.String() + ")"
		}
		return ".int " + n.String()
	case "float":
		d, ok := ParseDec(v.Repr)
		if !ok {
			return ".other " + leanStr("float64:"+v.Repr)
		}
		return ".float " + d.lean()
	case "bool":
		return ".bool " + v.Repr
	case "string":
		return ".str " + leanStr(v.Repr)
	}
	return ".other " + leanStr(v.Repr)
}

func optDec(s string) (string, error) {
	if s == "" {
		return "none", nil
	}
	d, ok := ParseDec(s)
	if !ok {
		return "", fmt.Errorf("cannot read number %q exactly", s)
	}
	return "some " + d.lean(), nil
}

// ctorIndex finds the scan entry of a dump row.
func (s *Scan) Ctor(pkg, name string) *Ctor {
	for i := range s.Ctors {
		if s.Ctors[i].Pkg == pkg && s.Ctors[i].Name == name {
			return &s.Ctors[i]
		}
	}
	return nil
}

func typeList(cs []CharD) string {
	var l []string
	for _, c := range cs {
		l = append(l, optNat(ShortType(c.Type)))
	}
	return "[" + strings.Join(l, ", ") + "]"
}

const genHeader = "-- GENERATED by harness/cmd/extract (target %s) from the working tree of brutella/hc — DO NOT EDIT.\n" +
	"-- Regenerated on every ./check run; the committed copy corresponds to the repaired tree.\n"

// RenderCatalog prints HcModel/Generated/Catalog.lean.
func RenderCatalog(s *Scan, d *Dump) (string, error) {
	var b bytes.Buffer
	fmt.Fprintf(&b, genHeader, "Catalog")
	b.WriteString("import HcModel.Catalog\nnamespace Hc.Generated.Catalog\nopen Hc.Catalog\n\n")

	// metadata
	fmt.Fprintf(&b, "/-- gen/metadata.json: %d characteristics -/\ndef metaChars : List MetaChar := [\n", len(s.MetaChars))
	for i, m := range s.MetaChars {
		u, ok := MetaUUID(m.UUID)
		if !ok {
			return "", fmt.Errorf("metadata characteristic %q: UUID %q is not an Apple-base UUID", m.Name, m.UUID)
		}
		ps, err := MetaPerms(m.Properties)
		if err != nil {
			return "", fmt.Errorf("metadata characteristic %q: %v", m.Name, err)
		}
		mn, err1 := optDec(m.Min)
		mx, err2 := optDec(m.Max)
		st, err3 := optDec(m.Step)
		for _, e := range []error{err1, err2, err3} {
			if e != nil {
				return "", fmt.Errorf("metadata characteristic %q: %v", m.Name, e)
			}
		}
		ml := "none"
		if m.MaxLen != "" {
			if _, err := strconv.ParseUint(m.MaxLen, 10, 64); err != nil {
				return "", fmt.Errorf("metadata characteristic %q: MaximumLength %q", m.Name, m.MaxLen)
			}
			ml = "some " + m.MaxLen
		}
		note := ""
		if len(m.OtherKeys) > 0 {
			note = "  -- constraint keys not read by gen/golang: " + strings.Join(m.OtherKeys, ",")
		}
		var vv []string
		for _, v := range m.ValidValues {
			vv = append(vv, fmt.Sprint(v))
		}
		fmt.Fprintf(&b, "  { uuid := 0x%X, name := %s, format := .%s, perms := %s, unit := .%s, min := %s, max := %s, step := %s, maxLen := %s, validValues := [%s] }%s%s\n",
			u, leanStr(m.Name), FormatName(m.Format), permList(ps), UnitName(m.Unit), mn, mx, st, ml, strings.Join(vv, ", "), comma(i, len(s.MetaChars)), note)
	}
	b.WriteString("]\n\n")
	fmt.Fprintf(&b, "/-- gen/metadata.json: %d services -/\ndef metaSvcs : List MetaSvc := [\n", len(s.MetaSvcs))
	for i, m := range s.MetaSvcs {
		u, ok := MetaUUID(m.UUID)
		if !ok {
			return "", fmt.Errorf("metadata service %q: UUID %q is not an Apple-base UUID", m.Name, m.UUID)
		}
		ul := func(l []string) (string, error) {
			var o []string
			for _, x := range l {
				v, ok := MetaUUID(x)
				if !ok {
					return "", fmt.Errorf("metadata service %q: characteristic UUID %q", m.Name, x)
				}
				o = append(o, fmt.Sprintf("0x%X", v))
			}
			return "[" + strings.Join(o, ", ") + "]", nil
		}
		req, err := ul(m.Required)
		if err != nil {
			return "", err
		}
		opt, err := ul(m.Optional)
		if err != nil {
			return "", err
		}
		fmt.Fprintf(&b, "  { uuid := 0x%X, name := %s, required := %s, optional := %s }%s\n", u, leanStr(m.Name), req, opt, comma(i, len(s.MetaSvcs)))
	}
	b.WriteString("]\n\n")
	b.WriteString("/-- gen/metadata.json: accessory categories (name, number) -/\ndef metaCats : List (String × Nat) := [\n")
	for i, c := range s.MetaCats {
		fmt.Fprintf(&b, "  (%s, %d)%s\n", leanStr(c.Name), c.Category, comma(i, len(s.MetaCats)))
	}
	b.WriteString("]\n\n")
	b.WriteString("/-- accessory/constant.go: AccessoryType constants (name, number) -/\ndef accTypes : List (String × Nat) := [\n")
	for i, c := range s.AccTypes {
		fmt.Fprintf(&b, "  (%s, %d)%s\n", leanStr(c.Name), c.Value, comma(i, len(s.AccTypes)))
	}
	b.WriteString("]\n\n")

	// rows
	var chars, svcs, accs []string
	for _, r := range d.Rows {
		c := s.Ctor(r.Pkg, r.Ctor)
		if c == nil {
			return "", fmt.Errorf("dump row %s.%s has no scan entry", r.Pkg, r.Ctor)
		}
		own := optNat(0, false)
		names := false
		if c.OwnConst != "" {
			own = optNat(ShortType(c.OwnConstValue))
			if own == "none" { // declared but not canonical: keep a value that cannot match
				own = "some 0"
			}
			for _, t := range c.TypeConsts {
				if t == c.OwnConst {
					names = true
				}
			}
		}
		switch r.Pkg {
		case "characteristic":
			x := r.Char
			if x == nil {
				x = &CharD{Min: Val{Kind: "nil"}, Max: Val{Kind: "nil"}, Step: Val{Kind: "nil"}, Value: Val{Kind: "nil"}}
			}
			ml := x.MaxLen
			if ml < 0 {
				ml = 0
			}
			chars = append(chars, fmt.Sprintf("  { ctor := %s, nargs := %d, panicked := %s, typ := %s, ownConst := %s, namesOwnConst := %s, format := .%s, perms := %s, unit := .%s,\n    min := %s, max := %s, step := %s, value := %s, maxLen := %d, updateOnSame := %s }",
				leanStr(r.Ctor), r.NArgs, leanBool(r.Panicked), optNat(ShortType(x.Type)), own, leanBool(names), FormatName(x.Format), permList(x.Perms),
				UnitName(x.Unit), x.Min.lean(), x.Max.lean(), x.Step.lean(), x.Value.lean(), ml, leanBool(c.UpdateOnSame)))
		case "service":
			x := r.Svc
			if x == nil {
				x = &SvcD{}
			}
			svcs = append(svcs, fmt.Sprintf("  { ctor := %s, nargs := %d, panicked := %s, typ := %s, ownConst := %s, namesOwnConst := %s, chars := %s }",
				leanStr(r.Ctor), r.NArgs, leanBool(r.Panicked), optNat(ShortType(x.Type)), own, leanBool(names), typeList(x.Chars)))
		case "accessory":
			x := r.Acc
			isAcc := r.Kind == "accessory"
			if x == nil {
				x = &AccD{}
			}
			var sl []string
			for _, sv := range x.Services {
				sl = append(sl, "("+optNat(ShortType(sv.Type))+", "+typeList(sv.Chars)+")")
			}
			accs = append(accs, fmt.Sprintf("  { ctor := %s, args := %s, panicked := %s, isAccessory := %s, category := %d, aid := %d, services := [%s] }",
				leanStr(r.Ctor), leanStr(shortArgs(r.Args)), leanBool(r.Panicked), leanBool(isAcc), x.Category, x.ID, strings.Join(sl, ", ")))
		}
	}
	fmt.Fprintf(&b, "/-- one row per call of an exported New* function of package characteristic (%d rows) -/\ndef charRows : List CharRow := [\n%s\n]\n\n", len(chars), strings.Join(chars, ",\n"))
	fmt.Fprintf(&b, "/-- one row per call of an exported New* function of package service (%d rows) -/\ndef svcRows : List SvcRow := [\n%s\n]\n\n", len(svcs), strings.Join(svcs, ",\n"))
	fmt.Fprintf(&b, "/-- one row per call of an exported New* function of package accessory (%d rows) -/\ndef accRows : List AccRow := [\n%s\n]\n\n", len(accs), strings.Join(accs, ",\n"))
	b.WriteString("end Hc.Generated.Catalog\n")
	return b.String(), nil
}

func shortArgs(a string) string {
	a = strings.Replace(a, `accessory.Info{Name: "Sample", SerialNumber: "SN-1", Manufacturer: "Maker", Model: "M1", FirmwareRevision: "1.0.0"}`, "info", 1)
	return a
}

func comma(i, n int) string {
	if i+1 < n {
		return ","
	}
	return ""
}

func tagList(ts []Tag) string {
	var l []string
	for _, t := range ts {
		l = append(l, fmt.Sprintf("⟨%s, %s, %s⟩", leanStr(t.Field), leanStr(t.Key), leanBool(t.Omit)))
	}
	return "[" + strings.Join(l, ", ") + "]"
}

func strList(ss []string) string {
	var l []string
	for _, s := range ss {
		l = append(l, leanStr(s))
	}
	return "[" + strings.Join(l, ", ") + "]"
}

// RenderJsonShape prints HcModel/Generated/JsonShape.lean.
func RenderJsonShape(s *Scan, d *Dump) (string, error) {
	if d.Shape.Err != "" {
		return "", fmt.Errorf("marshalling the sample objects failed: %s", d.Shape.Err)
	}
	var b bytes.Buffer
	fmt.Fprintf(&b, genHeader, "JsonShape")
	b.WriteString("import HcModel.Catalog\nnamespace Hc.Generated.JsonShape\nopen Hc.Catalog\n\n")
	b.WriteString("-- JSON struct tags ⟨Go field, JSON key, omitempty⟩: by reflection for the exported types, by go/ast for service.servicePayload\n")
	sh := d.Shape
	fmt.Fprintf(&b, "def charFields : List JField := %s\n", tagList(sh.CharTags))
	fmt.Fprintf(&b, "def svcFields : List JField := %s\n", tagList(s.PayloadTags))
	fmt.Fprintf(&b, "def accFields : List JField := %s\n", tagList(sh.AccTags))
	fmt.Fprintf(&b, "def contFields : List JField := %s\n\n", tagList(sh.ContTags))
	b.WriteString("-- observed key sets of json.Marshal: zero-valued object (every omitempty field dropped) and fully populated object\n")
	fmt.Fprintf(&b, "def zeroCharKeys : List String := %s\n", strList(sh.ZeroChar))
	fmt.Fprintf(&b, "def zeroSvcKeys : List String := %s\n", strList(sh.ZeroSvc))
	fmt.Fprintf(&b, "def zeroAccKeys : List String := %s\n", strList(sh.ZeroAcc))
	fmt.Fprintf(&b, "def zeroContKeys : List String := %s\n", strList(sh.ZeroCont))
	fmt.Fprintf(&b, "def fullCharKeys : List String := %s\n", strList(sh.FullChar))
	fmt.Fprintf(&b, "def fullSvcKeys : List String := %s\n", strList(sh.FullSvc))
	fmt.Fprintf(&b, "def fullAccKeys : List String := %s\n", strList(sh.FullAcc))
	fmt.Fprintf(&b, "def fullContKeys : List String := %s\n\n", strList(sh.FullCont))
	b.WriteString("-- permission strings declared in characteristic/constants.go (Perm*)\n")
	var pn []string
	for _, k := range []string{"PermRead", "PermWrite", "PermEvents", "PermHidden", "PermWriteResponse"} {
		pn = append(pn, "("+leanStr(k)+", "+leanStr(s.StrConsts["characteristic"][k])+")")
	}
	fmt.Fprintf(&b, "def permConsts : List (String × String) := [%s]\n\n", strings.Join(pn, ", "))
	b.WriteString("end Hc.Generated.JsonShape\n")
	return b.String(), nil
}
