package catalog

// Go re-evaluation of the Boolean checkers of lean/HcModel/Catalog.lean over the same scan + dump. Used by the
// driver to turn a failed Lean obligation into a concrete failing row (constructor + field).

import (
	"fmt"
	"math/big"
	"strings"
)

type Failure struct {
	Theorem  string // name of the theorem in HcProofs/Props/C15.lean (or C14.lean) that this row falsifies
	Ctor     string // pkg.NewX(args)
	Field    string
	Expected string
	Observed string
}

func (f Failure) Signature() string {
	return fmt.Sprintf("catalog %s: %s %s", f.Theorem, f.Ctor, f.Field)
}

func rowName(r Row) string {
	return r.Pkg + "." + r.Ctor + "(" + shortArgs(r.Args) + ")"
}

func (v Val) dec() (Dec, bool) {
	switch v.Kind {
	case "int":
		n, ok := new(big.Int).SetString(v.Repr, 10)
		return Dec{n, 0}, ok
	case "float":
		return ParseDec(v.Repr)
	}
	return Dec{}, false
}

func (v Val) String() string {
	if v.Kind == "nil" {
		return "nil"
	}
	return v.Kind + " " + v.Repr
}

func boundEq(v Val, m string) bool {
	if m == "" {
		return v.Kind == "nil"
	}
	d, ok := ParseDec(m)
	x, ok2 := v.dec()
	return ok && ok2 && x.Cmp(d) == 0
}

func leVal(a, b Val) bool {
	x, ok := a.dec()
	y, ok2 := b.dec()
	if !ok || !ok2 {
		return true
	}
	return x.Cmp(y) <= 0
}

var intRange = map[string][2]string{"uint8": {"0", "255"}, "uint16": {"0", "65535"}, "uint32": {"0", "4294967295"},
	"int32": {"-2147483648", "2147483647"}, "uint64": {"0", "18446744073709551615"}}

func typedFor(format string, v Val) bool {
	switch v.Kind {
	case "float":
		_, ok := ParseDec(v.Repr)
		return format == "float" && ok
	case "bool":
		return format == "bool"
	case "string":
		return format == "string" || format == "tlv8" || format == "data"
	case "int":
		r, ok := intRange[format]
		if !ok {
			return false
		}
		n, ok := new(big.Int).SetString(v.Repr, 10)
		lo, _ := new(big.Int).SetString(r[0], 10)
		hi, _ := new(big.Int).SetString(r[1], 10)
		return ok && lo.Cmp(n) <= 0 && n.Cmp(hi) <= 0
	}
	return false
}

func boundTyped(format string, v Val) bool {
	if v.Kind == "nil" {
		return true
	}
	_, isInt := intRange[format]
	return (isInt || format == "float") && typedFor(format, v)
}

func has(l []string, x string) bool {
	for _, y := range l {
		if x == y {
			return true
		}
	}
	return false
}

func permsEq(a, b []string) bool {
	for _, x := range a {
		if !has(b, x) {
			return false
		}
	}
	for _, x := range b {
		if !has(a, x) {
			return false
		}
	}
	return true
}

func permsValid(ps []string) string {
	if len(ps) == 0 {
		return "empty permission list"
	}
	seen := map[string]bool{}
	for _, p := range ps {
		if PermName(p) == "unknown" {
			return "unknown permission " + fmt.Sprintf("%q", p)
		}
		if seen[p] {
			return "duplicate permission " + p
		}
		seen[p] = true
	}
	return ""
}

func dupType(cs []CharD) string {
	seen := map[string]bool{}
	for _, c := range cs {
		if seen[c.Type] {
			return c.Type
		}
		seen[c.Type] = true
	}
	return ""
}

func shortOf(uuid string) string {
	v, ok := MetaUUID(uuid)
	if !ok {
		return "?" + uuid
	}
	return fmt.Sprintf("%X", v)
}

func typesOf(cs []CharD) []string {
	var l []string
	for _, c := range cs {
		l = append(l, c.Type)
	}
	return l
}

// Check evaluates every C15 checker; the result is empty iff all Lean obligations over the same tables hold.
func Check(s *Scan, d *Dump) []Failure {
	var fs []Failure
	fail := func(th string, r Row, field, exp, obs string) {
		fs = append(fs, Failure{th, rowName(r), field, exp, obs})
	}
	metaSvc := map[string]*MetaSvc{}
	for i := range s.MetaSvcs {
		metaSvc[shortOf(s.MetaSvcs[i].UUID)] = &s.MetaSvcs[i]
	}
	svcShape := func(th string, r Row, sv SvcD) {
		if _, ok := ShortType(sv.Type); !ok {
			fail(th, r, "service type", "canonical short HAP type id", fmt.Sprintf("%q", sv.Type))
		}
		for _, c := range sv.Chars {
			if _, ok := ShortType(c.Type); !ok {
				fail(th, r, "characteristic type in service "+sv.Type, "canonical short HAP type id", fmt.Sprintf("%q", c.Type))
			}
		}
	}
	// every_ctor_usable, defaults_typed_in_bounds, ctor_uses_own_type_constant, no_duplicate_char_types, …
	for _, r := range d.Rows {
		c := s.Ctor(r.Pkg, r.Ctor)
		if r.Panicked {
			fail("every_ctor_usable", r, "panics", "an object", "panic: "+r.Panic)
			continue
		}
		switch r.Pkg {
		case "characteristic":
			x := r.Char
			if _, ok := ShortType(x.Type); !ok {
				fail("every_ctor_usable", r, "type", "canonical short HAP type id", fmt.Sprintf("%q", x.Type))
			}
			if c != nil && c.OwnConst != "" {
				if x.Type != c.OwnConstValue {
					fail("ctor_uses_own_type_constant", r, "type", c.OwnConst+" = "+c.OwnConstValue, x.Type)
				} else if !has(c.TypeConsts, c.OwnConst) {
					fail("ctor_uses_own_type_constant", r, "type constant named in body", c.OwnConst, strings.Join(c.TypeConsts, ","))
				}
			}
			if r.NArgs != 0 {
				continue
			}
			if c != nil && c.OwnConst == "" {
				fail("ctor_uses_own_type_constant", r, "type constant", "constant Type"+strings.TrimPrefix(r.Ctor, "New")+" declared", "none")
			}
			if FormatName(x.Format) == "unknown" {
				fail("every_ctor_usable", r, "format", "a HAP format", fmt.Sprintf("%q", x.Format))
			}
			if UnitName(x.Unit) == "unknown" {
				fail("every_ctor_usable", r, "unit", "a HAP unit", fmt.Sprintf("%q", x.Unit))
			}
			if e := permsValid(x.Perms); e != "" {
				fail("every_ctor_usable", r, "perms", "non-empty duplicate-free list of pr,pw,ev,hd,wr", e)
			}
			if has(x.Perms, "pr") {
				if !typedFor(x.Format, x.Value) {
					fail("defaults_typed_in_bounds", r, "default value", "a value typed for format "+x.Format, x.Value.String())
				} else if !leVal(x.Min, x.Value) || !leVal(x.Value, x.Max) {
					fail("defaults_typed_in_bounds", r, "default value", "within ["+x.Min.String()+", "+x.Max.String()+"]", x.Value.String())
				}
			} else if x.Value.Kind != "nil" {
				fail("defaults_typed_in_bounds", r, "default value", "nil (not readable)", x.Value.String())
			}
			for _, b := range []struct {
				n string
				v Val
			}{{"minValue", x.Min}, {"maxValue", x.Max}, {"stepValue", x.Step}} {
				if !boundTyped(x.Format, b.v) {
					fail("defaults_typed_in_bounds", r, b.n, "absent or typed for format "+x.Format, b.v.String())
				}
			}
			if !leVal(x.Min, x.Max) {
				fail("defaults_typed_in_bounds", r, "minValue", "≤ maxValue "+x.Max.String(), x.Min.String())
			}
		case "service":
			x := r.Svc
			svcShape("every_ctor_usable", r, *x)
			if c != nil && c.OwnConst != "" {
				if x.Type != c.OwnConstValue {
					fail("ctor_uses_own_type_constant", r, "type", c.OwnConst+" = "+c.OwnConstValue, x.Type)
				} else if !has(c.TypeConsts, c.OwnConst) {
					fail("ctor_uses_own_type_constant", r, "type constant named in body", c.OwnConst, strings.Join(c.TypeConsts, ","))
				}
			}
			if t := dupType(x.Chars); t != "" {
				fail("no_duplicate_char_types", r, "characteristics", "pairwise different types", "two characteristics of type "+t)
			}
			if m := metaSvc[x.Type]; m != nil {
				for _, ch := range x.Chars {
					ok := false
					for _, u := range append(append([]string{}, m.Required...), m.Optional...) {
						if shortOf(u) == ch.Type {
							ok = true
						}
					}
					if !ok {
						fail("service_chars_allowed", r, "characteristic "+ch.Type, "required or optional for service "+m.Name, "neither")
					}
				}
			}
		case "accessory":
			if r.Kind != "accessory" {
				continue
			}
			x := r.Acc
			if len(x.Services) == 0 || x.Services[0].Type != "3E" {
				fail("every_ctor_usable", r, "first service", "Accessory Information (3E)", fmt.Sprint(len(x.Services), " services"))
			}
			for _, sv := range x.Services {
				svcShape("every_ctor_usable", r, sv)
				if t := dupType(sv.Chars); t != "" {
					fail("every_ctor_usable", r, "service "+sv.Type, "pairwise different characteristic types", "two characteristics of type "+t)
				}
				if m := metaSvc[sv.Type]; m != nil {
					for _, u := range m.Required {
						if !has(typesOf(sv.Chars), shortOf(u)) {
							fail("accessory_services_complete", r, "service "+sv.Type, "required characteristic "+shortOf(u), "missing")
						}
					}
				}
			}
		}
	}
	// metadata_chars_covered
	for _, m := range s.MetaChars {
		id := shortOf(m.UUID)
		mp, _ := MetaPerms(m.Properties)
		var cands []Row
		matched := false
		for _, r := range d.Rows {
			if r.Pkg != "characteristic" || r.NArgs != 0 || r.Panicked || r.Char.Type != id {
				continue
			}
			cands = append(cands, r)
			x := r.Char
			if x.Format == m.Format && FormatName(x.Format) != "unknown" && permsEq(x.Perms, mp) && x.Unit == m.Unit && UnitName(x.Unit) != "unknown" &&
				boundEq(x.Min, m.Min) && boundEq(x.Max, m.Max) && boundEq(x.Step, m.Step) {
				matched = true
			}
		}
		if len(m.ValidValues) > 0 {
			for _, r := range cands {
				if !has(r.Char.Perms, "pr") {
					continue
				}
				ok := false
				for _, v := range m.ValidValues {
					if r.Char.Value.Kind == "int" && r.Char.Value.Repr == fmt.Sprint(v) {
						ok = true
					}
				}
				if !ok {
					fail("defaults_are_valid_values", r, "default value", "one of the metadata ValidValues "+fmt.Sprint(m.ValidValues), r.Char.Value.String())
				}
			}
		}
		if matched {
			continue
		}
		if len(cands) == 0 {
			fs = append(fs, Failure{"metadata_chars_covered", "metadata characteristic " + fmt.Sprintf("%q (%s)", m.Name, id), "constructor",
				"a parameterless constructor of type " + id, "none"})
			continue
		}
		r := cands[0]
		x := r.Char
		cmp := func(field, exp, obs string, ok bool) {
			if !ok {
				fail("metadata_chars_covered", r, field, "metadata "+fmt.Sprintf("%q", m.Name)+": "+exp, obs)
			}
		}
		orNone := func(s string) string {
			if s == "" {
				return "absent"
			}
			return s
		}
		cmp("format", m.Format, x.Format, x.Format == m.Format && FormatName(x.Format) != "unknown")
		cmp("perms", strings.Join(mp, ","), strings.Join(x.Perms, ","), permsEq(x.Perms, mp))
		cmp("unit", orNone(m.Unit), orNone(x.Unit), x.Unit == m.Unit && UnitName(x.Unit) != "unknown")
		cmp("minValue", orNone(m.Min), x.Min.String(), boundEq(x.Min, m.Min))
		cmp("maxValue", orNone(m.Max), x.Max.String(), boundEq(x.Max, m.Max))
		cmp("stepValue", orNone(m.Step), x.Step.String(), boundEq(x.Step, m.Step))
	}
	// metadata_services_covered
	for _, m := range s.MetaSvcs {
		id := shortOf(m.UUID)
		var cands []Row
		matched := false
		for _, r := range d.Rows {
			if r.Pkg != "service" || r.NArgs != 0 || r.Panicked || r.Svc.Type != id {
				continue
			}
			cands = append(cands, r)
			ok := true
			for _, u := range m.Required {
				if !has(typesOf(r.Svc.Chars), shortOf(u)) {
					ok = false
				}
			}
			if ok {
				matched = true
			}
		}
		if matched {
			continue
		}
		if len(cands) == 0 {
			fs = append(fs, Failure{"metadata_services_covered", "metadata service " + fmt.Sprintf("%q (%s)", m.Name, id), "constructor",
				"a parameterless constructor of type " + id, "none"})
			continue
		}
		for _, u := range m.Required {
			if !has(typesOf(cands[0].Svc.Chars), shortOf(u)) {
				fail("metadata_services_covered", cands[0], "characteristics", "required characteristic "+shortOf(u)+" of "+fmt.Sprintf("%q", m.Name), "missing")
			}
		}
	}
	// categories_covered
	for _, c := range s.MetaCats {
		ok := false
		for _, t := range s.AccTypes {
			if t.Value == c.Category {
				ok = true
			}
		}
		if !ok {
			fs = append(fs, Failure{"categories_covered", "metadata category " + fmt.Sprintf("%q", c.Name), "AccessoryType constant",
				fmt.Sprintf("a constant with value %d", c.Category), "none"})
		}
	}
	return fs
}

// CheckShape evaluates the C14 json_wellformed checker (required keys always present) in Go.
func CheckShape(s *Scan, d *Dump) []Failure {
	var fs []Failure
	req := []struct {
		kind string
		keys []string
		zero []string
		tags []Tag
	}{
		{"characteristic", []string{"iid", "type", "perms", "format"}, d.Shape.ZeroChar, d.Shape.CharTags},
		{"service", []string{"iid", "type", "characteristics"}, d.Shape.ZeroSvc, s.PayloadTags},
		{"accessory", []string{"aid", "services"}, d.Shape.ZeroAcc, d.Shape.AccTags},
		{"container", []string{"accessories"}, d.Shape.ZeroCont, d.Shape.ContTags},
	}
	for _, q := range req {
		for _, k := range q.keys {
			if !has(q.zero, k) {
				fs = append(fs, Failure{"json_wellformed", q.kind + " object", "key " + k, "present in every marshalled object", "absent for a zero-valued object"})
			}
			ok := false
			for _, t := range q.tags {
				if t.Key == k && !t.Omit {
					ok = true
				}
			}
			if !ok {
				fs = append(fs, Failure{"json_wellformed", q.kind + " struct", "json tag " + k, "declared without omitempty", "missing or omitempty"})
			}
		}
	}
	return fs
}
