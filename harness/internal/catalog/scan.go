// Package catalog regenerates the characteristic / service / accessory catalog of brutella/hc from a
// working tree: static scan (go/ast + gen/metadata.json), run-time dump (a generated program calling every
// exported New* constructor), Lean rendering, and a Go re-evaluation of the Lean checkers (to localise a
// failing row). Used by harness/cmd/extract (targets Catalog, JsonShape) and harness/cmd/drive (C14, C15).
package catalog

import (
	"bytes"
	"encoding/json"
	"fmt"
	"go/ast"
	"go/parser"
	"go/token"
	"io/ioutil"
	"path/filepath"
	"reflect"
	"sort"
	"strconv"
	"strings"
)

type Param struct{ Name, Type string }

// Ctor is an exported package-level function New* found by go/ast.
type Ctor struct {
	Pkg, Name, File string
	Params          []Param
	Result          string
	TypeConsts      []string // identifiers Type* named in the body (unqualified), in order of first use
	OwnConst        string   // "Type"+<Name minus New> when the package declares such a string constant, else ""
	OwnConstValue   string
	UpdateOnSame    bool // body assigns <x>.updateOnSameValue = true
}

type MetaChar struct {
	UUID, Name, Format string
	Properties         []string
	Unit               string
	Min, Max, Step     string // JSON number literal, "" when absent (key names exactly as gen/golang reads them)
	MaxLen             string
	ValidValues        []int64  // keys of Constraints.ValidValues (sorted), nil when absent
	OtherKeys          []string // constraint keys that are not read by the generator (e.g. "stepValue")
}

type MetaSvc struct {
	UUID, Name         string
	Required, Optional []string
}

type MetaCat struct {
	Name     string
	Category int
}

type AccType struct {
	Name  string
	Value int
}

type Tag struct {
	Field, Key string
	Omit       bool
}

type Scan struct {
	Ctors       []Ctor
	StrConsts   map[string]map[string]string // package -> constant name -> string value
	AccTypes    []AccType
	MetaChars   []MetaChar
	MetaSvcs    []MetaSvc
	MetaCats    []MetaCat
	PayloadTags []Tag // struct tags of service.servicePayload (unexported: read by go/ast)
}

var Packages = []string{"characteristic", "service", "accessory"}

func exprString(e ast.Expr) string {
	switch t := e.(type) {
	case *ast.Ident:
		return t.Name
	case *ast.StarExpr:
		return "*" + exprString(t.X)
	case *ast.SelectorExpr:
		return exprString(t.X) + "." + t.Sel.Name
	case *ast.ArrayType:
		if t.Len == nil {
			return "[]" + exprString(t.Elt)
		}
		return "[?]" + exprString(t.Elt)
	case *ast.Ellipsis:
		return "..." + exprString(t.Elt)
	case *ast.InterfaceType:
		return "interface{}"
	case *ast.FuncType:
		return "func"
	case *ast.MapType:
		return "map[" + exprString(t.Key) + "]" + exprString(t.Value)
	}
	return fmt.Sprintf("%T", e)
}

// ParseTag splits a `json:"name,omitempty"` struct tag.
func ParseTag(field string, tag string) (Tag, bool) {
	v, ok := reflect.StructTag(tag).Lookup("json")
	if !ok {
		return Tag{Field: field, Key: field}, true
	}
	parts := strings.Split(v, ",")
	if parts[0] == "-" && len(parts) == 1 {
		return Tag{}, false
	}
	t := Tag{Field: field, Key: parts[0]}
	if t.Key == "" {
		t.Key = field
	}
	for _, p := range parts[1:] {
		if p == "omitempty" {
			t.Omit = true
		}
	}
	return t, true
}

// ScanRepo reads gen/metadata.json and the three catalog packages of the working tree.
func ScanRepo(repo string) (*Scan, error) {
	s := &Scan{StrConsts: map[string]map[string]string{}}
	if err := s.readMetadata(filepath.Join(repo, "gen", "metadata.json")); err != nil {
		return nil, err
	}
	for _, pkg := range Packages {
		if err := s.scanPackage(repo, pkg); err != nil {
			return nil, err
		}
	}
	sort.SliceStable(s.Ctors, func(i, j int) bool {
		a, b := s.Ctors[i], s.Ctors[j]
		if a.Pkg != b.Pkg {
			return pkgOrder(a.Pkg) < pkgOrder(b.Pkg)
		}
		return a.Name < b.Name
	})
	return s, nil
}

func pkgOrder(p string) int {
	for i, q := range Packages {
		if p == q {
			return i
		}
	}
	return 99
}

func (s *Scan) scanPackage(repo, pkg string) error {
	fset := token.NewFileSet()
	dir := filepath.Join(repo, pkg)
	names, err := filepath.Glob(filepath.Join(dir, "*.go"))
	if err != nil {
		return err
	}
	sort.Strings(names)
	consts := map[string]string{}
	s.StrConsts[pkg] = consts
	var files []*ast.File
	var fnames []string
	for _, fn := range names {
		if strings.HasSuffix(fn, "_test.go") {
			continue
		}
		f, err := parser.ParseFile(fset, fn, nil, 0)
		if err != nil {
			return fmt.Errorf("parse %s: %v", fn, err)
		}
		files = append(files, f)
		fnames = append(fnames, filepath.Base(fn))
	}
	if len(files) == 0 {
		return fmt.Errorf("no Go files in %s", dir)
	}
	// constants (string literals; AccessoryType integers) and the servicePayload tags
	for _, f := range files {
		for _, d := range f.Decls {
			gd, ok := d.(*ast.GenDecl)
			if !ok {
				continue
			}
			if gd.Tok == token.TYPE && pkg == "service" {
				for _, sp := range gd.Specs {
					ts := sp.(*ast.TypeSpec)
					st, ok := ts.Type.(*ast.StructType)
					if ts.Name.Name != "servicePayload" || !ok {
						continue
					}
					for _, fl := range st.Fields.List {
						tag := ""
						if fl.Tag != nil {
							tag, _ = strconv.Unquote(fl.Tag.Value)
						}
						for _, n := range fl.Names {
							if t, ok := ParseTag(n.Name, tag); ok {
								s.PayloadTags = append(s.PayloadTags, t)
							}
						}
					}
				}
			}
			if gd.Tok != token.CONST {
				continue
			}
			for _, sp := range gd.Specs {
				vs := sp.(*ast.ValueSpec)
				for i, n := range vs.Names {
					if i >= len(vs.Values) {
						continue
					}
					lit, ok := vs.Values[i].(*ast.BasicLit)
					if !ok {
						continue
					}
					switch lit.Kind {
					case token.STRING:
						if v, err := strconv.Unquote(lit.Value); err == nil {
							consts[n.Name] = v
						}
					case token.INT:
						if pkg == "accessory" && vs.Type != nil && exprString(vs.Type) == "AccessoryType" {
							if v, err := strconv.Atoi(lit.Value); err == nil {
								s.AccTypes = append(s.AccTypes, AccType{n.Name, v})
							}
						}
					}
				}
			}
		}
	}
	// constructors
	for k, f := range files {
		for _, d := range f.Decls {
			fd, ok := d.(*ast.FuncDecl)
			if !ok || fd.Recv != nil || !fd.Name.IsExported() || !strings.HasPrefix(fd.Name.Name, "New") {
				continue
			}
			c := Ctor{Pkg: pkg, Name: fd.Name.Name, File: pkg + "/" + fnames[k]}
			if fd.Type.Params != nil {
				for _, p := range fd.Type.Params.List {
					t := exprString(p.Type)
					if len(p.Names) == 0 {
						c.Params = append(c.Params, Param{"", t})
					}
					for _, n := range p.Names {
						c.Params = append(c.Params, Param{n.Name, t})
					}
				}
			}
			if fd.Type.Results != nil && len(fd.Type.Results.List) > 0 {
				c.Result = exprString(fd.Type.Results.List[0].Type)
			}
			seen := map[string]bool{}
			qualified := map[*ast.Ident]bool{}
			if fd.Body != nil {
				ast.Inspect(fd.Body, func(n ast.Node) bool {
					switch t := n.(type) {
					case *ast.SelectorExpr:
						qualified[t.Sel] = true
					case *ast.AssignStmt:
						for i, l := range t.Lhs {
							if se, ok := l.(*ast.SelectorExpr); ok && se.Sel.Name == "updateOnSameValue" && i < len(t.Rhs) {
								if id, ok := t.Rhs[i].(*ast.Ident); ok && id.Name == "true" {
									c.UpdateOnSame = true
								}
							}
						}
					}
					return true
				})
				ast.Inspect(fd.Body, func(n ast.Node) bool {
					if id, ok := n.(*ast.Ident); ok && !qualified[id] && strings.HasPrefix(id.Name, "Type") && len(id.Name) > 4 && !seen[id.Name] {
						seen[id.Name] = true
						c.TypeConsts = append(c.TypeConsts, id.Name)
					}
					return true
				})
			}
			own := "Type" + strings.TrimPrefix(c.Name, "New")
			if v, ok := consts[own]; ok && pkg != "accessory" {
				c.OwnConst, c.OwnConstValue = own, v
			}
			s.Ctors = append(s.Ctors, c)
		}
	}
	return nil
}

func (s *Scan) readMetadata(path string) error {
	b, err := ioutil.ReadFile(path)
	if err != nil {
		return err
	}
	dec := json.NewDecoder(bytes.NewReader(b))
	dec.UseNumber()
	var m struct {
		Categories      []MetaCat
		Characteristics []struct {
			UUID, Name, Format, Unit string
			Properties               []string
			Constraints              map[string]interface{}
		}
		Services []struct {
			UUID, Name                                       string
			RequiredCharacteristics, OptionalCharacteristics []string
		}
	}
	if err := dec.Decode(&m); err != nil {
		return fmt.Errorf("gen/metadata.json: %v", err)
	}
	s.MetaCats = m.Categories
	num := func(c map[string]interface{}, k string) (string, error) {
		v, ok := c[k]
		if !ok {
			return "", nil
		}
		n, ok := v.(json.Number)
		if !ok {
			return "", fmt.Errorf("constraint %s is not a number: %v", k, v)
		}
		return n.String(), nil
	}
	for _, c := range m.Characteristics {
		mc := MetaChar{UUID: c.UUID, Name: c.Name, Format: c.Format, Properties: c.Properties, Unit: c.Unit}
		var err error
		if mc.Min, err = num(c.Constraints, "MinimumValue"); err != nil {
			return fmt.Errorf("%s: %v", c.Name, err)
		}
		if mc.Max, err = num(c.Constraints, "MaximumValue"); err != nil {
			return fmt.Errorf("%s: %v", c.Name, err)
		}
		if mc.Step, err = num(c.Constraints, "StepValue"); err != nil {
			return fmt.Errorf("%s: %v", c.Name, err)
		}
		if _, has := c.Constraints["StepValue"]; !has {
			// the metadata spells the key of one characteristic (Filter Life Level) "stepValue": it is the metadata's
			// step all the same (F58; this scanner used to skip it like the generator did)
			if mc.Step, err = num(c.Constraints, "stepValue"); err != nil {
				return fmt.Errorf("%s: %v", c.Name, err)
			}
		}
		if mc.MaxLen, err = num(c.Constraints, "MaximumLength"); err != nil {
			return fmt.Errorf("%s: %v", c.Name, err)
		}
		if vv, ok := c.Constraints["ValidValues"].(map[string]interface{}); ok {
			for k := range vv {
				n, err := strconv.ParseInt(k, 10, 64)
				if err != nil {
					return fmt.Errorf("%s: ValidValues key %q is not an integer", c.Name, k)
				}
				mc.ValidValues = append(mc.ValidValues, n)
			}
			sort.Slice(mc.ValidValues, func(i, j int) bool { return mc.ValidValues[i] < mc.ValidValues[j] })
		}
		for k := range c.Constraints {
			switch k {
			case "MinimumValue", "MaximumValue", "StepValue", "stepValue", "MaximumLength", "ValidValues", "ValidBits":
			default:
				mc.OtherKeys = append(mc.OtherKeys, k)
			}
		}
		sort.Strings(mc.OtherKeys)
		s.MetaChars = append(s.MetaChars, mc)
	}
	for _, v := range m.Services {
		s.MetaSvcs = append(s.MetaSvcs, MetaSvc{v.UUID, v.Name, v.RequiredCharacteristics, v.OptionalCharacteristics})
	}
	return nil
}
