// Package fstrace records the file-system system calls a command issues on paths inside one directory
// (strace) and turns them into the operations of the Lean file-system model (HcModel/Crash.lean).
package fstrace

import (
	"bufio"
	"bytes"
	"encoding/hex"
	"fmt"
	"io/ioutil"
	"os"
	"os/exec"
	"path/filepath"
	"regexp"
	"strconv"
	"strings"
)

// Traced is the strace filter (DESIGN.md §6 C19).
const Traced = "openat,write,pwrite64,rename,renameat,renameat2,unlink,unlinkat,ftruncate,fsync,close"

// Op is one operation of the model: c(reate) t(runcate) w(rite) r(ename) u(nlink) x(close).
type Op struct {
	Kind byte
	P, Q string // file names relative to the directory
	Off  int64
	Data []byte
}

// Call is one successful system call on a path inside the directory.
type Call struct {
	Name  string // syscall name
	Nth   int    // this is the Nth invocation (1-based) of Name by its thread (strace inject=…:when=N counts per thread)
	Ops   []Op   // the model operations it stands for (openat O_CREAT|O_TRUNC = create, truncate)
	Descr string
}

func hx(b []byte) string {
	if len(b) == 0 {
		return "-"
	}
	return hex.EncodeToString(b)
}

// Token renders an operation in the line protocol of the model driver (`fs apply`, `fs check`).
func (o Op) Token() string {
	switch o.Kind {
	case 'c', 't', 'u':
		return string(o.Kind) + ":" + hx([]byte(o.P))
	case 'w':
		return fmt.Sprintf("w:%s:%d:%s", hx([]byte(o.P)), o.Off, hx(o.Data))
	case 'r':
		return "r:" + hx([]byte(o.P)) + ":" + hx([]byte(o.Q))
	}
	return "x"
}

func leanBytes(b []byte) string {
	var sb strings.Builder
	sb.WriteByte('[')
	for i, x := range b {
		if i > 0 {
			sb.WriteString(", ")
		}
		sb.WriteString(strconv.Itoa(int(x)))
	}
	sb.WriteByte(']')
	return sb.String()
}

// Lean renders an operation as a term of type Hc.Fs.FsOp.
func (o Op) Lean() string {
	switch o.Kind {
	case 'c':
		return ".create " + leanBytes([]byte(o.P))
	case 't':
		return ".truncate " + leanBytes([]byte(o.P))
	case 'u':
		return ".unlink " + leanBytes([]byte(o.P))
	case 'w':
		return fmt.Sprintf(".write %s %d %s", leanBytes([]byte(o.P)), o.Off, leanBytes(o.Data))
	case 'r':
		return ".rename " + leanBytes([]byte(o.P)) + " " + leanBytes([]byte(o.Q))
	}
	return ".close"
}

// LeanBytes is exported for the extractor.
func LeanBytes(b []byte) string { return leanBytes(b) }

// Flatten returns the model operations of a list of calls and, for every call index j, the number of
// model operations completed before call j starts (crash points of the real process ⊆ model prefixes).
func Flatten(calls []Call) (ops []Op, before []int) {
	for _, c := range calls {
		before = append(before, len(ops))
		ops = append(ops, c.Ops...)
	}
	before = append(before, len(ops))
	return
}

var lineRe = regexp.MustCompile(`^(\d+)\s+(.*)$`)
var resumedRe = regexp.MustCompile(`^<\.\.\. (\w+) resumed>\s?(.*)$`)

// strace -xx prints every string as \x.. escapes
func unescape(s string) ([]byte, error) {
	var out []byte
	for i := 0; i < len(s); {
		if s[i] == '\\' && i+3 < len(s) && s[i+1] == 'x' {
			v, err := strconv.ParseUint(s[i+2:i+4], 16, 8)
			if err != nil {
				return nil, err
			}
			out = append(out, byte(v))
			i += 4
		} else if s[i] == '\\' {
			return nil, fmt.Errorf("unexpected escape in %q", s)
		} else {
			out = append(out, s[i])
			i++
		}
	}
	return out, nil
}

// splitArgs splits "a, "str", c) = ret" style argument text at top-level commas; returns args and the text after ')'.
func splitArgs(s string) (args []string, rest string) {
	depth := 0
	inStr := false
	start := 0
	for i := 0; i < len(s); i++ {
		ch := s[i]
		switch {
		case inStr:
			if ch == '\\' {
				i++
			} else if ch == '"' {
				inStr = false
			}
		case ch == '"':
			inStr = true
		case ch == '(' || ch == '[' || ch == '{':
			depth++
		case ch == ']' || ch == '}':
			depth--
		case ch == ')':
			if depth == 0 {
				args = append(args, strings.TrimSpace(s[start:i]))
				return args, s[i+1:]
			}
			depth--
		case ch == ',' && depth == 0:
			args = append(args, strings.TrimSpace(s[start:i]))
			start = i + 1
		}
	}
	return append(args, strings.TrimSpace(s[start:])), ""
}

func strArg(a string) ([]byte, error) {
	a = strings.TrimSuffix(a, "...")
	if len(a) < 2 || a[0] != '"' || a[len(a)-1] != '"' {
		return nil, fmt.Errorf("not a string argument: %q", a)
	}
	return unescape(a[1 : len(a)-1])
}

// Parse turns strace output (-f -xx -s big, written with -o) into the calls on paths inside dir.
// unsupported is non-empty when a traced call on a storage path has no counterpart in the model.
func Parse(trace []byte, dir string) (calls []Call, unsupported []string, err error) {
	dir = filepath.Clean(dir)
	pending := map[string]string{}
	count := map[string]int{}
	type fdKey struct{ fd int }
	fdPath := map[int]string{}
	fdOff := map[int]int64{}
	inside := func(p []byte) (string, bool) {
		s := string(p)
		if !filepath.IsAbs(s) {
			return "", false
		}
		if strings.HasPrefix(s, dir+"/") {
			rel := s[len(dir)+1:]
			if rel != "" && !strings.Contains(rel, "/") {
				return rel, true
			}
		}
		return "", false
	}
	sc := bufio.NewScanner(bytes.NewReader(trace))
	sc.Buffer(make([]byte, 1<<20), 1<<26)
	for sc.Scan() {
		line := sc.Text()
		pid := ""
		if m := lineRe.FindStringSubmatch(line); m != nil {
			pid, line = m[1], m[2]
		}
		if strings.HasPrefix(line, "+++") || strings.HasPrefix(line, "---") {
			continue
		}
		if strings.HasSuffix(line, "<unfinished ...>") {
			pending[pid] = strings.TrimSuffix(line, "<unfinished ...>")
			continue
		}
		if m := resumedRe.FindStringSubmatch(line); m != nil {
			line = pending[pid] + m[2]
			delete(pending, pid)
		}
		par := strings.IndexByte(line, '(')
		if par <= 0 {
			continue
		}
		name := line[:par]
		args, rest := splitArgs(line[par+1:])
		count[pid+"/"+name]++
		eq := strings.LastIndex(rest, "= ")
		if eq < 0 {
			continue // killed inside the call: no result
		}
		retS := strings.Fields(rest[eq+2:])
		if len(retS) == 0 {
			continue
		}
		ret, perr := strconv.ParseInt(retS[0], 10, 64)
		if perr != nil || ret < 0 {
			continue // failed calls change nothing
		}
		call := Call{Name: name, Nth: count[pid+"/"+name]}
		switch name {
		case "openat":
			if len(args) < 3 {
				continue
			}
			p, e := strArg(args[1])
			if e != nil {
				continue
			}
			rel, ok := inside(p)
			if !ok {
				delete(fdPath, int(ret))
				continue
			}
			fdPath[int(ret)] = rel
			fdOff[int(ret)] = 0
			flags := args[2]
			if strings.Contains(flags, "O_APPEND") || strings.Contains(flags, "O_TMPFILE") {
				unsupported = append(unsupported, line)
			}
			if strings.Contains(flags, "O_CREAT") {
				call.Ops = append(call.Ops, Op{Kind: 'c', P: rel})
			}
			if strings.Contains(flags, "O_TRUNC") {
				call.Ops = append(call.Ops, Op{Kind: 't', P: rel})
			}
			if len(call.Ops) == 0 {
				continue // plain open for reading/writing: no effect by itself
			}
			call.Descr = fmt.Sprintf("openat(%q, %s)", rel, flags)
		case "write", "pwrite64":
			fd, e := strconv.Atoi(args[0])
			if e != nil {
				continue
			}
			rel, ok := fdPath[fd]
			if !ok {
				continue
			}
			data, e := strArg(args[1])
			if e != nil {
				return nil, nil, fmt.Errorf("cannot read data of %s: %v", line, e)
			}
			if int64(len(data)) < ret {
				return nil, nil, fmt.Errorf("strace abbreviated the data of %s", trunc(line))
			}
			off := fdOff[fd]
			if name == "pwrite64" {
				off, _ = strconv.ParseInt(args[3], 10, 64)
			} else {
				fdOff[fd] += ret
			}
			call.Ops = []Op{{Kind: 'w', P: rel, Off: off, Data: data[:ret]}}
			call.Descr = fmt.Sprintf("%s(%q, %d bytes at %d)", name, rel, ret, off)
		case "ftruncate":
			fd, _ := strconv.Atoi(args[0])
			rel, ok := fdPath[fd]
			if !ok {
				continue
			}
			if strings.TrimSpace(args[1]) != "0" {
				unsupported = append(unsupported, line)
			}
			call.Ops = []Op{{Kind: 't', P: rel}}
			call.Descr = fmt.Sprintf("ftruncate(%q, %s)", rel, args[1])
		case "fsync":
			fd, _ := strconv.Atoi(args[0])
			if _, ok := fdPath[fd]; !ok {
				continue
			}
			call.Ops = []Op{{Kind: 'x'}}
			call.Descr = "fsync"
		case "close":
			fd, _ := strconv.Atoi(args[0])
			if _, ok := fdPath[fd]; !ok {
				continue
			}
			call.Descr = fmt.Sprintf("close(%q)", fdPath[fd])
			delete(fdPath, fd)
			call.Ops = []Op{{Kind: 'x'}}
		case "rename", "renameat", "renameat2":
			var a, b string
			if name == "rename" {
				a, b = args[0], args[1]
			} else {
				a, b = args[1], args[3]
			}
			pa, e1 := strArg(a)
			pb, e2 := strArg(b)
			if e1 != nil || e2 != nil {
				continue
			}
			ra, oka := inside(pa)
			rb, okb := inside(pb)
			if !oka && !okb {
				continue
			}
			if !oka || !okb {
				unsupported = append(unsupported, line) // moves a file into / out of the directory
				continue
			}
			if name == "renameat2" && len(args) > 4 && strings.TrimSpace(args[4]) != "0" {
				unsupported = append(unsupported, line)
			}
			for fd, p := range fdPath { // descriptors follow the file
				if p == ra {
					fdPath[fd] = rb
				}
			}
			call.Ops = []Op{{Kind: 'r', P: ra, Q: rb}}
			call.Descr = fmt.Sprintf("%s(%q, %q)", name, ra, rb)
		case "unlink", "unlinkat":
			a := args[0]
			if name == "unlinkat" {
				a = args[1]
			}
			p, e := strArg(a)
			if e != nil {
				continue
			}
			rel, ok := inside(p)
			if !ok {
				continue
			}
			call.Ops = []Op{{Kind: 'u', P: rel}}
			call.Descr = fmt.Sprintf("%s(%q)", name, rel)
		default:
			continue
		}
		calls = append(calls, call)
	}
	return calls, unsupported, nil
}

func trunc(s string) string {
	if len(s) > 200 {
		return s[:200] + "…"
	}
	return s
}

// Record runs argv under strace and returns the calls on paths inside dir. inject, if non-empty, is passed
// as `-e inject=…` (crash injection); the exit error of the traced command is returned in runErr.
func Record(tmpDir, dir string, argv []string, inject string) (calls []Call, unsupported []string, runErr error, err error) {
	f, e := ioutil.TempFile(tmpDir, "strace-*.out")
	if e != nil {
		return nil, nil, nil, e
	}
	out := f.Name()
	f.Close()
	defer os.Remove(out)
	args := []string{"-f", "-xx", "-s", "1000000", "-o", out, "-e", "trace=" + Traced}
	if inject != "" {
		args = append(args, "-e", "inject="+inject)
	}
	args = append(args, argv...)
	cmd := exec.Command("strace", args...)
	cmd.Stderr = nil
	runErr = cmd.Run()
	b, e := ioutil.ReadFile(out)
	if e != nil {
		return nil, nil, runErr, e
	}
	calls, unsupported, err = Parse(b, dir)
	return
}

// Replay performs the operations with real system calls inside dir (errors are ignored: the model treats
// operations on missing files as no-ops, and the comparison with the model checks exactly that).
func Replay(dir string, ops []Op) {
	for _, o := range ops {
		p := filepath.Join(dir, o.P)
		switch o.Kind {
		case 'c':
			if f, err := os.OpenFile(p, os.O_WRONLY|os.O_CREATE, 0666); err == nil {
				f.Close()
			}
		case 't':
			os.Truncate(p, 0)
		case 'w':
			if f, err := os.OpenFile(p, os.O_WRONLY, 0666); err == nil {
				f.WriteAt(o.Data, o.Off)
				f.Close()
			}
		case 'r':
			os.Rename(p, filepath.Join(dir, o.Q))
		case 'u':
			os.Remove(p)
		}
	}
}
