// tlvprobe: the two TLV8 codecs on values whose handling depends on the width of int / uint — every tag 0..255 through
// util's container (set, get, serialise, parse, get), and integers at the ends of every width through tlv8.Marshal /
// Unmarshal. One line per check, ending in "ok" or "FAIL …". The C16 / C17 checks run it on the host and for GOARCH=386.
package main

import (
	"bytes"
	"fmt"
	"math"

	"github.com/brutella/hc/tlv8"
	"github.com/brutella/hc/util"
)

type ints struct {
	A int64   `tlv8:"1"`
	B uint64  `tlv8:"2"`
	C int32   `tlv8:"3"`
	D uint32  `tlv8:"4"`
	E int16   `tlv8:"5"`
	F uint16  `tlv8:"6"`
	G uint8   `tlv8:"7"`
	H float32 `tlv8:"8"`
}

func main() {
	// util container
	for t := 0; t < 256; t++ {
		c := util.NewTLV8Container()
		v := []byte{byte(t), byte(t + 1), 0xAA}
		c.SetBytes(uint8(t), v)
		res := "ok"
		if !bytes.Equal(c.GetBytes(uint8(t)), v) {
			res = fmt.Sprintf("FAIL get after set: %x", c.GetBytes(uint8(t)))
		}
		p, err := util.NewTLV8ContainerFromReader(bytes.NewReader(c.BytesBuffer().Bytes()))
		if err != nil || !bytes.Equal(p.GetBytes(uint8(t)), v) {
			res = fmt.Sprintf("FAIL get after parse: %v", err)
		}
		fmt.Printf("container tag %d %s\n", t, res)
	}
	// struct codec
	vals := []ints{
		{A: -1, B: math.MaxUint64, C: -1, D: math.MaxUint32, E: -1, F: math.MaxUint16, G: 255, H: 1.5},
		{A: math.MinInt64, B: 1 << 63, C: math.MinInt32, D: 1 << 31, E: math.MinInt16, F: 1 << 15, G: 128, H: -0.25},
		{A: math.MaxInt64, B: 1<<32 + 5, C: math.MaxInt32, D: 5, E: math.MaxInt16, F: 5, G: 5, H: 3e38},
		{A: 1 << 32, B: 1 << 32, C: 1 << 16, D: 1 << 16, E: 1 << 8, F: 1 << 8, G: 1, H: 0},
		{A: -(1 << 32) - 7},
	}
	for i, v := range vals {
		b, err := tlv8.Marshal(v)
		var back ints
		res := "ok"
		if err != nil {
			res = "FAIL marshal: " + err.Error()
		} else if err := tlv8.Unmarshal(b, &back); err != nil {
			res = "FAIL unmarshal: " + err.Error()
		} else if back != v {
			res = fmt.Sprintf("FAIL round trip: %+v", back)
		}
		fmt.Printf("struct %d %x %s\n", i, b, res)
	}
}
