// convprobe: what every signed-integer characteristic of the catalog stores when a controller (a JSON number: float64)
// or the application writes a value — printed one line per (constructor, value). The C09 check builds and runs it for
// the host and for platforms whose float→integer conversions differ from amd64's (js/wasm under node, 386): the lines
// must be the same everywhere.
package main

import (
	"fmt"
	"net"
	"time"

	"github.com/brutella/hc/characteristic"
)

type conn struct{}

func (conn) Read(b []byte) (int, error)         { return 0, nil }
func (conn) Write(b []byte) (int, error)        { return len(b), nil }
func (conn) Close() error                       { return nil }
func (conn) LocalAddr() net.Addr                { return nil }
func (conn) RemoteAddr() net.Addr               { return nil }
func (conn) SetDeadline(t time.Time) error      { return nil }
func (conn) SetReadDeadline(t time.Time) error  { return nil }
func (conn) SetWriteDeadline(t time.Time) error { return nil }

func main() {
	ctors := []struct {
		name string
		mk   func() *characteristic.Characteristic
	}{
		{"NewTargetTiltAngle", func() *characteristic.Characteristic { return characteristic.NewTargetTiltAngle().Characteristic }},
		{"NewTargetHorizontalTiltAngle", func() *characteristic.Characteristic {
			return characteristic.NewTargetHorizontalTiltAngle().Characteristic
		}},
		{"NewTargetVerticalTiltAngle", func() *characteristic.Characteristic {
			return characteristic.NewTargetVerticalTiltAngle().Characteristic
		}},
		{"NewCurrentTiltAngle", func() *characteristic.Characteristic { return characteristic.NewCurrentTiltAngle().Characteristic }},
		{"NewBrightness", func() *characteristic.Characteristic { return characteristic.NewBrightness().Characteristic }},
		{"NewActiveIdentifier", func() *characteristic.Characteristic { return characteristic.NewActiveIdentifier().Characteristic }},
		{"NewSetDuration", func() *characteristic.Characteristic { return characteristic.NewSetDuration().Characteristic }},
		// unsigned formats without declared bounds: the range of the format is all there is (F53)
		{"NewActive", func() *characteristic.Characteristic { return characteristic.NewActive().Characteristic }},
		{"NewChargingState", func() *characteristic.Characteristic { return characteristic.NewChargingState().Characteristic }},
		{"NewLockManagementAutoSecurityTimeout", func() *characteristic.Characteristic {
			return characteristic.NewLockManagementAutoSecurityTimeout().Characteristic
		}},
	}
	values := []interface{}{float64(-45), float64(-90), float64(-1), float64(-0.5), float64(0), float64(30), float64(-91), "-30", -7,
		float64(2147483647), float64(2147483648), float64(3000000000), float64(4294967301),
		float64(255), float64(256), float64(300), float64(65536), float64(1e30), float64(-1e30), float64(9.3e18), float64(1.9e19),
		"18446744073709551615", "-9223372036854775809", "300", uint64(1 << 63), uint32(4000000000), int64(-5)}
	for _, ct := range ctors {
		for _, v := range values {
			c := ct.mk()
			// as the PUT handler does for a controller's write (the application's setter for the last two values)
			switch v.(type) {
			case float64:
				c.Perms = characteristic.PermsAll()
				c.UpdateValueFromConnection(v, conn{})
			default:
				c.UpdateValue(v)
			}
			fmt.Printf("%s %T(%v) -> %T(%v) min=%v max=%v format=%s\n", ct.name, v, v, c.Value, c.Value, c.MinValue, c.MaxValue, c.Format)
		}
	}
}
