// setprobe: the smallest program that performs storage writes of brutella/hc on a directory.
// It is run under strace by the extractor (target SetTrace) and by the C19 driver (crash injection).
//
//	setprobe set  <dir> <keyhex> <valhex>            fileStorage.Set
//	setprobe save <dir> <namehex> <pubhex> <privhex> database.SaveEntity
//	setprobe del  <dir> <keyhex>                     fileStorage.Delete
//	setprobe delent <dir> <namehex>                  database.DeleteEntity
//	setprobe pairadd <dir> <namehex> <pubhex>        pair.PairingController.Handle of an add request (POST /pairings, method 3)
//	setprobe cfg  <dir> <idhex> <versionhex> <hashhex>   the three consecutive Sets of Config.save (config.go)
//	setprobe start <dir> <pin> <name> [lightbulb]    hc.NewIPTransport on the directory (one switch / lightbulb accessory), not started
//	setprobe relstore <base> <rel> <keyhex> <valhex> chdir(base); NewFileStorage(rel); Set; chdir("/"); Get and list → stdout
package main

import (
	"encoding/hex"
	"fmt"
	"os"
	"runtime"

	"github.com/brutella/hc"
	"github.com/brutella/hc/accessory"
	"github.com/brutella/hc/db"
	"github.com/brutella/hc/hap/pair"
	"github.com/brutella/hc/util"
)

// All system calls of main run on the initial thread: strace counts invocations per thread
// (`inject=…:when=N`), so crash injection at the Nth call is reproducible.
func init() { runtime.LockOSThread() }

func unhex(s string) []byte {
	if s == "-" {
		return nil
	}
	b, err := hex.DecodeString(s)
	if err != nil {
		fmt.Fprintln(os.Stderr, "setprobe: bad hex", s)
		os.Exit(3)
	}
	return b
}

func main() {
	if len(os.Args) < 4 {
		fmt.Fprintln(os.Stderr, "usage: setprobe set|save|cfg <dir> …")
		os.Exit(3)
	}
	if os.Args[1] == "start" && (len(os.Args) == 5 || len(os.Args) == 6) {
		sw := accessory.NewSwitch(accessory.Info{Name: os.Args[4]}).Accessory
		if len(os.Args) == 6 && os.Args[5] == "lightbulb" {
			sw = accessory.NewLightbulb(accessory.Info{Name: os.Args[4]}).Accessory // another structure
		}
		if _, err := hc.NewIPTransport(hc.Config{StoragePath: os.Args[2], Pin: os.Args[3]}, sw); err != nil {
			fmt.Fprintln(os.Stderr, "setprobe:", err)
			os.Exit(1)
		}
		return
	}
	if os.Args[1] == "relstore" && len(os.Args) == 6 {
		// a store opened with a relative path, used after the process changed its working directory
		if err := os.Chdir(os.Args[2]); err != nil {
			fmt.Fprintln(os.Stderr, "setprobe:", err)
			os.Exit(3)
		}
		st, err := util.NewFileStorage(os.Args[3])
		if err != nil {
			fmt.Println("open-error", err)
			return
		}
		key := string(unhex(os.Args[4]))
		if err := st.Set(key, unhex(os.Args[5])); err != nil {
			fmt.Println("set-error", err)
			return
		}
		os.Chdir("/")
		v, err := st.Get(key)
		keys, _ := st.KeysWithSuffix("")
		if err != nil {
			fmt.Println("get-error", len(keys))
			return
		}
		fmt.Println("got", hex.EncodeToString(v), len(keys))
		return
	}
	st, err := util.NewFileStorage(os.Args[2])
	if err != nil {
		fmt.Fprintln(os.Stderr, "setprobe:", err)
		os.Exit(3)
	}
	a := os.Args[3:]
	switch {
	case os.Args[1] == "set" && len(a) == 2:
		err = st.Set(string(unhex(a[0])), unhex(a[1]))
	case os.Args[1] == "save" && len(a) == 3:
		err = db.NewDatabaseWithStorage(st).SaveEntity(db.NewEntity(string(unhex(a[0])), unhex(a[1]), unhex(a[2])))
	case os.Args[1] == "del" && len(a) == 1:
		err = st.Delete(string(unhex(a[0])))
	case os.Args[1] == "delent" && len(a) == 1:
		db.NewDatabaseWithStorage(st).DeleteEntity(db.NewEntity(string(unhex(a[0])), nil, nil))
	case os.Args[1] == "pairadd" && len(a) == 2:
		in := util.NewTLV8Container()
		in.SetByte(pair.TagSequence, 1)
		in.SetByte(pair.TagPairingMethod, pair.PairingMethodAdd.Byte())
		in.SetString(pair.TagUsername, string(unhex(a[0])))
		in.SetBytes(pair.TagPublicKey, unhex(a[1]))
		in.SetByte(pair.TagPermission, pair.AdminPerm)
		_, err = pair.NewPairingController(db.NewDatabaseWithStorage(st)).Handle(in)
	case os.Args[1] == "cfg" && len(a) == 3:
		// Config.save is unexported; these are its three statements (config.go)
		st.Set("uuid", unhex(a[0]))
		st.Set("version", unhex(a[1]))
		st.Set("configHash", unhex(a[2]))
	default:
		fmt.Fprintln(os.Stderr, "setprobe: bad arguments")
		os.Exit(3)
	}
	if err != nil {
		fmt.Fprintln(os.Stderr, "setprobe:", err)
		os.Exit(1)
	}
}
