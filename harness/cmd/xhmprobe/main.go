// xhmprobe: the setup URI (util.XHMURI) for a grid of categories, flag sets and setup codes, decoded again by an independent
// decoder: code, category and flags must come back, on every platform the library is built for (the payload has 45 bits;
// an `int` / `uint` has 32 on 386 and arm). One line per case, ending in " ok"; run by the C20 check for the host, GOARCH=386
// and js/wasm.
package main

import (
	"fmt"
	"strings"

	"github.com/brutella/hc/util"
)

func decode(uri string) (code, cat, flags uint64, id string, ok bool) {
	const pre = "X-HM://"
	if !strings.HasPrefix(uri, pre) || len(uri) < len(pre)+9 {
		return
	}
	var p uint64
	for _, ch := range []byte(uri[len(pre) : len(pre)+9]) {
		var d uint64
		switch {
		case ch >= '0' && ch <= '9':
			d = uint64(ch - '0')
		case ch >= 'A' && ch <= 'Z':
			d = uint64(ch-'A') + 10
		default:
			return
		}
		p = p*36 + d
	}
	if p>>39 != 0 {
		return
	}
	return p & (1<<27 - 1), (p >> 31) & 0xff, (p >> 27) & 0xf, uri[len(pre)+9:], true
}

func main() {
	codes := []string{"00102003", "001-02-003", "99999998", "00000001", "67108863", "13371337"}
	flagSets := [][]util.SetupFlag{nil, {util.SetupFlagIP}, {util.SetupFlagBTLE}, {util.SetupFlagNFC, util.SetupFlagIP}, {util.SetupFlagNFC, util.SetupFlagIP, util.SetupFlagBTLE}}
	for cat := 0; cat < 256; cat += 1 {
		for ci, code := range codes {
			if (cat+ci)%3 != 0 && cat > 40 {
				continue
			}
			fl := flagSets[(cat+ci)%len(flagSets)]
			uri, err := util.XHMURI(code, "AB12", uint8(cat), fl)
			var want uint64
			fmt.Sscanf(strings.Replace(code, "-", "", -1), "%d", &want)
			var wantFlags uint64
			for _, f := range fl {
				wantFlags |= uint64(f)
			}
			gc, gcat, gfl, gid, ok := decode(uri)
			verdict := "ok"
			if err != nil || !ok || gc != want || gcat != uint64(cat) || gfl != wantFlags&0xf || gid != "AB12" {
				verdict = fmt.Sprintf("FAIL (decodes to code %d category %d flags %d id %q ok=%v err=%v)", gc, gcat, gfl, gid, ok, err)
			}
			fmt.Printf("XHMURI(%q, AB12, category %d, flags %d) = %s %s\n", code, cat, wantFlags, uri, verdict)
		}
	}
}
