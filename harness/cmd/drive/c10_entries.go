package main

// C10 — "exactly one EVENT message carrying the new value" for every change, also when one PUT request changes the same
// characteristic several times (a lamp flashed by one request: [{value:40},{value:60},{value:20}]). Stream `entries`:
// another subscribed controller receives one EVENT per change, with the values in the order of the changes.

import (
	"bytes"
	"encoding/json"
	"fmt"
	"strings"
	"time"

	"github.com/brutella/hc/accessory"
	"github.com/brutella/hc/characteristic"
	"github.com/brutella/hc/service"
)

func c10Entries(c *Ctx) {
	for i := 0; i < c.Pick(2, 20); i++ {
		id := c.CaseID("entries", i)
		if c.Skip(id) {
			continue
		}
		r := c.CaseRng("entries", i)
		lb := accessory.NewColoredLightbulb(accessory.Info{Name: "Flash"})
		acc, err := startE2E(c.ScratchDir(), "00102003", false, lb.Accessory)
		if err != nil {
			c.Violate("transport does not start", id, nil, "started", err.Error())
			continue
		}
		func() {
			defer acc.Stop()
			ident := newRefIdentity(r, "ctrl-entries")
			setup, _ := acc.Dial()
			sr := refPairSetup(r, setup.Post(), "001-02-003", ident)
			setup.Close()
			if sr.ErrAt != "" {
				c.Violate("reference controller cannot pair", id, nil, "paired", sr.ErrAt)
				return
			}
			verified := func() *refClient {
				cl, err := acc.Dial()
				if err != nil {
					return nil
				}
				vr := refPairVerify(r, cl.Post(), ident, sr.AccLTPK)
				if vr.Shared == nil {
					cl.Close()
					return nil
				}
				cl.Upgrade(vr.Shared)
				return cl
			}
			writer, listener := verified(), verified()
			if writer == nil || listener == nil {
				c.Violate("paired reference controller cannot verify", id, nil, "verified", "failed")
				return
			}
			defer writer.Close()
			defer listener.Close()
			aid, iid := lb.Accessory.ID, lb.Lightbulb.Brightness.ID
			sub := fmt.Sprintf(`{"characteristics":[{"aid":%d,"iid":%d,"ev":true}]}`, aid, iid)
			if m, err := listener.Do("PUT", "/characteristics", "application/hap+json", []byte(sub)); err != nil || m.Status != 204 {
				c.Violate("verified reference controller cannot subscribe", id, nil, "204", fmt.Sprint(err, m))
				return
			}
			// one request with several entries, one of which asks for events on a characteristic that does not permit them (the
			// accessory's name): that entry is refused, the others — a subscription and a write — take effect all the same
			third := verified()
			if third != nil {
				defer third.Close()
				hueID := lb.Lightbulb.Hue.ID
				mixed := fmt.Sprintf(`{"characteristics":[{"aid":%d,"iid":%d,"ev":true},{"aid":%d,"iid":%d,"ev":true},{"aid":%d,"iid":%d,"value":%d}]}`,
					aid, lb.Info.Name.ID, aid, hueID, aid, lb.Lightbulb.Saturation.ID, 37)
				m, err := third.Do("PUT", "/characteristics", "application/hap+json", []byte(mixed))
				in := map[string]interface{}{"request": mixed, "first_entry": "asks for events on the name characteristic (no event permission): refused"}
				if err != nil || m == nil {
					c.Violate("request on an open connection fails", id, in, "answer", fmt.Sprint(err))
					return
				}
				if got := lb.Lightbulb.Saturation.GetValue(); got != 37 {
					c.Violate("an entry of a PUT request is dropped because an earlier entry of the same request was refused (its write is not applied)", id, in, "saturation 37", fmt.Sprint(got))
					return
				}
				lb.Lightbulb.Hue.SetValue(123)
				for k := 0; k < 2; k++ {
					third.Do("GET", fmt.Sprintf("/characteristics?id=%d.%d", aid, iid), "", nil)
				}
				n := 0
				for _, e := range third.Events {
					if bytes.Contains(e.Body, []byte(fmt.Sprintf(`"iid":%d`, hueID))) {
						n++
					}
				}
				third.Events = nil
				if n != 1 {
					c.Violate("an entry of a PUT request is dropped because an earlier entry of the same request was refused (its subscription does not take effect)", id, in, "1 event for the next change of hue", fmt.Sprint(n))
					return
				}
				c.Count(id+"/mixed", true, "stream:entries", "entries:after-refused-entry")
			}
			last := lb.Lightbulb.Brightness.GetValue()
			for round := 0; round < 6; round++ {
				n := 2 + r.Intn(3)
				var vals []int
				var entries []string
				for k := 0; k < n; k++ {
					v := r.Intn(101)
					for v == last {
						v = r.Intn(101)
					}
					last = v
					vals = append(vals, v)
					entries = append(entries, fmt.Sprintf(`{"aid":%d,"iid":%d,"value":%d}`, aid, iid, v))
				}
				body := `{"characteristics":[` + strings.Join(entries, ",") + `]}`
				if m, err := writer.Do("PUT", "/characteristics", "application/hap+json", []byte(body)); err != nil || m.Status != 204 {
					c.Violate("PUT of valid values by a verified controller is not accepted", id, body, "204", fmt.Sprint(err, m))
					return
				}
				// fence: the writer's answer is there, so every change has been made; the listener's own request comes
				// back after everything that was written to it before
				for k := 0; k < 2; k++ {
					if _, err := listener.Do("GET", fmt.Sprintf("/characteristics?id=%d.%d", aid, iid), "", nil); err != nil {
						c.Violate("request on an open connection fails", id, body, "fence response", err.Error())
						return
					}
				}
				var got []int
				for _, e := range listener.Events {
					var b struct {
						Characteristics []struct {
							Value float64 `json:"value"`
						} `json:"characteristics"`
					}
					if json.Unmarshal(e.Body, &b) == nil && len(b.Characteristics) == 1 {
						got = append(got, int(b.Characteristics[0].Value))
					}
				}
				listener.Events = nil
				c.Count(fmt.Sprint(id, round, vals), true, "stream:entries", fmt.Sprintf("entries:%d", n))
				if fmt.Sprint(got) != fmt.Sprint(vals) {
					c.Violate("a subscribed controller does not receive one EVENT per change with the value of that change (several changes of one characteristic by one request of another controller)", id,
						map[string]interface{}{"request_of_the_other_controller": body}, fmt.Sprint(vals), fmt.Sprint(got))
					return
				}
			}
		}()
	}
}

// c10Churn: "…connection close and reconnect … every order in which connections were established": subscribers leave and
// join WHILE values change. Every controller that was subscribed during a whole burst of changes receives each value of the
// burst exactly once and in order — whoever else went away in the meantime.
func c10Churn(c *Ctx) {
	id := "churn#0"
	if c.Skip(id) {
		return
	}
	r := c.CaseRng("churn", 0)
	acc0 := accessory.New(accessory.Info{Name: "Churn"}, accessory.TypeOther)
	svc := service.New("F0AB")
	cnt := characteristic.NewInt("F5AB")
	cnt.Format = characteristic.FormatInt32
	cnt.Perms = []string{characteristic.PermRead, characteristic.PermEvents}
	cnt.SetValue(0)
	svc.AddCharacteristic(cnt.Characteristic)
	acc0.AddService(svc)
	acc, err := startE2E(c.ScratchDir(), "00102003", false, acc0)
	if err != nil {
		c.Violate("transport does not start", id, nil, "started", err.Error())
		return
	}
	defer acc.Stop()
	ident := newRefIdentity(r, "ctrl-churn")
	setup, _ := acc.Dial()
	sr := refPairSetup(r, setup.Post(), "001-02-003", ident)
	setup.Close()
	if sr.ErrAt != "" {
		c.Violate("reference controller cannot pair", id, nil, "paired", sr.ErrAt)
		return
	}
	sub := fmt.Sprintf(`{"characteristics":[{"aid":%d,"iid":%d,"ev":true}]}`, acc0.ID, cnt.ID)
	join := func() *refClient {
		cl, err := acc.Dial()
		if err != nil {
			return nil
		}
		vr := refPairVerify(r, cl.Post(), ident, sr.AccLTPK)
		if vr.Shared == nil {
			cl.Close()
			return nil
		}
		cl.Upgrade(vr.Shared)
		if m, err := cl.Do("PUT", "/characteristics", "application/hap+json", []byte(sub)); err != nil || m.Status != 204 {
			cl.Close()
			return nil
		}
		return cl
	}
	var subs []*refClient
	for k := 0; k < 6; k++ {
		if cl := join(); cl != nil {
			subs = append(subs, cl)
		}
	}
	defer func() {
		for _, s := range subs {
			s.Close()
		}
	}()
	value := 0
	rounds := c.Pick(30, 300)
	for round := 0; round < rounds && len(subs) >= 3; round++ {
		// one of the subscribers (never the one that connected last) goes away at some moment of the burst
		leave := r.Intn(len(subs) - 1)
		leaver := subs[leave]
		stay := append(append([]*refClient{}, subs[:leave]...), subs[leave+1:]...)
		var burst []int
		gone := make(chan struct{})
		go func(d time.Duration) {
			time.Sleep(d)
			leaver.Close()
			close(gone)
		}(time.Duration(r.Intn(400)) * time.Microsecond)
		for k := 0; k < 12; k++ {
			value++
			burst = append(burst, value)
			cnt.SetValue(value)
			time.Sleep(time.Duration(r.Intn(60)) * time.Microsecond)
		}
		<-gone
		for n, s := range stay {
			for k := 0; k < 2; k++ { // fence
				if _, err := s.Do("GET", fmt.Sprintf("/characteristics?id=%d.%d", acc0.ID, cnt.ID), "", nil); err != nil {
					c.Violate("request on an open connection fails", id, round, "fence response", err.Error())
					return
				}
			}
			var got []int
			for _, e := range s.Events {
				var b struct {
					Characteristics []struct {
						Value float64 `json:"value"`
					} `json:"characteristics"`
				}
				if json.Unmarshal(e.Body, &b) == nil && len(b.Characteristics) == 1 {
					got = append(got, int(b.Characteristics[0].Value))
				}
			}
			s.Events = nil
			if fmt.Sprint(got) != fmt.Sprint(burst) {
				c.Violate("a subscribed controller does not receive each change exactly once while another subscriber disconnects", id,
					map[string]interface{}{"round": round, "subscribers": len(subs), "the_one_that_left_was_number": leave + 1, "this_one_is_number_of_those_that_stayed": n + 1, "changes_in_the_burst": len(burst)},
					fmt.Sprint(burst), fmt.Sprint(got))
				return
			}
		}
		subs = stay
		if cl := join(); cl != nil {
			subs = append(subs, cl)
		}
		c.Count(fmt.Sprint(id, round), true, "stream:churn")
	}
}

// c10SecondTransport: the application stops its transport and creates a new one over the SAME accessory objects (the network
// changed, the configuration was reloaded) without restarting the process. Subscribers of the new transport are notified
// exactly once per change, like those of the first.
func c10SecondTransport(c *Ctx) {
	id := "second-transport#0"
	if c.Skip(id) {
		return
	}
	r := c.CaseRng("second-transport", 0)
	sw := accessory.NewSwitch(accessory.Info{Name: "Again"})
	dir := c.ScratchDir()
	ident := newRefIdentity(r, "ctrl-again")
	var ltpk []byte
	for run := 1; run <= 2; run++ {
		acc, err := startE2E(dir, "00102003", false, sw.Accessory)
		if err != nil {
			c.Violate("transport does not start", id, run, "started", err.Error())
			return
		}
		ok := func() bool {
			defer acc.Stop()
			if run == 1 {
				setup, _ := acc.Dial()
				sr := refPairSetup(r, setup.Post(), "001-02-003", ident)
				setup.Close()
				if sr.ErrAt != "" {
					c.Violate("reference controller cannot pair", id, nil, "paired", sr.ErrAt)
					return false
				}
				ltpk = sr.AccLTPK
			}
			cl, err := acc.Dial()
			if err != nil {
				return false
			}
			defer cl.Close()
			vr := refPairVerify(r, cl.Post(), ident, ltpk)
			if vr.Shared == nil {
				c.Violate("paired reference controller cannot verify", id, run, "verified", vr.ErrAt)
				return false
			}
			cl.Upgrade(vr.Shared)
			sub := fmt.Sprintf(`{"characteristics":[{"aid":%d,"iid":%d,"ev":true}]}`, sw.Accessory.ID, sw.Switch.On.ID)
			if m, err := cl.Do("PUT", "/characteristics", "application/hap+json", []byte(sub)); err != nil || m.Status != 204 {
				c.Violate("verified reference controller cannot subscribe", id, run, "204", fmt.Sprint(err, m))
				return false
			}
			for k := 0; k < 4; k++ {
				sw.Switch.On.SetValue(!sw.Switch.On.GetValue())
				for f := 0; f < 2; f++ {
					cl.Do("GET", fmt.Sprintf("/characteristics?id=%d.%d", sw.Accessory.ID, sw.Switch.On.ID), "", nil)
				}
				if n := len(cl.Events); n != 1 {
					c.Violate("subscribed verified connection did not receive exactly one EVENT for a change", id,
						map[string]interface{}{"transport": fmt.Sprintf("number %d over the same accessory objects in this process", run), "change": k + 1}, "1 event", fmt.Sprint(n))
					return false
				}
				cl.Events = nil
			}
			c.Count(fmt.Sprint(id, run), true, "stream:second-transport")
			return true
		}()
		if !ok {
			return
		}
	}
}
