package main

// C10 — "exactly one EVENT message carrying the new value" for every change, also when one PUT request changes the same
// characteristic several times (a lamp flashed by one request: [{value:40},{value:60},{value:20}]). Stream `entries`:
// another subscribed controller receives one EVENT per change, with the values in the order of the changes.

import (
	"encoding/json"
	"fmt"
	"strings"

	"github.com/brutella/hc/accessory"
)

func c10Entries(c *Ctx) {
	for i := 0; i < c.Pick(2, 20); i++ {
		id := c.CaseID("entries", i)
		if c.Skip(id) {
			continue
		}
		r := c.CaseRng("entries", i)
		lb := accessory.NewColoredLightbulb(accessory.Info{Name: "Flash"})
		acc, err := startE2E(c.ScratchDir(), "00102003", false, lb.Accessory)
		if err != nil {
			c.Violate("transport does not start", id, nil, "started", err.Error())
			continue
		}
		func() {
			defer acc.Stop()
			ident := newRefIdentity(r, "ctrl-entries")
			setup, _ := acc.Dial()
			sr := refPairSetup(r, setup.Post(), "001-02-003", ident)
			setup.Close()
			if sr.ErrAt != "" {
				c.Violate("reference controller cannot pair", id, nil, "paired", sr.ErrAt)
				return
			}
			verified := func() *refClient {
				cl, err := acc.Dial()
				if err != nil {
					return nil
				}
				vr := refPairVerify(r, cl.Post(), ident, sr.AccLTPK)
				if vr.Shared == nil {
					cl.Close()
					return nil
				}
				cl.Upgrade(vr.Shared)
				return cl
			}
			writer, listener := verified(), verified()
			if writer == nil || listener == nil {
				c.Violate("paired reference controller cannot verify", id, nil, "verified", "failed")
				return
			}
			defer writer.Close()
			defer listener.Close()
			aid, iid := lb.Accessory.ID, lb.Lightbulb.Brightness.ID
			sub := fmt.Sprintf(`{"characteristics":[{"aid":%d,"iid":%d,"ev":true}]}`, aid, iid)
			if m, err := listener.Do("PUT", "/characteristics", "application/hap+json", []byte(sub)); err != nil || m.Status != 204 {
				c.Violate("verified reference controller cannot subscribe", id, nil, "204", fmt.Sprint(err, m))
				return
			}
			last := lb.Lightbulb.Brightness.GetValue()
			for round := 0; round < 6; round++ {
				n := 2 + r.Intn(3)
				var vals []int
				var entries []string
				for k := 0; k < n; k++ {
					v := r.Intn(101)
					for v == last {
						v = r.Intn(101)
					}
					last = v
					vals = append(vals, v)
					entries = append(entries, fmt.Sprintf(`{"aid":%d,"iid":%d,"value":%d}`, aid, iid, v))
				}
				body := `{"characteristics":[` + strings.Join(entries, ",") + `]}`
				if m, err := writer.Do("PUT", "/characteristics", "application/hap+json", []byte(body)); err != nil || m.Status != 204 {
					c.Violate("PUT of valid values by a verified controller is not accepted", id, body, "204", fmt.Sprint(err, m))
					return
				}
				// fence: the writer's answer is there, so every change has been made; the listener's own request comes
				// back after everything that was written to it before
				for k := 0; k < 2; k++ {
					if _, err := listener.Do("GET", fmt.Sprintf("/characteristics?id=%d.%d", aid, iid), "", nil); err != nil {
						c.Violate("request on an open connection fails", id, body, "fence response", err.Error())
						return
					}
				}
				var got []int
				for _, e := range listener.Events {
					var b struct {
						Characteristics []struct {
							Value float64 `json:"value"`
						} `json:"characteristics"`
					}
					if json.Unmarshal(e.Body, &b) == nil && len(b.Characteristics) == 1 {
						got = append(got, int(b.Characteristics[0].Value))
					}
				}
				listener.Events = nil
				c.Count(fmt.Sprint(id, round, vals), true, "stream:entries", fmt.Sprintf("entries:%d", n))
				if fmt.Sprint(got) != fmt.Sprint(vals) {
					c.Violate("a subscribed controller does not receive one EVENT per change with the value of that change (several changes of one characteristic by one request of another controller)", id,
						map[string]interface{}{"request_of_the_other_controller": body}, fmt.Sprint(vals), fmt.Sprint(got))
					return
				}
			}
		}()
	}
}
