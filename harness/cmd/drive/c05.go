package main

// C05 — any alteration of the encrypted stream is detected.
// Real session pairs; altered streams are built from recipes over the sender's real frames, so the abstraction to
// the model's DFrame (genuine i | forged | truncated) is by construction. Correspondence with HcModel/Framing.lean
// (frame-level `rx`, byte-level `dec` with the ideal-AEAD table) + a direct, model-free oracle:
// what is released is a frame-granular prefix of what was sent, and the call that consumes the first altered
// frame reports an error.

import (
	"io"
	"bytes"
	"fmt"
	"math/rand"
	"strings"

	hccrypto "github.com/brutella/hc/crypto"
)

func init() { register("C05", checkC05) }

// one delivered item of a recipe
type c05Item struct {
	Kind string `json:"kind"` // g | flip | cut | own | other | garbage
	Idx  int    `json:"idx"`  // frame index (sender's, receiver's own, or other session's)
	Arg  int    `json:"arg"`  // flip: bit offset in the frame; cut: bytes kept; garbage: seed
}

type c05Scenario struct {
	id     string
	stream string
	kind   string // alteration kind, part of the violation signature
	role   string // who SENDS: "s" accessory → controller, "c" controller → accessory
	start  uint64
	lens   []int       // plaintext length of each message (one message may give several frames)
	calls  [][]c05Item // nil: planned with planCalls from `flat` (one reader, Decrypt called until it is empty or fails)
	flat   []c05Item
	heavy  bool // byte-level model line only for a sample of these
}

type c05Env struct {
	frames  [][]byte // sender's frames
	chunks  [][]byte
	own     [][]byte // receiver's own frames (same counters, same plaintext): reflection
	other   [][]byte // frames of a session with another shared secret (same counters, same plaintext)
	recv    hccrypto.Cryptographer
	key     []byte
	start   uint64
	counter bool
}

func c05Setup(r *rand.Rand, sc *c05Scenario) *c05Env {
	env := &c05Env{start: sc.start, counter: true}
	pair := newSessPair(r)
	otherPair := newSessPair(r)
	sender, recv, osender := pair.server, pair.client, otherPair.server
	env.key = pair.readKey
	if sc.role == "c" {
		sender, recv, osender = pair.client, pair.server, otherPair.client
		env.key = pair.wrKey
	}
	if sc.start != 0 {
		ok := setCounter(sender, "encryptCount", sc.start) && setCounter(recv, "decryptCount", sc.start) &&
			setCounter(recv, "encryptCount", sc.start) && setCounter(osender, "encryptCount", sc.start)
		if !ok {
			// fall back to fresh sessions
			return c05Setup(r, &c05Scenario{role: sc.role, lens: sc.lens})
		}
	}
	env.recv = recv
	for _, l := range sc.lens {
		payload := randBytes(r, l)
		for which, s := range []hccrypto.Cryptographer{sender, recv, osender} {
			enc, err := hcEncrypt(s, bytes.NewBuffer(append([]byte{}, payload...)))
			if err != nil {
				panic(err)
			}
			for _, ch := range refChunks(payload) {
				n := 2 + len(ch) + 16
				if n > len(enc) {
					n = len(enc)
				}
				f := enc[:n]
				enc = enc[n:]
				switch which {
				case 0:
					env.frames = append(env.frames, f)
					env.chunks = append(env.chunks, ch)
				case 1:
					env.own = append(env.own, f)
				case 2:
					env.other = append(env.other, f)
				}
			}
		}
	}
	return env
}

// evalCall turns the items of one call into bytes and DFrame classes.
func (env *c05Env) evalCall(items []c05Item) (data []byte, classes []string, sizes []int) {
	var bs [][]byte
	for _, it := range items {
		var b []byte
		switch it.Kind {
		case "g", "flip", "cut":
			b = append([]byte{}, env.frames[it.Idx]...)
		case "own":
			b = append([]byte{}, env.own[it.Idx]...)
		case "other":
			b = append([]byte{}, env.other[it.Idx]...)
		case "garbage":
			g := rand.New(rand.NewSource(int64(it.Arg)))
			n := g.Intn(40)
			b = append([]byte{byte(n), 0}, randBytes(g, n+16)...)
		case "noise": // arbitrary bytes: may be shorter or longer than the frame its first two bytes announce
			g := rand.New(rand.NewSource(int64(it.Arg)))
			b = randBytes(g, g.Intn(70))
			if len(b) >= 2 && g.Intn(4) != 0 {
				b[0], b[1] = byte(g.Intn(50)), 0
			}
		}
		switch it.Kind {
		case "flip":
			b[it.Arg/8] ^= 1 << uint(it.Arg%8)
		case "cut":
			b = b[:it.Arg]
		}
		bs = append(bs, b)
	}
	for i, it := range items {
		if len(bs[i]) == 0 {
			continue // nothing on the wire
		}
		cl := "F"
		switch it.Kind {
		case "g":
			cl = fmt.Sprintf("g%d", it.Idx)
		case "cut":
			cl = "T"
		case "noise":
			cl = "N" // classified by the byte-level model only
		case "flip":
			if it.Arg < 16 { // the length field changed: the frame may now extend past the end of the input
				need := int(bs[i][0]) + int(bs[i][1])<<8 + 16
				avail := len(bs[i]) - 2
				for _, b := range bs[i+1:] {
					avail += len(b)
				}
				if avail < need {
					cl = "T"
				}
			}
		}
		classes = append(classes, cl)
		sizes = append(sizes, len(bs[i]))
		data = append(data, bs[i]...)
	}
	return
}

// planCalls: one reader holding all items; Decrypt is called until the reader is empty or a call fails.
// A call ends after the first genuine in-order frame shorter than 1024 bytes.
func (env *c05Env) planCalls(flat []c05Item) [][]c05Item {
	var calls [][]c05Item
	k := 0
	rest := flat
	for len(rest) > 0 {
		calls = append(calls, rest)
		j := 0
		for ; j < len(rest); j++ {
			it := rest[j]
			if it.Kind != "g" || it.Idx != k {
				return calls // this call fails: stop
			}
			k++
			if len(env.chunks[it.Idx]) < 1024 {
				j++
				break
			}
		}
		rest = rest[j:]
	}
	return calls
}

func c05Lens(r *rand.Rand, nframes int, allowFull bool) []int {
	// messages whose frames add up to nframes
	var lens []int
	for nframes > 0 {
		if allowFull && nframes >= 2 && r.Intn(3) == 0 {
			lens = append(lens, 1024+1+r.Intn(40)) // a full frame followed by a short one (one message)
			nframes -= 2
		} else if allowFull && r.Intn(5) == 0 {
			lens = append(lens, 1024) // a message that is exactly one full frame
			nframes--
		} else {
			lens = append(lens, 1+r.Intn(40))
			nframes--
		}
	}
	return lens
}

func permutations(n int) [][]int {
	if n == 0 {
		return [][]int{{}}
	}
	var out [][]int
	for _, p := range permutations(n - 1) {
		for i := 0; i <= len(p); i++ {
			q := append(append(append([]int{}, p[:i]...), n-1), p[i:]...)
			out = append(out, q)
		}
	}
	return out
}

func gItems(idx []int) []c05Item {
	var its []c05Item
	for _, i := range idx {
		its = append(its, c05Item{Kind: "g", Idx: i})
	}
	return its
}

// splitCalls cuts a flat item list into calls: mode 0 = one call, 1 = one frame per call, 2 = random.
func splitCalls(r *rand.Rand, flat []c05Item, mode int) [][]c05Item {
	switch mode {
	case 0:
		return [][]c05Item{flat}
	case 1:
		var cs [][]c05Item
		for _, it := range flat {
			cs = append(cs, []c05Item{it})
		}
		return cs
	}
	var cs [][]c05Item
	for len(flat) > 0 {
		n := 1 + r.Intn(len(flat))
		if r.Intn(2) == 0 && n > 2 {
			n = 1 + r.Intn(2)
		}
		cs = append(cs, flat[:n])
		flat = flat[n:]
	}
	return cs
}

func c05Scenarios(c *Ctx) []c05Scenario {
	var scs []c05Scenario
	add := func(s c05Scenario) { scs = append(scs, s) }
	g := func(i int) c05Item { return c05Item{Kind: "g", Idx: i} }

	// ---- corpus: witnesses of F4 / F4b and the attack patterns of DESIGN.md §6 C05
	add(c05Scenario{id: "corpus#F4-forged-then-next", stream: "corpus", kind: "bit flip, then the sender's next frame", role: "s", lens: []int{4, 3},
		calls: [][]c05Item{{{Kind: "flip", Idx: 0, Arg: 20}}, {g(1)}}})
	add(c05Scenario{id: "corpus#F4-dropped-frame", stream: "corpus", kind: "dropped frame", role: "c", lens: []int{4, 3},
		calls: [][]c05Item{{g(1)}, {g(1)}, {g(0)}, {g(1)}}})
	add(c05Scenario{id: "corpus#F4b-good-then-forged-in-one-call", stream: "corpus", kind: "bit flip behind a full frame, then the sender's next frame", role: "s", lens: []int{1024 + 5},
		calls: [][]c05Item{{g(0), {Kind: "flip", Idx: 1, Arg: 30}}, {g(1)}, {g(0), g(1)}}})
	add(c05Scenario{id: "corpus#F4b-truncated-tail-then-rest", stream: "corpus", kind: "truncation behind a full frame, then the rest", role: "c", lens: []int{2048 + 9},
		calls: [][]c05Item{{g(0), g(1), {Kind: "cut", Idx: 2, Arg: 11}}, {g(2)}}})
	add(c05Scenario{id: "corpus#reflection", stream: "corpus", kind: "cross-direction replay", role: "s", lens: []int{10, 10},
		calls: [][]c05Item{{{Kind: "own", Idx: 0}}, {g(0)}, {{Kind: "own", Idx: 1}}, {g(1)}}})
	add(c05Scenario{id: "corpus#replay", stream: "corpus", kind: "replay", role: "s", lens: []int{10, 10},
		calls: [][]c05Item{{g(0)}, {g(0)}, {g(1)}, {g(0)}, {g(1)}}})
	add(c05Scenario{id: "corpus#counter-wrap", stream: "corpus", kind: "replay", role: "s", start: 1<<64 - 1, lens: []int{10, 10},
		calls: [][]c05Item{{g(0)}, {g(0)}, {g(1)}}})

	// ---- bit flips: every bit (thorough) / one random bit per byte (quick) of streams of 1..3 short frames
	nStreams := c.Pick(36, 120)
	for si := 0; si < nStreams; si++ {
		r := c.CaseRng("flip-stream", si)
		nf := 1 + si%3
		lens := c05Lens(r, nf, false)
		role := "sc"[si%2:][:1]
		start := uint64(0)
		if si%4 == 3 {
			start = pickCounter(r)
		}
		off := 0
		for fi := 0; fi < nf; fi++ {
			flen := 2 + lens[fi] + 16
			for by := 0; by < flen; by++ {
				bits := []int{r.Intn(8)}
				if c.Thorough() {
					bits = []int{0, 1, 2, 3, 4, 5, 6, 7}
				}
				for _, bit := range bits {
					var flat []c05Item
					for j := 0; j < nf; j++ {
						if j == fi {
							flat = append(flat, c05Item{Kind: "flip", Idx: j, Arg: by*8 + bit})
						} else {
							flat = append(flat, g(j))
						}
					}
					kind := "bit flip in the ciphertext"
					if by < 2 {
						kind = "bit flip in the length field"
					} else if by >= flen-16 {
						kind = "bit flip in the tag"
					}
					add(c05Scenario{id: fmt.Sprintf("flip#%d.%d.%d", si, off+by, bit), stream: "flip", kind: kind, role: role, start: start, lens: lens, flat: flat})
				}
			}
			off += flen
		}
	}
	// bit flips behind / inside full frames (several frames per call)
	for i := 0; i < c.Pick(200, 2000); i++ {
		r := c.CaseRng("flip-full", i)
		lens := []int{1024*(1+r.Intn(2)) + r.Intn(30)}
		nf := len(refChunks(make([]byte, lens[0])))
		fi := r.Intn(nf)
		flen := 2 + 16 + 1024
		if fi == nf-1 && lens[0]%1024 != 0 {
			flen = 2 + 16 + lens[0]%1024
		}
		var by int
		switch r.Intn(4) {
		case 0:
			by = r.Intn(2)
		case 1:
			by = flen - 1 - r.Intn(16)
		default:
			by = r.Intn(flen)
		}
		var flat []c05Item
		for j := 0; j < nf; j++ {
			if j == fi {
				flat = append(flat, c05Item{Kind: "flip", Idx: j, Arg: by*8 + r.Intn(8)})
			} else {
				flat = append(flat, g(j))
			}
		}
		add(c05Scenario{id: c.CaseID("flip-full", i), stream: "flip-full", kind: "bit flip in a multi-frame message", role: "sc"[i%2:][:1], lens: lens, flat: flat, heavy: true})
	}

	// ---- every permutation / duplication / deletion of <= 5 frames, in three call splittings
	for n := 1; n <= 5; n++ {
		for pi, p := range permutations(n) {
			for mode := 0; mode < 3; mode++ {
				if n == 5 && !c.Thorough() && (pi+mode)%3 != 0 {
					continue
				}
				r := c.CaseRng(fmt.Sprintf("perm-%d-%d", n, mode), pi)
				flat := gItems(p)
				add(c05Scenario{id: fmt.Sprintf("perm#%d.%d.%d", n, pi, mode), stream: "perm", kind: "reordered frames", role: "sc"[(pi+n)%2:][:1],
					lens: c05Lens(r, n, false), calls: splitCalls(r, flat, mode)})
			}
		}
		id := make([]int, n)
		for i := range id {
			id[i] = i
		}
		for i := 0; i < n; i++ {
			for mode := 0; mode < 3; mode++ {
				r := c.CaseRng(fmt.Sprintf("del-%d-%d", n, mode), i)
				del := append(append([]int{}, id[:i]...), id[i+1:]...)
				full := n >= 2 && i%2 == 0
				add(c05Scenario{id: fmt.Sprintf("del#%d.%d.%d", n, i, mode), stream: "del", kind: "dropped frame", role: "sc"[i%2:][:1],
					lens: c05Lens(r, n, full), calls: splitCalls(r, gItems(del), mode), heavy: full})
				for j := 0; j <= n; j++ {
					dup := append(append(append([]int{}, id[:j]...), i), id[j:]...)
					r := c.CaseRng(fmt.Sprintf("dup-%d-%d-%d", n, mode, i), j)
					add(c05Scenario{id: fmt.Sprintf("dup#%d.%d.%d.%d", n, i, j, mode), stream: "dup", kind: "duplicated / replayed frame", role: "sc"[j%2:][:1],
						lens: c05Lens(r, n, false), calls: splitCalls(r, gItems(dup), mode)})
				}
			}
		}
	}

	// ---- cross-direction and cross-session replay at every position
	for n := 1; n <= 4; n++ {
		for pos := 0; pos <= n; pos++ {
			for src := 0; src < n; src++ {
				for ki, kind := range []string{"own", "other"} {
					for mode := 0; mode < 3; mode++ {
						r := c.CaseRng(fmt.Sprintf("cross-%d-%d-%d-%d", n, pos, src, ki), mode)
						id := make([]int, n)
						for i := range id {
							id[i] = i
						}
						flat := gItems(id)
						flat = append(append(append([]c05Item{}, flat[:pos]...), c05Item{Kind: kind, Idx: src}), flat[pos:]...)
						name := "cross-direction replay"
						if kind == "other" {
							name = "cross-session replay"
						}
						start := uint64(0)
						if mode == 2 {
							start = pickCounter(r)
						}
						add(c05Scenario{id: fmt.Sprintf("cross#%d.%d.%d.%s.%d", n, pos, src, kind, mode), stream: "cross", kind: name, role: "sc"[(pos+src)%2:][:1],
							start: start, lens: c05Lens(r, n, false), calls: splitCalls(r, flat, mode)})
					}
				}
			}
		}
	}

	// ---- truncation at every offset (one reader, Decrypt called until empty / error)
	for si := 0; si < c.Pick(12, 60); si++ {
		r := c.CaseRng("trunc-stream", si)
		nf := 1 + si%3
		lens := c05Lens(r, nf, false)
		for fi := 0; fi < nf; fi++ {
			flen := 2 + lens[fi] + 16
			for keep := 0; keep < flen; keep++ {
				flat := gItems(seq(fi))
				if keep > 0 {
					flat = append(flat, c05Item{Kind: "cut", Idx: fi, Arg: keep})
				}
				add(c05Scenario{id: fmt.Sprintf("trunc#%d.%d.%d", si, fi, keep), stream: "trunc", kind: "truncation", role: "sc"[si%2:][:1], lens: lens, flat: flat})
			}
		}
	}
	for i := 0; i < c.Pick(150, 1500); i++ { // inside multi-frame messages
		r := c.CaseRng("trunc-full", i)
		total := 1024*(1+r.Intn(3)) + []int{0, 0, 1, 7, 500}[r.Intn(5)]
		nf := len(refChunks(make([]byte, total)))
		fi := r.Intn(nf)
		flen := 2 + 16 + len(refChunks(make([]byte, total))[fi])
		keep := []int{0, 1, 2, 3, flen - 17, flen - 16, flen - 15, flen - 1, r.Intn(flen)}[r.Intn(9)]
		flat := gItems(seq(fi))
		if keep > 0 {
			flat = append(flat, c05Item{Kind: "cut", Idx: fi, Arg: keep})
		}
		add(c05Scenario{id: c.CaseID("trunc-full", i), stream: "trunc-full", kind: "truncation inside a multi-frame message", role: "sc"[i%2:][:1], lens: []int{total}, flat: flat, heavy: true})
	}

	// ---- random deliveries, several calls, continuing after errors
	for i := 0; i < c.Pick(8000, 120000); i++ {
		r := c.CaseRng("mixed", i)
		n := 1 + r.Intn(5)
		full := r.Intn(4) == 0
		lens := c05Lens(r, n, full)
		var flat []c05Item
		next := 0
		for j := 0; j < 1+r.Intn(8); j++ {
			switch x := r.Intn(12); {
			case x < 6 && next < n:
				flat = append(flat, g(next))
				next++
			case x == 6:
				flat = append(flat, g(r.Intn(n)))
			case x == 7:
				flat = append(flat, c05Item{Kind: "own", Idx: r.Intn(n)})
			case x == 8:
				flat = append(flat, c05Item{Kind: "other", Idx: r.Intn(n)})
			case x == 9:
				flat = append(flat, c05Item{Kind: "garbage", Arg: r.Intn(1 << 30)})
			case x == 10:
				flat = append(flat, c05Item{Kind: "flip", Idx: r.Intn(n), Arg: 16 + r.Intn(8*17)})
			default:
				if next < n {
					flat = append(flat, g(next)) // keep the stream mostly valid
					next++
				}
			}
		}
		calls := splitCalls(r, flat, 2)
		if r.Intn(5) == 0 && len(calls) > 0 { // a cut frame can only end a call's input
			last := calls[len(calls)-1]
			calls[len(calls)-1] = append(append([]c05Item{}, last...), c05Item{Kind: "cut", Idx: r.Intn(n), Arg: 1 + r.Intn(17)})
		}
		start := uint64(0)
		if r.Intn(3) == 0 {
			start = pickCounter(r)
		}
		add(c05Scenario{id: c.CaseID("mixed", i), stream: "mixed", kind: "mixed alterations over several calls", role: "sc"[r.Intn(2):][:1], start: start, lens: lens, calls: calls, heavy: full})
	}
	// ---- malformed stream: noise and noise behind plausible headers, to a session that has been sent real frames
	for i := 0; i < c.Pick(1500, 15000); i++ {
		r := c.CaseRng("noise", i)
		var flat []c05Item
		lens := []int{1 + r.Intn(30)}
		if r.Intn(3) == 0 { // a genuine full frame first: the call goes on into the noise
			flat = append(flat, g(0))
			lens = []int{1024}
		}
		for j := 0; j < 1+r.Intn(3); j++ {
			flat = append(flat, c05Item{Kind: "noise", Arg: r.Intn(1 << 30)})
		}
		add(c05Scenario{id: c.CaseID("noise", i), stream: "noise", kind: "noise", role: "sc"[i%2:][:1], lens: lens, calls: [][]c05Item{flat}})
	}
	return scs
}

func seq(n int) []int {
	s := make([]int, n)
	for i := range s {
		s[i] = i
	}
	return s
}

func checkC05(c *Ctx) {
	c.SetRule("one case = one fresh session pair, a sender history (1..5 frames in 1..5 messages) and a delivery recipe split into Decrypt calls. " +
		"non-trivial = the delivery contains at least one altered / out-of-order frame or a truncation. distinct = distinct (recipe, lengths, split) lines. " +
		"Every case is checked by the direct oracle (released = frame-granular prefix; error at the first altered frame) and against the frame-level " +
		"model; the byte-level model with the ideal-AEAD table runs on all small cases and a sample of the large ones")
	c.Assume("AEAD idealisation: a frame opens under the receiver's key and counter only if it is the frame sealed under that key with that counter (exercised on the real primitive by the bit-flip, cross-direction and cross-session streams)")
	c.Assume("fewer than 2^64 frames per direction (the counter wraps; hc and the HAP specification share this limit)")

	c05Alias(c)
	c05Inject(c)
	c03Handover(c)     // foreign bytes at every point of the hand-over, incl. while the answer is on its way to the socket
	gatedDecrypt(c, "C05")
	cutInsideFrame(c, "C05")
	forgedFrameOnConnection(c, "C05")
	forgedFrameVsModel(c, "C05")
	c03PlainFraming(c) // where a plaintext request ends decides what an adversary can glue behind the pair-verify finish
	scs := c05Scenarios(c)
	const block = 2000
	counterAccess := true
	for b0 := 0; b0 < len(scs); b0 += block {
		b1 := b0 + block
		if b1 > len(scs) {
			b1 = len(scs)
		}
		type pending struct {
			sc             *c05Scenario
			rxLine, rxImpl string
			rxOK           bool
			decLine        string
			decImpl        string
			chunks         [][]byte
			outs           []string // real per-call result for rx comparison
			released       [][]byte
		}
		var pend []*pending
		var lines []string
		for si := b0; si < b1; si++ {
			sc := &scs[si]
			if c.Skip(sc.id) {
				continue
			}
			r := c.CaseRng("run-"+sc.id, 0)
			var env *c05Env
			p := &pending{sc: sc}
			var rxCalls, decStreams, decRes []string
			altered := false
			msg, pan := safely(func() {
				env = c05Setup(r, sc)
				if env.start != sc.start {
					counterAccess = false
				}
				calls := sc.calls
				if calls == nil {
					calls = env.planCalls(sc.flat)
				}
				if len(calls) == 0 {
					calls = [][]c05Item{{}} // nothing delivered: one call on an empty reader
				}
				in := map[string]interface{}{"sender": sc.role, "start_counter": env.start, "message_lengths": sc.lens, "calls": calls, "alteration": sc.kind}
				k := 0          // direct oracle: number of chunks released so far
				failed := false // an error has been reported earlier in this scenario
				for ci, items := range calls {
					data, classes, sizes := env.evalCall(items)
					rxCalls = append(rxCalls, strings.Join(classes, " "))
					decStreams = append(decStreams, hx(data))
					out, left, err := hcDecrypt(env.recv, bytes.NewReader(data))
					if err == io.EOF {
						// Decrypt returns a nil error at the end of the data; io.EOF as its error means the data ended inside a frame
						c.Violate("Decrypt reports data that end inside a frame as the plain end of the data (io.EOF, not io.ErrUnexpectedEOF)", sc.id,
							map[string]interface{}{"scenario": in, "call": ci, "delivered": classes}, "io.ErrUnexpectedEOF", "io.EOF")
					}
					// ---- direct oracle (model-free): walk the call's frames
					wantErr := false
					var want []byte
					kk := k
					for j, cl := range classes {
						if cl != fmt.Sprintf("g%d", kk) {
							wantErr = true
							break
						}
						want = append(want, env.chunks[kk]...)
						short := len(env.chunks[kk]) < 1024
						kk++
						if short {
							_ = j
							break
						}
					}
					for _, cl := range classes {
						if !strings.HasPrefix(cl, "g") {
							altered = true
						}
					}
					inCall := map[string]interface{}{"scenario": in, "call": ci, "delivered": classes}
					if wantErr {
						altered = true
						if err == nil {
							c.Violate("Decrypt reports no error for an altered stream ("+sc.kind+")", sc.id, inCall, "error", "ok "+trunc(hx(out), 200))
						}
						if len(out) > 0 {
							c.Violate("Decrypt releases plaintext of a call that consumed an altered frame ("+sc.kind+")", sc.id, inCall, "nothing", trunc(hx(out), 200))
						}
					} else if err == nil {
						if !bytes.Equal(out, want) {
							c.Violate("released plaintext is not the next frames of what the peer sent ("+sc.kind+")", sc.id, inCall, trunc(hx(want), 200), trunc(hx(out), 200))
						}
					} else if !failed {
						c.Violate("Decrypt rejects unaltered in-order frames", sc.id, inCall, "ok "+trunc(hx(want), 200), "error "+err.Error())
					}
					if err != nil {
						failed = true
					}
					if err == nil && !wantErr {
						k = kk
					}
					// canonical forms
					if err != nil {
						cl := decErrClass(err)
						decRes = append(decRes, "err "+cl)
						if cl == "eof" || cl == "unexpected" {
							cl = "short"
						}
						p.outs = append(p.outs, "err "+cl)
						p.released = append(p.released, nil)
					} else {
						restFrames := -1
						acc := 0
						for j := len(sizes); j >= 0; j-- {
							if acc == left {
								restFrames = len(sizes) - j
								break
							}
							if j > 0 {
								acc += sizes[j-1]
							}
						}
						p.outs = append(p.outs, fmt.Sprintf("ok rest=%d", restFrames))
						p.released = append(p.released, out)
						decRes = append(decRes, fmt.Sprintf("ok %s rest=%d", hx(out), left))
					}
					if dc, ok := getCounter(env.recv, "decryptCount"); ok {
						decRes[len(decRes)-1] = strings.Replace(decRes[len(decRes)-1], " rest=", fmt.Sprintf(" cnt=%d rest=", dc), 1)
						if err != nil {
							decRes[len(decRes)-1] += fmt.Sprintf(" cnt=%d", dc)
						}
					} else {
						counterAccess = false
					}
				}
			})
			if pan {
				c.Violate("Decrypt panics on an altered stream ("+sc.kind+")", sc.id, sc.id, "error", msg)
				continue
			}
			var lens []string
			for _, ch := range env.chunks {
				lens = append(lens, fmt.Sprint(len(ch)))
			}
			p.chunks = env.chunks
			p.rxLine = fmt.Sprintf("frame rx 0 %s | %s", strings.Join(lens, " "), strings.Join(rxCalls, " / "))
			if strings.Contains(p.rxLine, "N") {
				p.rxLine = ""
			} else {
				lines = append(lines, p.rxLine)
			}
			if !sc.heavy || si%8 == 0 || p.rxLine == "" {
				var tbl []string
				for i, f := range env.frames {
					tbl = append(tbl, fmt.Sprintf("%s.%s.%s.%s", hx(frNonce(env.start+uint64(i))), hx(f[:2]), hx(f[2:]), hx(env.chunks[i])))
				}
				p.decLine = fmt.Sprintf("frame dec %d %s | %s", env.start, strings.Join(tbl, " "), strings.Join(decStreams, " "))
				p.decImpl = strings.Join(decRes, " | ")
				lines = append(lines, p.decLine)
			}
			pend = append(pend, p)
			c.Count(fmt.Sprintf("%s|%s|%v|%d", sc.id[:strings.Index(sc.id, "#")+1]+strings.Join(rxCalls, "/"), strings.Join(lens, ","), sc.role, env.start), altered, "stream:"+sc.stream, "kind:"+sc.kind,
				fmt.Sprintf("frames=%d", len(env.chunks)), fmt.Sprintf("calls<=%d", bucketOf(len(rxCalls), 1, 2, 3, 5, 9)), "counter:"+counterClass(env.start))
			c.Trace()
		}
		ans := c.Model(lines)
		k := 0
		for _, p := range pend {
			if p.rxLine == "" {
				m := ans[k]
				k++
				if counterAccess {
					m = modCnt(m)
				} else {
					m = stripCnt(m)
					p.decImpl = stripCnt(p.decImpl)
				}
				sameLong(c, "dec", p.sc.id, p.decLine, m, p.decImpl)
				continue
			}
			a := ans[k]
			k++
			// model: "ok 0,1 rest=1 | err auth | cnt=2"; turn indices into bytes and compare with what was really released
			parts := strings.Split(a, " | ")
			var mcan, ican []string
			okParse := len(parts) == len(p.outs)+1
			if okParse {
				for ci, part := range parts[:len(parts)-1] {
					f := strings.Fields(part)
					if len(f) == 3 && f[0] == "ok" {
						var b []byte
						if f[1] != "-" {
							for _, t := range strings.Split(f[1], ",") {
								var i int
								fmt.Sscan(t, &i)
								if i < len(p.chunks) {
									b = append(b, p.chunks[i]...)
								}
							}
						}
						mcan = append(mcan, "ok "+hx(b)+" "+f[2])
					} else {
						mcan = append(mcan, part)
					}
					if strings.HasPrefix(p.outs[ci], "ok") {
						ican = append(ican, "ok "+hx(p.released[ci])+strings.TrimPrefix(p.outs[ci], "ok"))
					} else {
						ican = append(ican, p.outs[ci])
					}
				}
			}
			if !okParse {
				c.Mismatch("rx", p.sc.id, trunc(p.rxLine, 500), trunc(a, 300), strings.Join(p.outs, " | "))
			} else {
				sameLong(c, "rx", p.sc.id, p.rxLine, strings.Join(mcan, " | "), strings.Join(ican, " | "))
			}
			if len(c.samples) < 5 && len(p.rxLine) < 200 && strings.Contains(a, "err") {
				c.Sample(p.sc.kind + ": " + p.rxLine + "  =>  " + a)
			}
			if p.decLine != "" {
				m := ans[k]
				k++
				if counterAccess {
					m = modCnt(m)
				} else {
					m = stripCnt(m)
					p.decImpl = stripCnt(p.decImpl)
				}
				sameLong(c, "dec", p.sc.id, p.decLine, m, p.decImpl)
			}
		}
	}
	c.Extra("counter_access_by_reflection", counterAccess)
	c.Extra("scenarios", len(scs))
}

// c05Alias: replay of a recorded frame at a position whose counter differs from the frame's own by a power of two
// (or by any multiple of 2^32, 2^16, …). The nonce is the full 64-bit counter, so the frame must be rejected at every
// such position — a nonce built from fewer bits would accept it again after the counter has advanced that far.
// Counters are installed by reflection (a session can only reach them by sending that many frames).
func c05Alias(c *Ctx) {
	offs := []uint64{1 << 8, 1 << 16, 1 << 24, 1 << 31, 1 << 32, 3 << 32, 1 << 40, 1 << 48, 1 << 56, 1 << 63}
	n := 0
	for i := 0; i < c.Pick(6, 60); i++ {
		r := c.CaseRng("alias", i)
		base := uint64(r.Intn(1000))
		if i%3 == 1 {
			base = r.Uint64() >> uint(r.Intn(40))
		}
		for _, off := range offs {
			id := fmt.Sprintf("alias#%d.%d", i, off)
			if c.Skip(id) {
				continue
			}
			pair := newSessPair(r)
			if !(setCounter(pair.client, "encryptCount", base) && setCounter(pair.server, "decryptCount", base+off)) {
				c.Hist("alias:counter-fields-not-accessible")
				return
			}
			payload := randBytes(r, 1+r.Intn(60))
			frame, err := hcEncrypt(pair.client, bytes.NewReader(payload))
			if err != nil {
				c.Violate("Encrypt returns an error for a well-behaved reader", id, hx(payload), "nil", err.Error())
				continue
			}
			in := map[string]interface{}{"frame_sealed_at_counter": base, "delivered_at_counter": base + off, "offset": off}
			out, _, derr := hcDecrypt(pair.server, bytes.NewReader(frame))
			if derr == nil || len(out) > 0 {
				c.Violate("Decrypt reports no error for an altered stream (frame replayed at a position whose counter differs by a power of two)", id, in,
					"authentication error", fmt.Sprintf("released %d bytes", len(out)))
			}
			// the same payload sealed at the two counters must not give the same frame
			setCounter(pair.client, "encryptCount", base+off)
			frame2, _ := hcEncrypt(pair.client, bytes.NewReader(payload))
			if bytes.Equal(frame, frame2) {
				c.Violate("two frames with different counters are sealed under the same nonce", id, in, "different ciphertexts", "identical")
			}
			c.Count(id, true, "stream:alias")
			n++
		}
	}
	c.Extra("alias_positions_checked", n)
}
