package main

import (
	"encoding/json"
	"flag"
	"fmt"
	"io/ioutil"
	"os"
	"path/filepath"
	"sort"
	"strconv"
	"time"

	hclog "github.com/brutella/hc/log"
)

func main() {
	prop := flag.String("prop", "", "property id (C01..C20)")
	tier := flag.String("tier", "quick", "quick|thorough")
	seedF := flag.Int64("seed", -1, "seed (default: $VERIF_SEED or 1)")
	only := flag.String("only", "", "run only this case id (replay)")
	replay := flag.String("replay", "", "replay file written by an earlier run")
	verif := flag.String("verif", "/verif", "verification directory")
	repo := flag.String("repo", "/repo", "repository under test")
	lean := flag.String("lean", "", "path of the compiled Lean model driver")
	proof := flag.String("proof-info", "", "JSON file describing the proof build (written by ./check)")
	list := flag.Bool("list", false, "list registered properties")
	serve := flag.String("serve", "", "internal: run a switch accessory on this storage directory in this process, print its port, serve until stdin closes")
	flag.Parse()

	if *serve != "" {
		serveAccessory(*serve)
		return
	}
	if *list {
		var ids []string
		for k := range registry {
			ids = append(ids, k)
		}
		sort.Strings(ids)
		for _, k := range ids {
			fmt.Println(k)
		}
		return
	}
	seed := *seedF
	if *replay != "" {
		b, err := ioutil.ReadFile(*replay)
		if err != nil {
			fatal("%v", err)
		}
		var r struct {
			Property string `json:"property"`
			Seed     int64  `json:"seed"`
			Tier     string `json:"tier"`
			Case     string `json:"case"`
		}
		if err := json.Unmarshal(b, &r); err != nil {
			fatal("%v", err)
		}
		*prop, seed, *tier, *only = r.Property, r.Seed, r.Tier, r.Case
	}
	if seed < 0 {
		seed = 1
		if s := os.Getenv("VERIF_SEED"); s != "" {
			if v, err := strconv.ParseInt(s, 10, 64); err == nil {
				seed = v
			}
		}
	}
	fn, ok := registry[*prop]
	if !ok {
		fatal("unknown property %q", *prop)
	}
	if *lean == "" {
		*lean = filepath.Join(*verif, "lean/.lake/build/bin/hcmodel")
	}
	pi := &proofInfo{BuildOK: true}
	if *proof != "" {
		b, err := ioutil.ReadFile(*proof)
		if err != nil {
			fatal("%v", err)
		}
		if err := json.Unmarshal(b, pi); err != nil {
			fatal("proof-info: %v", err)
		}
	}
	c := &Ctx{
		Prop: *prop, Tier: *tier, Seed: seed, Only: *only, VerifDir: *verif, Repo: *repo,
		leanPath: *lean,
		distinct: map[string]bool{}, nontrivial: map[string]bool{}, hist: map[string]int{},
		knownHit: map[string]bool{}, extra: map[string]interface{}{},
		known: loadKnown(*verif), start: time.Now(),
	}
	if os.Getenv("HC_LOG") == "" {
		hclog.Info.Disable()
	} else if os.Getenv("HC_LOG") == "2" {
		hclog.Debug.Enable()
	}
	// watchdog: a check that does not come back (the code under test wedged the harness) is a finding, not a hang
	limit := 15 * time.Minute
	if c.Thorough() {
		limit = 90 * time.Minute
	}
	go func() {
		time.Sleep(limit)
		rp := filepath.Join(c.VerifDir, "replays", fmt.Sprintf("%s-%d-broken-obligation.json", c.Prop, c.Seed))
		os.MkdirAll(filepath.Dir(rp), 0755)
		b, _ := json.Marshal(map[string]interface{}{"property": c.Prop, "kind": "broken-obligation", "seed": c.Seed, "tier": c.Tier,
			"theorem_or_stream": fmt.Sprintf("the correspondence run did not finish within %v (the code under test blocks)", limit)})
		ioutil.WriteFile(rp, b, 0644)
		fmt.Printf("VIOLATION property=%s replay=%s no-failing-input-found\n", c.Prop, rp)
		os.Exit(1)
	}()
	fn(c)
	code := c.finish(pi)
	cleanup()
	os.Exit(code)
}
