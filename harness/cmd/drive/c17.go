package main

// C17 — struct TLV8 marshalling (tlv8.Marshal / tlv8.Unmarshal, used by rtp/*.go):
// correspondence with HcModel/Tlv8Struct.lean + direct oracles (reference encoder, round trip, no panic).

import (
	"bytes"
	"fmt"
	"io"
	"math"
	"math/rand"
	"reflect"
	"sort"
	"strconv"
	"strings"
	"time"

	"github.com/brutella/hc/rtp"
	"github.com/brutella/hc/tlv8"

	"hcverif/harness/internal/tlvsty"
)

func init() { register("C17", checkC17) }

// ---------------------------------------------------------------- synthetic Go types (every kind, nesting, both list forms)

type synScalars struct {
	A       uint8   `tlv8:"1"`
	B       uint16  `tlv8:"2"`
	C       uint32  `tlv8:"3"`
	D       uint64  `tlv8:"4"`
	E       int16   `tlv8:"5"`
	F       int32   `tlv8:"6"`
	G       int64   `tlv8:"7"`
	H       float32 `tlv8:"8"`
	I       bool    `tlv8:"9"`
	J       string  `tlv8:"10"`
	L       int8    `tlv8:"11"`
	M       uint16  `tlv8:"12,optional"` // options behind the tag (F72)
	Skipped uint32  // no tag: ignored by the library
	K       []byte  `tlv8:"255"`
}
type synOne struct {
	V uint8 `tlv8:"7"`
}
type synOneStr struct {
	S string `tlv8:"8"`
}
type synPair struct {
	X uint16 `tlv8:"1"`
	Y []byte `tlv8:"2"`
}
type synOneStruct struct {
	P synPair `tlv8:"9"`
}
type synElem struct {
	Id   uint8     `tlv8:"1"`
	Name string    `tlv8:"2"`
	Data []byte    `tlv8:"3"`
	Sub  synPair   `tlv8:"4"`
	Subs []synPair `tlv8:"5"`
}
type synLists struct {
	Head    uint8          `tlv8:"1"`
	Named   []synElem      `tlv8:"2"`
	Ones    []synOne       `tlv8:"-"`
	Strs    []synOneStr    `tlv8:"-"`
	Structs []synOneStruct `tlv8:"-"`
	Pairs   []synPair      `tlv8:"3"`
	Tail    int64          `tlv8:"4"`
}
type synNested struct {
	A synScalars `tlv8:"1"`
	B synLists   `tlv8:"2"`
	C synPair    `tlv8:"0"`
}
type synI64 struct {
	V int64 `tlv8:"1"`
}
type synF32 struct {
	V float32 `tlv8:"2"`
}
type synBytesElem struct {
	B []byte `tlv8:"1"`
}
type synTagged struct {
	Es []synBytesElem `tlv8:"5"`
}

// shapes excluded by WF (run on the real code and reported in the evidence)
type synDupTags struct {
	A uint8  `tlv8:"1"`
	B uint16 `tlv8:"1"`
}
type synPairU struct {
	X uint8 `tlv8:"1"`
	Y uint8 `tlv8:"2"`
}
type synInlineMulti struct {
	L []synPairU `tlv8:"-"`
}
type synInlineClash struct {
	A uint8    `tlv8:"7"`
	L []synOne `tlv8:"-"`
}
type synHasList struct {
	Vs []synOne `tlv8:"1"`
}
type synInlineOfList struct {
	L []synHasList `tlv8:"-"`
}

type tlvsType struct {
	name string
	src  string // rtp | syn | excluded | rand
	t    reflect.Type
	ty   *tlvsty.Ty
}

func mustTy(name, src string, v interface{}) tlvsType {
	t := reflect.TypeOf(v)
	ty, err := tlvsty.Of(t)
	if err != nil {
		fatal("C17: %v", err)
	}
	return tlvsType{name, src, t, ty}
}

// ---------------------------------------------------------------- independent re-statements of WF, the wire format, printing

func tyIsList(t *tlvsty.Ty) bool { return t.Kind == "L" || t.Kind == "I" }

func ownTagOf(f tlvsty.Field) int {
	if f.Ty.Kind == "I" && len(f.Ty.Fields) == 1 {
		return int(f.Ty.Fields[0].Tag)
	}
	return int(f.Tag)
}

// wfTyGo: why a type is outside the domain of the round-trip theorem ("" = inside).
func wfTyGo(t *tlvsty.Ty) string {
	switch t.Kind {
	case "S", "L":
		seen := map[int]bool{}
		for _, f := range t.Fields {
			if r := wfTyGo(f.Ty); r != "" {
				return r
			}
		}
		for _, f := range t.Fields {
			if seen[ownTagOf(f)] {
				return "duplicate-tag"
			}
			seen[ownTagOf(f)] = true
		}
	case "I":
		if len(t.Fields) != 1 {
			return "inline-multi-field"
		}
		if tyIsList(t.Fields[0].Ty) {
			return "inline-of-list"
		}
		return wfTyGo(t.Fields[0].Ty)
	}
	return ""
}

// wfValGo: a list element that encodes to nothing is outside the domain.
func wfValGo(t *tlvsty.Ty, v reflect.Value) string {
	switch t.Kind {
	case "S":
		for _, f := range t.Fields {
			if r := wfValGo(f.Ty, v.Field(f.Index)); r != "" {
				return r
			}
		}
	case "L", "I":
		for i := 0; i < v.Len(); i++ {
			e := v.Index(i)
			for _, f := range t.Fields {
				if r := wfValGo(f.Ty, e.Field(f.Index)); r != "" {
					return r
				}
			}
			if len(refFields(t.Fields, e)) == 0 {
				return "empty-list-element"
			}
		}
	}
	return ""
}

// refTlv / refFields: the harness's own encoder of the wire format (independent of hc and of the model).
func refTlv(tag byte, v []byte) []byte {
	var b []byte
	for len(v) > 0 {
		n := len(v)
		if n > 255 {
			n = 255
		}
		b = append(b, tag, byte(n))
		b = append(b, v[:n]...)
		v = v[n:]
	}
	return b
}

func leBytes(x uint64, n int) []byte {
	b := make([]byte, n)
	for i := 0; i < n; i++ {
		b[i] = byte(x >> (8 * uint(i)))
	}
	return b
}

func refFields(fs []tlvsty.Field, v reflect.Value) []byte {
	var out []byte
	for _, f := range fs {
		fv := v.Field(f.Index)
		switch f.Ty.Kind {
		case "u8":
			out = append(out, refTlv(f.Tag, leBytes(fv.Uint(), 1))...)
		case "u16":
			out = append(out, refTlv(f.Tag, leBytes(fv.Uint(), 2))...)
		case "u32":
			out = append(out, refTlv(f.Tag, leBytes(fv.Uint(), 4))...)
		case "u64":
			out = append(out, refTlv(f.Tag, leBytes(fv.Uint(), 8))...)
		case "i8":
			out = append(out, refTlv(f.Tag, leBytes(uint64(fv.Int()), 1))...)
		case "i16":
			out = append(out, refTlv(f.Tag, leBytes(uint64(fv.Int()), 2))...)
		case "i32":
			out = append(out, refTlv(f.Tag, leBytes(uint64(fv.Int()), 4))...)
		case "i64":
			out = append(out, refTlv(f.Tag, leBytes(uint64(fv.Int()), 8))...)
		case "f32":
			out = append(out, refTlv(f.Tag, leBytes(uint64(math.Float32bits(float32(fv.Float()))), 4))...)
		case "bool":
			if fv.Bool() {
				out = append(out, f.Tag, 1, 1)
			} else {
				out = append(out, f.Tag, 1, 0)
			}
		case "str":
			out = append(out, refTlv(f.Tag, []byte(fv.String()))...)
		case "bytes":
			out = append(out, refTlv(f.Tag, fv.Bytes())...)
		case "S":
			out = append(out, refTlv(f.Tag, refFields(f.Ty.Fields, fv))...)
		case "L", "I":
			for i := 0; i < fv.Len(); i++ {
				if i > 0 {
					out = append(out, 0, 0)
				}
				e := refFields(f.Ty.Fields, fv.Index(i))
				if f.Ty.Kind == "I" {
					out = append(out, e...)
				} else {
					out = append(out, refTlv(f.Tag, e)...)
				}
			}
		}
	}
	return out
}

// showFields prints a struct value in the model's untyped form (nil and empty slices print alike).
func showFields(fs []tlvsty.Field, v reflect.Value) string {
	var sb strings.Builder
	sb.WriteString("( ")
	for _, f := range fs {
		fv := v.Field(f.Index)
		switch f.Ty.Kind {
		case "u8", "u16", "u32", "u64":
			sb.WriteString(strconv.FormatUint(fv.Uint(), 10))
		case "i8", "i16", "i32", "i64":
			sb.WriteString(strconv.FormatInt(fv.Int(), 10))
		case "f32":
			sb.WriteString(strconv.FormatUint(uint64(math.Float32bits(float32(fv.Float()))), 10))
		case "bool":
			if fv.Bool() {
				sb.WriteString("t")
			} else {
				sb.WriteString("f")
			}
		case "str":
			sb.WriteString(hx([]byte(fv.String())))
		case "bytes":
			sb.WriteString(hx(fv.Bytes()))
		case "S":
			sb.WriteString(showFields(f.Ty.Fields, fv))
		case "L", "I":
			sb.WriteString("[ ")
			for i := 0; i < fv.Len(); i++ {
				sb.WriteString(showFields(f.Ty.Fields, fv.Index(i)))
				sb.WriteString(" ")
			}
			sb.WriteString("]")
		}
		sb.WriteString(" ")
	}
	sb.WriteString(")")
	return sb.String()
}

// valTokens: the type-directed value tokens of the line protocol.
func valTokens(fs []tlvsty.Field, v reflect.Value, sb *strings.Builder) {
	for _, f := range fs {
		fv := v.Field(f.Index)
		switch f.Ty.Kind {
		case "S":
			valTokens(f.Ty.Fields, fv, sb)
		case "L", "I":
			fmt.Fprintf(sb, "%d ", fv.Len())
			for i := 0; i < fv.Len(); i++ {
				valTokens(f.Ty.Fields, fv.Index(i), sb)
			}
		default:
			s := showFields([]tlvsty.Field{f}, v)
			sb.WriteString(s[2:len(s)-2] + " ")
		}
	}
}

// ---------------------------------------------------------------- generators

type tlvsGen struct {
	r          *rand.Rand
	allowEmpty bool // permit list elements that encode to nothing (outside WF)
	nonzero    bool
	marks      map[string]bool
}

func (g *tlvsGen) mark(s string) { g.marks[s] = true }

func (g *tlvsGen) uintOf(bits uint) uint64 {
	max := uint64(1)<<bits - 1
	if bits == 64 {
		max = math.MaxUint64
	}
	var v uint64
	switch g.r.Intn(8) {
	case 0:
		v = 0
	case 1:
		v = 1
	case 2:
		v = max
	case 3:
		v = max - 1
	case 4:
		v = []uint64{127, 128, 255, 256, 32767, 32768, 65535, 65536, 1<<31 - 1, 1 << 31, 1<<32 - 1, 1 << 32, 1<<63 - 1, 1 << 63}[g.r.Intn(14)] & max
	case 5:
		v = uint64(g.r.Intn(256))
	default:
		v = g.r.Uint64() & max
	}
	if g.nonzero && v == 0 {
		v = 1
	}
	switch v {
	case 0:
		g.mark("int:0")
	case 1:
		g.mark("int:1")
	case max:
		g.mark(fmt.Sprintf("u%d:max", bits))
	}
	return v
}

func (g *tlvsGen) intOf(bits uint) int64 {
	min := -(int64(1) << (bits - 1))
	max := int64(1)<<(bits-1) - 1
	var v int64
	switch g.r.Intn(9) {
	case 0:
		v = 0
	case 1:
		v = 1
	case 2:
		v = -1
	case 3:
		v = min
	case 4:
		v = max
	case 5:
		v = min + 1
	case 6:
		v = []int64{127, 128, -128, -129, 255, 256, -256, 32767, -32768, 32768, -32769, 65535, 1<<31 - 1, -(1 << 31), 1 << 31, -(1 << 31) - 1}[g.r.Intn(16)]
		if v < min || v > max {
			v = max - 1
		}
	default:
		v = int64(g.r.Uint64()) >> (64 - bits)
	}
	if g.nonzero && v == 0 {
		v = -1
	}
	switch v {
	case 0:
		g.mark("int:0")
	case -1:
		g.mark("int:-1")
	case min:
		g.mark(fmt.Sprintf("i%d:min", bits))
	case max:
		g.mark(fmt.Sprintf("i%d:max", bits))
	}
	return v
}

// f32 returns NaN-free float32 values incl. -0, ±Inf, subnormals, extremes.
func (g *tlvsGen) f32() float32 {
	var bits uint32
	switch g.r.Intn(8) {
	case 0:
		bits = 0
	case 1:
		bits = 0x80000000 // -0
		g.mark("f32:-0")
	case 2:
		bits = math.Float32bits(1.5)
	case 3:
		bits = []uint32{0x7f7fffff, 0xff7fffff, 0x00000001, 0x80000001, 0x7f800000, 0xff800000, 0x00800000}[g.r.Intn(7)]
		g.mark("f32:extreme")
	default:
		bits = g.r.Uint32()
		if bits&0x7f800000 == 0x7f800000 { // NaN or Inf pattern: clear the mantissa
			bits &= 0xff800000
		}
	}
	if g.nonzero && bits == 0 {
		bits = 0x80000000
	}
	return math.Float32frombits(bits)
}

func (g *tlvsGen) blob() []byte {
	var n int
	switch g.r.Intn(12) {
	case 0:
		n = 0
	case 1:
		n = 1
	case 2:
		n = 254 + g.r.Intn(4)
	case 3:
		if g.r.Intn(3) == 0 {
			n = 600
		} else {
			n = 2 + g.r.Intn(5)
		}
	case 4:
		n = []int{255, 256, 510, 511}[g.r.Intn(4)]
	default:
		n = g.r.Intn(12)
	}
	if g.nonzero && n == 0 {
		n = 1
	}
	g.mark(fmt.Sprintf("blob<=%d", bucketLen(n)))
	if n == 0 && g.r.Intn(2) == 0 {
		return nil
	}
	return randBytes(g.r, n)
}

func (g *tlvsGen) fill(fs []tlvsty.Field, v reflect.Value, depth int) {
	for _, f := range fs {
		fv := v.Field(f.Index)
		switch f.Ty.Kind {
		case "u8":
			fv.SetUint(g.uintOf(8))
		case "u16":
			fv.SetUint(g.uintOf(16))
		case "u32":
			fv.SetUint(g.uintOf(32))
		case "u64":
			fv.SetUint(g.uintOf(64))
		case "i8":
			fv.SetInt(g.intOf(8))
		case "i16":
			fv.SetInt(g.intOf(16))
		case "i32":
			fv.SetInt(g.intOf(32))
		case "i64":
			fv.SetInt(g.intOf(64))
		case "f32":
			fv.SetFloat(float64(g.f32()))
		case "bool":
			fv.SetBool(g.nonzero || g.r.Intn(2) == 0)
		case "str":
			fv.SetString(string(g.blob()))
		case "bytes":
			fv.SetBytes(g.blob())
		case "S":
			g.fill(f.Ty.Fields, fv, depth+1)
		case "L", "I":
			n := g.r.Intn(6)
			if depth >= 2 && n > 2 {
				n = 2
			}
			g.mark(fmt.Sprintf("list:%d", n))
			if n == 0 && g.r.Intn(2) == 0 {
				continue // nil slice
			}
			s := reflect.MakeSlice(fv.Type(), n, n)
			for i := 0; i < n; i++ {
				e := s.Index(i)
				if g.r.Intn(4) == 0 {
					g.mark("list:zero-element") // zero-valued element
				} else {
					g.fill(f.Ty.Fields, e, depth+1)
				}
				if !g.allowEmpty {
					for try := 0; try < 8 && len(refFields(f.Ty.Fields, e)) == 0; try++ {
						saved := g.nonzero
						g.nonzero = true
						g.fill(f.Ty.Fields, e, depth+1)
						g.nonzero = saved
					}
				}
			}
			fv.Set(s)
		}
	}
}

var tlvsScalarKinds = []reflect.Type{
	reflect.TypeOf(uint8(0)), reflect.TypeOf(uint16(0)), reflect.TypeOf(uint32(0)), reflect.TypeOf(uint64(0)),
	reflect.TypeOf(int8(0)), reflect.TypeOf(int16(0)), reflect.TypeOf(int32(0)), reflect.TypeOf(int64(0)), reflect.TypeOf(float32(0)),
	reflect.TypeOf(false), reflect.TypeOf(""), reflect.TypeOf([]byte(nil)),
}

// randStructType builds a random struct type with tlv8 tags by reflection. With wf=false, tags may repeat and
// inline lists may have multi-field elements.
func randStructType(r *rand.Rand, depth int, wf bool) reflect.Type {
	n := 1 + r.Intn(5)
	pool := r.Perm(14)
	var fields []reflect.StructField
	for i := 0; i < n; i++ {
		tag := pool[i]
		if tag == 13 {
			tag = 255
		}
		if !wf && r.Intn(4) == 0 {
			tag = pool[0]
		}
		tagStr := strconv.Itoa(tag)
		var ft reflect.Type
		k := r.Intn(100)
		switch {
		case k < 60 || depth >= 3:
			ft = tlvsScalarKinds[r.Intn(len(tlvsScalarKinds))]
		case k < 72:
			ft = randStructType(r, depth+1, wf)
		case k < 86:
			ft = reflect.SliceOf(randStructType(r, depth+1, wf))
		default:
			// inline list: element with one non-list field carrying this field's tag
			var et reflect.Type
			if r.Intn(4) == 0 {
				et = randStructType(r, depth+1, wf)
			} else {
				et = tlvsScalarKinds[r.Intn(len(tlvsScalarKinds))]
			}
			efs := []reflect.StructField{{Name: "E", Type: et, Tag: reflect.StructTag(fmt.Sprintf(`tlv8:"%d"`, tag))}}
			if !wf && r.Intn(2) == 0 {
				efs = append(efs, reflect.StructField{Name: "E2", Type: reflect.TypeOf(uint8(0)), Tag: reflect.StructTag(fmt.Sprintf(`tlv8:"%d"`, pool[(i+1)%14]))})
			}
			ft = reflect.SliceOf(reflect.StructOf(efs))
			tagStr = "-"
		}
		fields = append(fields, reflect.StructField{Name: fmt.Sprintf("F%d", i), Type: ft, Tag: reflect.StructTag(fmt.Sprintf(`tlv8:"%s"`, tagStr))})
	}
	return reflect.StructOf(fields)
}

// ---------------------------------------------------------------- running the real code

// tlvsHung is set when a call into the library did not return; the check then stops at once (the stuck
// goroutine cannot be killed and may keep allocating).
var tlvsHung bool

func tlvsUnmarshal(tt tlvsType, data []byte) (outcome string, panicMsg string) {
	orig := append([]byte{}, data...)
	defer func() {
		if outcome != "hang" && !bytes.Equal(orig, data) {
			outcome, panicMsg = "input-modified", fmt.Sprintf("input was %s, is %s after the call", trunc(hx(orig), 200), trunc(hx(data), 200))
			copy(data, orig)
		}
	}()
	p := reflect.New(tt.t)
	var err error
	var msg string
	var pan bool
	done := make(chan struct{})
	go func() {
		msg, pan = safely(func() { err = tlv8.Unmarshal(data, p.Interface()) })
		close(done)
	}()
	select {
	case <-done:
	case <-time.After(3 * time.Second):
		tlvsHung = true
		return "hang", "tlv8.Unmarshal did not return within 3 s"
	}
	if pan {
		return "panic", msg
	}
	switch err {
	case nil:
		shown := showFields(tt.ty.Fields, p.Elem())
		// the decoded value must not share memory with the input: the caller reuses its receive buffer
		if bytes.Equal(orig, data) {
			for i := range data {
				data[i] ^= 0xFF
			}
			after := showFields(tt.ty.Fields, p.Elem())
			copy(data, orig)
			if after != shown {
				return "aliases-input", "decoded value changes when the input buffer is overwritten: " + trunc(shown, 150) + " → " + trunc(after, 150)
			}
		}
		return "ok " + shown, ""
	case io.EOF:
		return "err eof", ""
	case io.ErrUnexpectedEOF:
		return "err unexpected", ""
	}
	return "err other:" + err.Error(), ""
}

type tlvsCase struct {
	id    string
	tt    tlvsType
	val   reflect.Value
	marks map[string]bool
}

func checkC17(c *Ctx) {
	c17NilPointer(c)
	platformProbe(c, "C17", "tlvprobe") // every tag / integers at the ends of every width, on 32-bit and non-amd64 builds too
	c.SetRule("streams: rt (type-directed random values of the library's RTP types, synthetic types covering every kind / nesting / both list forms, " +
		"and random reflect.StructOf types: Marshal, reference encoder, Unmarshal of the result, model; non-trivial = round trip succeeded on a " +
		"non-zero value), dec (arbitrary / truncated / bit-flipped / short-value byte strings into every type under recover; non-trivial = decoded to a " +
		"non-zero value). distinct = distinct canonical input lines")
	c.Assume("reflect, encoding/binary.Read, io.ReadFull and github.com/xiam/to are exercised through the real library, not verified; " +
		"pointer fields, top-level slices and decoding into non-zero targets are outside the model")

	// ---- type universe
	var universe []tlvsType
	for _, n := range tlvsty.RtpTypes() {
		ty, err := tlvsty.Of(n.Type)
		if err != nil {
			fatal("C17: %v", err)
		}
		universe = append(universe, tlvsType{"rtp." + n.Name, "rtp", n.Type, ty})
	}
	names, err := tlvsty.RtpSourceNames(c.Repo)
	if err != nil {
		fatal("C17: %v", err)
	}
	var have []string
	for _, n := range tlvsty.RtpTypes() {
		have = append(have, n.Name)
	}
	if strings.Join(names, ",") != strings.Join(have, ",") {
		c.Mismatch("rtp-types", "rtp-types", strings.Join(names, ","), strings.Join(have, ","), strings.Join(names, ","))
	}
	syn := []tlvsType{
		mustTy("synScalars", "syn", synScalars{}), mustTy("synLists", "syn", synLists{}), mustTy("synNested", "syn", synNested{}),
		mustTy("synElem", "syn", synElem{}), mustTy("synI64", "syn", synI64{}), mustTy("synF32", "syn", synF32{}),
		mustTy("synTagged", "syn", synTagged{}), mustTy("synOneStruct", "syn", synOneStruct{}),
	}
	universe = append(universe, syn...)
	excluded := []tlvsType{
		mustTy("synDupTags", "excluded", synDupTags{}), mustTy("synInlineMulti", "excluded", synInlineMulti{}),
		mustTy("synInlineClash", "excluded", synInlineClash{}), mustTy("synInlineOfList", "excluded", synInlineOfList{}),
	}
	universe = append(universe, excluded...)
	nRand := c.Pick(60, 400)
	for i := 0; i < nRand; i++ {
		r := c.CaseRng("type", i)
		t := randStructType(r, 0, i%6 != 0)
		ty, err := tlvsty.Of(t)
		if err != nil {
			fatal("C17: random type: %v", err)
		}
		src := "rand"
		if wfTyGo(ty) != "" {
			src = "rand-excluded"
		}
		universe = append(universe, tlvsType{fmt.Sprintf("rand%d", i), src, t, ty})
	}
	byName := map[string]tlvsType{}
	for _, u := range universe {
		byName[u.name] = u
	}
	wfTypes := 0
	for _, u := range universe {
		if wfTyGo(u.ty) == "" {
			wfTypes++
		}
	}
	c.Extra("types", map[string]int{"total": len(universe), "rtp": len(have), "well_formed": wfTypes})

	// ---- stream "rt": corpus first (witnesses of F12 and the library's own constructors), then generated values
	var cases []tlvsCase
	addFixed := func(name string, v interface{}) {
		tt := byName[name]
		val := reflect.New(tt.t).Elem()
		val.Set(reflect.ValueOf(v))
		cases = append(cases, tlvsCase{fmt.Sprintf("corpus#%d", len(cases)), tt, val, map[string]bool{"corpus": true}})
	}
	addFixed("synI64", synI64{0x1122334455667788})
	addFixed("synI64", synI64{math.MinInt64})
	addFixed("synI64", synI64{-1})
	addFixed("synI64", synI64{math.MaxInt32 + 1})
	addFixed("synF32", synF32{1.5})
	addFixed("synF32", synF32{math.Float32frombits(0x80000000)})
	addFixed("synF32", synF32{math.MaxFloat32})
	addFixed("synTagged", synTagged{[]synBytesElem{{make([]byte, 3)}, {make([]byte, 300)}, {make([]byte, 2)}}})
	addFixed("synTagged", synTagged{[]synBytesElem{{make([]byte, 253)}, {make([]byte, 254)}, {make([]byte, 600)}}})
	addFixed("synLists", synLists{Structs: []synOneStruct{{synPair{1, nil}}}, Tail: 5}) // unrepaired code: endless loop
	addFixed("rtp.VideoCodecConfiguration", rtp.NewH264VideoCodecConfiguration())
	addFixed("rtp.VideoStreamConfiguration", rtp.DefaultVideoStreamConfiguration())
	addFixed("rtp.AudioStreamConfiguration", rtp.DefaultAudioStreamConfiguration())
	addFixed("rtp.AudioCodecConfiguration", rtp.NewOpusAudioCodecConfiguration())
	addFixed("rtp.AudioCodecConfiguration", rtp.NewAacEldAudioCodecConfiguration())
	addFixed("rtp.Configuration", rtp.NewConfiguration(0))
	addFixed("rtp.Configuration", rtp.Configuration{Suites: []rtp.SupportedCryptoSuite{{1}, {0}, {0}, {2}}})
	addFixed("rtp.VideoCodecParameters", rtp.VideoCodecParameters{
		Profiles: []rtp.VideoCodecProfile{{0}, {0}}, Levels: []rtp.VideoCodecLevel{{0}}, Packetizations: []rtp.VideoCodecPacketization{{0}, {1}, {0}}})

	// the two shapes for which the decoder is known not to return what was encoded (known findings F34, F35)
	addFixed("synInlineMulti", synInlineMulti{[]synPairU{{1, 2}, {3, 4}}})
	addFixed("synTagged", synTagged{[]synBytesElem{{[]byte{}}, {[]byte("a")}}})
	addFixed("synInlineOfList", synInlineOfList{[]synHasList{{[]synOne{{1}, {2}}}, {[]synOne{{3}}}}})

	perType := c.Pick(25, 300)
	for ui, u := range universe {
		for k := 0; k < perType; k++ {
			idx := ui*100000 + k
			g := &tlvsGen{r: c.CaseRng("rt", idx), marks: map[string]bool{}}
			g.allowEmpty = g.r.Intn(10) == 0
			val := reflect.New(u.t).Elem()
			if k > 0 { // k == 0: the zero value
				g.fill(u.ty.Fields, val, 0)
			}
			cases = append(cases, tlvsCase{c.CaseID("rt", idx), u, val, g.marks})
		}
	}
	var live []tlvsCase
	var lines []string
	for _, cs := range cases {
		if c.Skip(cs.id) {
			continue
		}
		var sb strings.Builder
		valTokens(cs.tt.ty.Fields, cs.val, &sb)
		live = append(live, cs)
		lines = append(lines, strings.TrimSpace("tlvs rt "+cs.tt.ty.Tokens()+" "+sb.String()))
	}
	model := c.Model(lines)
	excludedSeen := map[string]map[string]int{}
	var lastEnc, lastEncCopy []byte
	excludedSample := map[string]string{}
	// valid encodings (by the harness's own encoder, so that the malformed stream does not depend on the code
	// under test nor on replay filtering), reused by the malformed stream
	var encoded [][]byte
	var encodedOf []tlvsType
	for _, cs := range cases {
		if enc := refFields(cs.tt.ty.Fields, cs.val); len(enc) > 0 && len(encoded) < 4000 {
			encoded = append(encoded, enc)
			encodedOf = append(encodedOf, cs.tt)
		}
	}
	for i, cs := range live {
		why := wfTyGo(cs.tt.ty)
		if why == "" {
			why = wfValGo(cs.tt.ty, cs.val)
		}
		wf := 0
		if why == "" {
			wf = 1
		}
		want := showFields(cs.tt.ty.Fields, cs.val)
		var enc []byte
		var merr error
		msg, pan := safely(func() { enc, merr = tlv8.Marshal(cs.val.Interface()) })
		// what an earlier Marshal call returned belongs to its caller: a later call must not change it
		if lastEnc != nil && !bytes.Equal(lastEnc, lastEncCopy) {
			c.Violate("bytes returned by an earlier tlv8.Marshal call changed when Marshal was called again", cs.id, lines[i], trunc(hx(lastEncCopy), 200), trunc(hx(lastEnc), 200))
		}
		lastEnc, lastEncCopy = enc, append([]byte{}, enc...)
		var impl string
		nontriv := false
		switch {
		case pan:
			impl = "marshal-panic"
			c.Violate("tlv8.Marshal panics on a supported struct type", cs.id, lines[i], "bytes", msg)
		case merr != nil:
			impl = "marshal-err"
			c.Violate("tlv8.Marshal fails on a supported struct type", cs.id, lines[i], "bytes", merr.Error())
		default:
			// direct oracle 1: the wire bytes are the little-endian TLV8 encoding
			if ref := refFields(cs.tt.ty.Fields, cs.val); !bytes.Equal(ref, enc) {
				c.Violate("tlv8.Marshal bytes differ from the reference little-endian TLV8 encoding", cs.id, lines[i], hx(ref), hx(enc))
			}
			out, pmsg := tlvsUnmarshal(cs.tt, enc)
			impl = fmt.Sprintf("wf %d | enc %s | dec %s", wf, hx(enc), out)
			if out == "hang" {
				c.Violate("tlv8.Unmarshal does not terminate on bytes produced by tlv8.Marshal", cs.id, lines[i], "value", pmsg)
				c.Same("rt", cs.id, lines[i], model[i], impl)
				return
			} else if out == "panic" {
				c.Violate("tlv8.Unmarshal panics on bytes produced by tlv8.Marshal", cs.id, lines[i], "value", pmsg)
			} else if out == "input-modified" || out == "aliases-input" {
				c.Violate("tlv8.Unmarshal modifies its input or returns a value that shares memory with it", cs.id, lines[i], "input untouched, value independent", out+": "+pmsg)
			} else if wf == 1 || (cs.tt.src == "rtp" && wfValGo(cs.tt.ty, cs.val) == "") {
				// direct oracle 2: round trip (nil and empty slices identified); the library's own RTP types
				// must round-trip whatever their shape (rtp_types_wf proves they are inside the domain)
				if out != "ok "+want {
					c.Violate("value changed by tlv8 Marshal/Unmarshal round trip", cs.id, lines[i], "ok "+want, out)
				} else {
					nontriv = want != showFields(cs.tt.ty.Fields, reflect.New(cs.tt.t).Elem())
				}
			} else {
				res := "round-trips"
				if out != "ok "+want {
					res = "does-not-round-trip"
				}
				if res != "round-trips" && (why == "inline-multi-field" || why == "empty-list-element" || why == "inline-of-list") {
					// supported field kinds (an inline list, a list element) for which the round trip fails: violations of
					// the property, recorded as known findings F34 / F35 (the reader's tag → values map cannot express them)
					c.Violate("value changed by tlv8 Marshal/Unmarshal round trip ("+why+")", cs.id, lines[i], "ok "+want, out)
				}
				if excludedSeen[why] == nil {
					excludedSeen[why] = map[string]int{}
				}
				excludedSeen[why][res]++
				if _, ok := excludedSample[why]; !ok && res != "round-trips" {
					excludedSample[why] = trunc(lines[i], 300) + "  =>  " + trunc(out, 200)
				}
			}
		}
		var buckets []string
		buckets = append(buckets, "rt:src="+cs.tt.src, fmt.Sprintf("rt:wf=%d", wf), fmt.Sprintf("rt:enclen<=%d", bucketLen(len(enc))))
		for m := range cs.marks {
			buckets = append(buckets, "rt:"+m)
		}
		sort.Strings(buckets)
		c.Count(lines[i], nontriv, buckets...)
		c.Same("rt", cs.id, lines[i], model[i], impl)
		if i%397 == 0 {
			c.Sample(trunc(lines[i], 160) + "  =>  " + trunc(impl, 200))
		}
		c.Trace()
	}
	ex := map[string]interface{}{}
	for why, m := range excludedSeen {
		ex[why] = map[string]interface{}{"outcomes_on_real_code": m, "example": excludedSample[why]}
	}
	c.Extra("excluded_by_WF_run_on_real_code", ex)

	// ---- stream "dec": malformed input into every type
	type decCase struct {
		id   string
		tt   tlvsType
		data []byte
		kind string
	}
	var dcs []decCase
	// corpus: the float32 short read of F12, and one short value for every width
	dcs = append(dcs, decCase{"dec-corpus#0", byName["synF32"], []byte{2, 1, 7}, "corpus"})
	for l := 1; l <= 9; l++ {
		for tag := 1; tag <= 10; tag++ {
			b := append([]byte{byte(tag), byte(l)}, bytes.Repeat([]byte{0xfe}, l)...)
			dcs = append(dcs, decCase{fmt.Sprintf("dec-corpus#%d.%d", tag, l), byName["synScalars"], b, "corpus"})
		}
	}
	perTypeDec := c.Pick(30, 300)
	for ui, u := range universe {
		for k := 0; k < perTypeDec; k++ {
			idx := ui*100000 + k
			r := c.CaseRng("dec", idx)
			data, kind := genTlvsInput(r, u, encoded, encodedOf)
			dcs = append(dcs, decCase{c.CaseID("dec", idx), u, data, kind})
		}
	}
	lines = lines[:0]
	var dlive []decCase
	for _, d := range dcs {
		if c.Skip(d.id) {
			continue
		}
		dlive = append(dlive, d)
		lines = append(lines, "tlvs dec "+d.tt.ty.Tokens()+" "+hx(d.data))
	}
	model = c.Model(lines)
	for i, d := range dlive {
		out, pmsg := tlvsUnmarshal(d.tt, d.data)
		if out == "input-modified" || out == "aliases-input" {
			c.Violate("tlv8.Unmarshal modifies its input or returns a value that shares memory with it", d.id, lines[i], "input untouched, value independent", out+": "+pmsg)
		}
		if out == "hang" {
			c.Violate("tlv8.Unmarshal does not terminate on malformed input", d.id, lines[i], "value or error", pmsg)
			c.Same("dec", d.id, lines[i], model[i], out)
			return
		}
		if out == "panic" {
			c.Violate("tlv8.Unmarshal panics on malformed input", d.id, lines[i], "value or error", pmsg)
		}
		zero := "ok " + showFields(d.tt.ty.Fields, reflect.New(d.tt.t).Elem())
		c.Count(lines[i], strings.HasPrefix(out, "ok") && out != zero, "dec:kind="+d.kind, "dec:"+firstWords(out, 2)[:min(len(firstWords(out, 2)), 14)], "dec:src="+d.tt.src)
		c.Same("dec", d.id, lines[i], model[i], out)
		if i%997 == 0 {
			c.Sample(trunc(lines[i], 160) + "  =>  " + trunc(out, 160))
		}
		c.Trace()
	}
}

// collectTags lists (tag, kind) of all fields reachable at the top level of a type (inline list elements included).
func collectTags(fs []tlvsty.Field, out *[]tlvsty.Field) {
	for _, f := range fs {
		if f.Ty.Kind == "I" {
			collectTags(f.Ty.Fields, out)
		} else {
			*out = append(*out, f)
		}
	}
}

// craftShort: one item for a field of the type with a value of every awkward length (promotion of short
// integers, short float32), recursing into nested structs / list elements.
func craftShort(r *rand.Rand, fs []tlvsty.Field, depth int) []byte {
	var flat []tlvsty.Field
	collectTags(fs, &flat)
	if len(flat) == 0 {
		return randBytes(r, r.Intn(4))
	}
	var out []byte
	for n := 1 + r.Intn(3); n > 0; n-- {
		f := flat[r.Intn(len(flat))]
		var val []byte
		if (f.Ty.Kind == "S" || f.Ty.Kind == "L") && depth < 3 && r.Intn(3) != 0 {
			val = craftShort(r, f.Ty.Fields, depth+1)
		} else {
			val = randBytes(r, []int{0, 1, 2, 3, 4, 5, 7, 8, 9, 16}[r.Intn(10)])
		}
		if len(val) > 255 {
			val = val[:255]
		}
		if r.Intn(6) == 0 {
			out = append(out, 0, 0)
		}
		out = append(out, f.Tag, byte(len(val)))
		out = append(out, val...)
	}
	return out
}

func genTlvsInput(r *rand.Rand, u tlvsType, encoded [][]byte, encodedOf []tlvsType) ([]byte, string) {
	switch r.Intn(8) {
	case 0:
		return randBytes(r, r.Intn(40)), "noise"
	case 1, 2:
		return craftShort(r, u.ty.Fields, 0), "short-values"
	}
	// a valid encoding (preferably of this very type), then damaged
	var b []byte
	var own []int
	for i, t := range encodedOf {
		if t.name == u.name {
			own = append(own, i)
		}
	}
	if len(own) > 0 && r.Intn(5) != 0 {
		b = append(b, encoded[own[r.Intn(len(own))]]...)
	} else if len(encoded) > 0 {
		b = append(b, encoded[r.Intn(len(encoded))]...)
	}
	if len(b) == 0 {
		return nil, "empty"
	}
	switch r.Intn(7) {
	case 0:
		return b[:r.Intn(len(b))], "truncated"
	case 1:
		b[r.Intn(len(b))] ^= 1 << uint(r.Intn(8))
		return b, "bit-flip"
	case 2:
		b[r.Intn(len(b))] = byte(r.Intn(256))
		return b, "byte-replaced"
	case 3:
		p := r.Intn(len(b) + 1)
		ins := []byte{byte(r.Intn(12)), 0}
		if r.Intn(2) == 0 {
			ins = []byte{0, 0}
		}
		return append(append(append([]byte{}, b[:p]...), ins...), b[p:]...), "zero-length-item-inserted"
	case 4:
		return append(b, b...), "doubled"
	case 5:
		return append(b, craftShort(r, u.ty.Fields, 0)...), "valid+short-values"
	}
	return b, "valid"
}

// c17NilPointer (F72): a nested struct behind a pointer that is nil — what Unmarshal itself leaves when the item is absent.
// Marshal writes no item for it (it panicked), so Unmarshal-then-Marshal gives the bytes back.
type synPtr struct {
	A uint8   `tlv8:"1"`
	P *synOne `tlv8:"2"`
	B uint8   `tlv8:"3"`
}

func c17NilPointer(c *Ctx) {
	for i, v := range []synPtr{{A: 5, B: 6}, {A: 5, P: &synOne{V: 7}, B: 6}, {}} {
		id := fmt.Sprintf("nil-pointer#%d", i)
		if c.Skip(id) {
			continue
		}
		in := map[string]interface{}{"type": "struct{A uint8 `1`; P *struct{V uint8 `7`} `2`; B uint8 `3`}", "P_is_nil": v.P == nil, "A": v.A, "B": v.B}
		var b []byte
		var err error
		if msg, pan := safely(func() { b, err = tlv8.Marshal(v) }); pan {
			c.Violate("tlv8.Marshal panics on a struct with a nil pointer to a nested struct (the value Unmarshal leaves for an absent item)", id, in, "bytes without that item", msg)
			continue
		}
		if err != nil {
			c.Violate("tlv8.Marshal fails on a supported struct type", id, in, "bytes", err.Error())
			continue
		}
		var back synPtr
		if msg, pan := safely(func() { err = tlv8.Unmarshal(b, &back) }); pan || err != nil {
			c.Violate("tlv8.Unmarshal does not accept what Marshal produced", id, in, "the value", fmt.Sprint(msg, err))
			continue
		}
		if back.A != v.A || back.B != v.B || (back.P == nil) != (v.P == nil) || (v.P != nil && back.P.V != v.P.V) {
			c.Violate("value changed by tlv8 Marshal/Unmarshal round trip (pointer to a nested struct)", id, in, fmt.Sprintf("%+v", v), fmt.Sprintf("%+v", back))
		}
		var again []byte
		if msg, pan := safely(func() { again, err = tlv8.Marshal(back) }); pan || err != nil || !bytes.Equal(again, b) {
			c.Violate("tlv8.Marshal of what Unmarshal returned does not give the bytes back", id, in, hx(b), fmt.Sprint(hx(again), msg, err))
		}
		c.Count(id, true, "stream:nil-pointer")
	}
}
