package main

// C13 — no remote input panics or wedges the accessory.
// Malformed stream (separate from the structured streams of C02/C03): for every endpoint and every protocol state
// reachable by a prefix of a correct exchange, malformed inputs under a recover wrapper, each followed by an honest
// handshake on the same connection (at most one rejected start request tolerated) and on a new connection.
// In-process through the real mux; and end-to-end over TCP (a panic shows as a dropped connection there).

import (
	"bytes"
	"crypto/ed25519"
	"encoding/hex"
	"fmt"
	"math/rand"
	"net"
	"strings"
	"sync"
	"sync/atomic"
	"time"

	"github.com/brutella/hc/accessory"
	"github.com/brutella/hc/crypto"
	"github.com/brutella/hc/db"
)

func init() { register("C13", checkC13) }

type malInput struct {
	Desc   string
	Method string
	Target string
	CType  string
	Body   []byte
	Model  string // token of the pairing model alphabet when the input is classifiable, else ""
}

func tlvMalformed(r *rand.Rand, path string, stateByte byte) []malInput {
	enc := func(n int) malInput {
		items := []tlvOp{{tState, b1(stateByte)}}
		if n > 0 {
			items = append(items, tlvOp{tEnc, randBytes(r, n)})
		}
		return malInput{fmt.Sprintf("state=%d encrypted data of %d bytes", stateByte, n), "POST", path, "application/pairing+tlv8", tlvMsg(items...), fmt.Sprintf("short %d", n)}
	}
	var out []malInput
	for n := 0; n <= 17; n++ {
		out = append(out, enc(n))
	}
	mk := func(desc string, body []byte, model string) {
		out = append(out, malInput{desc, "POST", path, "application/pairing+tlv8", body, model})
	}
	mk("random bytes", randBytes(r, 1+r.Intn(60)), "")
	mk("empty body", nil, "")
	mk("truncated item", []byte{tState, 1}, "malformed")
	mk("length beyond body", []byte{tEnc, 200, 1, 2, 3}, "malformed")
	mk("only a tag byte", []byte{tState}, "malformed")
	mk("unknown state 0", tlvMsg(tlvOp{tState, b1(0)}), "badstate 0")
	mk("unknown state 7", tlvMsg(tlvOp{tState, b1(7)}), "badstate 7")
	mk("unknown state 255", tlvMsg(tlvOp{tState, b1(255)}), "badstate 255")
	mk("unknown method", tlvMsg(tlvOp{tState, b1(stateByte)}, tlvOp{tMethod, b1(9)}), "badmethod")
	mk("duplicated state items", tlvMsg(tlvOp{tState, b1(stateByte)}, tlvOp{tState, b1(stateByte)}, tlvOp{tState, b1(1)}), "")
	mk("zero-length items only", []byte{tState, 0, tEnc, 0, tPubKey, 0}, "")
	mk("wrong tags", tlvMsg(tlvOp{0x42, randBytes(r, 40)}, tlvOp{0xfe, randBytes(r, 300)}), "")
	mk("huge public key", tlvMsg(tlvOp{tState, b1(stateByte)}, tlvOp{tPubKey, randBytes(r, 5000)}, tlvOp{tProof, randBytes(r, 900)}), "")
	mk("64 KiB of encrypted data", tlvMsg(tlvOp{tState, b1(stateByte)}, tlvOp{tEnc, randBytes(r, 65536)}), "")
	mk("encrypted data of exactly 16 zero bytes", tlvMsg(tlvOp{tState, b1(stateByte)}, tlvOp{tEnc, make([]byte, 16)}), "")
	if path == "/pair-verify" {
		// Curve25519 points of small order (the shared secret is all zero) and non-canonical encodings, as the key of a start request
		for _, h := range []string{
			"0000000000000000000000000000000000000000000000000000000000000000",
			"0100000000000000000000000000000000000000000000000000000000000000",
			"e0eb7a7c3b41b8ae1656e3faf19fc46ada098deb9c32b1fd866205165f49b800",
			"5f9c95bca3508c24b1d0b1559c83ef5b04445cc4581c8e86d8224eddd09f1157",
			"ecffffffffffffffffffffffffffffffffffffffffffffffffffffffffffff7f",
			"edffffffffffffffffffffffffffffffffffffffffffffffffffffffffffff7f",
			"eeffffffffffffffffffffffffffffffffffffffffffffffffffffffffffff7f",
			"ffffffffffffffffffffffffffffffffffffffffffffffffffffffffffffffff",
		} {
			k, _ := hex.DecodeString(h)
			mk("start request whose key is the small-order / non-canonical point "+h[:8]+"…", tlvMsg(tlvOp{tState, b1(1)}, tlvOp{tPubKey, k}), "")
		}
	}
	mk("all items empty values", tlvMsg(tlvOp{tState, b1(stateByte)}, tlvOp{tPubKey, nil}, tlvOp{tProof, nil}, tlvOp{tEnc, nil}), "")
	return out
}

func jsonMalformed(r *rand.Rand, aid, iid uint64) []malInput {
	deep := strings.Repeat("[", 10000) + strings.Repeat("]", 10000)
	put := func(desc, body string) malInput {
		return malInput{desc, "PUT", "/characteristics", "application/hap+json", []byte(body), ""}
	}
	ch := func(v string) string {
		return fmt.Sprintf(`{"characteristics":[{"aid":%d,"iid":%d,"value":%s}]}`, aid, iid, v)
	}
	out := []malInput{
		put("empty body", ""),
		put("not json", "\x00\x01\x02{{{"),
		put("json null", "null"),
		put("json array", "[1,2,3]"),
		put("characteristics not an array", `{"characteristics":7}`),
		put("entries of wrong type", `{"characteristics":[1,"x",null,[],{}]}`),
		put("aid as string", `{"characteristics":[{"aid":"1","iid":"2","value":1}]}`),
		put("negative ids", `{"characteristics":[{"aid":-1,"iid":-2,"value":1}]}`),
		put("huge ids", `{"characteristics":[{"aid":1e400,"iid":99999999999999999999999,"value":1}]}`),
		put("value array", ch("[1,2]")),
		put("value array again (same composite twice)", ch("[1,2]")),
		put("value object", ch(`{"a":1}`)),
		put("value object again", ch(`{"a":1}`)),
		put("value huge number", ch("1e308")),
		put("value string NaN", ch(`"NaN"`)),
		put("value string", ch(`"yes"`)),
		put("value number for bool", ch("17.5")),
		put("value deep nesting", ch(deep)),
		put("unsubscribe without subscription", fmt.Sprintf(`{"characteristics":[{"aid":%d,"iid":%d,"ev":false}]}`, aid, iid)),
		put("unsubscribe twice and subscribe twice", fmt.Sprintf(`{"characteristics":[{"aid":%d,"iid":%d,"ev":true},{"aid":%d,"iid":%d,"ev":true},{"aid":%d,"iid":%d,"ev":false},{"aid":%d,"iid":%d,"ev":false}]}`, aid, iid, aid, iid, aid, iid, aid, iid)),
		put("ev not bool", fmt.Sprintf(`{"characteristics":[{"aid":%d,"iid":%d,"ev":"maybe"}]}`, aid, iid)),
		put("ev object", fmt.Sprintf(`{"characteristics":[{"aid":%d,"iid":%d,"ev":{"x":[1]}}]}`, aid, iid)),
		put("invalid utf-8 string value", ch("\"\xff\xfe\"")),
		put("10000 entries", `{"characteristics":[`+strings.Repeat(fmt.Sprintf(`{"aid":%d,"iid":%d,"value":true},`, aid, iid), 9999)+fmt.Sprintf(`{"aid":%d,"iid":%d,"value":false}]}`, aid, iid)),
		{"GET without id", "GET", "/characteristics", "", nil, ""},
		{"GET id with three parts", "GET", "/characteristics?id=1.2.3", "", nil, ""},
		{"GET id letters", "GET", "/characteristics?id=a.b,c.d", "", nil, ""},
		{"GET id trailing dot", "GET", "/characteristics?id=1.", "", nil, ""},
		{"GET id huge numbers", "GET", "/characteristics?id=99999999999999999999999999.1,1.-5", "", nil, ""},
		{"GET 5000 ids", "GET", "/characteristics?id=" + strings.TrimSuffix(strings.Repeat("1.2,", 5000), ","), "", nil, ""},
		{"GET escaped garbage", "GET", "/characteristics?id=%00%ff%zz", "", nil, ""},
		{"DELETE method", "DELETE", "/characteristics", "", nil, ""},
		{"accessories with POST", "POST", "/accessories", "", []byte("x"), ""},
		{"resource: not json", "POST", "/resource", "application/hap+json", []byte("{{{{"), ""},
		{"resource: wrong types", "POST", "/resource", "application/hap+json", []byte(`{"resource-type":5,"image-width":"x","image-height":-1}`), ""},
		{"resource: huge image", "POST", "/resource", "application/hap+json", []byte(`{"resource-type":"image","image-width":4294967295,"image-height":4294967295}`), ""},
		{"resource: GET", "GET", "/resource", "", nil, ""},
		{"identify with body", "POST", "/identify", "", randBytes(r, 100), ""},
	}
	return out
}

func pairingsMalformed(r *rand.Rand) []malInput {
	mk := func(desc string, body []byte) malInput {
		return malInput{desc, "POST", "/pairings", "application/pairing+tlv8", body, ""}
	}
	long := bytes.Repeat([]byte("n"), 200)
	return []malInput{
		mk("add with a 200-byte name (cannot be stored as a file name)", tlvMsg(tlvOp{tState, b1(1)}, tlvOp{tMethod, b1(3)}, tlvOp{tID, long}, tlvOp{tPubKey, randBytes(r, 32)})),
		mk("add with a name containing / and NUL", tlvMsg(tlvOp{tState, b1(1)}, tlvOp{tMethod, b1(3)}, tlvOp{tID, []byte("../../x\x00y")}, tlvOp{tPubKey, randBytes(r, 32)})),
		mk("add without key", tlvMsg(tlvOp{tState, b1(1)}, tlvOp{tMethod, b1(3)}, tlvOp{tID, []byte("nokey")})),
		mk("add without name", tlvMsg(tlvOp{tState, b1(1)}, tlvOp{tMethod, b1(3)}, tlvOp{tPubKey, randBytes(r, 32)})),
		mk("remove unknown", tlvMsg(tlvOp{tState, b1(1)}, tlvOp{tMethod, b1(4)}, tlvOp{tID, []byte("never-seen")})),
		mk("remove with 300-byte name", tlvMsg(tlvOp{tState, b1(1)}, tlvOp{tMethod, b1(4)}, tlvOp{tID, bytes.Repeat([]byte("z"), 300)})),
		mk("unknown method 5 (list)", tlvMsg(tlvOp{tState, b1(1)}, tlvOp{tMethod, b1(5)})),
		mk("no method", tlvMsg(tlvOp{tState, b1(1)})),
		mk("random bytes", randBytes(r, 30)),
		mk("truncated", []byte{tID, 50, 1, 2}),
		mk("empty", nil),
	}
}

func okStatus(st int) bool {
	switch st {
	case 200, 204, 207, 400, 404, 405, 422, 470, 500:
		return true
	}
	return false
}

func checkC13(c *Ctx) {
	c.SetRule("malformed stream: endpoint × protocol state (pair-setup: fresh / after M1 / after accepted M3; pair-verify: fresh / after accepted start; " +
		"JSON and /pairings endpoints on a verified session and on an unverified one) × malformed inputs (random bytes, truncated / over-long / duplicated / " +
		"missing / zero-length TLV items, encrypted data of 0..17 bytes, unknown states and methods, JSON of wrong types, huge numbers, nesting depth 10000, " +
		"invalid UTF-8, same composite twice, unstorable pairing names), each under recover and followed by an honest handshake on the same connection " +
		"(at most one rejected start tolerated) and on a new connection. non-trivial = input sent in a non-initial protocol state or on a verified session. " +
		"(B) the same over TCP against hc.NewIPTransport: a panic shows as a connection dropped without an answer")
	c.Assume("panic-freedom of encoding/json, net/http and golang.org/x/crypto internals is exercised, not modelled")
	type scen struct {
		name  string
		state int
	}
	scens := []scen{{"pair-setup", 0}, {"pair-setup", 1}, {"pair-setup", 2}, {"pair-verify", 0}, {"pair-verify", 1},
		{"json-verified", 0}, {"json-unverified", 0}, {"pairings-verified", 0}}
	c13Unstorable(c)
	c13ReconnectDuringClose(c)
	c13StalledReader(c)
	c13HugeBody(c)
	c13HugeJSONBody(c)
	platformProbe(c, "C13", "plainprobe") // plaintext requests whose Content-Length does not fit a 32-bit int: host, 386, js/wasm
	if c.NumViolations() > 0 {
		return // the in-process streams below share the storage lock with this process
	}
	reps := c.Pick(2, 40)
	total := len(scens) * reps
	parallel(total, func(k int) {
		sc := scens[k%len(scens)]
		rep := k / len(scens)
		id := fmt.Sprintf("%s.%d#%d", sc.name, sc.state, rep)
		if c.Skip(id) {
			return
		}
		r := c.CaseRng(id, 0)
		var inputs []malInput
		switch sc.name {
		case "pair-setup":
			inputs = tlvMalformed(r, "/pair-setup", byte(1+2*sc.state))
		case "pair-verify":
			inputs = tlvMalformed(r, "/pair-verify", byte(1+2*sc.state))
		case "json-verified", "json-unverified":
			inputs = nil // filled below (needs ids)
		case "pairings-verified":
			inputs = pairingsMalformed(r)
		}
		nin := len(inputs) + 12 // + the "deep" inputs that c13One builds once it holds the keys of the protocol state
		if len(inputs) == 0 {
			nin = 48
		}
		for ii := 0; ii < nin; ii++ {
			c13One(c, id, sc.name, sc.state, ii, r)
		}
	})
	checkC13E2E(c)
}

// c13One: fresh fixture, reach the state, send malformed input #ii, then check recovery.
func c13One(c *Ctx, id, scen string, state, ii int, r0 *rand.Rand) {
	r := rand.New(rand.NewSource(r0.Int63()))
	sw := accessory.NewSwitch(accessory.Info{Name: "Sw"})
	nm := accessory.NewLightbulb(accessory.Info{Name: "Lb"})
	sw.Switch.On.OnValueRemoteUpdate(func(bool) {})
	nm.Lightbulb.On.OnValueRemoteUpdate(func(bool) {})
	f, err := newAccFixture(c, "00102003", sw.Accessory, nm.Accessory)
	if err != nil {
		c.Violate("C13 fixture cannot be built", id, nil, "fixture", err.Error())
		return
	}
	defer f.Close()
	addr := "10.0.3.1:8000"
	ident := newRefIdentity(r, "ctrl-1")
	f.db.SaveEntity(db.NewEntity(ident.Name, ident.Pub, nil))
	device, _ := f.db.EntityWithName(f.name)
	var inputs []malInput
	switch scen {
	case "pair-setup":
		inputs = tlvMalformed(r, "/pair-setup", byte(1+2*state))
	case "pair-verify":
		inputs = tlvMalformed(r, "/pair-verify", byte(1+2*state))
	case "pairings-verified":
		inputs = pairingsMalformed(r)
	default:
		inputs = jsonMalformed(r, sw.ID, sw.Switch.On.ID)
	}
	var in malInput
	var deep []malInput // authenticated-but-malformed messages, built with the keys of the state reached below
	post := f.Post(addr)
	// ---- reach the protocol state
	var prefixOK = true
	switch scen {
	case "pair-setup":
		if state >= 1 {
			st, body, _ := post("/pair-setup", tlvMsg(tlvOp{tState, b1(1)}, tlvOp{tMethod, b1(0)}))
			items, _ := refTlvParse(body)
			prefixOK = st == 200
			if state >= 2 && prefixOK {
				cl := newRefSRPClient(r, "Pair-Setup", f.pin)
				M1, _ := cl.Respond(tlvGet(items, tSalt), tlvGet(items, tPubKey))
				st, _, _ = post("/pair-setup", tlvMsg(tlvOp{tState, b1(3)}, tlvOp{tPubKey, cl.Abytes()}, tlvOp{tProof, M1}))
				prefixOK = st == 200
				// M5 correctly sealed under the session key, with a malformed inside
				encKey := refHKDF(cl.K, "Pair-Setup-Encrypt-Salt", "Pair-Setup-Encrypt-Info")
				hx5 := refHKDF(cl.K, "Pair-Setup-Controller-Sign-Salt", "Pair-Setup-Controller-Sign-Info")
				evil := newRefIdentity(r, "deep")
				sealed := func(desc string, sub []byte) {
					deep = append(deep, malInput{"M5 sealed correctly: " + desc, "POST", "/pair-setup", "application/pairing+tlv8",
						tlvMsg(tlvOp{tState, b1(5)}, tlvOp{tEnc, refSeal(encKey, []byte("PS-Msg05"), sub, nil)}), ""})
				}
				sigOver := func(pk []byte) []byte {
					return ed25519.Sign(evil.Priv, append(append(append([]byte{}, hx5...), []byte(evil.Name)...), pk...))
				}
				for _, n := range []int{0, 1, 16, 31, 33, 64} {
					pk := randBytes(r, n)
					sealed(fmt.Sprintf("long-term key of %d bytes", n), tlvMsg(tlvOp{tID, []byte(evil.Name)}, tlvOp{tPubKey, pk}, tlvOp{tSig, sigOver(pk)}))
				}
				for _, n := range []int{0, 1, 63, 65, 200} {
					sealed(fmt.Sprintf("signature of %d bytes", n), tlvMsg(tlvOp{tID, []byte(evil.Name)}, tlvOp{tPubKey, evil.Pub}, tlvOp{tSig, randBytes(r, n)}))
				}
				sealed("empty sub-TLV", nil)
				sealed("sub-TLV is garbage", randBytes(r, 40))
				sealed("no identifier", tlvMsg(tlvOp{tPubKey, evil.Pub}, tlvOp{tSig, sigOver(evil.Pub)}))
			}
		}
	case "pair-verify":
		if state >= 1 {
			esk := randBytes(r, 32)
			st, body, _ := post("/pair-verify", tlvMsg(tlvOp{tState, b1(1)}, tlvOp{tPubKey, refX25519Pub(esk)}))
			prefixOK = st == 200
			items, _ := refTlvParse(body)
			if apk := tlvGet(items, tPubKey); len(apk) == 32 {
				// M3 correctly sealed under the exchange key, with a malformed inside / naming odd stored entities
				vk := refHKDF(refX25519(esk, apk), "Pair-Verify-Encrypt-Salt", "Pair-Verify-Encrypt-Info")
				f.db.SaveEntity(db.NewEntity("short-key", randBytes(r, 16), nil))
				f.db.SaveEntity(db.NewEntity("long-key", randBytes(r, 33), nil))
				f.db.SaveEntity(db.NewEntity("no-key", nil, nil))
				sealed := func(desc string, sub []byte) {
					deep = append(deep, malInput{"M3 sealed correctly: " + desc, "POST", "/pair-verify", "application/pairing+tlv8",
						tlvMsg(tlvOp{tState, b1(3)}, tlvOp{tEnc, refSeal(vk, []byte("PV-Msg03"), sub, nil)}), ""})
				}
				for _, name := range []string{"short-key", "long-key", "no-key", "never-stored", "", ident.Name, f.name} {
					for _, n := range []int{64, 0, 63} {
						sealed(fmt.Sprintf("name %q, signature of %d bytes", name, n), tlvMsg(tlvOp{tID, []byte(name)}, tlvOp{tSig, randBytes(r, n)}))
						if len(deep) >= 11 {
							break
						}
					}
				}
				sealed("sub-TLV is garbage", randBytes(r, 30))
			}
		}
	case "json-verified", "pairings-verified":
		var shared [32]byte
		copy(shared[:], randBytes(r, 32))
		cg, _ := crypto.NewSecureSessionFromSharedKey(shared)
		sess := f.Session(addr)
		sess.SetCryptographer(cg)
		responseWritten(f.ctx, f.raw[addr])
	}
	if !prefixOK {
		c.Violate("honest protocol prefix is rejected", id, scen, "accepted", "rejected")
		return
	}
	inputs = append(inputs, deep...)
	if ii >= len(inputs) {
		return
	}
	in = inputs[ii]
	// ---- the malformed input (json scenarios: send the whole list on one connection, order matters for "twice")
	send := []malInput{in}
	if strings.HasSuffix(in.Desc, "again") || strings.Contains(in.Desc, "again (") {
		send = []malInput{inputs[ii-1], in}
	}
	for _, m := range send {
		st, body, _, pm := f.Do(addr, m.Method, m.Target, m.CType, m.Body)
		desc := fmt.Sprintf("%s state=%d: %s", scen, state, m.Desc)
		c.Count(desc, state > 0 || strings.Contains(scen, "verified"), "scenario:"+scen, fmt.Sprintf("answer:%d", st))
		if pm != "" {
			c.Violate("handler panics on remote input", id, map[string]interface{}{"scenario": desc, "body_hex": trunc(hx(m.Body), 400)}, "a well-formed response", pm)
			continue
		}
		if !okStatus(st) {
			c.Violate("remote input is not answered with a well-formed response", id, desc, "HTTP status of the HAP vocabulary", fmt.Sprint(st))
		}
		if st == 200 && m.CType == "application/pairing+tlv8" {
			if _, ok := refTlvParseStrict(body); !ok {
				c.Violate("remote input is answered with a malformed TLV8 body", id, desc, "TLV8", hx(body))
			}
		}
		if ii%9 == 0 {
			c.Sample(map[string]interface{}{"scenario": desc, "status": st, "body": trunc(string(body), 80)})
		}
	}
	// ---- recovery on the same connection, then on a new one
	for _, a := range []string{addr, "10.0.3.2:8001"} {
		p := f.Post(a)
		if scen == "pair-setup" {
			id2 := newRefIdentity(r, "ctrl-rec-"+a)
			sr := refPairSetup(r, p, f.pin, id2)
			if sr.ErrAt != "" && sr.HTTP == 500 && strings.HasPrefix(sr.ErrAt, "M2") && a == addr {
				sr = refPairSetup(r, p, f.pin, id2) // one rejected start request is allowed on the same connection
			}
			if sr.ErrAt != "" {
				c.Violate("accessory cannot complete pair-setup after malformed input", id,
					fmt.Sprintf("%s state=%d: %s; then handshake on %s", scen, state, in.Desc, a), "paired", sr.ErrAt)
			}
		}
		vr := refPairVerify(r, p, ident, device.PublicKey)
		if vr.Shared == nil && vr.HTTP == 500 && strings.HasPrefix(vr.ErrAt, "M2") && a == addr {
			vr = refPairVerify(r, p, ident, device.PublicKey)
		}
		if vr.Shared == nil {
			c.Violate("accessory cannot complete pair-verify after malformed input", id,
				fmt.Sprintf("%s state=%d: %s; then handshake on %s", scen, state, in.Desc, a), "verified", vr.ErrAt)
		}
	}
	c.Trace()
}

// c13Unstorable runs first, in a child process of its own: the storage serialises its writers with one lock for the
// whole process, so a lock that is not given back would wedge this harness as well as the accessory.
func c13Unstorable(c *Ctx) {
	id := "e2e-unstorable#0"
	if c.Skip(id) {
		return
	}
	r := c.CaseRng("e2e-unstorable", 0)
	acc, err := startE2EChild(c.ScratchDir())
	if err != nil {
		c.Violate("transport does not start", id, nil, "started", err.Error())
		return
	}
	defer acc.Stop()
	ident := newRefIdentity(r, "ctrl-1")
	first, _ := acc.Dial()
	sr := refPairSetup(r, first.Post(), "001-02-003", ident)
	first.Close()
	if sr.ErrAt != "" {
		c.Violate("reference controller cannot pair", id, nil, "paired", sr.ErrAt)
		return
	}
	// ---- a pairing that cannot be stored (its file name is too long), then ordinary pairing management: the refusal
	// of one write must not keep the next ones from being answered
	admin := func(desc string, body []byte, want string) bool {
		cl, err := acc.Dial()
		if err != nil {
			c.Violate("accessory does not accept connections any more", id, desc, "connect", err.Error())
			return false
		}
		defer cl.Close()
		vr := refPairVerify(r, cl.Post(), ident, sr.AccLTPK)
		if vr.Shared == nil {
			c.Violate("paired reference controller cannot verify", id, desc, "verified", vr.ErrAt)
			return false
		}
		cl.Upgrade(vr.Shared)
		cl.timeout = 5 * time.Second
		m, err := cl.Do("POST", "/pairings", "application/pairing+tlv8", body)
		c.Count("tcp verified connection: "+desc, true, "e2e:unstorable")
		if err != nil {
			c.Violate("a request of a verified controller is not answered (the accessory is wedged)", id,
				map[string]interface{}{"history": "POST /pairings adding a controller whose name is 200 bytes long (no file of that name can be created); then " + desc}, want, err.Error())
			return false
		}
		if want == "added" {
			if it, ok := refTlvParse(m.Body); m.Status != 200 || !ok || tlvHas(it, tError) {
				c.Violate("a request of a verified controller is not answered (the accessory is wedged)", id,
					map[string]interface{}{"history": "POST /pairings adding a controller whose name is 200 bytes long; then " + desc}, want, fmt.Sprintf("status %d body %s", m.Status, hx(m.Body)))
				return false
			}
		}
		return true
	}
	long := bytes.Repeat([]byte("n"), 200)
	if admin("add a controller with a 200-byte name", tlvMsg(tlvOp{tState, b1(1)}, tlvOp{tMethod, b1(3)}, tlvOp{tID, long}, tlvOp{tPubKey, randBytes(r, 32)}, tlvOp{tPerm, b1(0)}), "any answer") {
		for k := 0; k < 2; k++ {
			if !admin(fmt.Sprintf("add an ordinary controller (%d)", k+1), tlvMsg(tlvOp{tState, b1(1)}, tlvOp{tMethod, b1(3)}, tlvOp{tID, []byte(fmt.Sprintf("ordinary-%d", k))}, tlvOp{tPubKey, randBytes(r, 32)}, tlvOp{tPerm, b1(0)}), "added") {
				break
			}
		}
	}
	if !acc.Alive() {
		c.Violate("remote input ends the accessory process", id, "a pairing that cannot be stored", "accessory keeps serving", "process exited")
		return
	}
}

// ---- (B) end-to-end: a panic is a dropped connection --------------------------------------------------------

// c13ConnectionFlood: a peer opens more connections than the accessory's descriptor table has room for, says nothing
// on them and goes away. While the table is full nothing can be accepted; afterwards the accessory must serve again.
func c13ConnectionFlood(c *Ctx) {
	id := "e2e-flood#0"
	if c.Skip(id) {
		return
	}
	r := c.CaseRng("e2e-flood", 0)
	acc, err := startE2EChild(c.ScratchDir(), "HC_VERIF_NOFILE=48")
	if err != nil {
		c.Violate("transport does not start", id, nil, "started", err.Error())
		return
	}
	defer acc.Stop()
	ident := newRefIdentity(r, "ctrl-1")
	first, _ := acc.Dial()
	sr := refPairSetup(r, first.Post(), "001-02-003", ident)
	first.Close()
	if sr.ErrAt != "" {
		c.Violate("reference controller cannot pair", id, nil, "paired", sr.ErrAt)
		return
	}
	// connection churn: many short connections come and go at once next to a controller that keeps asking (sessions are
	// added to and removed from the shared context from many goroutines at the same time)
	{
		stop := make(chan struct{})
		var wg sync.WaitGroup
		var churned int64
		var droppedMu sync.Mutex
		dropped := ""
		for g := 0; g < 12; g++ {
			wg.Add(1)
			go func(g int) {
				defer wg.Done()
				for {
					select {
					case <-stop:
						return
					default:
					}
					cn, err := net.DialTimeout("tcp", "127.0.0.1:"+acc.port, time.Second)
					if err != nil {
						time.Sleep(5 * time.Millisecond)
						continue
					}
					if g%3 == 0 {
						cn.Write([]byte("GET /accessories HTTP/1.1\r\nHost: x\r\n\r\n"))
						cn.SetReadDeadline(time.Now().Add(200 * time.Millisecond))
						cn.Read(make([]byte, 512))
					}
					cn.Close()
					atomic.AddInt64(&churned, 1)
				}
			}(g)
		}
		// … and verified controllers doing ordinary things at the same time: two subscribe and unsubscribe in turn, one
		// writes the value, one reads the database
		for g := 0; g < 6; g++ {
			wg.Add(1)
			go func(g int) {
				defer wg.Done()
				cl, err := acc.Dial()
				if err != nil {
					return
				}
				defer cl.Close()
				vr := refPairVerify(rand.New(rand.NewSource(int64(g)+77)), cl.Post(), ident, sr.AccLTPK)
				if vr.Shared == nil {
					return
				}
				cl.Upgrade(vr.Shared)
				cl.timeout = 2 * time.Second
				for k := 0; ; k++ {
					select {
					case <-stop:
						return
					default:
					}
					var err error
					switch g {
					case 0, 1:
						_, err = cl.Do("PUT", "/characteristics", "application/hap+json", []byte(fmt.Sprintf(`{"characteristics":[{"aid":%d,"iid":%d,"ev":%v}]}`, acc.aid, acc.iid, k%2 == 0)))
					case 2, 4, 5:
						_, err = cl.Do("PUT", "/characteristics", "application/hap+json", []byte(fmt.Sprintf(`{"characteristics":[{"aid":%d,"iid":%d,"value":%v}]}`, acc.aid, acc.iid, (k+g)%2 == 0)))
					default:
						_, err = cl.Do("GET", "/accessories", "", nil)
					}
					if err != nil {
						// a timeout under this load is no finding; a connection that is gone is one: the request of a
						// verified controller was answered by a dropped connection (a handler panicked)
						if es := err.Error(); k > 0 && (strings.Contains(es, "EOF") || strings.Contains(es, "reset") || strings.Contains(es, "broken pipe")) {
							droppedMu.Lock()
							if dropped == "" {
								dropped = fmt.Sprintf("controller %d, request %d (%s): %s", g, k, []string{"subscribe / unsubscribe", "subscribe / unsubscribe", "write a value", "GET /accessories", "write a value", "write a value"}[g], es)
							}
							droppedMu.Unlock()
						}
						return
					}
					cl.Events = nil
				}
			}(g)
		}
		time.Sleep(time.Duration(c.Pick(2500, 8000)) * time.Millisecond)
		close(stop)
		wg.Wait()
		time.Sleep(100 * time.Millisecond)
		c.Count("e2e-churn", acc.Alive(), "e2e:churn")
		if dropped != "" && acc.Alive() {
			c.Violate("a request of a verified controller is answered by a dropped connection while other peers connect and disconnect", id,
				map[string]interface{}{"goroutines_connecting_and_closing": 12, "connections": atomic.LoadInt64(&churned), "verified_controllers": 6}, "a response", dropped)
		}
		if !acc.Alive() {
			c.Violate("the accessory process ends when many connections come and go at once", id, map[string]interface{}{"goroutines_connecting_and_closing": 12, "connections": atomic.LoadInt64(&churned)}, "still running", "exited")
			return
		}
	}
	var held []net.Conn
	for i := 0; i < 120; i++ {
		if cn, err := net.DialTimeout("tcp", "127.0.0.1:"+acc.port, time.Second); err == nil {
			held = append(held, cn)
		}
	}
	time.Sleep(1200 * time.Millisecond)
	for _, cn := range held {
		cn.Close()
	}
	in := map[string]interface{}{"descriptor_table": 48, "connections_opened_and_closed_without_a_byte": len(held)}
	deadline := time.Now().Add(12 * time.Second)
	last := "no attempt"
	served := false
	for time.Now().Before(deadline) && !served {
		time.Sleep(300 * time.Millisecond)
		cl, err := acc.Dial()
		if err != nil {
			last = err.Error()
			continue
		}
		cl.timeout = 3 * time.Second
		vr := refPairVerify(r, cl.Post(), ident, sr.AccLTPK)
		cl.Close()
		served = vr.Shared != nil
		last = vr.ErrAt
	}
	c.Count(id, served, "e2e:flood")
	if !acc.Alive() {
		c.Violate("the accessory process ends after a peer opened more connections than it has descriptors", id, in, "still running", "exited")
	} else if !served {
		c.Violate("the accessory does not serve any more after a peer opened more connections than it has descriptors (and closed them)", id, in, "pair-verify on a new connection succeeds within 12 s", last)
	}
}

func checkC13E2E(c *Ctx) {
	c13ConnectionFlood(c)
	c03PlainFraming(c) // the framing of plaintext requests decides whether a second request on a connection is served
	id := "e2e#0"
	if c.Skip(id) {
		return
	}
	r := c.CaseRng("e2e", 0)
	dir := c.ScratchDir()
	// the accessory runs in a child process: an unrecovered panic (e.g. in net/http's background read, which has no
	// recover) ends that process, which the harness then observes instead of dying with it
	acc, err := startE2EChild(dir)
	if err != nil {
		c.Violate("transport does not start", id, nil, "started", err.Error())
		return
	}
	defer acc.Stop()
	swID, onID := acc.aid, acc.iid
	ident := newRefIdentity(r, "ctrl-1")
	first, _ := acc.Dial()
	sr := refPairSetup(r, first.Post(), "001-02-003", ident)
	first.Close()
	if sr.ErrAt != "" {
		c.Violate("reference controller cannot pair", id, nil, "paired", sr.ErrAt)
		return
	}
	type probe struct {
		scen  string
		state int
	}
	var probes []probe
	for _, p := range []probe{{"pair-setup", 0}, {"pair-setup", 1}, {"pair-verify", 0}, {"pair-verify", 1}, {"json-verified", 0}, {"pairings-verified", 0}} {
		probes = append(probes, p)
	}
	per := c.Pick(6, 40)
	for _, p := range probes {
		var inputs []malInput
		switch p.scen {
		case "pair-setup":
			inputs = tlvMalformed(r, "/pair-setup", byte(1+2*p.state))
		case "pair-verify":
			inputs = tlvMalformed(r, "/pair-verify", byte(1+2*p.state))
		case "pairings-verified":
			inputs = pairingsMalformed(r)
		default:
			inputs = jsonMalformed(r, swID, onID)
		}
		for k := 0; k < per && k < len(inputs); k++ {
			in := inputs[(k*7+int(c.Seed))%len(inputs)]
			if len(in.Body) > 20000 || len(in.Target) > 2000 {
				continue
			}
			cl, err := acc.Dial()
			if err != nil {
				c.Violate("accessory does not accept connections any more", id, in.Desc, "connect", err.Error())
				return
			}
			ok := true
			switch p.scen {
			case "pair-setup":
				if p.state >= 1 {
					m, err := cl.Do("POST", "/pair-setup", "application/pairing+tlv8", tlvMsg(tlvOp{tState, b1(1)}, tlvOp{tMethod, b1(0)}))
					ok = err == nil && m.Status == 200
				}
			case "pair-verify":
				if p.state >= 1 {
					m, err := cl.Do("POST", "/pair-verify", "application/pairing+tlv8", tlvMsg(tlvOp{tState, b1(1)}, tlvOp{tPubKey, refX25519Pub(randBytes(r, 32))}))
					ok = err == nil && m.Status == 200
				}
			default:
				vr := refPairVerify(r, cl.Post(), ident, sr.AccLTPK)
				ok = vr.Shared != nil
				if ok {
					cl.Upgrade(vr.Shared)
				}
			}
			desc := fmt.Sprintf("tcp %s state=%d: %s", p.scen, p.state, in.Desc)
			if !ok {
				c.Violate("honest protocol prefix is rejected", id, desc, "accepted", "rejected")
				cl.Close()
				continue
			}
			m, err := cl.Do(in.Method, in.Target, in.CType, in.Body)
			c.Count(desc, true, "e2e:"+p.scen)
			if err != nil {
				c.Violate("remote input is answered by a dropped connection instead of a response", id, map[string]interface{}{"scenario": desc, "body_hex": trunc(hx(in.Body), 400)}, "HTTP response", err.Error())
			} else if !okStatus(m.Status) {
				c.Violate("remote input is not answered with a well-formed response", id, desc, "HTTP status of the HAP vocabulary", fmt.Sprint(m.Status))
			}
			if err == nil && (p.scen == "pair-setup" || p.scen == "pair-verify") && !strings.EqualFold(m.Header.Get("Connection"), "close") {
				// … and on the SAME connection: a request without a body (its end is the end of its header), then a
				// correct handshake, of which at most the first start request may be rejected
				g, gerr := cl.Do("GET", "/accessories", "", nil)
				if gerr != nil {
					c.Violate("a request without a body on the connection that carried the malformed input is not answered", id, desc, "HTTP response", gerr.Error())
				} else if !strings.EqualFold(g.Header.Get("Connection"), "close") {
					vr := refPairVerify(r, cl.Post(), ident, sr.AccLTPK)
					if vr.Shared == nil && strings.HasPrefix(vr.ErrAt, "M2") {
						vr = refPairVerify(r, cl.Post(), ident, sr.AccLTPK)
					}
					if vr.Shared == nil {
						c.Violate("accessory cannot complete pair-verify on the same connection after malformed input", id, desc+"; then GET /accessories; then handshake on the same connection", "verified (at most one start request rejected)", vr.ErrAt)
					}
					c.Count(desc+"/same-conn", vr.Shared != nil, "e2e:same-connection")
				}
			}
			cl.Close()
			// the accessory still serves: full verify on a new connection
			n2, err := acc.Dial()
			if err != nil {
				c.Violate("accessory does not accept connections any more", id, desc, "connect", err.Error())
				return
			}
			if vr := refPairVerify(r, n2.Post(), ident, sr.AccLTPK); vr.Shared == nil {
				c.Violate("accessory cannot complete pair-verify after malformed input", id, desc+"; then handshake on a new connection", "verified", vr.ErrAt)
			}
			n2.Close()
			c.Trace()
			if !acc.Alive() {
				c.Violate("remote input ends the accessory process", id, desc, "accessory keeps serving", "process exited")
				return
			}
		}
	}
	// ---- unusual but legal framing of a well-formed request on a verified connection
	for k, fr := range []string{"chunked", "huge-content-length"} {
		cl, err := acc.Dial()
		if err != nil {
			c.Violate("accessory does not accept connections any more", id, fr, "connect", err.Error())
			return
		}
		vr := refPairVerify(r, cl.Post(), ident, sr.AccLTPK)
		if vr.Shared == nil {
			c.Violate("paired reference controller cannot verify", id, fr, "verified", vr.ErrAt)
			cl.Close()
			continue
		}
		cl.Upgrade(vr.Shared)
		body := fmt.Sprintf(`{"characteristics":[{"aid":%d,"iid":%d,"value":%v}]}`, swID, onID, k == 0)
		var req string
		if fr == "chunked" {
			req = fmt.Sprintf("PUT /characteristics HTTP/1.1\r\nHost: acc.local\r\nContent-Type: application/hap+json\r\nTransfer-Encoding: chunked\r\n\r\n%x\r\n%s\r\n0\r\n\r\n", len(body), body)
		} else {
			req = "PUT /characteristics HTTP/1.1\r\nHost: acc.local\r\nContent-Type: application/hap+json\r\nContent-Length: 100000000000\r\n\r\n{"
		}
		cl.conn.Write(cl.sess.Encrypt([]byte(req)))
		cl.timeout = 2 * time.Second
		m, merr := cl.next(cl.timeout)
		desc := "tcp verified connection: well-formed PUT /characteristics, " + fr
		c.Count(desc, true, "e2e:framing")
		if fr == "chunked" && (merr != nil || m == nil || m.Status != 204) {
			c.Violate("remote input is answered by a dropped connection instead of a response", id, map[string]interface{}{"scenario": desc, "request": req}, "204", fmt.Sprint(merr, m))
		}
		cl.Close()
		time.Sleep(50 * time.Millisecond)
		if !acc.Alive() {
			c.Violate("remote input ends the accessory process", id, map[string]interface{}{"scenario": desc, "request": trunc(req, 300)}, "accessory keeps serving", "process exited")
			return
		}
	}
	// ---- a frame that arrives in two parts around the answer to the previous request (net/http aborts its pending read —
	// with a deadline in the past — when a handler returns; a part of a frame may have arrived by then)
	for _, cut := range []int{1, 2, 3, 25} {
		cl, err := acc.Dial()
		if err != nil {
			c.Violate("accessory does not accept connections any more", id, cut, "connect", err.Error())
			return
		}
		vr := refPairVerify(r, cl.Post(), ident, sr.AccLTPK)
		if vr.Shared == nil {
			c.Violate("paired reference controller cannot verify", id, cut, "verified", vr.ErrAt)
			cl.Close()
			continue
		}
		cl.Upgrade(vr.Shared)
		cl.timeout = 3 * time.Second
		a := cl.sess.Encrypt([]byte(fmt.Sprintf("GET /characteristics?id=%d.%d HTTP/1.1\r\nHost: acc.local\r\n\r\n", swID, onID)))
		b := cl.sess.Encrypt([]byte("GET /accessories HTTP/1.1\r\nHost: acc.local\r\n\r\n"))
		cl.conn.Write(append(append([]byte{}, a...), b[:cut]...))
		ma, err := cl.next(cl.timeout)
		var mb *refMsg
		if err == nil && ma != nil {
			time.Sleep(3 * time.Millisecond)
			cl.conn.Write(b[cut:])
			mb, err = cl.next(cl.timeout)
		}
		desc := fmt.Sprintf("tcp verified connection: a request, and in the same segment the first %d bytes of the frame of the next one; the rest after the first answer", cut)
		c.Count(desc, true, "e2e:split-frame")
		if err != nil || ma == nil || mb == nil {
			c.Violate("a well-formed request of a verified controller is not answered (its frame arrived in two parts around the previous answer)", id, desc, "two answers", fmt.Sprint(err, ma, mb))
		}
		cl.Close()
		if !acc.Alive() {
			c.Violate("remote input ends the accessory process", id, desc, "accessory keeps serving", "process exited")
			return
		}
	}
	// ---- requests on a PLAINTEXT connection that the connection's own framing of plaintext requests cannot frame: a
	// pairing request with a chunked body (legal HTTP, unknown length), a header that is no HTTP, a header that never
	// ends. Each is answered with an HTTP response (an error) — not with a connection that is closed without a word
	for _, pc := range []struct{ desc, raw string }{
		{"POST /pair-verify with Transfer-Encoding: chunked (a well-formed start request)", "POST /pair-verify HTTP/1.1\r\nHost: acc.local\r\nContent-Type: application/pairing+tlv8\r\nTransfer-Encoding: chunked\r\n\r\n25\r\n\x06\x01\x01\x03\x20" + strings.Repeat("\x09", 32) + "\r\n0\r\n\r\n"},
		{"a request line that is no HTTP", "PAIR me now\r\n\r\n"},
		{"a header field without a colon", "POST /pair-setup HTTP/1.1\r\nHost acc.local\r\n\r\n"},
	} {
		cn, err := net.DialTimeout("tcp", "127.0.0.1:"+acc.port, 2*time.Second)
		if err != nil {
			c.Violate("accessory does not accept connections any more", id, pc.desc, "connect", err.Error())
			return
		}
		cn.Write([]byte(pc.raw))
		cn.SetReadDeadline(time.Now().Add(3 * time.Second))
		buf := make([]byte, 256)
		n, rerr := cn.Read(buf)
		cn.Close()
		desc := "tcp plaintext connection: " + pc.desc
		c.Count(desc, true, "e2e:plain-unframeable")
		if n == 0 || !bytes.HasPrefix(buf[:n], []byte("HTTP/1.")) {
			c.Violate("remote input is answered by a dropped connection instead of a response", id, map[string]interface{}{"scenario": desc, "request": trunc(pc.raw, 200)}, "an HTTP response (an error)", fmt.Sprintf("%d bytes read, %v", n, rerr))
		}
		if !acc.Alive() {
			c.Violate("remote input ends the accessory process", id, desc, "accessory keeps serving", "process exited")
			return
		}
	}
	// ---- (F69, known finding) a complete plaintext request with something behind it before its answer: the empty line
	// some HTTP clients append to a POST body, a second request in the same segment. The request in front is well-formed
	// and would be answered; the connection's framing refuses the whole read and closes without a word.
	m1 := "\x00\x01\x00\x06\x01\x01"
	for _, pc := range []struct{ desc, raw string }{
		{"a pair-setup start request followed by CRLF", fmt.Sprintf("POST /pair-setup HTTP/1.1\r\nHost: acc.local\r\nContent-Type: application/pairing+tlv8\r\nContent-Length: %d\r\n\r\n%s\r\n", len(m1), m1)},
		{"two requests in one segment", "GET /accessories HTTP/1.1\r\nHost: acc.local\r\n\r\nGET /accessories HTTP/1.1\r\nHost: acc.local\r\n\r\n"},
	} {
		cn, err := net.DialTimeout("tcp", "127.0.0.1:"+acc.port, 2*time.Second)
		if err != nil {
			c.Violate("accessory does not accept connections any more", id, pc.desc, "connect", err.Error())
			return
		}
		cn.Write([]byte(pc.raw))
		cn.SetReadDeadline(time.Now().Add(3 * time.Second))
		buf := make([]byte, 256)
		n, rerr := cn.Read(buf)
		cn.Close()
		desc := "tcp plaintext connection: " + pc.desc
		c.Count(desc, true, "e2e:plain-trailing")
		if n == 0 || !bytes.HasPrefix(buf[:n], []byte("HTTP/1.")) {
			c.Violate("a complete plaintext request is not answered when bytes follow it before its response (the connection is closed without a word)", id, map[string]interface{}{"scenario": desc, "request": trunc(pc.raw, 200)}, "an HTTP response to the request in front", fmt.Sprintf("%d bytes read, %v", n, rerr))
		}
		if !acc.Alive() {
			c.Violate("remote input ends the accessory process", id, desc, "accessory keeps serving", "process exited")
			return
		}
	}
	// ---- an event that is kept back while a request of its connection is under way: controller 1 subscribes, sends the
	// header of a request and withholds the body; controller 2 changes the value; controller 1 sends the body. Both get their
	// answers, controller 1 its event, and the value can be written again afterwards (nothing is wedged)
	{
		connect := func() *refClient {
			cl, err := acc.Dial()
			if err != nil {
				return nil
			}
			vr := refPairVerify(r, cl.Post(), ident, sr.AccLTPK)
			if vr.Shared == nil {
				cl.Close()
				return nil
			}
			cl.Upgrade(vr.Shared)
			cl.timeout = 4 * time.Second
			return cl
		}
		c1, c2 := connect(), connect()
		desc := "tcp two verified connections: a request of the subscribed one is open (header sent, body withheld) while the other one writes the value"
		if c1 == nil || c2 == nil {
			c.Violate("paired reference controller cannot verify", id, desc, "verified", "failed")
		} else {
			sub := fmt.Sprintf(`{"characteristics":[{"aid":%d,"iid":%d,"ev":true}]}`, swID, onID)
			c1.Do("PUT", "/characteristics", "application/hap+json", []byte(sub))
			body := fmt.Sprintf(`{"characteristics":[{"aid":%d,"iid":%d,"ev":true}]}`, swID, onID)
			head := fmt.Sprintf("PUT /characteristics HTTP/1.1\r\nHost: acc.local\r\nContent-Type: application/hap+json\r\nContent-Length: %d\r\n\r\n", len(body))
			c1.conn.Write(c1.sess.Encrypt([]byte(head)))
			time.Sleep(30 * time.Millisecond)
			cur, _ := c2.Do("GET", fmt.Sprintf("/characteristics?id=%d.%d", swID, onID), "", nil)
			next := cur == nil || !bytes.Contains(cur.Body, []byte(`"value":true`))
			w := func(v bool) []byte { return []byte(fmt.Sprintf(`{"characteristics":[{"aid":%d,"iid":%d,"value":%v}]}`, swID, onID, v)) }
			m2, err2 := c2.Do("PUT", "/characteristics", "application/hap+json", w(next))
			c1.conn.Write(c1.sess.Encrypt([]byte(body)))
			m1, err1 := c1.next(c1.timeout)
			for err1 == nil && m1 != nil && m1.Event {
				m1, err1 = c1.next(c1.timeout)
			}
			m3, err3 := c2.Do("PUT", "/characteristics", "application/hap+json", w(!next))
			c.Count(desc, true, "e2e:held-event")
			if err1 != nil || err2 != nil || err3 != nil || m1 == nil || m2 == nil || m3 == nil {
				c.Violate("a request of a verified controller is not answered (the accessory is wedged)", id, desc,
					"the open request, the write and a second write are all answered", fmt.Sprintf("open request: %v %v; write: %v %v; second write: %v %v", err1, m1 != nil, err2, m2 != nil, err3, m3 != nil))
			}
		}
		for _, cl := range []*refClient{c1, c2} {
			if cl != nil {
				cl.Close()
			}
		}
		if !acc.Alive() {
			c.Violate("remote input ends the accessory process", id, desc, "accessory keeps serving", "process exited")
			return
		}
	}
	// ---- raw frames on a verified connection (the length field of a frame is not authenticated before it is used)
	type rawCase struct {
		desc     string
		inFlight bool
		frame    []byte
	}
	hdr := func(n int, body int) []byte { return append([]byte{byte(n), byte(n >> 8)}, randBytes(r, body)...) }
	raws := []rawCase{
		{"frame header announcing 1280 bytes, garbage", false, hdr(0x0500, 1296)},
		{"frame header announcing 65535 bytes, garbage", false, hdr(0xffff, 3000)},
		{"frame header announcing 1025 bytes while a request is in flight", true, hdr(1025, 1041)},
		{"frame header announcing 40000 bytes while a request is in flight", true, hdr(40000, 5000)},
		{"zero-length frame with a garbage tag while a request is in flight", true, hdr(0, 16)},
		{"truncated frame then silence", false, hdr(100, 20)},
	}
	for _, rc := range raws {
		cl, err := acc.Dial()
		if err != nil {
			c.Violate("accessory does not accept connections any more", id, rc.desc, "connect", err.Error())
			return
		}
		vr := refPairVerify(r, cl.Post(), ident, sr.AccLTPK)
		if vr.Shared == nil {
			c.Violate("paired reference controller cannot verify", id, rc.desc, "verified", vr.ErrAt)
			cl.Close()
			continue
		}
		cl.Upgrade(vr.Shared)
		payload := rc.frame
		if rc.inFlight {
			// a valid request and the bad frame in one segment: the frame is read while the request is being served
			req := cl.sess.Encrypt([]byte("GET /accessories HTTP/1.1\r\nHost: x\r\n\r\n"))
			payload = append(req, rc.frame...)
		}
		cl.conn.Write(payload)
		time.Sleep(30 * time.Millisecond)
		cl.Close()
		desc := "tcp verified connection: " + rc.desc
		c.Count(desc, true, "e2e:raw-frames")
		if !acc.Alive() {
			c.Violate("remote input ends the accessory process", id, map[string]interface{}{"scenario": desc, "frame_header_hex": hx(rc.frame[:2])}, "accessory keeps serving", "process exited")
			return
		}
		n2, err := acc.Dial()
		if err != nil {
			c.Violate("accessory does not accept connections any more", id, desc, "connect", err.Error())
			return
		}
		if vr := refPairVerify(r, n2.Post(), ident, sr.AccLTPK); vr.Shared == nil {
			c.Violate("accessory cannot complete pair-verify after malformed input", id, desc+"; then handshake on a new connection", "verified", vr.ErrAt)
		}
		n2.Close()
		c.Trace()
	}
	// ---- well-formed requests of a verified peer whose size is an exact multiple of the frame size, and a peer that stalls
	verified := func(what string) *refClient {
		cl, err := acc.Dial()
		if err != nil {
			c.Violate("accessory does not accept connections any more", id, what, "connect", err.Error())
			return nil
		}
		vr := refPairVerify(r, cl.Post(), ident, sr.AccLTPK)
		if vr.Shared == nil {
			c.Violate("paired reference controller cannot verify", id, what, "verified", vr.ErrAt)
			cl.Close()
			return nil
		}
		cl.Upgrade(vr.Shared)
		return cl
	}
	if cl := verified("sized requests"); cl != nil {
		cl.timeout = 1500 * time.Millisecond
		for _, total := range []int{300, 1023, 1024, 1025, 2048, 3072} {
			body := fmt.Sprintf(`{"characteristics":[{"aid":%d,"iid":%d,"value":%v}]}`, swID, onID, total%2 == 0)
			head := func(n int) string {
				return fmt.Sprintf("PUT /characteristics HTTP/1.1\r\nHost: acc.local\r\nContent-Type: application/hap+json\r\nContent-Length: %d\r\n\r\n", n)
			}
			pad := total - len(head(len(body))) - len(body)
			for pad > 0 && len(head(len(body)+pad))+len(body)+pad != total { // the length field may grow by a digit
				pad--
			}
			if pad < 0 {
				pad = 0
			}
			full := head(len(body)+pad) + body + strings.Repeat(" ", pad)
			desc := fmt.Sprintf("tcp verified connection: well-formed PUT /characteristics of exactly %d bytes", len(full))
			cl.send([]byte(full))
			m, err := cl.next(cl.timeout)
			c.Count(desc, true, "e2e:sized")
			if err != nil || m == nil || m.Status != 204 {
				c.Violate("a well-formed request of a verified peer is not answered", id, desc, "204", fmt.Sprint(err, m))
				break
			}
		}
		cl.Close()
	}
	if a, b := verified("stall A"), verified("stall B"); a != nil && b != nil {
		body := fmt.Sprintf(`{"characteristics":[{"aid":%d,"iid":%d,"value":true}]}`, swID, onID)
		part := fmt.Sprintf("PUT /characteristics HTTP/1.1\r\nHost: acc.local\r\nContent-Type: application/hap+json\r\nContent-Length: %d\r\n\r\n%s", len(body), body[:len(body)/2])
		a.send([]byte(part)) // … and then nothing
		time.Sleep(30 * time.Millisecond)
		b.timeout = 1500 * time.Millisecond
		desc := "tcp: a verified peer sent the head and half the body of a PUT and went silent; another verified peer"
		for _, rq := range [][2]string{{"GET", "/accessories"}, {"PUT", "/characteristics"}, {"GET", fmt.Sprintf("/characteristics?id=%d.%d", swID, onID)}} {
			var bb []byte
			if rq[0] == "PUT" {
				bb = []byte(fmt.Sprintf(`{"characteristics":[{"aid":%d,"iid":%d,"value":false}]}`, swID, onID))
			}
			m, err := b.Do(rq[0], rq[1], "application/hap+json", bb)
			c.Count(desc+rq[0]+rq[1], true, "e2e:stall")
			if err != nil || m == nil || m.Status >= 400 {
				c.Violate("one peer that stalls in the middle of a request leaves the accessory unable to serve the others", id, desc+": "+rq[0]+" "+rq[1], "served", fmt.Sprint(err, m))
				break
			}
		}
		a.Close()
		b.Close()
	}
}
