package main

// C20 — setup-code acceptance (password.go), setup URI (util/xhmurl.go) and the persistence of identity,
// configuration number and discoverability across restarts (config.go, ip_transport.go, hap/device.go, db/database.go):
// correspondence with HcModel/{Pin,Xhm,Config}.lean + direct oracles that do not go through the model.

import (
	"fmt"
	"math/rand"
	"strings"
	"sync/atomic"

	"github.com/brutella/hc"
	"github.com/brutella/hc/util"
)

func init() { register("C20", checkC20) }

func checkC20(c *Ctx) {
	c20FirstStartCrash(c)
	c20RestructureCrash(c)
	c20StartFaults(c)
	c20UnlistedPairings(c)
	c20ConcurrentUnpair(c)
	c20ListingDuringRemoval(c)
	c20ForeignStorage(c)
	platformProbe(c, "C20", "xhmprobe") // the setup URI on the host, GOARCH=386 and js/wasm (the payload has 45 bits)
	c18RelativePath(c)
	c20HashPrecision(c)
	c.SetRule("streams: pin (ValidatePin on structured + random strings; non-trivial = 8 bytes long or a trivial code), " +
		"xhm (util.XHMURI on (code string, setup id, category, flag list); non-trivial = a URI was produced), " +
		"xhm-grid (every category 0..255 x every 4-bit flag set, decoded by an independent decoder), " +
		"restart (histories of 3-25 steps of start/pair/unpair/stop/value-change/structure-change/rejected start/emptied version or configHash file on one storage directory against the real " +
		"hc.NewIPTransport; non-trivial = at least one restart after a pairing or structure change). distinct = distinct canonical input lines")
	c.Assume("strconv.ParseUint, strings.Replace, bytes.Runes are modelled (Xhm.parseUint64, stripDash, Pin.format), exercised through the real library")
	c.Assume("the content hash (MD5 of the value-stripped JSON) is an uninterpreted function H in the model; the driver instantiates it injectively, the harness compares change/no-change")
	c20PinXhm(c)
	c20Restart(c)
}

// ---- reference implementations (independent of hc and of the Lean model) ---------------------------------------

var c20Trivial = func() map[string]bool {
	m := map[string]bool{"12345678": true, "87654321": true}
	for d := 0; d < 10; d++ {
		m[strings.Repeat(string(rune('0'+d)), 8)] = true
	}
	return m
}()

// refPin: (accepted, formatted result)
func refPin(s string) (bool, string) {
	if len(s) != 8 || c20Trivial[s] {
		return false, ""
	}
	for i := 0; i < 8; i++ {
		if s[i] < '0' || s[i] > '9' {
			return false, ""
		}
	}
	return true, s[0:3] + "-" + s[3:5] + "-" + s[5:8]
}

// refXhmDecode decodes "X-HM://" + 9 base-36 digits + setup id.
func refXhmDecode(uri string) (code uint64, cat uint64, flags uint64, setupID string, ok bool) {
	const pre = "X-HM://"
	if !strings.HasPrefix(uri, pre) || len(uri) < len(pre)+9 {
		return
	}
	var p uint64
	for _, ch := range []byte(uri[len(pre) : len(pre)+9]) {
		var d uint64
		switch {
		case ch >= '0' && ch <= '9':
			d = uint64(ch - '0')
		case ch >= 'A' && ch <= 'Z':
			d = uint64(ch-'A') + 10
		default:
			return
		}
		p = p*36 + d
	}
	if p>>39 != 0 { // version and reserved bits must be zero
		return
	}
	return p & (1<<27 - 1), (p >> 31) & 0xff, (p >> 27) & 0xf, uri[len(pre)+9:], true
}

func pinClass(res string, err error) string {
	if err == nil {
		return "ok " + hx([]byte(res))
	}
	m := err.Error()
	switch {
	case strings.HasPrefix(m, "Pin must not be"):
		return "err trivial"
	case strings.HasPrefix(m, "Pin must be 8 characters"):
		return "err length"
	case strings.HasPrefix(m, "Pin must only contain numbers"):
		return "err nondigit"
	}
	return "err other:" + m
}

func digits(r *rand.Rand, n int) string {
	b := make([]byte, n)
	for i := range b {
		b[i] = byte('0' + r.Intn(10))
	}
	return string(b)
}

var c20TrivialList = []string{"12345678", "87654321", "00000000", "11111111", "22222222", "33333333", "44444444", "55555555", "66666666", "77777777", "88888888", "99999999"}

// genPin: (kind, string). Mostly near the acceptance boundary.
func genPin(r *rand.Rand) (string, string) {
	switch r.Intn(20) {
	case 0, 1, 2, 3, 4:
		return "digits8", digits(r, 8)
	case 5:
		k := 1 + r.Intn(7)
		return "leading-zeros", strings.Repeat("0", k) + digits(r, 8-k)
	case 6:
		return "trivial", c20TrivialList[r.Intn(12)]
	case 7: // one position off a trivial code
		if r.Intn(3) == 0 {
			// codes that LOOK like the trivial ones and are none of the twelve: digits counting up or down from any start,
			// with or without wrap-around, two alternating digits, a palindrome of a repeated pair
			st, dir := r.Intn(10), []int{1, 9}[r.Intn(2)]
			b := make([]byte, 8)
			for k := range b {
				switch r.Intn(1) {
				default:
					b[k] = byte('0' + (st+k*dir)%10)
				}
			}
			if r.Intn(4) == 0 {
				for k := range b {
					b[k] = byte('0' + (st+(k%2)*dir)%10)
				}
			}
			return "looks-trivial", string(b)
		}
		b := []byte(c20TrivialList[r.Intn(12)])
		b[r.Intn(8)] = byte('0' + r.Intn(10))
		return "near-trivial", string(b)
	case 8:
		return "digits7", digits(r, 7)
	case 9:
		return "digits9", digits(r, 9)
	case 10:
		return "digits-n", digits(r, r.Intn(24))
	case 11: // formatted form and other dash placements
		d := digits(r, 8)
		switch r.Intn(3) {
		case 0:
			return "dash-formatted", d[:3] + "-" + d[3:5] + "-" + d[5:]
		case 1:
			b := []byte(d)
			b[r.Intn(8)] = '-'
			return "dash-inside8", string(b)
		default:
			k := r.Intn(9)
			return "dash-inserted", d[:k] + "-" + d[k:]
		}
	case 12: // non-ASCII digits: full-width (3 bytes each), arabic-indic (2 bytes each)
		switch r.Intn(4) {
		case 0:
			return "fullwidth8", "１２３４５６７８"
		case 1:
			return "fullwidth-8bytes", "１２" + digits(r, 2)
		case 2:
			return "arabic-8bytes", "١٢٣٤"
		default:
			return "fullwidth-mix", digits(r, r.Intn(6)) + "３" + digits(r, r.Intn(6))
		}
	case 13: // one non-digit byte in an 8-byte string, near '0'/'9'
		b := []byte(digits(r, 8))
		b[r.Intn(8)] = []byte{'/', ':', ' ', 'a', 'O', 0, 0x80, 0xff, '+', '-', '.', '_'}[r.Intn(12)]
		return "one-nondigit", string(b)
	case 14:
		return "sign", []string{"+", "-", " "}[r.Intn(3)] + digits(r, 7)
	case 15:
		return "empty-or-short", digits(r, r.Intn(3))
	case 16:
		return "random-bytes8", string(randBytes(r, 8))
	case 17:
		return "random-bytes", string(randBytes(r, r.Intn(20)))
	case 18: // trivial code with decoration
		t := c20TrivialList[r.Intn(12)]
		switch r.Intn(3) {
		case 0:
			return "trivial-formatted", t[:3] + "-" + t[3:5] + "-" + t[5:]
		case 1:
			return "trivial-prefix", t[:7]
		default:
			return "trivial-plus", t + digits(r, 1)
		}
	default: // huge numbers for ParseUint range: around 2^64
		return "big-number", []string{"18446744073709551615", "18446744073709551616", "18446744073709551614", "99999999999999999999",
			"018446744073709551615", "134217728", "134217727", "0134217729"}[r.Intn(8)]
	}
}

func genSetupID(r *rand.Rand) string {
	switch r.Intn(6) {
	case 0:
		return "HOME"
	case 1:
		return ""
	case 2:
		return string(randBytes(r, r.Intn(6)))
	default:
		b := make([]byte, 4)
		for i := range b {
			b[i] = byte('A' + r.Intn(26))
		}
		return string(b)
	}
}

func flagsHex(fs []util.SetupFlag) string {
	b := make([]byte, len(fs))
	for i, f := range fs {
		b[i] = byte(f)
	}
	return hx(b)
}

type xhmCase struct {
	id    string
	kind  string
	pin   string
	setup string
	cat   uint8
	flags []util.SetupFlag
}

func (x xhmCase) line() string {
	return fmt.Sprintf("xhm uri %s %s %d %s", hx([]byte(x.pin)), hx([]byte(x.setup)), x.cat, flagsHex(x.flags))
}

// c20CheckXhm runs one XHMURI case on the real code, applies the direct oracles, returns the canonical result.
func c20CheckXhm(c *Ctx, x xhmCase) string {
	var uri string
	var err error
	msg, pan := safely(func() { uri, err = util.XHMURI(x.pin, x.setup, x.cat, x.flags) })
	if pan {
		c.Violate("XHMURI panics", x.id, x.line(), "uri or error", msg)
		return "panic"
	}
	var merged uint64
	for _, f := range x.flags {
		merged |= uint64(f)
	}
	okPin, fmtPin := refPin(x.pin)
	if !okPin { // the formatted form of a valid code is also a legal input
		if len(x.pin) == 10 && x.pin[3] == '-' && x.pin[6] == '-' {
			raw := x.pin[:3] + x.pin[4:6] + x.pin[7:]
			if ok2, f2 := refPin(raw); ok2 && f2 == x.pin {
				okPin, fmtPin = true, x.pin
				x.pin = raw
			}
		}
	}
	if okPin {
		var want uint64
		for i := 0; i < 8; i++ {
			want = want*10 + uint64(x.pin[i]-'0')
		}
		if err != nil {
			c.Violate("XHMURI fails for a valid setup code", x.id, x.line(), "uri", err.Error())
		} else {
			code, cat, fl, sid, ok := refXhmDecode(uri)
			exp := fmt.Sprintf("code=%d cat=%d flags=%d setup=%q", want, x.cat, merged&0xf, x.setup)
			got := fmt.Sprintf("code=%d cat=%d flags=%d setup=%q", code, cat, fl, sid)
			if !ok {
				c.Violate("setup URI is not X-HM:// + nine base-36 digits + setup id", x.id, x.line(), exp, uri)
			} else if exp != got {
				c.Violate("setup URI does not decode back to code, category, flags and setup id", x.id, x.line(), exp, got+" uri="+uri)
			}
			// raw and formatted code give the same URI
			u2, err2 := util.XHMURI(fmtPin, x.setup, x.cat, x.flags)
			if err2 != nil || u2 != uri {
				c.Violate("setup URI differs between raw and XXX-XX-XXX form of the code", x.id, x.line(), uri, fmt.Sprint(u2, err2))
			}
		}
	}
	if err != nil {
		if uri != "" {
			c.Violate("XHMURI returns a URI together with an error", x.id, x.line(), "empty", uri)
		}
		return "err"
	}
	return "ok " + hx([]byte(uri))
}

func c20PinXhm(c *Ctx) {
	// ---------------- stream "pin": blocks of 100 cases per derived PRNG
	type pinCase struct{ id, kind, s string }
	var pcs []pinCase
	for i, s := range c20TrivialList { // corpus first: the 12 trivial codes, the default pin, boundary shapes
		pcs = append(pcs, pinCase{fmt.Sprintf("pin-trivial#%d", i), "trivial", s})
	}
	for i, s := range []string{"00102003", "00000001", "10000000", "99999998", "12345679", "0000000", "000000000", "", "１２３４５６７８",
		"１２34", "001-02-003", "0010200-", "-0102003", "+0102003", " 0102003", "0010200a", "0010200/", "0010200:", "00102003\n", "\x0000102003"[:8]} {
		pcs = append(pcs, pinCase{fmt.Sprintf("pin-corpus#%d", i), "corpus", s})
	}
	// every code whose digits count up or down by one (from any start, wrapping at 9/0): exactly two of them are trivial
	for st := 0; st < 10; st++ {
		for _, dir := range []int{1, 9} {
			b := make([]byte, 8)
			for k := range b {
				b[k] = byte('0' + (st+k*dir)%10)
			}
			pcs = append(pcs, pinCase{fmt.Sprintf("pin-run#%d.%d", st, dir), "looks-trivial", string(b)})
		}
	}
	nb := c.Pick(200, 10000)
	for b := 0; b < nb; b++ {
		r := c.CaseRng("pin", b)
		for j := 0; j < 100; j++ {
			k, s := genPin(r)
			pcs = append(pcs, pinCase{fmt.Sprintf("pin#%d.%d", b, j), k, s})
		}
	}
	var lines []string
	var live []pinCase
	for _, p := range pcs {
		if c.Skip(p.id) {
			continue
		}
		live = append(live, p)
		lines = append(lines, "pin validate "+hx([]byte(p.s)))
	}
	model := c.Model(lines)
	for i, p := range live {
		var res string
		var err error
		msg, pan := safely(func() { res, err = hc.ValidatePin(p.s) })
		impl := "panic"
		if pan {
			c.Violate("ValidatePin panics", p.id, lines[i], "result or error", msg)
		} else {
			impl = pinClass(res, err)
			okRef, fmtRef := refPin(p.s)
			switch {
			case err == nil && !okRef && c20Trivial[p.s]:
				c.Violate("ValidatePin accepts a trivial code", p.id, lines[i], "error", res)
			case err == nil && !okRef:
				c.Violate("ValidatePin accepts a string that is not eight ASCII digits", p.id, lines[i], "error", res)
			case err != nil && okRef:
				c.Violate("ValidatePin rejects a valid eight-digit code", p.id, lines[i], fmtRef, err.Error())
			case err == nil && res != fmtRef:
				c.Violate("ValidatePin result is not the XXX-XX-XXX form of the input", p.id, lines[i], fmtRef, res)
			case err != nil && res != "":
				c.Violate("ValidatePin returns a result together with an error", p.id, lines[i], "empty", res)
			}
		}
		c.Same("pin", p.id, lines[i], model[i], impl)
		c.Count(lines[i], len(p.s) == 8 || c20Trivial[p.s], "pin:"+p.kind, "pin:=>"+map[bool]string{true: "ok", false: firstWords(impl, 2)}[strings.HasPrefix(impl, "ok")])
		if i == 32 || i == 40 {
			c.Sample(fmt.Sprintf("%s %q => %s", lines[i], p.s, impl))
		}
	}
	c.Trace()

	// ---------------- stream "xhm"
	var xcs []xhmCase
	xcs = append(xcs,
		xhmCase{"xhm-corpus#0", "corpus", "102-93-847", "ERIC", 5, []util.SetupFlag{util.SetupFlagIP}},
		xhmCase{"xhm-corpus#1", "corpus", "102-93-847", "ERIC", 5, []util.SetupFlag{util.SetupFlagIP, util.SetupFlagBTLE}},
		xhmCase{"xhm-corpus#2", "corpus", "BAD", "ERIC", 5, []util.SetupFlag{util.SetupFlagIP}},
		xhmCase{"xhm-corpus#3", "corpus", "00102003", "HOME", 1, nil},
		xhmCase{"xhm-corpus#4", "corpus", "99999998", "HOME", 255, []util.SetupFlag{1, 2, 4, 8}},
		xhmCase{"xhm-corpus#5", "corpus", "00000001", "", 0, []util.SetupFlag{0xf0}},
		xhmCase{"xhm-corpus#6", "corpus", "134217728", "HOME", 7, []util.SetupFlag{2}}, // 2^27: masked
		xhmCase{"xhm-corpus#7", "corpus", "18446744073709551616", "HOME", 7, []util.SetupFlag{2}},
		xhmCase{"xhm-corpus#8", "corpus", "-", "HOME", 7, []util.SetupFlag{2}},
	)
	// grid: every category x every 4-bit flag set (as one flag and as a list of single-bit flags)
	for cat := 0; cat < 256; cat++ {
		for fl := 0; fl < 16; fl++ {
			i := cat*16 + fl
			r := c.CaseRng("xhm-grid", i)
			var fs []util.SetupFlag
			if r.Intn(2) == 0 {
				fs = []util.SetupFlag{util.SetupFlag(fl)}
			} else {
				for b := 0; b < 4; b++ {
					if fl>>uint(b)&1 == 1 {
						fs = append(fs, util.SetupFlag(1<<uint(b)))
					}
				}
			}
			pin := digits(r, 8)
			if r.Intn(4) == 0 {
				pin = []string{"00000001", "99999998", "00102003", "67108864", "67108863", "99999990"}[r.Intn(6)]
			}
			xcs = append(xcs, xhmCase{c.CaseID("xhm-grid", i), "grid", pin, genSetupID(r), uint8(cat), fs})
		}
	}
	nb = c.Pick(80, 5000)
	for b := 0; b < nb; b++ {
		r := c.CaseRng("xhm", b)
		for j := 0; j < 100; j++ {
			k, s := genPin(r)
			if r.Intn(3) == 0 {
				k, s = "digits8", digits(r, 8)
			}
			var fs []util.SetupFlag
			for n := r.Intn(4); n > 0; n-- {
				if r.Intn(4) == 0 {
					fs = append(fs, util.SetupFlag(r.Intn(256))) // bits above the four defined ones must be masked
				} else {
					fs = append(fs, util.SetupFlag(1<<uint(r.Intn(4))))
				}
			}
			xcs = append(xcs, xhmCase{fmt.Sprintf("xhm#%d.%d", b, j), k, s, genSetupID(r), uint8(r.Intn(256)), fs})
		}
	}
	lines = lines[:0]
	var xlive []xhmCase
	for _, x := range xcs {
		if c.Skip(x.id) {
			continue
		}
		xlive = append(xlive, x)
		lines = append(lines, x.line())
	}
	model = c.Model(lines)
	for i, x := range xlive {
		impl := c20CheckXhm(c, x)
		c.Same("xhm", x.id, lines[i], model[i], impl)
		kind := "xhm:" + x.kind
		if x.kind == "grid" {
			kind = fmt.Sprintf("xhm:grid cat<%d", (int(x.cat)/64+1)*64)
		}
		c.Count(lines[i], strings.HasPrefix(impl, "ok"), kind, "xhm:=>"+firstWords(impl, 1), fmt.Sprintf("xhm:nflags=%d", len(x.flags)))
		if i == 1 || i == 5000 {
			c.Sample(fmt.Sprintf("%s (%q,%q) => %s", lines[i], x.pin, x.setup, trunc(impl, 80)))
		}
	}
	c.Trace()

	// ---------------- thorough: the whole code space 0 .. 10^8-1 on the real code against the reference predicate and decoder
	if c.Thorough() && c.Only == "" {
		var accepted, rejected int64
		const blocks = 1000
		blockViol := make([][]Violation, blocks)
		parallel(blocks, func(b int) {
			violate := func(sig, id string, in interface{}, exp, got string) {
				if len(blockViol[b]) < 3 {
					blockViol[b] = append(blockViol[b], Violation{sig, id, in, exp, got})
				}
			}
			var acc, rej int64
			buf := make([]byte, 8)
			for n := b * (100000000 / blocks); n < (b+1)*(100000000/blocks); n++ {
				v := n
				for k := 7; k >= 0; k-- {
					buf[k] = byte('0' + v%10)
					v /= 10
				}
				s := string(buf)
				res, err := hc.ValidatePin(s)
				okRef, fmtRef := refPin(s)
				if (err == nil) != okRef || (err == nil && res != fmtRef) {
					violate("ValidatePin wrong on an eight-digit code (exhaustive walk)", fmt.Sprintf("pin-all#%d", n), "pin validate "+hx(buf), fmt.Sprint(okRef, fmtRef), fmt.Sprint(res, err))
				}
				if err == nil {
					acc++
					if n%16 == b%16 { // every 16th accepted code also through XHMURI + independent decoder
						cat := uint8(n % 251)
						fl := util.SetupFlag(n % 16)
						uri, e2 := util.XHMURI(res, "HOME", cat, []util.SetupFlag{fl})
						code, dc, df, sid, ok := refXhmDecode(uri)
						if e2 != nil || !ok || code != uint64(n) || dc != uint64(cat) || df != uint64(fl) || sid != "HOME" {
							violate("setup URI does not decode back to code, category, flags and setup id", fmt.Sprintf("xhm-all#%d", n),
								fmt.Sprintf("xhm uri %s %s %d %02x", hx([]byte(res)), hx([]byte("HOME")), cat, byte(fl)),
								fmt.Sprintf("code=%d cat=%d flags=%d", n, cat, fl), fmt.Sprintf("%s %v code=%d cat=%d flags=%d", uri, e2, code, dc, df))
						}
					}
				} else {
					rej++
				}
			}
			atomic.AddInt64(&accepted, acc)
			atomic.AddInt64(&rejected, rej)
		})
		for _, vs := range blockViol {
			for _, v := range vs {
				c.Violate(v.Signature, v.Case, v.Input, v.Expected, v.Observed)
			}
		}
		c.Extra("exhaustive_code_space", map[string]int64{"codes": 100000000, "accepted": accepted, "rejected": rejected})
		if accepted != 100000000-12 {
			c.Violate("number of accepted eight-digit codes is not 10^8 - 12", "pin-all", "all codes", "99999988", fmt.Sprint(accepted))
		}
		c.Hist("pin:exhaustive-walk-10^8")
	}
}
