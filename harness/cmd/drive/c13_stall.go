package main

// C13 — "…or leave the accessory unable to serve". Stream `stalled-reader`: a verified controller sends GET /accessories
// requests one behind the other and never reads an answer (its socket buffers fill up, the accessory's writes to it block).
// Every OTHER controller must still get its /accessories — a peer that does not read may only block itself.

import (
	"bytes"
	"fmt"
	"net"
	"time"

	"github.com/brutella/hc/accessory"
)

func c13StalledReader(c *Ctx) {
	id := "stalled-reader#0"
	if c.Skip(id) {
		return
	}
	r := c.CaseRng("stalled-reader", 0)
	bridge := accessory.NewBridge(accessory.Info{Name: "Bridge"})
	accs := c09Accessories(r, 40)
	acc, err := startE2E(c.ScratchDir(), "00102003", false, bridge.Accessory, accs...)
	if err != nil {
		c.Violate("transport does not start", id, nil, "started", err.Error())
		return
	}
	defer acc.Stop()
	ident := newRefIdentity(r, "ctrl-stall")
	first, _ := acc.Dial()
	sr := refPairSetup(r, first.Post(), "001-02-003", ident)
	first.Close()
	if sr.ErrAt != "" {
		c.Violate("reference controller cannot pair", id, nil, "paired", sr.ErrAt)
		return
	}
	verified := func() *refClient {
		cl, err := acc.Dial()
		if err != nil {
			return nil
		}
		vr := refPairVerify(r, cl.Post(), ident, sr.AccLTPK)
		if vr.Shared == nil {
			cl.Close()
			return nil
		}
		cl.Upgrade(vr.Shared)
		return cl
	}
	staller, victim := verified(), verified()
	if staller == nil || victim == nil {
		c.Violate("paired reference controller cannot verify", id, nil, "verified", "failed")
		return
	}
	defer staller.Close()
	defer victim.Close()
	victim.timeout = 5 * time.Second
	m, err := victim.Do("GET", "/accessories", "", nil)
	if err != nil || m.Status != 200 {
		c.Violate("verified controller is not served /accessories", id, nil, "200", fmt.Sprint(err, m))
		return
	}
	size := len(m.Body)
	if tc, ok := staller.conn.(*net.TCPConn); ok {
		tc.SetReadBuffer(4096)
	}
	// enough requests for several times what the socket buffers of both ends hold
	n := 24*1024*1024/size + 1
	req := []byte("GET /accessories HTTP/1.1\r\nHost: acc.local\r\n\r\n")
	sent := 0
	staller.conn.SetWriteDeadline(time.Now().Add(8 * time.Second))
	for k := 0; k < n; k++ {
		if _, err := staller.conn.Write(staller.sess.Encrypt(req)); err != nil {
			break // the accessory stopped reading requests of this connection: fine, it is the staller's problem
		}
		sent++
	}
	time.Sleep(300 * time.Millisecond)
	in := map[string]interface{}{"accessories": 41, "accessories_response_bytes": size,
		"stalling_controller": fmt.Sprintf("verified; sent %d GET /accessories requests without reading any answer", sent)}
	t0 := time.Now()
	m, err = victim.Do("GET", "/accessories", "", nil)
	if err != nil || m.Status != 200 {
		c.Violate("a verified controller that does not read its answers keeps every other controller from being served /accessories (the accessory is wedged)", id, in,
			"200 within 5 s for the other controller", fmt.Sprintf("%v after %v", err, time.Since(t0).Round(time.Millisecond)))
	}
	c.Count(id, true, "stream:stalled-reader")
}

// c13HugeBody: a peer that has not paired sends a pairing request whose body is tens of megabytes of the smallest TLV8
// items there are (tag, length 0). Each costs two bytes on the wire; what the accessory makes of them must not cost it its
// life: the child runs with an address space of 2 GiB (RLIMIT_AS), more than a small board has.
func c13HugeBody(c *Ctx) {
	id := "huge-body#0"
	if c.Skip(id) {
		return
	}
	r := c.CaseRng("huge-body", 0)
	acc, err := startE2EChild(c.ScratchDir(), fmt.Sprintf("HC_VERIF_AS=%d", 2<<30))
	if err != nil {
		c.Violate("transport does not start", id, nil, "started", err.Error())
		return
	}
	defer acc.Stop()
	ident := newRefIdentity(r, "ctrl-1")
	first, _ := acc.Dial()
	sr := refPairSetup(r, first.Post(), "001-02-003", ident)
	first.Close()
	if sr.ErrAt != "" {
		c.Violate("reference controller cannot pair", id, nil, "paired", sr.ErrAt)
		return
	}
	for _, path := range []string{"/pair-verify", "/pair-setup"} {
		const total = 96 << 20
		in := map[string]interface{}{"request": "POST " + path + " (plaintext, no pairing needed)", "body": fmt.Sprintf("%d bytes: TLV8 items of tag 0 and length 0", total),
			"address_space_of_the_accessory_process": "2 GiB (RLIMIT_AS)"}
		cn, err := net.DialTimeout("tcp", "127.0.0.1:"+acc.port, 2*time.Second)
		if err != nil {
			c.Violate("accessory does not accept connections any more", id, in, "connect", err.Error())
			return
		}
		fmt.Fprintf(cn, "POST %s HTTP/1.1\r\nHost: acc.local\r\nContent-Type: application/pairing+tlv8\r\nContent-Length: %d\r\n\r\n", path, total)
		chunk := make([]byte, 1<<20)
		cn.SetWriteDeadline(time.Now().Add(20 * time.Second))
		for sent := 0; sent < total; sent += len(chunk) {
			if _, err := cn.Write(chunk); err != nil {
				break // refused on the way: fine
			}
		}
		cn.SetReadDeadline(time.Now().Add(10 * time.Second))
		buf := make([]byte, 512)
		n, _ := cn.Read(buf)
		cn.Close()
		time.Sleep(100 * time.Millisecond)
		c.Count(id+path, true, "stream:huge-body")
		if !acc.Alive() {
			c.Violate("remote input ends the accessory process", id, in, "an error response; the accessory keeps serving", "process exited (answer read before: "+trunc(string(buf[:n]), 60)+")")
			return
		}
		n2, err := acc.Dial()
		if err != nil {
			c.Violate("accessory does not accept connections any more", id, in, "connect", err.Error())
			return
		}
		if vr := refPairVerify(r, n2.Post(), ident, sr.AccLTPK); vr.Shared == nil {
			c.Violate("accessory cannot complete pair-verify after malformed input", id, in, "verified", vr.ErrAt)
		}
		n2.Close()
	}
}

// c13HugeJSONBody (F68): the same for the endpoints a VERIFIED controller reaches — `PUT /characteristics` read its body with
// ioutil.ReadAll, copied it into a string for a debug line and decoded it; a body of some hundred megabytes (blanks in front
// of a small JSON document) ends a process with a limited address space. The accessory runs as a child with RLIMIT_AS.
func c13HugeJSONBody(c *Ctx) {
	id := "huge-json-body#0"
	if c.Skip(id) {
		return
	}
	r := c.CaseRng("huge-json-body", 0)
	acc, err := startE2EChild(c.ScratchDir(), fmt.Sprintf("HC_VERIF_AS=%d", 3<<29))
	if err != nil {
		c.Violate("transport does not start", id, nil, "started", err.Error())
		return
	}
	defer acc.Stop()
	ident := newRefIdentity(r, "ctrl-1")
	first, _ := acc.Dial()
	sr := refPairSetup(r, first.Post(), "001-02-003", ident)
	first.Close()
	if sr.ErrAt != "" {
		c.Violate("reference controller cannot pair", id, nil, "paired", sr.ErrAt)
		return
	}
	for _, req := range []string{"PUT /characteristics"} { // (/resource exists only on an accessory with a camera; its reader is in the regenerated table)
		const total = 448 << 20
		in := map[string]interface{}{"request": req + " on a verified connection", "body": fmt.Sprintf("%d bytes: blanks, then a small JSON document", total),
			"address_space_of_the_accessory_process": "1.5 GiB (RLIMIT_AS)"}
		cl, err := acc.Dial()
		if err != nil {
			c.Violate("accessory does not accept connections any more", id, in, "connect", err.Error())
			return
		}
		vr := refPairVerify(r, cl.Post(), ident, sr.AccLTPK)
		if vr.Shared == nil {
			c.Violate("accessory cannot complete pair-verify", id, in, "verified", vr.ErrAt)
			return
		}
		cl.Upgrade(vr.Shared)
		cl.timeout = 20 * time.Second
		tail := []byte(`{"characteristics":[]}`)
		cl.send([]byte(fmt.Sprintf("%s HTTP/1.1\r\nHost: acc.local\r\nContent-Type: application/hap+json\r\nContent-Length: %d\r\n\r\n", req, total)))
		chunk := bytes.Repeat([]byte(" "), 1<<20)
		for sent := 0; sent < total-len(tail); sent += len(chunk) {
			n := len(chunk)
			if rest := total - len(tail) - sent; rest < n {
				n = rest
			}
			if err := cl.send(chunk[:n]); err != nil {
				break // refused on the way: fine
			}
		}
		cl.send(tail)
		m, _ := cl.next(10 * time.Second)
		cl.Close()
		time.Sleep(100 * time.Millisecond)
		c.Count(id+req, true, "stream:huge-json-body")
		answer := "none"
		if m != nil {
			answer = fmt.Sprint(m.Status)
		}
		if !acc.Alive() {
			c.Violate("remote input ends the accessory process", id, in, "an error response; the accessory keeps serving", "process exited (answer read before: "+answer+")")
			return
		}
		n2, err := acc.Dial()
		if err != nil {
			c.Violate("accessory does not accept connections any more", id, in, "connect", err.Error())
			return
		}
		if vr := refPairVerify(r, n2.Post(), ident, sr.AccLTPK); vr.Shared == nil {
			c.Violate("accessory cannot complete pair-verify after malformed input", id, in, "verified", vr.ErrAt)
		}
		n2.Close()
	}
}
