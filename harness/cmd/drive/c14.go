package main

// C14 — accessory ids / instance ids / HAP JSON shape: correspondence with HcModel/Ids.lean + direct oracles.

import (
	"bytes"
	"encoding/json"
	"fmt"
	"math"
	"math/rand"
	"net/http"
	"net/http/httptest"
	"path/filepath"
	"runtime"
	"sort"
	"strings"
	"sync"

	"github.com/brutella/hc"
	"github.com/brutella/hc/accessory"
	"github.com/brutella/hc/characteristic"
	hchttp "github.com/brutella/hc/hap/http"
	"github.com/brutella/hc/service"

	"hcverif/harness/internal/catalog"
)

func init() { register("C14", checkC14) }

// ---- plans (pure data, derived from the case PRNG; building a plan twice must give identical ids) -------------

type svcPlan struct {
	Maker   int   // index into svcMakers
	NChars  int   // custom service: number of characteristics
	Hidden  bool  `json:",omitempty"`
	Primary bool  `json:",omitempty"`
	Linked  []int `json:",omitempty"` // indices into the accessory's final service list (out of range: a service never added)
}

type accPlan struct {
	Ctor  int    // index into accMakers
	Type  int    // for accessory.New
	ID    uint64 // explicit id, 0 = automatic
	Extra []svcPlan
}

type idOp struct {
	Add bool
	K   int
	Svc *svcPlan `json:",omitempty"` // non-nil: pool[K].AddService(a new service) — before, while or after the object is in the container
}

type idPlan struct {
	Accs []accPlan
	Ops  []idOp
}

var accMakerNames = []string{"New", "NewBridge", "NewCamera", "NewColoredLightbulb", "NewLightbulb", "NewOutlet", "NewSwitch",
	"NewTelevision", "NewTemperatureSensor", "NewThermostat", "NewWindow"}

func makeAcc(p accPlan, k int) *accessory.Accessory {
	info := accessory.Info{Name: fmt.Sprintf("acc%d", k), SerialNumber: "SN", Manufacturer: "M", Model: "X", FirmwareRevision: "1.0", ID: p.ID}
	switch p.Ctor {
	case 0:
		return accessory.New(info, accessory.AccessoryType(p.Type))
	case 1:
		return accessory.NewBridge(info).Accessory
	case 2:
		return accessory.NewCamera(info).Accessory
	case 3:
		return accessory.NewColoredLightbulb(info).Accessory
	case 4:
		return accessory.NewLightbulb(info).Accessory
	case 5:
		return accessory.NewOutlet(info).Accessory
	case 6:
		return accessory.NewSwitch(info).Accessory
	case 7:
		return accessory.NewTelevision(info).Accessory
	case 8:
		return accessory.NewTemperatureSensor(info, 20, 0, 50, 0.5).Accessory
	case 9:
		return accessory.NewThermostat(info, 20, 10, 38, 0.5).Accessory
	default:
		return accessory.NewWindow(info, 30).Accessory
	}
}

var svcMakers = []func() *service.Service{
	nil, // 0: custom service with NChars hand-made characteristics
	func() *service.Service { return service.NewSwitch().Service },
	func() *service.Service { return service.NewLightbulb().Service },
	func() *service.Service { return service.NewFan().Service },
	func() *service.Service { return service.NewOutlet().Service },
	func() *service.Service { return service.NewBatteryService().Service },
	func() *service.Service { return service.NewSpeaker().Service },
	func() *service.Service { return service.NewInputSource().Service },
	func() *service.Service { return service.NewTemperatureSensor().Service },
	func() *service.Service { return service.NewHeaterCooler().Service },
	func() *service.Service { return service.NewCooler().Service },
	func() *service.Service { return service.NewHeater().Service },
	func() *service.Service { return service.NewWifiTransport().Service },
	func() *service.Service { return service.NewTelevision().Service },
	func() *service.Service { return service.NewStatelessProgrammableSwitch().Service },
	func() *service.Service { return service.NewCameraRTPStreamManagement().Service },
}

func makeSvc(p svcPlan) *service.Service {
	if p.Maker != 0 {
		return svcMakers[p.Maker]()
	}
	s := service.New("F1")
	for i := 0; i < p.NChars; i++ {
		var ch *characteristic.Characteristic
		switch i % 5 {
		case 0:
			x := characteristic.NewInt(fmt.Sprintf("F%X", 16+i))
			x.Format = characteristic.FormatInt32
			ch = x.Characteristic
		case 1:
			ch = characteristic.NewBool(fmt.Sprintf("F%X", 16+i)).Characteristic
		case 2:
			ch = characteristic.NewString(fmt.Sprintf("F%X", 16+i)).Characteristic
		case 3:
			x := characteristic.NewFloat(fmt.Sprintf("F%X", 16+i))
			x.Format = characteristic.FormatFloat
			ch = x.Characteristic
		default:
			ch = characteristic.NewBytes(fmt.Sprintf("F%X", 16+i)).Characteristic
		}
		switch i % 3 {
		case 0:
			ch.Perms = characteristic.PermsAll()
		case 1:
			ch.Perms = characteristic.PermsRead()
		default:
			ch.Perms = characteristic.PermsWriteOnly()
		}
		s.AddCharacteristic(ch)
	}
	return s
}

// buildPool constructs every accessory object of the plan (no sharing of services or characteristics).
func buildPool(p idPlan) []*accessory.Accessory {
	var pool []*accessory.Accessory
	for k, ap := range p.Accs {
		a := makeAcc(ap, k)
		for _, sp := range ap.Extra {
			a.AddService(makeSvc(sp))
		}
		base := len(a.Services) - len(ap.Extra)
		for i, sp := range ap.Extra {
			s := a.Services[base+i]
			s.Hidden, s.Primary = sp.Hidden, sp.Primary
			for _, l := range sp.Linked {
				if l < len(a.Services) {
					s.AddLinkedService(a.Services[l])
				} else {
					s.AddLinkedService(service.New("FF")) // never added to the accessory: id stays 0
				}
			}
		}
		if len(a.Services) > 0 && k%3 == 1 {
			// an optional characteristic the application attaches to a service AFTER the service was added to its accessory
			// (the usual way of extending a library service); it has no id until the accessory is numbered again
			late := characteristic.NewBool("FA7E")
			late.Perms = characteristic.PermsAll()
			a.Services[len(a.Services)-1].AddCharacteristic(late.Characteristic)
		}
		if k%2 == 0 {
			// the application looks at the object before it hands it to the transport (a debug log, a config dump): encoding an
			// accessory that has no ids yet must not influence what is served later
			json.Marshal(a)
		}
		pool = append(pool, a)
	}
	return pool
}

func natList(sep string, l []uint64) string {
	var p []string
	for _, x := range l {
		p = append(p, fmt.Sprint(x))
	}
	return strings.Join(p, sep)
}

// specLine: the model's description of the freshly built pool (shape only) + the operations.
func specLine(p idPlan, pool []*accessory.Accessory) string {
	var sb strings.Builder
	sb.WriteString("ids run")
	for k, a := range pool {
		fmt.Fprintf(&sb, " a%d:", p.Accs[k].ID)
		for i, s := range a.Services {
			if i > 0 {
				sb.WriteByte(';')
			}
			fl := ""
			if s.Hidden {
				fl += "h"
			}
			if s.Primary {
				fl += "p"
			}
			if fl == "" {
				fl = "-"
			}
			ln := "-"
			if len(s.Linked) > 0 {
				var ix []string
				for _, l := range s.Linked {
					j := 999 // out of range, also after services were added later
					for q, t := range a.Services {
						if t == l {
							j = q
							break
						}
					}
					ix = append(ix, fmt.Sprint(j))
				}
				ln = strings.Join(ix, ".")
			}
			fmt.Fprintf(&sb, "%d/%s/%s", len(s.Characteristics), fl, ln)
		}
	}
	for _, o := range p.Ops {
		switch {
		case o.Svc != nil:
			fmt.Fprintf(&sb, " *%d:%d/-/-", o.K, len(makeSvc(*o.Svc).Characteristics))
		case o.Add:
			fmt.Fprintf(&sb, " +%d", o.K)
		default:
			fmt.Fprintf(&sb, " -%d", o.K)
		}
	}
	return sb.String()
}

func accView(a *accessory.Accessory) string {
	var ss []string
	for _, s := range a.Services {
		var cs, ls []uint64
		for _, c := range s.Characteristics {
			cs = append(cs, c.ID)
		}
		for _, l := range s.Linked {
			ls = append(ls, l.ID)
		}
		fl := ""
		if s.Hidden {
			fl += "h"
		}
		if s.Primary {
			fl += "p"
		}
		ss = append(ss, fmt.Sprintf("%d[%s]%sL%s", s.ID, natList(",", cs), fl, natList(".", ls)))
	}
	return fmt.Sprintf("%d{%s}", a.ID, strings.Join(ss, ";"))
}

// planRefusedAuto: adds of an accessory without an id of its own that the last runPlan saw refused (runPlan is called
// from one goroutine)
var planRefusedAuto []string

// runPlan executes the operations on the real container and prints outcomes | listed indices | every object.
func runPlan(p idPlan, pool []*accessory.Accessory) (string, *accessory.Container) {
	planRefusedAuto = nil
	cont := accessory.NewContainer()
	var outs []string
	for _, o := range p.Ops {
		if o.K >= len(pool) {
			outs = append(outs, "noobj")
			continue
		}
		if o.Svc != nil {
			pool[o.K].AddService(makeSvc(*o.Svc))
			outs = append(outs, "ok")
			continue
		}
		if o.Add {
			auto := pool[o.K].ID == 0
			if err := cont.AddAccessory(pool[o.K]); err != nil {
				if auto {
					planRefusedAuto = append(planRefusedAuto, fmt.Sprintf("operation %d: AddAccessory of object %d (id left to the container): %v", len(outs), o.K, err))
				}
				outs = append(outs, fmt.Sprintf("dup%d", pool[o.K].ID))
			} else {
				outs = append(outs, "ok")
			}
		} else {
			cont.RemoveAccessory(pool[o.K])
			outs = append(outs, "rm")
		}
	}
	var listed []string
	for _, a := range cont.Accessories {
		k := -1
		for j, b := range pool {
			if a == b {
				k = j
			}
		}
		listed = append(listed, fmt.Sprint(k))
	}
	var views []string
	for _, a := range pool {
		views = append(views, accView(a))
	}
	return strings.Join(outs, " ") + " | " + strings.Join(listed, ",") + " | " + strings.Join(views, " "), cont
}

// ---- JSON side ---------------------------------------------------------------------------------------------

type jChar map[string]json.RawMessage
type jSvc struct {
	raw   map[string]json.RawMessage
	chars []jChar
}

var knownPerms = map[string]bool{"pr": true, "pw": true, "ev": true, "hd": true, "wr": true}

// jsonView parses the attribute database and returns the id view of every accessory object (same format as accView)
// plus the list of well-formedness problems (direct oracle).
func jsonView(b []byte, strictLinks bool) (views []string, problems []string) {
	var top map[string]json.RawMessage
	if err := json.Unmarshal(b, &top); err != nil {
		return nil, []string{"not JSON: " + err.Error()}
	}
	var accs []map[string]json.RawMessage
	if raw, ok := top["accessories"]; !ok {
		return nil, []string{"container: key accessories missing"}
	} else if err := json.Unmarshal(raw, &accs); err != nil {
		return nil, []string{"container: accessories is not an array of objects"}
	}
	u64 := func(m map[string]json.RawMessage, k, where string) uint64 {
		raw, ok := m[k]
		if !ok {
			problems = append(problems, where+": key "+k+" missing")
			return 0
		}
		var v uint64
		if err := json.Unmarshal(raw, &v); err != nil {
			problems = append(problems, where+": key "+k+" is not an unsigned integer")
		}
		return v
	}
	str := func(m map[string]json.RawMessage, k, where string) {
		raw, ok := m[k]
		var v string
		if !ok {
			problems = append(problems, where+": key "+k+" missing")
		} else if err := json.Unmarshal(raw, &v); err != nil || v == "" {
			problems = append(problems, where+": key "+k+" is not a non-empty string")
		}
	}
	for _, a := range accs {
		aid := u64(a, "aid", "accessory")
		var svcs []map[string]json.RawMessage
		if raw, ok := a["services"]; !ok {
			problems = append(problems, "accessory: key services missing")
		} else if err := json.Unmarshal(raw, &svcs); err != nil {
			problems = append(problems, "accessory: services is not an array of objects")
		}
		var ss []string
		sids := map[uint64]bool{}
		for _, s := range svcs {
			var v uint64
			if json.Unmarshal(s["iid"], &v) == nil {
				sids[v] = true
			}
		}
		for _, s := range svcs {
			sid := u64(s, "iid", "service")
			str(s, "type", "service")
			var chars []map[string]json.RawMessage
			if raw, ok := s["characteristics"]; !ok {
				problems = append(problems, "service: key characteristics missing")
			} else if err := json.Unmarshal(raw, &chars); err != nil {
				problems = append(problems, "service: characteristics is not an array of objects")
			}
			var cs []uint64
			for _, ch := range chars {
				cs = append(cs, u64(ch, "iid", "characteristic"))
				str(ch, "type", "characteristic")
				str(ch, "format", "characteristic")
				var perms []string
				if raw, ok := ch["perms"]; !ok {
					problems = append(problems, "characteristic: key perms missing")
				} else if err := json.Unmarshal(raw, &perms); err != nil || len(perms) == 0 {
					problems = append(problems, "characteristic: perms is not a non-empty array of strings")
				}
				for _, p := range perms {
					if !knownPerms[p] {
						problems = append(problems, "characteristic: unknown permission "+p)
					}
				}
			}
			fl := ""
			if raw, ok := s["hidden"]; ok && string(raw) == "true" {
				fl += "h"
			}
			if raw, ok := s["primary"]; ok && string(raw) == "true" {
				fl += "p"
			}
			var linked []uint64
			if raw, ok := s["linked"]; ok {
				if err := json.Unmarshal(raw, &linked); err != nil {
					problems = append(problems, "service: linked is not an array of unsigned integers")
				}
				for _, l := range linked {
					if strictLinks && !sids[l] {
						problems = append(problems, "service: linked id is not the iid of a service of the same accessory")
					}
				}
			}
			ss = append(ss, fmt.Sprintf("%d[%s]%sL%s", sid, natList(",", cs), fl, natList(".", linked)))
		}
		views = append(views, fmt.Sprintf("%d{%s}", aid, strings.Join(ss, ";")))
	}
	return views, problems
}

// idProblems: direct oracle on the objects served by the container (independent of the model).
func idProblems(cont *accessory.Container) []string {
	var out []string
	seen := map[uint64]bool{}
	for _, a := range cont.Accessories {
		if a.ID == 0 {
			out = append(out, "accessory id 0 in container")
		}
		if seen[a.ID] {
			out = append(out, "duplicate accessory id in container")
		}
		seen[a.ID] = true
		iids := map[uint64]bool{}
		for _, s := range a.Services {
			ids := []uint64{s.ID}
			for _, c := range s.Characteristics {
				ids = append(ids, c.ID)
			}
			for _, i := range ids {
				if i == 0 {
					out = append(out, "instance id 0 within accessory")
				}
				if iids[i] {
					out = append(out, "duplicate instance id within accessory")
				}
				iids[i] = true
			}
		}
	}
	return out
}

func genSvcPlan(r *rand.Rand, nsvc int) svcPlan {
	sp := svcPlan{Maker: r.Intn(len(svcMakers))}
	if r.Intn(3) == 0 {
		sp.Maker = 0
	}
	if sp.Maker == 0 {
		sp.NChars = r.Intn(7)
	}
	sp.Hidden = r.Intn(4) == 0
	sp.Primary = r.Intn(4) == 0
	for r.Intn(3) == 0 && len(sp.Linked) < 3 {
		sp.Linked = append(sp.Linked, r.Intn(nsvc+1)) // nsvc = out of range
	}
	return sp
}

func genIDPlan(r *rand.Rand, maxAcc int) idPlan {
	var p idPlan
	n := 1 + r.Intn(maxAcc)
	if r.Intn(6) == 0 {
		n = maxAcc
	}
	mode := r.Intn(4) // 0: all automatic, 1: all explicit distinct, 2: mixed with likely collisions, 3: mixed large
	for k := 0; k < n; k++ {
		ap := accPlan{Ctor: r.Intn(len(accMakerNames)), Type: r.Intn(40)}
		if k < len(accMakerNames) && r.Intn(2) == 0 {
			ap.Ctor = k // make sure every constructor shows up often
		}
		switch mode {
		case 1:
			ap.ID = uint64(k + 1 + r.Intn(2)*100)
		case 2:
			if r.Intn(2) == 0 {
				ap.ID = uint64(1 + r.Intn(n+2))
			}
		case 3:
			if r.Intn(2) == 0 {
				// large ids, up to the top of the uint64 range (an id derived from a hash; "the bridge gets the last id")
				ap.ID = []uint64{1 << 40, 1 << 40, 1<<53 + 1, 1 << 63, ^uint64(0) - 2}[r.Intn(5)] + uint64(r.Intn(3))
			}
		}
		ne := 0
		if r.Intn(2) == 0 {
			ne = 1 + r.Intn(4)
		}
		for i := 0; i < ne; i++ {
			ap.Extra = append(ap.Extra, genSvcPlan(r, 8))
		}
		p.Accs = append(p.Accs, ap)
	}
	// operations: add every object once (possibly shuffled), then sometimes re-add / remove / re-add
	order := r.Perm(n)
	if r.Intn(2) == 0 {
		sort.Ints(order)
	}
	for _, k := range order {
		p.Ops = append(p.Ops, idOp{Add: true, K: k})
	}
	for r.Intn(3) == 0 && len(p.Ops) < n+12 {
		switch r.Intn(3) {
		case 0:
			p.Ops = append(p.Ops, idOp{Add: true, K: r.Intn(n)})
		case 1:
			p.Ops = append(p.Ops, idOp{Add: false, K: r.Intn(n)})
		default:
			k := r.Intn(n)
			p.Ops = append(p.Ops, idOp{Add: false, K: k}, idOp{Add: true, K: k})
		}
	}
	// services the application adds later: to an object that is being served, that was refused, removed, or not added yet
	for r.Intn(3) == 0 && len(p.Ops) < n+16 {
		sp := genSvcPlan(r, 8)
		sp.Linked, sp.Hidden, sp.Primary = nil, false, false
		at := r.Intn(len(p.Ops) + 1)
		p.Ops = append(p.Ops[:at:at], append([]idOp{{K: r.Intn(n), Svc: &sp}}, p.Ops[at:]...)...)
	}
	return p
}

func checkC14(c *Ctx) {
	c.SetRule("streams: ctor (every accessory constructor found by go/ast, added to a fresh container in a separate process), " +
		"compose (1..40 accessories from the 11 accessory constructors + extra library / hand-made services with hidden / primary / linked, " +
		"explicit, automatic and colliding ids, adds in any order, re-adds, removes; non-trivial = at least two accessories and one extra " +
		"service or one rejected add), json (attribute database bytes through hap/http WriteJSON vs model), rebuild (same plan twice). " +
		"distinct = distinct model input lines")
	c.Assume("service and characteristic objects are not shared between accessories nor listed twice (hypothesis of the property); the excluded case is executed and reported under coverage.excluded_case_shared_objects")
	c.Assume("uint64 wrap-around of id counters (2^64 assignments) is not modelled")

	c14Renumber(c)
	c14TwoContainers(c)
	c14SlowReader(c)
	c14Transport(c)
	c14GetterValues(c)
	c14ConcurrentJSON(c)
	// ---------------- corpus: explicit id then automatic id (recorded behaviour: the automatic one is rejected)
	corpus := []idPlan{
		{Accs: []accPlan{{Ctor: 6, ID: 1}, {Ctor: 4}, {Ctor: 5}}, Ops: []idOp{{Add: true, K: 0}, {Add: true, K: 1}, {Add: true, K: 2}}},
		{Accs: []accPlan{{Ctor: 1}, {Ctor: 7, ID: 2}, {Ctor: 9}, {Ctor: 2, ID: 2}}, Ops: []idOp{{Add: true, K: 0}, {Add: true, K: 1}, {Add: true, K: 2}, {Add: true, K: 3}, {Add: true, K: 2}, {Add: false, K: 0}, {Add: true, K: 0}}},
		{Accs: []accPlan{{Ctor: 0, Type: 1, Extra: []svcPlan{{Maker: 0, NChars: 0}, {Maker: 7, Linked: []int{0, 1, 9}, Hidden: true}, {Maker: 13, Primary: true, Linked: []int{2}}}}}, Ops: []idOp{{Add: true, K: 0}, {Add: true, K: 0}}},
	}
	type cs struct {
		id   string
		plan idPlan
	}
	var cases []cs
	for i, p := range corpus {
		cases = append(cases, cs{c.CaseID("corpus", i), p})
	}
	for i := 0; i < c.Pick(600, 40000); i++ {
		r := c.CaseRng("compose", i)
		mx := 6
		if i%5 == 0 {
			mx = 40
		}
		cases = append(cases, cs{c.CaseID("compose", i), genIDPlan(r, mx)})
	}
	var live []cs
	var lines []string
	for _, k := range cases {
		if c.Skip(k.id) {
			continue
		}
		live = append(live, k)
		lines = append(lines, specLine(k.plan, buildPool(k.plan)))
	}
	model := c.Model(lines)
	rejected := 0
	for i, k := range live {
		var impl string
		var cont *accessory.Container
		var pool []*accessory.Accessory
		msg, pan := safely(func() {
			pool = buildPool(k.plan)
			impl, cont = runPlan(k.plan, pool)
		})
		if pan {
			c.Violate("building / adding accessories panics", k.id, k.plan, "no panic", msg)
			c.Same("compose", k.id, lines[i], model[i], "panic")
			continue
		}
		c.Same("compose", k.id, lines[i], model[i], impl)
		if strings.Contains(impl, "dup") {
			rejected++
		}
		// direct oracles on the objects
		for _, p := range planRefusedAuto {
			c.Violate("an accessory that leaves its id to the container is refused (and NewIPTransport drops it without a word)", k.id, k.plan, "added, with an id no other accessory of the container has", p)
		}
		for _, p := range idProblems(cont) {
			c.Violate("attribute database ids: "+p, k.id, k.plan, "unique non-zero ids", p+" — "+trunc(impl, 400))
		}
		// JSON through the /accessories writer
		var body []byte
		msg, pan = safely(func() {
			rec := httptest.NewRecorder()
			if err := hchttp.WriteJSON(rec, httptest.NewRequest("GET", "/accessories", nil), cont); err != nil {
				panic(err)
			}
			body = rec.Body.Bytes()
		})
		if pan {
			c.Violate("marshalling the attribute database fails", k.id, k.plan, "JSON", msg)
			continue
		}
		plain, _ := json.Marshal(cont)
		if strings.TrimSpace(string(body)) != string(plain) {
			c.Violate("/accessories body differs from json.Marshal of the container", k.id, k.plan, trunc(string(plain), 300), trunc(string(body), 300))
		}
		strict := true // unless a service links one that was never added to its accessory (that one's id stays 0)
		for _, a := range pool {
			for _, sv := range a.Services {
				for _, l := range sv.Linked {
					member := false
					for _, t := range a.Services {
						member = member || t == l
					}
					if !member {
						strict = false
					}
				}
			}
		}
		views, problems := jsonView(body, strict)
		for _, p := range problems {
			c.Violate("attribute database JSON malformed: "+p, k.id, k.plan, "aid|iid, type, format, perms, services, characteristics present and valid", p)
		}
		// direct oracle: the JSON carries exactly the ids, flags and links of the served objects
		var objViews []string
		for _, a := range cont.Accessories {
			objViews = append(objViews, accView(a))
		}
		if len(problems) == 0 && strings.Join(objViews, " ") != strings.Join(views, " ") {
			c.Violate("attribute database JSON does not carry the ids / flags / links of the served objects", k.id, k.plan,
				trunc(strings.Join(objViews, " "), 400), trunc(strings.Join(views, " "), 400))
		}
		// model's view of the listed accessories, in order
		parts := strings.Split(model[i], " | ")
		want := "?"
		if len(parts) == 3 {
			objs := strings.Fields(parts[2])
			var w []string
			for _, ix := range strings.Split(parts[1], ",") {
				var j int
				if _, err := fmt.Sscan(ix, &j); err == nil && j >= 0 && j < len(objs) {
					w = append(w, objs[j])
				}
			}
			want = strings.Join(w, " ")
		}
		c.Same("json", k.id, lines[i], want, strings.Join(views, " "))
		// rebuild: same plan, fresh objects, must give byte-identical attribute database
		var again []byte
		safely(func() {
			_, cont2 := runPlan(k.plan, buildPool(k.plan))
			again, _ = json.Marshal(cont2)
		})
		if string(again) != string(plain) {
			c.Violate("ids differ between two identical constructions", k.id, k.plan, trunc(string(plain), 300), trunc(string(again), 300))
		}
		nextra := 0
		ctors := map[int]bool{}
		for _, a := range k.plan.Accs {
			nextra += len(a.Extra)
			ctors[a.Ctor] = true
		}
		for ct := range ctors {
			c.Hist("compose:ctor=" + accMakerNames[ct])
		}
		c.Count(lines[i], len(k.plan.Accs) >= 2 && (nextra > 0 || strings.Contains(impl, "dup")),
			fmt.Sprintf("compose:accessories<=%d", bucketN(len(k.plan.Accs))), fmt.Sprintf("compose:ops-beyond-adds=%v", len(k.plan.Ops) > len(k.plan.Accs)),
			fmt.Sprintf("compose:rejected=%v", strings.Contains(impl, "dup")), fmt.Sprintf("compose:extra-services<=%d", bucketN(nextra)))
		if i%150 == 0 {
			c.Sample(trunc(lines[i], 160) + "  =>  " + trunc(impl, 200))
		}
		c.Trace()
	}
	c.Extra("adds_rejected_as_duplicate_cases", rejected)

	// ---------------- stream "ctor": every accessory constructor the scan finds, added to a fresh container
	if c.Only == "" || strings.HasPrefix(c.Only, "ctor#") || strings.HasPrefix(c.Only, "shape#") {
		s, d := catalogOf(c)
		var rows []catalog.Row
		lines = lines[:0]
		for _, r := range d.Rows {
			if r.Pkg != "accessory" || r.Kind != "accessory" || r.Added == nil || c.Skip(rowCase(r)) {
				continue
			}
			var sb strings.Builder
			fmt.Fprintf(&sb, "ids run a%d:", r.Acc.ID)
			for i, sv := range r.Acc.Services {
				if i > 0 {
					sb.WriteByte(';')
				}
				fmt.Fprintf(&sb, "%d/-/-", len(sv.Chars))
			}
			sb.WriteString(" +0")
			rows = append(rows, r)
			lines = append(lines, sb.String())
		}
		model = c.Model(lines)
		for i, r := range rows {
			var ss []string
			for _, sv := range r.Added.Services {
				var cs []uint64
				for _, ch := range sv.Chars {
					cs = append(cs, ch.ID)
				}
				ss = append(ss, fmt.Sprintf("%d[%s]L", sv.ID, natList(",", cs)))
			}
			out := "ok"
			if r.AddErr != "" {
				out = "err:" + r.AddErr
			}
			impl := fmt.Sprintf("%s | 0 | %d{%s}", out, r.Added.ID, strings.Join(ss, ";"))
			c.Same("ctor", rowCase(r), lines[i], model[i], impl)
			c.Count(lines[i]+r.Ctor+r.Args, true, "ctor:"+r.Ctor)
			c.Trace()
		}
		for _, f := range catalog.CheckShape(s, d) {
			id := "shape#" + f.Ctor + "/" + f.Field
			if !c.Skip(id) {
				c.Violate(f.Signature(), id, map[string]string{"theorem": "Hc.Props.C14.json_wellformed", "object": f.Ctor, "field": f.Field}, f.Expected, f.Observed)
			}
		}
		for _, f := range catalog.Check(s, d) {
			if f.Theorem != "every_ctor_usable" || !(strings.Contains(f.Field, "perms") || strings.HasPrefix(f.Ctor, "accessory.")) {
				continue
			}
			id := "shape#" + f.Ctor + "/" + f.Field
			if !c.Skip(id) {
				c.Violate(f.Signature(), id, map[string]string{"theorem": "Hc.Props.C14.ctor_perms_valid / library_accessories_wellformed", "constructor": f.Ctor, "field": f.Field}, f.Expected, f.Observed)
			}
		}
	}

	// ---------------- excluded case (reported, not a violation): a service object shared or listed twice
	if c.Only == "" {
		ex := map[string]interface{}{}
		safely(func() {
			a := accessory.NewSwitch(accessory.Info{Name: "x"})
			a.AddService(a.Switch.Service) // listed twice
			cont := accessory.NewContainer()
			cont.AddAccessory(a.Accessory)
			ex["same_service_listed_twice"] = strings.Join(idProblems(cont), "; ")
			b := accessory.NewOutlet(accessory.Info{Name: "y"})
			shared := service.NewBatteryService().Service
			b.AddService(shared)
			d := accessory.NewBridge(accessory.Info{Name: "z"})
			d.AddService(service.NewFan().Service)
			d.AddService(shared)
			cont2 := accessory.NewContainer()
			cont2.AddAccessory(b.Accessory)
			cont2.AddAccessory(d.Accessory)
			ex["service_shared_by_two_accessories"] = strings.Join(idProblems(cont2), "; ") + " | " + accView(b.Accessory) + " " + accView(d.Accessory)
		})
		c.Extra("excluded_case_shared_objects", ex)
	}
}

func bucketN(n int) int {
	for _, b := range []int{0, 1, 2, 5, 10, 20, 40} {
		if n <= b {
			return b
		}
	}
	return 99999
}

// c14Renumber (direct oracle): ids depend only on construction order, also when an accessory that was already numbered
// once (added to a container, or rejected by one) gets more services / characteristics and enters a container again —
// every NewIPTransport creates a new container, so after a restart of the application code this is the normal case.
func c14Renumber(c *Ctx) {
	ctors := []func(accessory.Info) *accessory.Accessory{
		func(i accessory.Info) *accessory.Accessory { return accessory.NewSwitch(i).Accessory },
		func(i accessory.Info) *accessory.Accessory { return accessory.NewLightbulb(i).Accessory },
		func(i accessory.Info) *accessory.Accessory { return accessory.NewOutlet(i).Accessory },
		func(i accessory.Info) *accessory.Accessory {
			return accessory.NewThermostat(i, 20, 10, 30, 1).Accessory
		},
		func(i accessory.Info) *accessory.Accessory { return accessory.NewTelevision(i).Accessory },
	}
	for i := 0; i < c.Pick(60, 3000); i++ {
		id := c.CaseID("renumber", i)
		if c.Skip(id) {
			continue
		}
		r := c.CaseRng("renumber", i)
		k := r.Intn(len(ctors))
		grow := func(a *accessory.Accessory, r *rand.Rand) {
			for n := 0; n < 1+r.Intn(3); n++ {
				if r.Intn(2) == 0 {
					a.Services[r.Intn(len(a.Services))].AddCharacteristic(characteristic.NewBrightness().Characteristic)
				} else {
					sv := service.New("F0" + fmt.Sprint(n))
					sv.AddCharacteristic(characteristic.NewOn().Characteristic)
					a.AddService(sv)
				}
			}
		}
		seedG := r.Int63()
		// (1) numbered once, grown, numbered again in a fresh container
		a := ctors[k](accessory.Info{Name: "A"})
		first := accessory.NewContainer()
		if r.Intn(2) == 0 {
			first.AddAccessory(ctors[(k+1)%len(ctors)](accessory.Info{Name: "B", ID: 1})) // so that a (automatic id 1) is rejected but numbered
		}
		first.AddAccessory(a)
		grow(a, rand.New(rand.NewSource(seedG)))
		a.ID = 0
		second := accessory.NewContainer()
		second.AddAccessory(a)
		// (2) reference: the same shape built fresh and added once
		b := ctors[k](accessory.Info{Name: "A"})
		grow(b, rand.New(rand.NewSource(seedG)))
		ref := accessory.NewContainer()
		ref.AddAccessory(b)
		in := map[string]interface{}{"constructor": k, "grow_seed": seedG}
		for _, p := range idProblems(second) {
			c.Violate("attribute database ids: "+p+" (accessory numbered a second time after it grew)", id, in, "unique non-zero ids", accView(a))
		}
		// numbering depends on the list of services and characteristics only (F49): the object that was numbered before
		// has, after it is numbered again, exactly the ids of the fresh build of the same shape
		if va, vb := accView(a), accView(b); va != vb {
			c.Violate("instance ids depend on how often the accessory was numbered before, not only on its construction order", id, in, vb+" (the same shape built fresh)", va)
		}
		// … and a refused AddAccessory of an accessory that is already in the container leaves its ids alone
		before := accView(a)
		second.AddAccessory(a)
		if after := accView(a); after != before {
			c.Violate("a refused AddAccessory changes the instance ids of an accessory that is being served", id, in, before, after)
		}
		for _, p := range idProblems(ref) {
			c.Violate("attribute database ids: "+p, id, in, "unique non-zero ids", accView(b))
		}
		if len(b.Services) > 0 && b.Services[0].ID != 1 {
			c.Violate("instance ids of a freshly built accessory do not start at 1", id, in, "1", fmt.Sprint(b.Services[0].ID))
		}
		c.Count(fmt.Sprint("renumber/", k, seedG), true, "stream:renumber")
	}
}

// stallWriter is an http.ResponseWriter whose n-th Write blocks until released (a slow controller).
type stallWriter struct {
	h       http.Header
	code    int
	buf     bytes.Buffer
	writes  int
	stallAt int
	stalled chan struct{}
	release chan struct{}
}

func (w *stallWriter) Header() http.Header { return w.h }
func (w *stallWriter) WriteHeader(c int)   { w.code = c }
func (w *stallWriter) Write(b []byte) (int, error) {
	w.writes++
	if w.writes == w.stallAt {
		close(w.stalled)
		<-w.release
	}
	return w.buf.Write(b)
}

// c14ConcurrentJSON (direct oracle): the attribute database served to one controller is well-formed and complete also
// when other controllers' requests are answered while its answer is still being written piece by piece.
func c14ConcurrentJSON(c *Ctx) {
	// one processor: goroutines that run while the stalled one is parked share its processor-local caches (sync.Pool
	// private slots etc.), which makes interference between requests reproducible instead of a matter of luck
	defer runtime.GOMAXPROCS(runtime.GOMAXPROCS(1))
	for i := 0; i < c.Pick(8, 120); i++ {
		id := c.CaseID("concurrent-json", i)
		if c.Skip(id) {
			continue
		}
		r := c.CaseRng("concurrent-json", i)
		accs := c09Accessories(r, 10+r.Intn(25))
		f, addr, err := verifiedFixture(c, accs)
		if err != nil {
			c.Violate("fixture cannot be built", id, nil, "fixture", err.Error())
			continue
		}
		want, _ := json.Marshal(f.container)
		sw := &stallWriter{h: http.Header{}, code: 200, stallAt: 1 + r.Intn(4), stalled: make(chan struct{}), release: make(chan struct{})}
		done := make(chan struct{})
		go func() {
			defer close(done)
			req := withLocal(httptest.NewRequest("GET", "/accessories", nil))
			req.RemoteAddr = addr
			safely(func() { f.server.Mux.ServeHTTP(sw, req) })
		}()
		select {
		case <-sw.stalled:
		case <-done: // answer shorter than stallAt pieces
		}
		// other controllers are served meanwhile: long and short answers, refusals
		var all []string
		for _, a := range accs {
			for _, s := range a.GetServices() {
				for _, ch := range s.GetCharacteristics() {
					all = append(all, fmt.Sprintf("%d.%d", a.ID, ch.ID))
				}
			}
		}
		var wg sync.WaitGroup
		for g := 0; g < 48; g++ {
			wg.Add(1)
			gr := rand.New(rand.NewSource(r.Int63()))
			go func(g int) {
				defer wg.Done()
				for k := 0; k < 6; k++ {
					n := 1 + gr.Intn(len(all))
					ids := make([]string, n)
					for j := range ids {
						ids[j] = all[gr.Intn(len(all))]
					}
					a := addr
					if g%5 == 0 {
						a = fmt.Sprintf("10.0.14.%d:1", g) // an unverified connection: refused with the constant body
					}
					f.Do(a, "GET", "/characteristics?id="+strings.Join(ids, ","), "", nil)
				}
			}(g)
		}
		wg.Wait()
		select {
		case <-done:
		default:
			close(sw.release)
			<-done
		}
		f.Close()
		got := bytes.TrimSpace(sw.buf.Bytes())
		if !jsonEqual(got, want) {
			p := 0
			for p < len(got) && p < len(want) && got[p] == want[p] {
				p++
			}
			c.Violate("attribute database served while other requests are answered concurrently is not the accessory's database (not well-formed JSON)", id,
				map[string]interface{}{"accessories": len(accs), "stalled_at_piece": sw.stallAt, "concurrent_requests": 48 * 6},
				fmt.Sprintf("%d bytes of well-formed JSON", len(want)), fmt.Sprintf("%d bytes, differs from byte %d: …%s", len(got), p, trunc(string(got[max(0, p-20):min(len(got), p+60)]), 100)))
		}
		c.Count(fmt.Sprint("concurrent-json/", len(accs), sw.stallAt), true, "stream:concurrent-json")
	}
}

func max(a, b int) int {
	if a > b {
		return a
	}
	return b
}

// c14Transport (direct oracle): the ids that hc.NewIPTransport gives the accessories it is built from are those a
// container gives them when they are added in argument order — so the same application code gets the same ids after
// every restart. (The composition streams above drive accessory.Container directly; this is the constructor an
// application calls.)
func c14Transport(c *Ctx) {
	ctors := []func(accessory.Info) *accessory.Accessory{
		func(i accessory.Info) *accessory.Accessory { return accessory.NewSwitch(i).Accessory },
		func(i accessory.Info) *accessory.Accessory { return accessory.NewLightbulb(i).Accessory },
		func(i accessory.Info) *accessory.Accessory { return accessory.NewOutlet(i).Accessory },
		func(i accessory.Info) *accessory.Accessory { return accessory.NewBridge(i).Accessory },
	}
	for i := 0; i < c.Pick(6, 60); i++ {
		id := c.CaseID("transport-ids", i)
		if c.Skip(id) {
			continue
		}
		r := c.CaseRng("transport-ids", i)
		n := 3 + r.Intn(8)
		kinds := make([]int, n)
		explicit := make([]uint64, n)
		for k := range kinds {
			kinds[k] = r.Intn(3)
			if r.Intn(6) == 0 {
				explicit[k] = uint64(20 + k)
			}
			if i%2 == 1 && r.Intn(4) == 0 {
				explicit[k] = uint64(1 + r.Intn(n+2)) // small: likely to be the number an automatic id would get, or given twice
			}
		}
		build := func() []*accessory.Accessory {
			out := []*accessory.Accessory{ctors[3](accessory.Info{Name: "Bridge"})}
			for k := range kinds {
				out = append(out, ctors[kinds[k]](accessory.Info{Name: fmt.Sprint("A", k), ID: explicit[k]}))
			}
			return out
		}
		ids := func(as []*accessory.Accessory) string {
			var l []string
			for _, a := range as {
				l = append(l, fmt.Sprint(a.ID))
			}
			return strings.Join(l, ",")
		}
		ref := build()
		cont := accessory.NewContainer()
		var refErr error
		for _, a := range ref {
			auto := a.ID == 0
			if err := cont.AddAccessory(a); err != nil {
				if auto {
					c.Violate("an accessory that leaves its id to the container is refused (and NewIPTransport drops it without a word)", id, map[string]interface{}{"bridged_accessories": n, "explicit_ids": explicit}, "added", err.Error())
				}
				if refErr == nil {
					refErr = err
				}
			}
		}
		in := map[string]interface{}{"bridged_accessories": n, "explicit_ids": explicit}
		for run := 0; run < 2; run++ {
			as := build()
			var terr error
			var t hc.Transport
			msg, pan := safely(func() {
				t, terr = hc.NewIPTransport(hc.Config{StoragePath: filepath.Join(c.ScratchDir(), fmt.Sprint("t", i))}, as[0], as[1:]...)
			})
			if refErr != nil {
				// two accessories with one id: nothing can serve both. The transport must say so instead of serving some
				if !pan && terr == nil {
					c.Violate("NewIPTransport returns a transport that serves fewer accessories than it was given, and no error", id, in,
						"an error ("+refErr.Error()+")", fmt.Sprintf("no error; %d accessories given, ids served: %v", len(as), hc.VerifAccessoryIDs(t)))
				}
				break
			}
			if pan || terr != nil {
				c.Violate("NewIPTransport fails for a bridge of library accessories", id, in, "a transport", fmt.Sprint(msg, terr))
				break
			}
			if got := ids(as); got != ids(ref) {
				c.Violate("the accessory ids NewIPTransport assigns do not follow the order of its arguments", id, in, ids(ref)+" (a container filled in argument order)", fmt.Sprintf("%s (start %d)", got, run+1))
				break
			}
			if served := hc.VerifAccessoryIDs(t); len(served) != len(as) {
				c.Violate("NewIPTransport returns a transport that serves fewer accessories than it was given, and no error", id, in, fmt.Sprintf("%d accessories", len(as)), fmt.Sprintf("ids served: %v", served))
				break
			}
		}
		c.Count(fmt.Sprint(id, kinds, explicit), true, "stream:transport-ids")
	}
}

// c14GetterValues: the attribute database stays well-formed JSON whatever a value getter of the application returns at
// the moment it is encoded — a sensor read that failed (NaN, ±Inf), a value of another type. Both through the handler of
// GET /accessories and through json.Marshal of the container.
func c14GetterValues(c *Ctx) {
	for i, bad := range []interface{}{math.NaN(), math.Inf(1), math.Inf(-1), "n/a", nil, []interface{}{1.0}} {
		id := fmt.Sprintf("getter-values#%d", i)
		if c.Skip(id) {
			continue
		}
		acc := accessory.NewTemperatureSensor(accessory.Info{Name: "T"}, 20, 0, 100, 0.1)
		acc.TempSensor.CurrentTemperature.OnValueGet(func() interface{} { return bad })
		f, addr, err := verifiedFixture(c, []*accessory.Accessory{acc.Accessory})
		if err != nil {
			c.Violate("fixture cannot be built", id, nil, "fixture", err.Error())
			continue
		}
		in := map[string]interface{}{"getter_of_CurrentTemperature_returns": fmt.Sprintf("%T %v", bad, bad)}
		for _, target := range []string{"/accessories", fmt.Sprintf("/characteristics?id=%d.%d", acc.Accessory.ID, acc.TempSensor.CurrentTemperature.ID), "/accessories"} {
			st, body, _, pm := f.Do(addr, "GET", target, "", nil)
			var any interface{}
			if pm != "" || (st != 200 && st != 207) || json.Unmarshal(bytes.TrimSpace(body), &any) != nil {
				c.Violate("the attribute database is not served as well-formed JSON (a value getter returned something that is not a valid value)", id, in, "200 + JSON", fmt.Sprint(target, ": ", st, " ", trunc(string(body), 100), pm))
				break
			}
		}
		c.Count(id, true, "stream:getter-values")
		f.Close()
	}
	// … bounds that are no numbers: "a thermometer without bounds" (-Inf … +Inf), a bound computed from a sensor's data sheet
	// that came out as NaN. JSON has no such numbers; the attribute database is served all the same (such a bound is no bound)
	for i, bd := range [][3]float64{{math.Inf(-1), math.Inf(1), 0.1}, {0, math.Inf(1), 1}, {math.NaN(), 50, 0.5}, {-20, 60, math.NaN()}, {math.Inf(-1), 40, math.Inf(1)}} {
		for _, how := range []string{"NewTemperatureSensor", "NewThermostat", "setters"} {
			id := fmt.Sprintf("bounds-not-numbers#%d%s", i, how)
			if c.Skip(id) {
				continue
			}
			var a *accessory.Accessory
			msg, pan := safely(func() {
				switch how {
				case "NewTemperatureSensor":
					a = accessory.NewTemperatureSensor(accessory.Info{Name: "T"}, 21, bd[0], bd[1], bd[2]).Accessory
				case "NewThermostat":
					a = accessory.NewThermostat(accessory.Info{Name: "T"}, 21, bd[0], bd[1], bd[2]).Accessory
				default:
					t := accessory.NewTemperatureSensor(accessory.Info{Name: "T"}, 21, 0, 100, 0.1)
					t.TempSensor.CurrentTemperature.SetMinValue(bd[0])
					t.TempSensor.CurrentTemperature.SetMaxValue(bd[1])
					t.TempSensor.CurrentTemperature.SetStepValue(bd[2])
					a = t.Accessory
				}
			})
			in := map[string]interface{}{"how": how, "min": fmt.Sprint(bd[0]), "max": fmt.Sprint(bd[1]), "step": fmt.Sprint(bd[2])}
			if pan {
				c.Violate("accessory constructor panics", id, in, "an accessory", msg)
				continue
			}
			f, addr, err := verifiedFixture(c, []*accessory.Accessory{a, accessory.NewSwitch(accessory.Info{Name: "S"}).Accessory})
			if err != nil {
				c.Violate("fixture cannot be built", id, in, "fixture", err.Error())
				continue
			}
			st, body, _, pm := f.Do(addr, "GET", "/accessories", "", nil)
			var any interface{}
			if pm != "" || st != 200 || json.Unmarshal(bytes.TrimSpace(body), &any) != nil {
				c.Violate("the attribute database is not served as well-formed JSON (a bound of a characteristic is not a number)", id, in, "200 + JSON", fmt.Sprint(st, " ", trunc(string(body), 100), pm))
			}
			hmsg, hpan := safely(func() { f.container.ContentHash() })
			if hpan {
				c.Violate("the configuration hash of the accessories cannot be computed (hc.NewIPTransport panics: the accessory cannot be started)", id, in, "a hash", hmsg)
			}
			c.Count(id, true, "stream:getter-values")
			f.Close()
		}
	}
	// … and a float characteristic that declares no bounds (nothing clamps): the application sets such a value itself
	// (a division by zero of its own), or supplies it on demand
	for i, bad := range []float64{math.Inf(1), math.Inf(-1), math.NaN()} {
		for _, how := range []string{"SetValue", "OnValueGet"} {
			id := fmt.Sprintf("unbounded-float#%d%s", i, how)
			if c.Skip(id) {
				continue
			}
			cam := accessory.New(accessory.Info{Name: "Cam"}, accessory.TypeIPCamera)
			svc := service.New("F0AC")
			zoom := characteristic.NewOpticalZoom()
			svc.AddCharacteristic(zoom.Characteristic)
			cam.AddService(svc)
			lamps := []*accessory.Accessory{cam}
			for k := 0; k < 3; k++ {
				lamps = append(lamps, accessory.NewSwitch(accessory.Info{Name: fmt.Sprint("S", k)}).Accessory)
			}
			f, addr, err := verifiedFixture(c, lamps)
			if err != nil {
				c.Violate("fixture cannot be built", id, nil, "fixture", err.Error())
				continue
			}
			if how == "SetValue" {
				zoom.SetValue(bad)
			} else {
				v := bad
				zoom.OnValueGet(func() interface{} { return v })
			}
			in := map[string]interface{}{"characteristic": "OpticalZoom (float, no declared bounds)", "the_application": fmt.Sprintf("%s(%v)", how, bad)}
			for _, target := range []string{fmt.Sprintf("/characteristics?id=%d.%d", cam.ID, zoom.ID), "/accessories"} {
				st, body, _, pm := f.Do(addr, "GET", target, "", nil)
				var any interface{}
				if pm != "" || (st != 200 && st != 207) || json.Unmarshal(bytes.TrimSpace(body), &any) != nil {
					c.Violate("the attribute database is not served as well-formed JSON (a value that cannot be encoded was stored)", id, in, "200 + JSON", fmt.Sprint(target, ": ", st, " ", trunc(string(body), 100), pm))
					break
				}
			}
			c.Count(id, true, "stream:getter-values")
			f.Close()
		}
	}
}

// c14TwoContainers: accessory objects are served by more than one container (a bridge and a stand-alone transport for one
// of its accessories; two bridges with an overlap). "In every accessory container, accessory ids are unique and non-zero":
// adding an accessory to a second container must not disturb the first — its ids there stay what they were and stay unique.
func c14TwoContainers(c *Ctx) {
	ctors := []func(accessory.Info) *accessory.Accessory{
		func(i accessory.Info) *accessory.Accessory { return accessory.NewSwitch(i).Accessory },
		func(i accessory.Info) *accessory.Accessory { return accessory.NewOutlet(i).Accessory },
		func(i accessory.Info) *accessory.Accessory { return accessory.NewColoredLightbulb(i).Accessory },
		func(i accessory.Info) *accessory.Accessory { return accessory.NewBridge(i).Accessory },
	}
	for i := 0; i < c.Pick(40, 2000); i++ {
		id := c.CaseID("two-containers", i)
		if c.Skip(id) {
			continue
		}
		r := c.CaseRng("two-containers", i)
		n := 2 + r.Intn(6)
		var pool []*accessory.Accessory
		for k := 0; k < n; k++ {
			pool = append(pool, ctors[r.Intn(len(ctors))](accessory.Info{Name: fmt.Sprint("A", k)}))
		}
		first := accessory.NewContainer()
		for _, a := range pool {
			first.AddAccessory(a)
		}
		ids := func(cn *accessory.Container) string {
			var l []string
			for _, a := range cn.Accessories {
				l = append(l, fmt.Sprint(a.ID))
			}
			return strings.Join(l, ",")
		}
		before := ids(first)
		second := accessory.NewContainer()
		var order []int
		for _, k := range r.Perm(n)[:1+r.Intn(n)] {
			order = append(order, k)
			if r.Intn(3) == 0 {
				second.AddAccessory(ctors[r.Intn(len(ctors))](accessory.Info{Name: "fresh"})) // one of its own in between
				order = append(order, -1)
			}
			second.AddAccessory(pool[k])
		}
		in := map[string]interface{}{"first_container": fmt.Sprintf("%d accessories, added in order, ids %s", n, before),
			"second_container_adds": fmt.Sprint(order, " (indices into the first; -1 = an accessory of its own)")}
		if after := ids(first); after != before {
			c.Violate("the accessory ids served by a container change when its accessories are added to another container", id, in, before, after)
		}
		for k, cn := range []*accessory.Container{first, second} {
			for _, p := range idProblems(cn) {
				c.Violate("attribute database ids: "+p+" (accessories shared by two containers)", id, in, "unique non-zero ids", fmt.Sprintf("container %d: %s", k+1, ids(cn)))
			}
		}
		c.Count(fmt.Sprint(id, order), true, "stream:two-containers")
	}
}
