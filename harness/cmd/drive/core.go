package main

// Core of the correspondence driver: seeded PRNG, pipe to the compiled Lean model driver,
// mismatch / violation bookkeeping, known-findings file, evidence and replay writers.

import (
	"bufio"
	"crypto/sha256"
	"encoding/hex"
	"encoding/json"
	"fmt"
	"io"
	"io/ioutil"
	"math/rand"
	"os"
	"os/exec"
	"path/filepath"
	"regexp"
	"sort"
	"strings"
	"sync"
	"time"
)

type CheckFunc func(c *Ctx)

var registry = map[string]CheckFunc{}

func register(id string, fn CheckFunc) { registry[id] = fn }

// Mismatch is a point where the Lean model and the implementation disagree (a broken correspondence).
type Mismatch struct {
	Stream string      `json:"stream"`
	Case   string      `json:"case"`
	Input  interface{} `json:"input"`
	Model  string      `json:"model"`
	Impl   string      `json:"impl"`
}

// Violation is a concrete input on which the implementation itself breaks the property
// (decided by a direct oracle that does not go through the model).
type Violation struct {
	Signature string      `json:"signature"` // stable, human-readable key; matched against known_findings.json
	Case      string      `json:"case"`
	Input     interface{} `json:"input"`
	Expected  string      `json:"expected"`
	Observed  string      `json:"observed"`
}

type KnownFinding struct {
	Property string `json:"property"`
	ID       string `json:"id"`
	Status   string `json:"status"` // "known" | "fixed"
	Match    string `json:"match"`  // regexp on Violation.Signature
	Commit   string `json:"commit,omitempty"`
	What     string `json:"what"`
}

type Ctx struct {
	Prop     string
	Tier     string
	Seed     int64
	Only     string // replay: run only this case id
	VerifDir string
	Repo     string

	lean     *leanProc
	leanPath string
	mu       sync.Mutex

	evaluations int
	distinct    map[string]bool
	nontrivial  map[string]bool
	hist        map[string]int
	samples     []interface{}
	traces      int

	mismatches  []Mismatch
	violations  []Violation
	known       []KnownFinding
	knownHit    map[string]bool
	extra       map[string]interface{}
	assumptions []string
	rule        string
	start       time.Time
}

func (c *Ctx) Thorough() bool { return c.Tier == "thorough" }

// Pick returns q in the quick tier and t in the thorough tier.
func (c *Ctx) Pick(q, t int) int {
	if c.Thorough() {
		return t
	}
	return q
}

// CaseRng derives an independent PRNG for case i of stream s from the single seed.
func (c *Ctx) CaseRng(stream string, i int) *rand.Rand {
	h := sha256.Sum256([]byte(fmt.Sprintf("%d/%s/%d", c.Seed, stream, i)))
	var s int64
	for k := 0; k < 8; k++ {
		s = s<<8 | int64(h[k])
	}
	return rand.New(rand.NewSource(s))
}

func (c *Ctx) CaseID(stream string, i int) string { return fmt.Sprintf("%s#%d", stream, i) }

// Skip reports whether a case is filtered out by --only (replay mode).
func (c *Ctx) Skip(caseID string) bool { return c.Only != "" && c.Only != caseID }

func (c *Ctx) SetRule(r string) { c.rule = r }
func (c *Ctx) Assume(a string)  { c.assumptions = append(c.assumptions, a) }
func (c *Ctx) Extra(k string, v interface{}) {
	c.mu.Lock()
	c.extra[k] = v
	c.mu.Unlock()
}

// Count records one evaluated case; key is its canonical form (for distinct counting); nontrivial per the check's rule.
func (c *Ctx) Count(key string, nontrivial bool, buckets ...string) {
	c.mu.Lock()
	defer c.mu.Unlock()
	c.evaluations++
	h := sha256.Sum256([]byte(key))
	k := string(h[:12])
	c.distinct[k] = true
	if nontrivial {
		c.nontrivial[k] = true
	}
	for _, b := range buckets {
		c.hist[b]++
	}
}

func (c *Ctx) Hist(b string) {
	c.mu.Lock()
	c.hist[b]++
	c.mu.Unlock()
}

func (c *Ctx) Trace() {
	c.mu.Lock()
	c.traces++
	c.mu.Unlock()
}

func (c *Ctx) Sample(v interface{}) {
	c.mu.Lock()
	if len(c.samples) < 6 {
		c.samples = append(c.samples, v)
	}
	c.mu.Unlock()
}

func (c *Ctx) Mismatch(stream, caseID string, input interface{}, model, impl string) {
	c.mu.Lock()
	defer c.mu.Unlock()
	if len(c.mismatches) < 50 {
		c.mismatches = append(c.mismatches, Mismatch{stream, caseID, input, model, impl})
	}
	c.hist["MISMATCH:"+stream]++
}

// Same compares model and implementation output for one case and records a mismatch if they differ.
func (c *Ctx) Same(stream, caseID string, input interface{}, model, impl string) bool {
	if model == impl {
		return true
	}
	c.Mismatch(stream, caseID, input, model, impl)
	return false
}

func (c *Ctx) Violate(sig, caseID string, input interface{}, expected, observed string) {
	c.mu.Lock()
	defer c.mu.Unlock()
	for _, k := range c.known {
		if k.Property != c.Prop || k.Status != "known" {
			continue
		}
		if ok, _ := regexp.MatchString(k.Match, sig); ok {
			c.knownHit[k.ID+": "+k.What] = true
			c.hist["KNOWN:"+k.ID]++
			return
		}
	}
	if len(c.violations) < 50 {
		c.violations = append(c.violations, Violation{sig, caseID, input, expected, observed})
	}
	c.hist["VIOLATION"]++
}

// NumViolations: number of direct-oracle violations recorded so far (streams may stop exploring once a defect is established).
func (c *Ctx) NumViolations() int {
	c.mu.Lock()
	defer c.mu.Unlock()
	return len(c.violations)
}

func (c *Ctx) Failed() bool { return len(c.mismatches) > 0 || len(c.violations) > 0 }

// ---- Lean model process -------------------------------------------------------------------------

type leanProc struct {
	cmd *exec.Cmd
	in  io.WriteCloser
	out *bufio.Reader
	mu  sync.Mutex
}

func startLean(path string) (*leanProc, error) {
	cmd := exec.Command(path)
	in, err := cmd.StdinPipe()
	if err != nil {
		return nil, err
	}
	out, err := cmd.StdoutPipe()
	if err != nil {
		return nil, err
	}
	cmd.Stderr = os.Stderr
	if err := cmd.Start(); err != nil {
		return nil, err
	}
	return &leanProc{cmd: cmd, in: in, out: bufio.NewReaderSize(out, 1<<20)}, nil
}

// Model sends lines to the Lean driver and returns one answer per line (batched; order preserved).
func (c *Ctx) Model(lines []string) []string {
	if len(lines) == 0 {
		return nil
	}
	c.mu.Lock()
	if c.lean == nil {
		lp, err := startLean(c.leanPath)
		if err != nil {
			c.mu.Unlock()
			fatal("cannot start lean model driver %s: %v", c.leanPath, err)
		}
		c.lean = lp
	}
	lp := c.lean
	c.mu.Unlock()
	lp.mu.Lock()
	defer lp.mu.Unlock()
	res := make([]string, 0, len(lines))
	done := make(chan error, 1)
	go func() {
		w := bufio.NewWriterSize(lp.in, 1<<20)
		for _, l := range lines {
			if strings.ContainsAny(l, "\n\r") {
				done <- fmt.Errorf("line contains newline: %q", l)
				return
			}
			w.WriteString(l)
			w.WriteByte('\n')
		}
		done <- w.Flush()
	}()
	for range lines {
		s, err := lp.out.ReadString('\n')
		if err != nil {
			fatal("lean model driver died: %v", err)
		}
		res = append(res, strings.TrimRight(s, "\r\n"))
	}
	if err := <-done; err != nil {
		fatal("writing to lean model driver: %v", err)
	}
	return res
}

func (c *Ctx) Model1(line string) string { return c.Model([]string{line})[0] }

// ---- utilities ----------------------------------------------------------------------------------

func fatal(f string, a ...interface{}) {
	fmt.Fprintf(os.Stderr, "drive: "+f+"\n", a...)
	os.Exit(2)
}

func hx(b []byte) string {
	if len(b) == 0 {
		return "-"
	}
	return hex.EncodeToString(b)
}

func unhx(s string) []byte {
	if s == "-" {
		return nil
	}
	b, err := hex.DecodeString(s)
	if err != nil {
		panic(err)
	}
	return b
}

func randBytes(r *rand.Rand, n int) []byte {
	b := make([]byte, n)
	r.Read(b)
	return b
}

// safely runs f and converts a panic into a string (second result true when it panicked).
func safely(f func()) (msg string, panicked bool) {
	defer func() {
		if r := recover(); r != nil {
			msg = fmt.Sprint(r)
			panicked = true
		}
	}()
	f()
	return "", false
}

// parallel runs f(i) for i in [0,n) on up to 16 workers.
func parallel(n int, f func(i int)) {
	var wg sync.WaitGroup
	ch := make(chan int)
	w := 16
	if n < w {
		w = n
	}
	for k := 0; k < w; k++ {
		wg.Add(1)
		go func() {
			defer wg.Done()
			for i := range ch {
				f(i)
			}
		}()
	}
	for i := 0; i < n; i++ {
		ch <- i
	}
	close(ch)
	wg.Wait()
}

// scratchDir returns a fresh directory under the harness's own scratch path (removed by cleanup()).
var scratchRoot string
var scratchN int
var scratchMu sync.Mutex

func (c *Ctx) ScratchDir() string {
	scratchMu.Lock()
	defer scratchMu.Unlock()
	if scratchRoot == "" {
		scratchRoot = filepath.Join(c.VerifDir, ".scratch", fmt.Sprintf("%s-%d-%d", c.Prop, c.Seed, os.Getpid()))
		os.MkdirAll(scratchRoot, 0755)
	}
	scratchN++
	d := filepath.Join(scratchRoot, fmt.Sprintf("d%d", scratchN))
	os.MkdirAll(d, 0755)
	return d
}

func cleanup() {
	if scratchRoot != "" {
		os.RemoveAll(scratchRoot)
	}
}

// ---- evidence / replay ---------------------------------------------------------------------------

type proofInfo struct {
	Obligations   int                 `json:"obligations"`
	Discharged    int                 `json:"discharged"`
	Theorems      []string            `json:"theorems"`
	Axioms        map[string][]string `json:"axioms"`
	CheckerCmd    string              `json:"checker_cmd"`
	BuildOK       bool                `json:"build_ok"`
	BuildError    string              `json:"build_error"`
	Generated     []string            `json:"generated"`
	Leanchecker   string              `json:"leanchecker,omitempty"`
	ForbiddenHits []string            `json:"forbidden_hits,omitempty"`
	TrustedBase   []string            `json:"trusted_base"`
}

func (c *Ctx) finish(pi *proofInfo) int {
	os.Remove(filepath.Join(c.VerifDir, ".bin", fmt.Sprintf("setprobe-%d", os.Getpid()))) // per-run probe binary (C18/C19)
	wall := time.Since(c.start).Seconds()
	// violations first (a concrete failing input), then broken correspondence, then broken proof
	replayDir := filepath.Join(c.VerifDir, "replays")
	exit := 0
	var lines []string
	writeReplay := func(kind string, body map[string]interface{}) string {
		os.MkdirAll(replayDir, 0755)
		p := filepath.Join(replayDir, fmt.Sprintf("%s-%d-%s.json", c.Prop, c.Seed, kind))
		body["property"] = c.Prop
		body["kind"] = kind
		body["seed"] = c.Seed
		body["tier"] = c.Tier
		b, _ := json.MarshalIndent(body, "", " ")
		ioutil.WriteFile(p, b, 0644)
		return p
	}
	for k := range c.knownHit {
		lines = append(lines, fmt.Sprintf("KNOWN-FINDING: property=%s %s", c.Prop, k))
	}
	sort.Strings(lines)
	if len(c.violations) > 0 {
		v := c.violations[0]
		p := writeReplay("failing-input", map[string]interface{}{
			"case": v.Case, "signature": v.Signature, "input": v.Input, "expected": v.Expected, "observed": v.Observed,
			"all_violations": c.violations, "mismatches": c.mismatches,
			"proof_build_ok": pi.BuildOK, "proof_build_error": pi.BuildError,
		})
		lines = append(lines, fmt.Sprintf("VIOLATION property=%s replay=%s", c.Prop, p))
		exit = 1
	} else if len(c.mismatches) > 0 {
		m := c.mismatches[0]
		p := writeReplay("broken-obligation", map[string]interface{}{
			"case": m.Case, "theorem_or_stream": "correspondence stream " + m.Stream, "input": m.Input,
			"model": m.Model, "impl": m.Impl, "mismatches": c.mismatches,
			"proof_build_ok": pi.BuildOK, "proof_build_error": pi.BuildError,
		})
		lines = append(lines, fmt.Sprintf("VIOLATION property=%s replay=%s no-failing-input-found", c.Prop, p))
		exit = 1
	} else if !pi.BuildOK {
		p := writeReplay("broken-obligation", map[string]interface{}{
			"theorem_or_stream": "lake build of HcProofs.Props." + c.Prop + " (proof obligations over the regenerated model)",
			"proof_build_error": pi.BuildError,
		})
		lines = append(lines, fmt.Sprintf("VIOLATION property=%s replay=%s no-failing-input-found", c.Prop, p))
		exit = 1
	}
	cov := map[string]interface{}{
		"obligations":                   pi.Obligations,
		"discharged":                    pi.Discharged,
		"checker_cmd":                   pi.CheckerCmd,
		"trusted_base":                  pi.TrustedBase,
		"theorems":                      pi.Theorems,
		"axioms":                        pi.Axioms,
		"generated_inputs":              pi.Generated,
		"evaluations":                   c.evaluations,
		"distinct":                      len(c.distinct),
		"distinct_nontrivial":           len(c.nontrivial),
		"rule":                          c.rule,
		"samples":                       c.samples,
		"traces_validated_against_impl": c.traces,
		"input_distribution":            c.hist,
		"correspondence_mismatches":     len(c.mismatches),
		"known_findings_observed":       len(c.knownHit),
	}
	if pi.Leanchecker != "" {
		cov["leanchecker"] = pi.Leanchecker
	}
	if len(pi.ForbiddenHits) > 0 {
		cov["forbidden_hits"] = pi.ForbiddenHits
	}
	for k, v := range c.extra {
		cov[k] = v
	}
	if len(c.samples) == 0 {
		cov["samples"] = []interface{}{"(no correspondence stream for this property: the regenerated tables are the behaviour)"}
	}
	ev := map[string]interface{}{
		"property_id": c.Prop,
		"tier":        c.Tier,
		"seed":        c.Seed,
		"level":       "proof",
		"coverage":    cov,
		"assumptions": c.assumptions,
		"wall_s":      wall,
		"violations":  len(c.violations) + len(c.mismatches),
	}
	if !pi.BuildOK {
		ev["violations"] = len(c.violations) + len(c.mismatches) + 1
	}
	if c.Only == "" {
		os.MkdirAll(filepath.Join(c.VerifDir, "evidence"), 0755)
		b, _ := json.MarshalIndent(ev, "", " ")
		ioutil.WriteFile(filepath.Join(c.VerifDir, "evidence", c.Prop+".json"), b, 0644)
	}
	for _, l := range lines {
		fmt.Println(l)
	}
	if exit == 0 {
		fmt.Printf("OK property=%s tier=%s seed=%d evaluations=%d distinct_nontrivial=%d obligations=%d/%d wall=%.1fs\n",
			c.Prop, c.Tier, c.Seed, c.evaluations, len(c.nontrivial), pi.Discharged, pi.Obligations, wall)
	}
	return exit
}

func loadKnown(dir string) []KnownFinding {
	b, err := ioutil.ReadFile(filepath.Join(dir, "known_findings.json"))
	if err != nil {
		return nil
	}
	var f struct {
		Findings []KnownFinding `json:"findings"`
	}
	if err := json.Unmarshal(b, &f); err != nil {
		fatal("known_findings.json: %v", err)
	}
	return f.Findings
}
