package main

// C11 — read, write and event permissions are enforced for remote peers.
// The same model as C12 (HcModel/Characteristic.lean), driven through the in-process API and through
// the real PUT /characteristics handler (hap/http) with a registered session; direct oracles for the
// three permissions.

import (
	"bytes"
	"encoding/json"
	"fmt"
	"net"
	"net/http/httptest"
	"strings"
	"time"

	"github.com/brutella/hc/accessory"
	"github.com/brutella/hc/characteristic"
	"github.com/brutella/hc/crypto"
	"github.com/brutella/hc/db"
	"github.com/brutella/hc/event"
	"github.com/brutella/hc/hap"
	hchttp "github.com/brutella/hc/hap/http"
	hclog "github.com/brutella/hc/log"
	"github.com/brutella/hc/service"
	"github.com/brutella/hc/util"

	"sync"
)

func init() { register("C11", checkC11) }

type c11Conn struct{ addr string }

func (f *c11Conn) Read(b []byte) (int, error)         { return 0, nil }
func (f *c11Conn) Write(b []byte) (int, error)        { return len(b), nil }
func (f *c11Conn) Close() error                       { return nil }
func (f *c11Conn) LocalAddr() net.Addr                { return fakeAddr("127.0.0.1:1") }
func (f *c11Conn) RemoteAddr() net.Addr               { return fakeAddr(f.addr) }
func (f *c11Conn) SetDeadline(t time.Time) error      { return nil }
func (f *c11Conn) SetReadDeadline(t time.Time) error  { return nil }
func (f *c11Conn) SetWriteDeadline(t time.Time) error { return nil }

// httpEnv: the pieces ip_transport.go assembles, without mDNS and without serving the listener.
type httpEnv struct {
	srv       *hchttp.Server
	ctx       hap.Context
	container *accessory.Container
	conn      *c11Conn
	sess      hap.Session
	acc       *accessory.Accessory
}

func newHTTPEnv(c *Ctx) *httpEnv {
	storage, err := util.NewFileStorage(c.ScratchDir())
	if err != nil {
		fatal("storage: %v", err)
	}
	database := db.NewDatabaseWithStorage(storage)
	device, err := hap.NewSecuredDevice("verif", "00102003", database)
	if err != nil {
		fatal("device: %v", err)
	}
	env := &httpEnv{ctx: hap.NewContextForSecuredDevice(device), container: accessory.NewContainer(), conn: &c11Conn{addr: "10.9.8.7:4321"}}
	env.srv = hchttp.NewServer(hchttp.Config{Port: "127.0.0.1:0", Context: env.ctx, Database: database, Container: env.container,
		Device: device, Mutex: &sync.Mutex{}, Emitter: event.NewEmitter()})
	return env
}

// install puts the characteristic into a fresh accessory (aid 1) and registers a fresh session.
func (env *httpEnv) install(ch *characteristic.Characteristic) {
	acc := accessory.New(accessory.Info{Name: "verif"}, accessory.TypeOther)
	svc := service.New("F00D")
	svc.AddCharacteristic(ch)
	acc.AddService(svc)
	acc.ID = 1
	acc.UpdateIDs()
	env.acc = acc
	env.container.Accessories = []*accessory.Accessory{acc}
	env.sess = hap.NewSession(env.conn)
	env.ctx.SetSessionForConnection(env.sess, env.conn)
	// the PUT handler sits behind the authentication middleware (C01): make the session a verified one
	var shared [32]byte
	if cg, err := crypto.NewSecureSessionFromSharedKey(shared); err == nil {
		env.sess.SetCryptographer(cg)
		responseWritten(env.ctx, env.conn)
	}
}

type putResp struct {
	Code    int
	Entries []map[string]interface{}
	Raw     string
}

func (env *httpEnv) do(method, target string, body []byte) (resp putResp, panicked bool, msg string) {
	rec := httptest.NewRecorder()
	req := withLocal(httptest.NewRequest(method, target, bytes.NewReader(body)))
	req.RemoteAddr = env.conn.addr
	msg, panicked = safely(func() { env.srv.Mux.ServeHTTP(rec, req) })
	resp.Code = rec.Code
	resp.Raw = rec.Body.String()
	var parsed struct {
		Characteristics []map[string]interface{} `json:"characteristics"`
	}
	if len(resp.Raw) > 0 {
		json.Unmarshal([]byte(resp.Raw), &parsed)
	}
	resp.Entries = parsed.Characteristics
	return
}

func (env *httpEnv) putBody(cc *charCase, entries []putEntry) []byte {
	var es []map[string]interface{}
	for i, e := range entries {
		m := map[string]interface{}{"aid": 1, "iid": cc.C.ID}
		if e.Value != nil || i%2 == 1 {
			m["value"] = e.Value // nil ⇒ explicit null every other time, otherwise the member is absent
		}
		if e.HasEv {
			m["ev"] = e.Ev
		}
		es = append(es, m)
	}
	b, err := json.Marshal(map[string]interface{}{"characteristics": es})
	if err != nil {
		fatal("marshal PUT body: %v", err)
	}
	return b
}

func checkC11(c *Ctx) {
	c11Events(c)
	c11PermHelpers(c)
	c11DuringCallback(c)
	c11OutOfRangeStored(c)
	c.SetRule("one case = one characteristic (every zero-argument constructor of package characteristic, and custom characteristics with random " +
		"subsets of {pr,pw,ev,hd,wr}) and a sequence of 1–8 operations: local updates, UpdateValueFromConnection, reads with get functions, and PUT " +
		"/characteristics requests (value and/or ev entries) served by the real handler with a registered session; non-trivial = at least one step was refused by a " +
		"permission (write without pw, subscription without ev) or got past the checks and ran the callbacks, or panicked; distinct = distinct model lines")
	c.Assume("encoding/json decodes the PUT body into nil/bool/float64/string/[]interface{}/map[string]interface{} (decode∘encode = id on these values)")
	c.Assume("the lookup of (aid,iid) in the container is not modelled: every PUT entry addresses the characteristic under test")
	checkCtorTable(c)
	hclog.Info.Disable() // the handler logs unknown ids with a timestamp to stdout
	env := newHTTPEnv(c)

	put := func(cc *charCase, entries []putEntry) (bool, []int, bool, string) {
		resp, pan, msg := env.do("PUT", "/characteristics", env.putBody(cc, entries))
		var sts []int
		if !pan {
			for _, e := range resp.Entries {
				if s, ok := e["status"].(float64); ok {
					sts = append(sts, int(s))
				}
			}
		}
		return pan, sts, env.sess.IsSubscribedTo(cc.C), msg
	}

	// direct oracles, per step
	var prevVal string
	var curStep int
	oracle := func(c *Ctx, prop string, spec *charCaseSpec, k int, o *stepObs, input interface{}) {
		cc := spec.cc
		op := spec.ops[k]
		at := fmt.Sprintf("step %d: %s", k, op.describe())
		if k == 0 {
			prevVal = mustEnc(cc.Initial)
		}
		curStep = k
		_ = curStep
		now := mustEnc(o.Value)
		checked := op.Kind == "p" || (op.Kind == "u" && op.Cp)
		if checked && !hasPerm(cc.C.Perms, "pw") {
			if now != prevVal {
				c.Violate("C11: remote write changed a characteristic without write permission", spec.id, input, prevVal+" ("+at+")", now)
			}
			if len(o.Cbs) > 0 {
				c.Violate("C11: remote write to a characteristic without write permission invoked a callback", spec.id, input, "no callback ("+at+")", fmt.Sprintf("%d callbacks", len(o.Cbs)))
			}
		}
		if !hasPerm(cc.C.Perms, "pr") {
			if o.Value != nil {
				c.Violate("C11: characteristic without read permission stores a value", spec.id, input, "nil ("+at+")", now)
			}
			if o.Read != nil {
				c.Violate("C11: read of a characteristic without read permission returns a value", spec.id, input, "nil ("+at+")", mustEnc(o.Read))
			}
		}
		if op.Kind == "p" && !o.Panicked {
			// HAP: a write request in which every entry succeeded has no content; otherwise every entry of the request gets
			// its status (F75) — -70406 for a subscription without event permission, -70404 for a value without write
			// permission, 0 for the rest
			var want []int
			failed := false
			for _, e := range op.Puts {
				st := 0
				if e.Value != nil && !hasPerm(cc.C.Perms, "pw") {
					st = -70404
				}
				if e.HasEv && e.Ev != nil && !hasPerm(cc.C.Perms, "ev") {
					st = -70406
				}
				if st != 0 {
					failed = true
				}
				want = append(want, st)
			}
			if !failed {
				want = nil
			}
			if fmt.Sprint(o.Statuses) != fmt.Sprint(want) && !(len(want) == 0 && len(o.Statuses) == 0) {
				sig := "C11: a write request is not answered with a status for every entry (-70406 without event permission, -70404 without write permission, 0 otherwise) when an entry failed, and without content when none did"
				c.Violate(sig, spec.id, input, fmt.Sprintf("%v (%s)", want, at), fmt.Sprint(o.Statuses))
			}
		}
		if !hasPerm(cc.C.Perms, "ev") && o.Sub {
			c.Violate("C11: session subscribed to a characteristic without event permission", spec.id, input, "not subscribed ("+at+")", "subscribed")
		}
		prevVal = now
	}
	// after the sequence: what GET /characteristics, an EVENT body and /accessories reveal
	reveal := func(s *charCaseSpec, input interface{}) {
		cc := s.cc
		if hasPerm(cc.C.Perms, "pr") {
			return
		}
		resp, pan, _ := env.do("GET", fmt.Sprintf("/characteristics?id=1.%d", cc.C.ID), nil)
		if !pan {
			for _, e := range resp.Entries {
				if v, ok := e["value"]; ok && v != nil {
					c.Violate("C11: GET reveals a value of a characteristic without read permission", s.id, input, "no value", resp.Raw)
				}
			}
		}
		if body, err := hap.Body(env.acc, cc.C); err == nil {
			var ev struct {
				Characteristics []map[string]interface{} `json:"characteristics"`
			}
			json.Unmarshal(body.Bytes(), &ev)
			for _, e := range ev.Characteristics {
				if v, ok := e["value"]; ok && v != nil {
					c.Violate("C11: EVENT body reveals a value of a characteristic without read permission", s.id, input, "null", body.String())
				}
			}
		}
		if b, err := json.Marshal(cc.C); err == nil && strings.Contains(string(b), `"value"`) {
			c.Violate("C11: attribute database reveals a value of a characteristic without read permission", s.id, input, "no value member", string(b))
		}
	}

	var specs []*charCaseSpec
	// corpus: the three refusals on library characteristics
	corpus := []struct {
		name string
		ops  []charOp
	}{
		{"NewIdentify", []charOp{{Kind: "p", Puts: []putEntry{{Value: true, HasEv: true, Ev: true}}}, {Kind: "g", Fc: true}, {Kind: "u", V: true}}},
		{"NewCurrentTemperature", []charOp{{Kind: "p", Puts: []putEntry{{Value: float64(55)}}}, {Kind: "u", Fc: true, Cp: true, V: float64(33)}, {Kind: "p", Puts: []putEntry{{HasEv: true, Ev: true}}}, {Kind: "p", Puts: []putEntry{{HasEv: true, Ev: false}}}}},
		{"NewName", []charOp{{Kind: "p", Puts: []putEntry{{Value: "x", HasEv: true, Ev: true}, {HasEv: true, Ev: float64(1)}}}, {Kind: "u", Fc: false, Cp: true, V: "y"}}},
		{"NewOn", []charOp{{Kind: "p", Puts: []putEntry{{Value: float64(1), HasEv: true, Ev: true}}}, {Kind: "p", Puts: []putEntry{{Value: false}, {HasEv: true, Ev: "yes"}}}}},
	}
	for i, cs := range corpus {
		for _, e := range allCharacteristicCtors {
			if e.Name == cs.name {
				if cc, _ := newCtorCase(e); cc != nil {
					specs = append(specs, &charCaseSpec{id: c.CaseID("c11-corpus", i), cc: cc, ops: cs.ops, note: "corpus"})
				}
			}
		}
	}
	n := 0
	for round := 0; round < c.Pick(6, 50); round++ {
		for _, e := range allCharacteristicCtors {
			id := c.CaseID("c11-ctor", n)
			r := c.CaseRng("c11-ctor", n)
			n++
			cc, pmsg := newCtorCase(e)
			if cc == nil {
				if !c.Skip(id) {
					c.Violate("C11: constructor panics", id, e.Name, "a characteristic", pmsg)
				}
				continue
			}
			specs = append(specs, &charCaseSpec{id: id, cc: cc, ops: genOps(r, cc, true, 12)})
		}
	}
	for i := 0; i < c.Pick(5000, 80000); i++ {
		r := c.CaseRng("c11-custom", i)
		cc := newCustomCase(r)
		if cc.Wrapper != formatKind(cc.C.Format) {
			cc = newCustomCase(r) // fewer mismatched wrappers here; C12 covers them
		}
		specs = append(specs, &charCaseSpec{id: c.CaseID("c11-custom", i), cc: cc, ops: genOps(r, cc, true, 12)})
	}
	runCharSpecs(c, "C11", "c11", specs, put, oracle, func(s *charCaseSpec) { env.install(s.cc.C) }, reveal)
	c11Malformed(c, env)
	// permission-set histogram
	for _, s := range specs {
		pt, _ := permsToken(s.cc.C.Perms)
		ps := strings.Split(pt, "+")
		sortStrings(ps)
		c.Hist("c11:perms=" + strings.Join(ps, "+"))
	}
}

// c11Malformed: the malformed stream — damaged, oddly typed and unusual PUT bodies through the real
// handler (not modelled). Direct oracles: whatever the body, a characteristic without pw keeps its
// value and runs no callback, one without pr stores nothing, one without ev is never subscribed; a
// body the JSON decoder rejects changes nothing at all.
func c11Malformed(c *Ctx, env *httpEnv) {
	templates := []string{
		`{"characteristics":[{"aid":1,"iid":%d,"value":%s,"ev":true}]}`,
		`{"characteristics":[{"aid":1,"iid":%d,"value":%s,"ev":true}]`,
		`{"characteristics":[{"aid":1,"iid":%d,"value":%s,"ev":tru`,
		`{"characteristics":[{"aid":"1","iid":%d,"value":%s,"ev":true}]}`,
		`{"characteristics":[{"aid":1,"iid":-%d,"value":%s,"ev":true}]}`,
		`{"characteristics":[{"aid":1,"iid":%d.0,"value":%s,"ev":true}]}`,
		`{"characteristics":[{"AID":1,"IID":%d,"VALUE":%s,"EV":true}]}`,
		`{"characteristics":[{"aid":1,"iid":%d,"value":null,"value":%s,"ev":false,"ev":true}]}`,
		`{"characteristics":[null,{"aid":1,"iid":%d,"value":%s,"ev":1},{"aid":1,"iid":%d,"ev":true}]}`,
		`{"characteristics":{"aid":1,"iid":%d,"value":%s,"ev":true}}`,
		`{"characteristics":[{"aid":1,"iid":%d,"value":%s,"ev":true}]} trailing garbage`,
		"\ufeff" + `{"characteristics":[{"aid":1,"iid":%d,"value":%s,"ev":true}]}`,
		`[{"aid":1,"iid":%d,"value":%s,"ev":true}]`,
		`{"characteristics":[{"aid":1,"iid":%d,"value":%s,"ev":true,"status":0,"extra":{"a":[1,2]}}]}`,
		`{"characteristics":[{"aid":2,"iid":%d,"value":%s,"ev":true},{"aid":1,"iid":99999,"value":%s,"ev":true}]}`,
		`{"characteristics":[{"aid":1,"iid":%d,"value":%s,"ev":"true"}]}`,
		`{"characteristics":[{"aid":18446744073709551617,"iid":%d,"value":%s}]}`,
		``, `null`, `{}`, `{"characteristics":null}`, `{"characteristics":[]}`, `{"characteristics":[[]]}`,
	}
	values := []string{`true`, `1`, `0`, `"x"`, `55.5`, `[1]`, `{"a":1}`, `"NaN"`, `1e999`, `-1`, `null`, `"1e999"`, `18446744073709551616`}
	for i := 0; i < c.Pick(1500, 20000); i++ {
		id := c.CaseID("c11-malformed", i)
		if c.Skip(id) {
			continue
		}
		r := c.CaseRng("c11-malformed", i)
		var cc *charCase
		if r.Intn(2) == 0 {
			cc, _ = newCtorCase(allCharacteristicCtors[r.Intn(len(allCharacteristicCtors))])
		}
		if cc == nil {
			cc = newCustomCase(r)
		}
		if formatKind(cc.C.Format) == "" {
			continue
		}
		env.install(cc.C)
		ncb := 0
		cc.C.OnValueUpdate(func(*characteristic.Characteristic, interface{}, interface{}) { ncb++ })
		cc.C.OnValueUpdateFromConn(func(net.Conn, *characteristic.Characteristic, interface{}, interface{}) { ncb++ })
		tmpl := templates[r.Intn(len(templates))]
		val := values[r.Intn(len(values))]
		var args []interface{}
		for k := 0; k < strings.Count(tmpl, "%"); k++ {
			args = append(args, nil)
		}
		ai := 0
		for k := 0; k+1 < len(tmpl); k++ {
			if tmpl[k] == '%' {
				if tmpl[k+1] == 'd' {
					args[ai] = cc.C.ID
				} else {
					args[ai] = val
				}
				ai++
			}
		}
		body := fmt.Sprintf(tmpl, args...)
		if r.Intn(6) == 0 && len(body) > 2 { // random damage
			k := r.Intn(len(body))
			body = body[:k] + string([]byte{byte(r.Intn(128))}) + body[k+1:]
		}
		before := mustEnc(cc.C.Value)
		resp, pan, msg := env.do("PUT", "/characteristics", []byte(body))
		after := mustEnc(cc.C.Value)
		var probe struct {
			Characteristics []hchttp.CharacteristicRequest `json:"characteristics"`
		}
		decodes := json.NewDecoder(strings.NewReader(body)).Decode(&probe) == nil
		input := map[string]interface{}{"characteristic": cc.Desc, "format": cc.C.Format, "perms": cc.C.Perms, "iid": cc.C.ID, "body": body}
		if !decodes && (after != before || ncb > 0 || env.sess.IsSubscribedTo(cc.C)) {
			c.Violate("C11: undecodable PUT body changed state", id, input, before+" / no callback / not subscribed", fmt.Sprintf("%s / %d callbacks / subscribed=%v", after, ncb, env.sess.IsSubscribedTo(cc.C)))
		}
		if !hasPerm(cc.C.Perms, "pw") && (after != before || ncb > 0) {
			c.Violate("C11: remote write changed a characteristic without write permission", id, input, before+" / no callback", fmt.Sprintf("%s / %d callbacks", after, ncb))
		}
		if !hasPerm(cc.C.Perms, "pr") && cc.C.Value != nil {
			c.Violate("C11: characteristic without read permission stores a value", id, input, "nil", after)
		}
		if !hasPerm(cc.C.Perms, "ev") && env.sess.IsSubscribedTo(cc.C) {
			c.Violate("C11: session subscribed to a characteristic without event permission", id, input, "not subscribed", "subscribed")
		}
		for _, e := range resp.Entries {
			if v, ok := e["value"]; ok && v != nil && !hasPerm(cc.C.Perms, "pr") {
				c.Violate("C11: PUT response reveals a value of a characteristic without read permission", id, input, "no value", resp.Raw)
			}
		}
		outcome := fmt.Sprintf("http-%d", resp.Code)
		if pan {
			outcome = "panic:" + panicClass(msg)
		}
		c.Count(body+cc.cfgTokens(), decodes && (ncb > 0 || len(resp.Entries) > 0), "c11-malformed:decodes="+fmt.Sprint(decodes), "c11-malformed:"+outcome)
	}
}

// c11Events (end to end, direct oracle): on a bridge whose accessories have the same shape (so instance ids coincide),
// a subscription to a characteristic WITH the event permission must not make the twin WITHOUT it produce events, a
// subscription on one without the permission is answered with -70406, and a characteristic without read permission never
// reveals a value, not even in an event.
func c11Events(c *Ctx) {
	for i := 0; i < c.Pick(2, 12); i++ {
		id := c.CaseID("events", i)
		if c.Skip(id) {
			continue
		}
		r := c.CaseRng("events", i)
		mk := func(name string, p1, p2 []string) (*accessory.Accessory, *characteristic.Int, *characteristic.Int) {
			a := accessory.New(accessory.Info{Name: name}, accessory.TypeOther)
			sv := service.New("F00A")
			c1 := characteristic.NewInt("F1A1")
			c1.Format = characteristic.FormatUInt8
			c1.Perms = p1
			c2 := characteristic.NewInt("F1A2")
			c2.Format = characteristic.FormatUInt8
			c2.Perms = p2
			c1.SetValue(1)
			c2.SetValue(1)
			sv.AddCharacteristic(c1.Characteristic)
			sv.AddCharacteristic(c2.Characteristic)
			a.AddService(sv)
			return a, c1, c2
		}
		pr, pw, ev := characteristic.PermRead, characteristic.PermWrite, characteristic.PermEvents
		accA, a1, a2 := mk("A", []string{pr, ev}, []string{pw, ev})
		accB, b1, b2 := mk("B", []string{pr}, []string{pr, pw})
		acc, err := startE2E(c.ScratchDir(), "00102003", false, accA, accB)
		if err != nil {
			c.Violate("transport does not start", id, nil, "started", err.Error())
			continue
		}
		func() {
			defer acc.Stop()
			ident := newRefIdentity(r, "ctrl-1")
			setup, _ := acc.Dial()
			sr := refPairSetup(r, setup.Post(), "001-02-003", ident)
			setup.Close()
			if sr.ErrAt != "" {
				c.Violate("reference controller cannot pair", id, nil, "paired", sr.ErrAt)
				return
			}
			dial := func() *refClient {
				cl, err := acc.Dial()
				if err != nil {
					return nil
				}
				vr := refPairVerify(r, cl.Post(), ident, sr.AccLTPK)
				if vr.Shared == nil {
					return nil
				}
				cl.Upgrade(vr.Shared)
				return cl
			}
			sub, wr := dial(), dial()
			if sub == nil || wr == nil {
				c.Violate("paired reference controller cannot verify", id, nil, "verified", "failed")
				return
			}
			defer sub.Close()
			defer wr.Close()
			put := func(cl *refClient, a *accessory.Accessory, ch *characteristic.Int, member string) (*refMsg, error) {
				body := fmt.Sprintf(`{"characteristics":[{"aid":%d,"iid":%d,%s}]}`, a.ID, ch.ID, member)
				return cl.Do("PUT", "/characteristics", "application/hap+json", []byte(body))
			}
			// subscriptions
			for _, t := range []struct {
				a    *accessory.Accessory
				ch   *characteristic.Int
				want bool
				what string
			}{{accA, a1, true, "A.a1 {pr,ev}"}, {accA, a2, true, "A.a2 {pw,ev}"}, {accB, b1, false, "B.b1 {pr}"}, {accB, b2, false, "B.b2 {pr,pw}"}} {
				m, err := put(sub, t.a, t.ch, `"ev":true`)
				if err != nil {
					c.Violate("request on a verified connection fails", id, t.what, "answer", err.Error())
					return
				}
				refused := strings.Contains(string(m.Body), "-70406")
				if t.want == refused {
					c.Violate("C11: subscription on a characteristic without event permission not answered with -70406", id, t.what, fmt.Sprint("refused=", !t.want), fmt.Sprint(m.Status, " ", string(m.Body)))
				}
			}
			fence := func() []refMsg {
				sub.Do("GET", fmt.Sprintf("/characteristics?id=%d.%d", accA.ID, a1.ID), "", nil)
				ev := sub.Events
				sub.Events = nil
				return ev
			}
			fence()
			// changes of the characteristics without event permission: no event, whoever makes them
			b1.SetValue(2 + r.Intn(50))
			b2.SetValue(2 + r.Intn(50))
			put(wr, accB, b2, fmt.Sprintf(`"value":%d`, 60+r.Intn(50)))
			for _, e := range fence() {
				c.Violate("C11: characteristic without event permission produced an event", id,
					map[string]interface{}{"subscribed_to": "A.a1, A.a2 (same instance ids as B.b1, B.b2)", "changed": "B.b1, B.b2"}, "no EVENT", string(e.Body))
			}
			// write-only characteristic with events: subscribers learn that it changed, never a value
			secret := 100 + r.Intn(100)
			put(wr, accA, a2, fmt.Sprintf(`"value":%d`, secret))
			a2.UpdateValue(secret + 1)
			evs := fence()
			for _, e := range evs {
				if strings.Contains(string(e.Body), fmt.Sprint(secret)) || strings.Contains(string(e.Body), fmt.Sprint(secret+1)) {
					c.Violate("C11: characteristic without read permission revealed a value in an event", id, "A.a2 {pw,ev}", `"value":null`, string(e.Body))
				}
			}
			if a2.Characteristic.Value != nil {
				c.Violate("C11: characteristic without read permission stores a value", id, "A.a2 {pw,ev}", "nil", fmt.Sprint(a2.Characteristic.Value))
			}
			// positive control: the observable characteristic does notify
			a1.SetValue(7 + r.Intn(50))
			if len(fence()) != 1 {
				c.Mismatch("c11-events", id, "local change of A.a1 with a subscriber", "1 event", "none or several")
			}
			c.Count(fmt.Sprint("events/", i), true, "stream:events-e2e")
			c.Trace()
		}()
	}
}

// c11PermHelpers: permission sets built with the package's helper functions stay what they were declared to be, whatever
// an application does with the result of ANOTHER helper call (append to it, overwrite its elements): a characteristic
// declared with PermsRead() refuses a controller's write also after a second characteristic got
// append(PermsReadOnly(), PermWrite).
func c11PermHelpers(c *Ctx) {
	helpers := []struct {
		name string
		f    func() []string
		want []string
	}{
		{"PermsAll", characteristic.PermsAll, []string{"pr", "pw", "ev"}},
		{"PermsRead", characteristic.PermsRead, []string{"pr", "ev"}},
		{"PermsReadOnly", characteristic.PermsReadOnly, []string{"pr"}},
		{"PermsWriteOnly", characteristic.PermsWriteOnly, []string{"pw"}},
	}
	abuse := []struct {
		name string
		f    func(p []string) []string
	}{
		{"append pw", func(p []string) []string { return append(p, characteristic.PermWrite) }},
		{"append ev,pw", func(p []string) []string { return append(p, characteristic.PermEvents, characteristic.PermWrite) }},
		{"overwrite [0]=pw", func(p []string) []string { p[0] = characteristic.PermWrite; return p }},
		{"reslice to capacity and fill", func(p []string) []string {
			q := p[:cap(p)]
			for i := range q {
				q[i] = characteristic.PermWrite
			}
			return q
		}},
	}
	for hi, h1 := range helpers {
		for _, h2 := range helpers {
			for ai, ab := range abuse {
				id := fmt.Sprintf("perm-helpers#%s.%s.%d", h1.name, h2.name, ai)
				if c.Skip(id) {
					continue
				}
				a := characteristic.NewInt("F1C1")
				a.Format = characteristic.FormatUInt8
				a.Perms = h1.f()
				a.SetValue(1)
				b := characteristic.NewInt("F1C2")
				b.Format = characteristic.FormatUInt8
				b.Perms = ab.f(h2.f())
				in := map[string]interface{}{"first_characteristic": h1.name + "()", "second_characteristic": ab.name + " on " + h2.name + "()"}
				if fmt.Sprint(a.Perms) != fmt.Sprint(h1.want) {
					c.Violate("C11: the permissions of a characteristic changed when another characteristic's permission set was built", id, in, fmt.Sprint(h1.want), fmt.Sprint(a.Perms))
				}
				if got := h1.f(); fmt.Sprint(got) != fmt.Sprint(h1.want) {
					c.Violate("C11: a permission helper returns a different set after the result of an earlier call was modified", id, in, fmt.Sprint(h1.want), fmt.Sprint(got))
				}
				// through the enforcement point: a remote write on the first characteristic
				before := a.Value
				a.UpdateValueFromConnection(7, &c11Conn{addr: "10.1.1.1:1"})
				writable := false
				for _, p := range h1.want {
					writable = writable || p == "pw"
				}
				if !writable && a.Value != before {
					c.Violate("C11: remote write changed a characteristic without write permission", id, in, fmt.Sprint(before), fmt.Sprint(a.Value))
				}
				c.Count(id, hi > 0, "stream:perm-helpers")
			}
		}
	}
}

// c11DuringCallback: a remote write that arrives while the application's callbacks for another update of the same
// characteristic are still running (the accessory updated a sensor value; the transport's own callback is writing events
// to slow controllers). Forced with channels: the callback has been entered and has not returned. The permission check
// is the same as at any other moment.
func c11DuringCallback(c *Ctx) {
	for i, mk := range []func() *characteristic.Characteristic{
		func() *characteristic.Characteristic { return characteristic.NewCurrentTemperature().Characteristic },
		func() *characteristic.Characteristic { return characteristic.NewMotionDetected().Characteristic },
		func() *characteristic.Characteristic { return characteristic.NewContactSensorState().Characteristic },
	} {
		id := fmt.Sprintf("during-callback#%d", i)
		if c.Skip(id) {
			continue
		}
		ch := mk()
		local := []interface{}{21.5, true, 1}[i]
		remote := []interface{}{99.5, false, 0}[i]
		entered, release := make(chan struct{}), make(chan struct{})
		first := true
		remoteCalls := 0
		ch.OnValueUpdate(func(_ *characteristic.Characteristic, n, o interface{}) {
			if first {
				first = false
				close(entered)
				<-release
			}
		})
		ch.OnValueUpdateFromConn(func(_ net.Conn, _ *characteristic.Characteristic, n, o interface{}) { remoteCalls++ })
		done := make(chan struct{})
		go func() { defer close(done); safely(func() { ch.UpdateValue(local) }) }()
		<-entered
		safely(func() { ch.UpdateValueFromConnection(remote, characteristic.TestConn) })
		close(release)
		<-done
		in := map[string]interface{}{"perms": ch.Perms, "format": ch.Format, "application_sets": local, "controller_writes_while_the_callback_runs": remote}
		if !sameGoValue(ch.Value, local) {
			c.Violate("C11: remote write changed a characteristic without write permission", id, in, fmt.Sprint(local), fmt.Sprint(ch.Value))
		}
		if remoteCalls > 0 {
			c.Violate("C11: remote write to a characteristic without write permission invoked a callback", id, in, "no callback", fmt.Sprintf("%d callbacks", remoteCalls))
		}
		c.Count(id, true, "stream:during-callback")
	}
}

// c11OutOfRangeStored: a characteristic without write permission whose stored value lies outside its declared range — the
// application assigned the bound (a public field) after the value, or the value itself. Whatever a controller then writes:
// nothing changes, no callback runs. (A remote write attempt is no occasion to "repair" the value either: it would change a
// read-only characteristic on a controller's request, unnoticed by the application.)
func c11OutOfRangeStored(c *Ctx) {
	type tc struct {
		name   string
		mk     func() *characteristic.Characteristic
		spoil  func(ch *characteristic.Characteristic)
		writes []interface{}
	}
	cases := []tc{
		{"CurrentTemperature, Value field assigned 180 (declared maximum 100)", func() *characteristic.Characteristic { return characteristic.NewCurrentTemperature().Characteristic },
			func(ch *characteristic.Characteristic) { ch.Value = 180.0 }, []interface{}{20.0, 180.0, 181.0, "x"}},
		{"CurrentTemperature 21.5, MinValue field assigned 30", func() *characteristic.Characteristic {
			t := characteristic.NewCurrentTemperature()
			t.SetValue(21.5)
			return t.Characteristic
		}, func(ch *characteristic.Characteristic) { ch.MinValue = 30.0 }, []interface{}{25.0, 21.5, 35.0}},
		{"BatteryLevel 80, MaxValue field assigned 50", func() *characteristic.Characteristic {
			b := characteristic.NewBatteryLevel()
			b.SetValue(80)
			return b.Characteristic
		}, func(ch *characteristic.Characteristic) { ch.MaxValue = 50 }, []interface{}{10.0, 80.0, 60.0}},
	}
	for i, k := range cases {
		id := fmt.Sprintf("out-of-range-stored#%d", i)
		if c.Skip(id) {
			continue
		}
		ch := k.mk()
		k.spoil(ch)
		before := ch.Value
		calls := 0
		ch.OnValueUpdate(func(_ *characteristic.Characteristic, n, o interface{}) { calls++ })
		ch.OnValueUpdateFromConn(func(_ net.Conn, _ *characteristic.Characteristic, n, o interface{}) { calls++ })
		for _, w := range k.writes {
			in := map[string]interface{}{"characteristic": k.name, "perms": ch.Perms, "stored": fmt.Sprint(before), "min": fmt.Sprint(ch.MinValue), "max": fmt.Sprint(ch.MaxValue), "controller_writes": fmt.Sprint(w)}
			msg, pan := safely(func() { ch.UpdateValueFromConnection(w, characteristic.TestConn) })
			if pan {
				c.Violate("C11: operation panics", id, in, "no panic", msg)
				break
			}
			if !sameGoValue(ch.Value, before) {
				c.Violate("C11: remote write changed a characteristic without write permission", id, in, fmt.Sprint(before), fmt.Sprint(ch.Value))
				break
			}
			if calls > 0 {
				c.Violate("C11: remote write to a characteristic without write permission invoked a callback", id, in, "no callback", fmt.Sprintf("%d callbacks", calls))
				break
			}
		}
		c.Count(id, true, "stream:out-of-range-stored")
	}
}
