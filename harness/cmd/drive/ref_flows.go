package main

// Reference controller flows (pair-setup M1..M6, pair-verify M1..M4) over an abstract POST function, so that the
// same code drives the in-process handlers and a real TCP connection. Written from the HAP specification.

import (
	"bytes"
	"crypto/ed25519"
	"fmt"
	"math/rand"
)

// postFn sends a TLV8 body to a pairing endpoint and returns HTTP status and response body.
type postFn func(path string, body []byte) (status int, resp []byte, err error)

func tlvMsg(items ...tlvOp) []byte { return refTlvEncode(items) }

func b1(b byte) []byte { return []byte{b} }

type setupResult struct {
	AccName    string
	AccLTPK    []byte
	SessionK   []byte // SRP session key K (the accessory's "PrivateKey" S)
	M2Valid    bool
	M6SigOK    bool
	ErrAt      string // "" on success, else description of the first deviation
	ErrCode    int    // TLV error code if the accessory answered with one (-1 none)
	HTTP       int
	Transcript []string
}

// refPairSetup runs a full specification pair-setup with the given password (formatted XXX-XX-XXX).
func refPairSetup(r *rand.Rand, post postFn, password string, id *refIdentity) *setupResult {
	res := &setupResult{ErrCode: -1}
	fail := func(at string, st int, items []tlvOp) *setupResult {
		res.ErrAt = at
		res.HTTP = st
		if e, ok := tlvFirst(items, tError); ok {
			res.ErrCode = int(e)
		}
		return res
	}
	// M1
	st, body, err := post("/pair-setup", tlvMsg(tlvOp{tState, b1(1)}, tlvOp{tMethod, b1(0)}))
	if err != nil {
		return fail("M1 transport: "+err.Error(), 0, nil)
	}
	items, ok := refTlvParseStrict(body)
	if st != 200 || !ok {
		return fail(fmt.Sprintf("M2 http=%d parse=%v", st, ok), st, items)
	}
	if s, _ := tlvFirst(items, tState); s != 2 || tlvHas(items, tError) {
		return fail("M2 state/error", st, items)
	}
	salt, B := tlvGet(items, tSalt), tlvGet(items, tPubKey)
	if len(salt) != 16 || len(B) == 0 || len(B) > 384 {
		return fail(fmt.Sprintf("M2 salt=%d B=%d bytes", len(salt), len(B)), st, items)
	}
	cl := newRefSRPClient(r, "Pair-Setup", password)
	M1, err := cl.Respond(salt, B)
	if err != nil {
		return fail("M2 "+err.Error(), st, items)
	}
	// M3
	st, body, err = post("/pair-setup", tlvMsg(tlvOp{tState, b1(3)}, tlvOp{tPubKey, cl.Abytes()}, tlvOp{tProof, M1}))
	if err != nil {
		return fail("M3 transport: "+err.Error(), 0, nil)
	}
	items, ok = refTlvParseStrict(body)
	if st != 200 || !ok {
		return fail(fmt.Sprintf("M4 http=%d parse=%v", st, ok), st, items)
	}
	if s, _ := tlvFirst(items, tState); s != 4 {
		return fail("M4 state", st, items)
	}
	if tlvHas(items, tError) {
		return fail("M4 error", st, items)
	}
	res.M2Valid = cl.VerifyM2(tlvGet(items, tProof))
	if !res.M2Valid {
		return fail("M4 accessory proof M2 does not verify", st, items)
	}
	res.SessionK = cl.K
	// M5
	encKey := refHKDF(cl.K, "Pair-Setup-Encrypt-Salt", "Pair-Setup-Encrypt-Info")
	ctrlX := refHKDF(cl.K, "Pair-Setup-Controller-Sign-Salt", "Pair-Setup-Controller-Sign-Info")
	info := append(append(append([]byte{}, ctrlX...), []byte(id.Name)...), id.Pub...)
	sig := ed25519.Sign(id.Priv, info)
	sub := tlvMsg(tlvOp{tID, []byte(id.Name)}, tlvOp{tPubKey, id.Pub}, tlvOp{tSig, sig})
	enc := refSeal(encKey, []byte("PS-Msg05"), sub, nil)
	st, body, err = post("/pair-setup", tlvMsg(tlvOp{tState, b1(5)}, tlvOp{tEnc, enc}))
	if err != nil {
		return fail("M5 transport: "+err.Error(), 0, nil)
	}
	items, ok = refTlvParseStrict(body)
	if st != 200 || !ok {
		return fail(fmt.Sprintf("M6 http=%d parse=%v", st, ok), st, items)
	}
	if s, _ := tlvFirst(items, tState); s != 6 {
		return fail("M6 state", st, items)
	}
	if tlvHas(items, tError) {
		return fail("M6 error", st, items)
	}
	pt, good := refOpen(encKey, []byte("PS-Msg06"), tlvGet(items, tEnc), nil)
	if !good {
		return fail("M6 encrypted data does not open under PS-Msg06", st, items)
	}
	sitems, ok := refTlvParseStrict(pt)
	if !ok {
		return fail("M6 sub-TLV malformed", st, items)
	}
	res.AccName = string(tlvGet(sitems, tID))
	res.AccLTPK = tlvGet(sitems, tPubKey)
	accX := refHKDF(cl.K, "Pair-Setup-Accessory-Sign-Salt", "Pair-Setup-Accessory-Sign-Info")
	ainfo := append(append(append([]byte{}, accX...), []byte(res.AccName)...), res.AccLTPK...)
	res.M6SigOK = len(res.AccLTPK) == ed25519.PublicKeySize && ed25519.Verify(ed25519.PublicKey(res.AccLTPK), ainfo, tlvGet(sitems, tSig))
	if !res.M6SigOK {
		return fail("M6 accessory signature does not verify", st, items)
	}
	return res
}

type verifyResult struct {
	Shared  []byte
	AccName string
	M2SigOK bool
	ErrAt   string
	ErrCode int
	HTTP    int
}

// refPairVerify runs a specification pair-verify; accLTPK may be nil (then the accessory signature is checked only for form).
func refPairVerify(r *rand.Rand, post postFn, id *refIdentity, accLTPK []byte) *verifyResult {
	res := &verifyResult{ErrCode: -1}
	fail := func(at string, st int, items []tlvOp) *verifyResult {
		res.ErrAt = at
		res.HTTP = st
		if e, ok := tlvFirst(items, tError); ok {
			res.ErrCode = int(e)
		}
		return res
	}
	esk := randBytes(r, 32)
	epk := refX25519Pub(esk)
	st, body, err := post("/pair-verify", tlvMsg(tlvOp{tState, b1(1)}, tlvOp{tPubKey, epk}))
	if err != nil {
		return fail("M1 transport: "+err.Error(), 0, nil)
	}
	items, ok := refTlvParseStrict(body)
	if st != 200 || !ok {
		return fail(fmt.Sprintf("M2 http=%d parse=%v", st, ok), st, items)
	}
	if s, _ := tlvFirst(items, tState); s != 2 || tlvHas(items, tError) {
		return fail("M2 state/error", st, items)
	}
	apk := tlvGet(items, tPubKey)
	if len(apk) != 32 {
		return fail("M2 accessory key length", st, items)
	}
	shared := refX25519(esk, apk)
	sk := refHKDF(shared, "Pair-Verify-Encrypt-Salt", "Pair-Verify-Encrypt-Info")
	pt, good := refOpen(sk, []byte("PV-Msg02"), tlvGet(items, tEnc), nil)
	if !good {
		return fail("M2 encrypted data does not open under PV-Msg02", st, items)
	}
	sitems, ok := refTlvParseStrict(pt)
	if !ok {
		return fail("M2 sub-TLV malformed", st, items)
	}
	res.AccName = string(tlvGet(sitems, tID))
	ainfo := append(append(append([]byte{}, apk...), []byte(res.AccName)...), epk...)
	if accLTPK != nil {
		res.M2SigOK = ed25519.Verify(ed25519.PublicKey(accLTPK), ainfo, tlvGet(sitems, tSig))
		if !res.M2SigOK {
			return fail("M2 accessory signature does not verify under its LTPK", st, items)
		}
	}
	cinfo := append(append(append([]byte{}, epk...), []byte(id.Name)...), apk...)
	sig := ed25519.Sign(id.Priv, cinfo)
	sub := tlvMsg(tlvOp{tID, []byte(id.Name)}, tlvOp{tSig, sig})
	st, body, err = post("/pair-verify", tlvMsg(tlvOp{tState, b1(3)}, tlvOp{tEnc, refSeal(sk, []byte("PV-Msg03"), sub, nil)}))
	if err != nil {
		return fail("M3 transport: "+err.Error(), 0, nil)
	}
	items, ok = refTlvParseStrict(body)
	if st != 200 || !ok {
		return fail(fmt.Sprintf("M4 http=%d parse=%v", st, ok), st, items)
	}
	if s, _ := tlvFirst(items, tState); s != 4 {
		return fail("M4 state", st, items)
	}
	if tlvHas(items, tError) {
		return fail("M4 error", st, items)
	}
	res.Shared = shared
	return res
}

func eqBytes(a, b []byte) bool { return bytes.Equal(a, b) }

// refTlvParseStrict parses a message of the accessory the way the specification defines TLV8: besides being complete,
// two adjacent items may have the same type only if the first is a 255-byte fragment (items of one type that are not
// fragments of one value have to be separated). ok=false otherwise.
func refTlvParseStrict(b []byte) (items []tlvOp, ok bool) {
	items, ok = refTlvParse(b)
	if !ok {
		return items, false
	}
	for i := 1; i < len(items); i++ {
		if items[i].Tag == items[i-1].Tag && len(items[i-1].Val) != 255 {
			return items, false
		}
	}
	return items, true
}
