package main

// C02 — pair-setup stores a controller key only after a valid setup-code proof.
// Correspondence of the real /pair-setup endpoint (hap/endpoint.PairSetup + pair.SetupServerController, driven
// through the server mux) with HcModel/PairSetup.lean on symbolic histories; the harness builds the concrete bytes
// of every symbolic message with its own SRP client / HKDF / AEAD / Ed25519 (ref_crypto.go).

import (
	"bytes"
	"crypto/ed25519"
	"fmt"
	"math/rand"
	"strings"
	"sync"
	"time"

	"github.com/brutella/hc/accessory"
	"github.com/brutella/hc/db"
)

func init() { register("C02", checkC02) }

// loggingDB records SaveEntity / DeleteEntity calls (the database is an interface; the handlers get this wrapper).
type loggingDB struct {
	db.Database
	mu      sync.Mutex
	saves   []db.Entity
	deletes []db.Entity
}

func (l *loggingDB) SaveEntity(e db.Entity) error {
	l.mu.Lock()
	l.saves = append(l.saves, e)
	l.mu.Unlock()
	return l.Database.SaveEntity(e)
}
func (l *loggingDB) DeleteEntity(e db.Entity) {
	l.mu.Lock()
	l.deletes = append(l.deletes, e)
	l.mu.Unlock()
	l.Database.DeleteEntity(e)
}
func (l *loggingDB) take() (s, d []db.Entity) {
	l.mu.Lock()
	defer l.mu.Unlock()
	s, d = l.saves, l.deletes
	l.saves, l.deletes = nil, nil
	return
}

// ---- symbolic messages -------------------------------------------------------------------------------

type psSRef struct {
	Nil  bool
	Conn int
	A    int
	// Back: which SRP session of the connection — 0 the one of the current exchange (the latest start response the
	// controller has seen), k the one k exchanges earlier (a value recorded then and sent again now)
	Back int
}

func (s psSRef) tok() string {
	if s.Nil {
		return "nil"
	}
	return fmt.Sprintf("srp %d %d %d", s.Conn, s.Back, s.A)
}

type psMsg struct {
	Kind string // m1 m3 m5 badmethod badstate malformed
	// m3
	AGood     bool
	AN        int
	ProofKind string // valid garbage empty
	PConn, PA int
	PBack     int // the SRP session the proof was computed for (see psSRef.Back)
	PCodeOk   bool
	// m5
	Short     int    // >=0: short n; -1: sealed
	KKind     string // zero ofs rand
	KS        psSRef
	NonceOk   bool
	Intact    bool
	Malformed bool // plaintext malformed
	Name      int
	KeyOk     bool
	Key       int
	SigKind   string // valid garbage empty
	Signer    int
	SigS      psSRef
	SigName   int
	SigKey    int
	N         int // badstate n / garbage n / rand n
	// Neutral: the key is the neutral element of the curve and the signature the trivial one (R = neutral, S = 0), which
	// crypto/ed25519 accepts for EVERY message — a "signed" key-exchange anybody can make without knowing the exchange's
	// secret. Used only where the exchange has not passed the proof (the model refuses those before looking inside).
	Neutral bool
}

func b01(b bool) string {
	if b {
		return "1"
	}
	return "0"
}

func (m psMsg) tok() string {
	switch m.Kind {
	case "reconnect":
		return "reconnect"
	case "m1":
		return "m1"
	case "m3":
		a := fmt.Sprintf("bad %d", m.AN)
		if m.AGood {
			a = fmt.Sprintf("good %d", m.AN)
		}
		p := m.ProofKind
		switch m.ProofKind {
		case "valid":
			p = fmt.Sprintf("valid %d %d %d %s", m.PConn, m.PBack, m.PA, b01(m.PCodeOk))
		case "garbage":
			p = fmt.Sprintf("garbage %d", m.N)
		case "long":
			p = "garbage 78" // for the model: just another proof that does not prove the code
		case "public":
			p = "garbage 77" // for the model: just another proof that does not prove the code
		}
		return "m3 " + a + " " + p
	case "m5":
		if m.Short >= 0 {
			return fmt.Sprintf("m5 short %d", m.Short)
		}
		k := m.KKind
		switch m.KKind {
		case "ofs":
			k = "ofs " + m.KS.tok()
		case "rand":
			k = fmt.Sprintf("rand %d", m.N)
		}
		pt := "malformed"
		if !m.Malformed {
			key := fmt.Sprintf("badlen %d", m.Key)
			if m.KeyOk {
				key = fmt.Sprintf("pk %d", m.Key)
			}
			sig := m.SigKind
			switch m.SigKind {
			case "valid":
				sig = fmt.Sprintf("valid %d %s %d %d", m.Signer, m.SigS.tok(), m.SigName, m.SigKey)
			case "garbage":
				sig = fmt.Sprintf("garbage %d", m.N)
			}
			pt = fmt.Sprintf("tlv %d %s %s", m.Name, key, sig)
		}
		return fmt.Sprintf("m5 sealed %s %s %s %s", k, b01(m.NonceOk), b01(m.Intact), pt)
	case "badstate":
		return fmt.Sprintf("badstate %d", m.N)
	}
	return m.Kind
}

func (m psMsg) noop() bool {
	return m.Kind == "reconnect" || m.Kind == "badmethod" || m.Kind == "badstate" || m.Kind == "malformed"
}

// ---- concretisation ------------------------------------------------------------------------------------

type psConn struct {
	addr    string
	salt, B []byte                   // of the latest start response
	m2s     [][2][]byte              // salt, B of every start response of the connection, in order (one SRP session per exchange)
	unknown bool                     // reconnected: salt and B of the new connection not seen yet
	right   map[[2]int]*refSRPClient // (session index, client key a), right setup code
	wrong   map[[2]int]*refSRPClient
}

type psEnv struct {
	f     *accFixture
	ldb   *loggingDB
	r     *rand.Rand
	pw    string
	conns []*psConn
	ids   map[int]*refIdentity
	names map[int]string
}

func (e *psEnv) ident(n int) *refIdentity {
	if e.ids[n] == nil {
		e.ids[n] = newRefIdentity(e.r, fmt.Sprintf("key-%d", n))
	}
	return e.ids[n]
}

func (e *psEnv) name(n int) string {
	if s, ok := e.names[n]; ok {
		return s
	}
	// the mapping index ↦ string must be injective (the model compares indices)
	s := fmt.Sprintf("ctrl-%d-ü", n)
	switch {
	case n == 0:
		s = e.f.name // the accessory's own device id (always a stored entity)
	case n%5 == 1:
		s = fmt.Sprintf("%08X-0000-4000-8000-%012X", n, n)
	case n%5 == 2: // white space at the ends belongs to the name; "x" and "x " are different controllers
		s = fmt.Sprintf("c%d", n-1) + []string{" ", "\t", "\n", "\u00a0"}[n/5%4]
	case n%5 == 3:
		if n/5%2 == 0 {
			s = fmt.Sprintf(" c%d", n-2)
		} else {
			s = fmt.Sprintf("c%d", n-2) // the bare twin of the name with white space (index n-1)
		}
	}
	e.names[n] = s
	return s
}

func (e *psEnv) client(conn, back, a int, right bool) *refSRPClient {
	pc := e.conns[conn]
	m := pc.wrong
	pw := "999-99-999"
	if right {
		m, pw = pc.right, e.pw
	}
	idx := len(pc.m2s) - 1 - back
	if m[[2]int{idx, a}] == nil {
		// the client key depends on `a` only (same A on every connection), the response on the session's B/salt
		ar := rand.New(rand.NewSource(int64(a)*7919 + 17))
		cl := newRefSRPClient(ar, "Pair-Setup", pw)
		salt, B := pc.salt, pc.B
		switch {
		case idx >= 0 && idx < len(pc.m2s) && !pc.unknown:
			salt, B = pc.m2s[idx][0], pc.m2s[idx][1]
		case back > 0:
			// from before the first session of this connection: a challenge the accessory never sent
			sr := rand.New(rand.NewSource(int64(idx)*31 + 5))
			salt = randBytes(sr, 16)
			B = new(bigInt).Exp(refSrpG, new(bigInt).SetBytes(randBytes(sr, 32)), refSrpN).Bytes()
		}
		cl.Respond(salt, B)
		m[[2]int{idx, a}] = cl
	}
	return m[[2]int{idx, a}]
}

func (e *psEnv) sBytes(s psSRef) []byte {
	if s.Nil {
		return nil
	}
	return e.client(s.Conn, s.Back, s.A, true).K
}

func (e *psEnv) concretise(conn int, m psMsg) []byte {
	switch m.Kind {
	case "m1":
		if e.r.Intn(2) == 0 {
			return tlvMsg(tlvOp{tState, b1(1)}, tlvOp{tMethod, b1(0)})
		}
		return tlvMsg(tlvOp{tMethod, b1(0)}, tlvOp{tState, b1(1)})
	case "badmethod":
		return tlvMsg(tlvOp{tState, b1(byte(1 + 2*e.r.Intn(3)))}, tlvOp{tMethod, b1(byte(1 + e.r.Intn(5)))})
	case "badstate":
		return tlvMsg(tlvOp{tState, b1(byte(m.N))}, tlvOp{tMethod, b1(0)})
	case "malformed":
		return [][]byte{{6}, {6, 1}, {6, 5, 1, 2}, {3, 255, 1}}[e.r.Intn(4)]
	case "m3":
		var A []byte
		if m.AGood {
			A = e.client(conn, 0, m.AN, true).Abytes()
		} else {
			switch m.AN % 4 {
			case 0:
				A = nil // missing
			case 1:
				A = []byte{0}
			case 2:
				A = refSrpN.Bytes()
			default:
				A = new(bigInt).Lsh(refSrpN, 1).Bytes()
			}
		}
		var proof []byte
		switch m.ProofKind {
		case "valid":
			proof = e.client(m.PConn, m.PBack, m.PA, m.PCodeOk).M1
		case "garbage":
			proof = randBytes(e.r, 64)
		case "long": // not 64 bytes: one too many, far too many, one too few
			proof = randBytes(e.r, []int{65, 200, 63, 128}[m.N%4])
		case "public":
			// the proof anybody can compute from public values: M1 over this A with an EMPTY session key — what a server
			// whose key computation failed (and was not aborted) would compare against
			pc := e.conns[conn]
			hn := new(bigInt).SetBytes(refH(refSrpN.Bytes()))
			hg := new(bigInt).SetBytes(refH(refSrpG.Bytes()))
			hng := new(bigInt).Xor(hn, hg)
			proof = refH(hng.Bytes(), refH([]byte("Pair-Setup")), pc.salt, new(bigInt).SetBytes(A).Bytes(), pc.B, nil)
		}
		items := []tlvOp{{tState, b1(3)}}
		if A != nil {
			items = append(items, tlvOp{tPubKey, A})
		}
		if proof != nil {
			items = append(items, tlvOp{tProof, proof})
		}
		return tlvMsg(items...)
	case "m5":
		if m.Short >= 0 {
			if m.Short == 0 {
				return tlvMsg(tlvOp{tState, b1(5)})
			}
			return tlvMsg(tlvOp{tState, b1(5)}, tlvOp{tEnc, randBytes(e.r, m.Short)})
		}
		var key []byte
		switch m.KKind {
		case "zero":
			key = make([]byte, 32)
		case "ofs":
			key = refHKDF(e.sBytes(m.KS), "Pair-Setup-Encrypt-Salt", "Pair-Setup-Encrypt-Info")
		default:
			key = randBytes(e.r, 32)
		}
		var pt []byte
		if m.Malformed {
			pt = [][]byte{{1}, {1, 9, 65}, {3, 32, 1, 2, 3}}[e.r.Intn(3)]
		} else {
			name := e.name(m.Name)
			var pk []byte
			if m.KeyOk {
				pk = e.ident(m.Key).Pub
			} else if m.Key%6 == 5 {
				// not a key: a genuine key followed by junk (the signature below is made over exactly these bytes)
				pk = append(append([]byte{}, e.ident(m.Key).Pub...), randBytes(e.r, 8)...)
			} else {
				pk = randBytes(e.r, []int{0, 1, 31, 33, 64}[m.Key%5])
			}
			genuineSig := func(keyBytes []byte) []byte {
				h := refHKDF(e.sBytes(m.SigS), "Pair-Setup-Controller-Sign-Salt", "Pair-Setup-Controller-Sign-Info")
				info := append(append(append([]byte{}, h...), []byte(e.name(m.SigName))...), keyBytes...)
				return ed25519.Sign(e.ident(m.Signer).Priv, info)
			}
			var sig []byte
			switch m.SigKind {
			case "valid":
				if !m.KeyOk && len(pk) == 40 {
					sig = genuineSig(pk)
				} else {
					sig = genuineSig(e.ident(m.SigKey).Pub)
				}
			case "garbage": // not a signature: random bytes, or a genuine signature with junk appended / cut short / one bit flipped
				switch m.N % 4 {
				case 0:
					sig = randBytes(e.r, 64)
				case 1:
					sig = append(genuineSig(e.ident(m.SigKey).Pub), randBytes(e.r, 3)...)
				case 2:
					sig = genuineSig(e.ident(m.SigKey).Pub)[:63]
				default:
					sig = genuineSig(e.ident(m.SigKey).Pub)
					sig[e.r.Intn(64)] ^= 1 << uint(e.r.Intn(8))
				}
			}
			if m.Neutral {
				pk = append([]byte{1}, make([]byte, 31)...)
				sig = append(append([]byte{1}, make([]byte, 31)...), make([]byte, 32)...)
			}
			items := []tlvOp{{tID, []byte(name)}}
			if len(pk) > 0 {
				items = append(items, tlvOp{tPubKey, pk})
			}
			if sig != nil {
				items = append(items, tlvOp{tSig, sig})
			}
			pt = tlvMsg(items...)
		}
		nonce := "PS-Msg05"
		if !m.NonceOk {
			nonce = "PS-Msg06"
		}
		enc := refSeal(key, []byte(nonce), pt, nil)
		if !m.Intact {
			enc[e.r.Intn(len(enc))] ^= 1 << uint(e.r.Intn(8))
		}
		return tlvMsg(tlvOp{tState, b1(5)}, tlvOp{tEnc, enc})
	}
	panic("unknown message kind " + m.Kind)
}

// observe turns the real answer into the model's observation vocabulary.
func (e *psEnv) observe(status int, body []byte, panicMsg string, saves []db.Entity) string {
	var o string
	switch {
	case panicMsg != "":
		o = "panic"
	case status == 500:
		o = "500"
	case status == 200:
		items, ok := refTlvParseStrict(body)
		if !ok {
			o = "unparseable-body"
			break
		}
		st, _ := tlvFirst(items, tState)
		errs := "-"
		if ec, ok := tlvFirst(items, tError); ok {
			errs = fmt.Sprint(ec)
		}
		o = fmt.Sprintf("tlv %d %s %s %s %s", st, errs, b01(tlvHas(items, tPubKey) && tlvHas(items, tSalt)), b01(tlvHas(items, tProof)), b01(tlvHas(items, tEnc)))
	default:
		o = fmt.Sprintf("http-%d", status)
	}
	if len(saves) == 0 {
		return o + " nosave"
	}
	for _, s := range saves {
		n, k := "?", "?"
		for i, nm := range e.names {
			if nm == s.Name {
				n = fmt.Sprint(i)
			}
		}
		for i, id := range e.ids {
			if eqBytes(id.Pub, s.PublicKey) {
				k = fmt.Sprint(i)
			}
		}
		o += fmt.Sprintf(" save %s %s", n, k)
	}
	return o
}

func newPsEnv(c *Ctx, r *rand.Rand, nconn int) (*psEnv, error) {
	pin := fmt.Sprintf("%08d", r.Intn(100000000))
	for _, bad := range []string{"12345678", "87654321", "00000000", "11111111", "22222222", "33333333", "44444444", "55555555", "66666666", "77777777", "88888888", "99999999"} {
		if pin == bad {
			pin = "00102003"
		}
	}
	a := accessory.NewSwitch(accessory.Info{Name: "Sw"})
	f, err := newAccFixtureDB(c, pin, func(d db.Database) db.Database { return &loggingDB{Database: d} }, a.Accessory)
	if err != nil {
		return nil, err
	}
	e := &psEnv{f: f, ldb: f.db.(*loggingDB), r: r, pw: f.pin, ids: map[int]*refIdentity{}, names: map[int]string{}}
	for i := 0; i < nconn; i++ {
		pc := &psConn{addr: fmt.Sprintf("10.0.0.%d:5000", i+1), right: map[[2]int]*refSRPClient{}, wrong: map[[2]int]*refSRPClient{}}
		// prelude (not part of the modelled history): m1 learns this connection's salt and B, a second m1 is rejected
		// and puts the controller back to `waiting`, which is the model's initial state.
		post := f.Post(pc.addr)
		st, body, err := post("/pair-setup", tlvMsg(tlvOp{tState, b1(1)}, tlvOp{tMethod, b1(0)}))
		if err != nil || st != 200 {
			return nil, fmt.Errorf("prelude m1: %v %d", err, st)
		}
		items, _ := refTlvParse(body)
		pc.salt, pc.B = tlvGet(items, tSalt), tlvGet(items, tPubKey)
		pc.m2s = append(pc.m2s, [2][]byte{pc.salt, pc.B})
		post("/pair-setup", tlvMsg(tlvOp{tState, b1(1)}, tlvOp{tMethod, b1(0)}))
		e.conns = append(e.conns, pc)
	}
	e.ldb.take()
	return e, nil
}

// ---- generator -----------------------------------------------------------------------------------------

func genuineM5(conn, a, name, key int) psMsg {
	s := psSRef{Conn: conn, A: a}
	return psMsg{Kind: "m5", Short: -1, KKind: "ofs", KS: s, NonceOk: true, Intact: true, Name: name, KeyOk: true, Key: key,
		SigKind: "valid", Signer: key, SigS: s, SigName: name, SigKey: key}
}

func validM3(conn, a int) psMsg {
	return psMsg{Kind: "m3", AGood: true, AN: a, ProofKind: "valid", PConn: conn, PA: a, PCodeOk: true}
}

func genPsMsg(r *rand.Rand, conn, nconn int, a *int, fresh *int) psMsg {
	other := (conn + 1) % nconn
	switch r.Intn(14) {
	case 0, 1:
		return psMsg{Kind: "m1"}
	case 2, 3:
		if r.Intn(3) == 0 {
			*a = r.Intn(4)
		}
		return validM3(conn, *a)
	case 4:
		m := validM3(conn, *a)
		switch r.Intn(6) {
		case 0:
			m.PCodeOk = false // wrong setup code
		case 1:
			m.ProofKind, m.N = "garbage", r.Intn(9)
		case 2:
			m.ProofKind = "empty"
		case 3:
			if r.Intn(2) == 0 {
				m.PBack = 1 + r.Intn(2) // a proof recorded in an earlier exchange of this connection, sent again
			} else {
				m.PConn = other // proof made for the other connection's challenge
			}
		case 4:
			m.PA = *a + 1 // proof for a different client key
		default:
			m.AGood, m.AN = false, r.Intn(4) // A = 0 mod N / missing
			switch r.Intn(3) {
			case 0:
				m.ProofKind = "empty"
			case 1:
				m.ProofKind = "public"
			}
		}
		return m
	case 5, 6:
		*fresh++
		if r.Intn(8) == 0 {
			return genuineM5(conn, *a, 0, *fresh) // pairing under the accessory's own name
		}
		return genuineM5(conn, *a, *fresh, *fresh)
	case 7, 8:
		*fresh++
		m := genuineM5(conn, *a, *fresh, *fresh)
		if r.Intn(8) == 0 {
			m = genuineM5(conn, *a, 0, *fresh)
		}
		switch r.Intn(14) {
		case 0:
			m.KKind = "zero"
			m.SigS = psSRef{Nil: true}
		case 1:
			m.KKind, m.KS = "ofs", psSRef{Nil: true}
			m.SigS = psSRef{Nil: true}
		case 2:
			m.KKind, m.N = "rand", r.Intn(9)
		case 3:
			m.NonceOk = false
		case 4:
			m.Intact = false
		case 5:
			m.Malformed = true
		case 6:
			m.SigKind, m.N = "garbage", r.Intn(9)
		case 7:
			m.SigKind = "empty"
		case 8:
			m.Signer = m.Key + 100 // signed by someone else's key
		case 9:
			m.SigName = m.Name + 5 // signature over another name
		case 10:
			m.SigKey = m.Key + 100 // signature over another key
		case 11:
			m.KeyOk = false
		case 12:
			m.KS = psSRef{Conn: other, A: *a} // sealed under the other connection's session key
			m.SigS = m.KS
		default:
			if r.Intn(2) == 0 {
				m.SigS = psSRef{Conn: conn, A: *a + 1} // signature bound to another client key's S
			} else {
				m.KS.Back, m.SigS.Back = 1, 1 // a key exchange recorded in the previous exchange of this connection
			}
		}
		return m
	case 9:
		return psMsg{Kind: "m5", Short: r.Intn(16)}
	case 10:
		return psMsg{Kind: "badmethod"}
	case 11:
		return psMsg{Kind: "badstate", N: []int{0, 2, 4, 6, 7, 9, 200}[r.Intn(7)]}
	case 12:
		return psMsg{Kind: "malformed"}
	default:
		return psMsg{Kind: "m1"}
	}
}

type psStep struct {
	Conn int
	Msg  psMsg
}

func genPsHistory(r *rand.Rand, nconn int) []psStep {
	var h []psStep
	as := make([]int, nconn)
	fresh := r.Intn(50) * 10
	n := 1 + r.Intn(12)
	// a large share of histories start from the honest exchange and deviate from there
	if r.Intn(3) > 0 {
		c := r.Intn(nconn)
		fresh++
		honest := []psMsg{{Kind: "m1"}, validM3(c, as[c]), genuineM5(c, as[c], fresh, fresh)}
		k := 1 + r.Intn(3)
		for _, m := range honest[:k] {
			h = append(h, psStep{c, m})
			if r.Intn(6) == 0 {
				h = append(h, psStep{c, psMsg{Kind: []string{"badmethod", "malformed", "badstate"}[r.Intn(3)], N: 7}})
			}
		}
	}
	// the peer drops a connection in the middle of an exchange and comes back from the same address, another port; the
	// new connection starts from scratch whatever the old one had reached
	if len(h) >= 2 && r.Intn(4) == 0 {
		at := 1 + r.Intn(len(h)-1)
		h = append(h[:at:at], append([]psStep{{h[0].Conn, psMsg{Kind: "reconnect"}}}, h[at:]...)...)
	}
	// track a guess of each connection's step so that most messages are plausible for the state they meet
	phase := make([]int, nconn)
	for _, s := range h {
		phase[s.Conn] = nextPhase(phase[s.Conn], s.Msg, s.Conn)
	}
	for len(h) < n {
		c := r.Intn(nconn)
		var m psMsg
		for try := 0; try < 20; try++ {
			m = genPsMsg(r, c, nconn, &as[c], &fresh)
			want := []string{"m1", "m3", "m5"}[phase[c]]
			if m.Kind == want || m.noop() || r.Intn(4) == 0 {
				break
			}
		}
		h = append(h, psStep{c, m})
		phase[c] = nextPhase(phase[c], m, c)
	}
	return h
}

func nextPhase(p int, m psMsg, conn int) int {
	if m.noop() {
		return p
	}
	switch {
	case p == 0 && m.Kind == "m1":
		return 1
	case p == 1 && m.Kind == "m3" && m.tok() == validM3(conn, m.AN).tok():
		return 2
	}
	return 0
}

// corpus: the attack patterns of DESIGN.md §7 F2 and relatives (run first, every run)
func psCorpus() [][]psStep {
	zeroM5 := genuineM5(0, 0, 7, 9)
	zeroM5.KKind, zeroM5.SigS = "zero", psSRef{Nil: true}
	nilM5 := genuineM5(0, 0, 7, 9)
	nilM5.KS, nilM5.SigS = psSRef{Nil: true}, psSRef{Nil: true}
	badA := psMsg{Kind: "m3", AGood: false, AN: 1, ProofKind: "empty"}
	badA2 := psMsg{Kind: "m3", AGood: false, AN: 2, ProofKind: "garbage"}
	badA3 := psMsg{Kind: "m3", AGood: false, AN: 3, ProofKind: "garbage"}
	badA0 := psMsg{Kind: "m3", AGood: false, AN: 0, ProofKind: "garbage"}
	pubA3 := psMsg{Kind: "m3", AGood: false, AN: 3, ProofKind: "public"}
	wrong := validM3(0, 0)
	wrong.PCodeOk = false
	pubA := psMsg{Kind: "m3", AGood: false, AN: 2, ProofKind: "public"}
	pubA0 := psMsg{Kind: "m3", AGood: false, AN: 1, ProofKind: "public"}
	zeroM5n, nilM5n := zeroM5, nilM5
	zeroM5n.Neutral, nilM5n.Neutral = true, true
	replayM3, replayM5 := validM3(0, 0), genuineM5(0, 0, 7, 9)
	replayM3.PBack, replayM5.KS.Back, replayM5.SigS.Back = 1, 1, 1
	longP := func(n int) psMsg { return psMsg{Kind: "m3", AGood: true, AN: 0, ProofKind: "long", N: n} }
	return [][]psStep{
		// a proof of the wrong length, then a key exchange anybody can make (whatever the first does to the handler, it
		// must not leave the exchange at "proof accepted")
		{{0, psMsg{Kind: "m1"}}, {0, longP(0)}, {0, zeroM5n}},
		{{0, psMsg{Kind: "m1"}}, {0, longP(1)}, {0, nilM5n}},
		{{0, psMsg{Kind: "m1"}}, {0, longP(2)}, {0, zeroM5n}},
		// the messages of a completed exchange sent again after a new start request on the same connection (F43): in the
		// second exchange nobody proves the setup code
		{{0, psMsg{Kind: "m1"}}, {0, validM3(0, 0)}, {0, genuineM5(0, 0, 7, 9)}, {0, psMsg{Kind: "m1"}}, {0, psMsg{Kind: "m1"}}, {0, replayM3}, {0, replayM5}},
		{{0, psMsg{Kind: "m1"}}, {0, validM3(0, 0)}, {0, psMsg{Kind: "m1"}}, {0, psMsg{Kind: "m1"}}, {0, replayM3}, {0, replayM5}},
		{{0, psMsg{Kind: "m1"}}, {0, validM3(0, 0)}, {0, genuineM5(0, 0, 7, 9)}, {0, psMsg{Kind: "m1"}}, {0, psMsg{Kind: "m1"}}, {0, validM3(0, 0)}, {0, replayM5}},
		// a key-exchange anybody can make (zero / empty-secret key, neutral-element key with its trivial signature) after a refused proof
		{{0, psMsg{Kind: "m1"}}, {0, wrong}, {0, zeroM5n}},
		{{0, psMsg{Kind: "m1"}}, {0, wrong}, {0, nilM5n}},
		{{0, psMsg{Kind: "m1"}}, {0, badA}, {0, zeroM5n}},
		{{0, psMsg{Kind: "m1"}}, {0, pubA}, {0, nilM5n}},
		// (round 9, C02-r9m2) every kind of unusable SRP key — missing, 0, N, 2N (one byte longer than any honest key) — with
		// every kind of proof, then each key exchange anybody can make: a refusal on ANY path must end the exchange
		{{0, psMsg{Kind: "m1"}}, {0, badA3}, {0, zeroM5n}},
		{{0, psMsg{Kind: "m1"}}, {0, badA3}, {0, zeroM5}},
		{{0, psMsg{Kind: "m1"}}, {0, badA3}, {0, nilM5n}},
		{{0, psMsg{Kind: "m1"}}, {0, badA0}, {0, zeroM5n}},
		{{0, psMsg{Kind: "m1"}}, {0, badA0}, {0, nilM5n}},
		{{0, psMsg{Kind: "m1"}}, {0, pubA3}, {0, zeroM5n}},
		{{0, psMsg{Kind: "m1"}}, {0, badA3}, {0, badA3}, {0, zeroM5n}},
		{{0, psMsg{Kind: "m1"}}, {0, validM3(0, 0)}, {0, genuineM5(0, 0, 7, 9)}, {0, psMsg{Kind: "m1"}}, {0, badA3}, {0, zeroM5n}},
		{{0, psMsg{Kind: "m1"}}, {0, zeroM5n}},
		{{0, zeroM5n}},
		{{0, psMsg{Kind: "m1"}}, {0, pubA}, {0, nilM5}},
		{{0, psMsg{Kind: "m1"}}, {0, pubA0}, {0, nilM5}},
		{{0, psMsg{Kind: "m1"}}, {0, psMsg{Kind: "m3", AGood: false, AN: 0, ProofKind: "empty"}}, {0, zeroM5}},
		{{0, psMsg{Kind: "m1"}}, {0, badA}, {0, zeroM5}},
		{{0, psMsg{Kind: "m1"}}, {0, badA2}, {0, nilM5}},
		{{0, psMsg{Kind: "m1"}}, {0, badA}, {0, psMsg{Kind: "badstate", N: 9}}, {0, zeroM5}},
		{{0, psMsg{Kind: "m1"}}, {0, wrong}, {0, zeroM5}},
		// … and after an ACCEPTED proof followed by a request the handler refuses (unknown step, unknown method): whatever the
		// refusal does to the secrets of the exchange, a key exchange anybody can make is not stored
		{{0, psMsg{Kind: "m1"}}, {0, validM3(0, 0)}, {0, psMsg{Kind: "badstate", N: 7}}, {0, zeroM5n}},
		{{0, psMsg{Kind: "m1"}}, {0, validM3(0, 0)}, {0, psMsg{Kind: "badstate", N: 7}}, {0, nilM5n}},
		{{0, psMsg{Kind: "m1"}}, {0, validM3(0, 0)}, {0, psMsg{Kind: "badmethod"}}, {0, zeroM5n}},
		{{0, psMsg{Kind: "m1"}}, {0, validM3(0, 0)}, {0, psMsg{Kind: "badmethod"}}, {0, nilM5n}},
		{{0, psMsg{Kind: "m1"}}, {0, validM3(0, 0)}, {0, psMsg{Kind: "malformed"}}, {0, zeroM5n}},
		{{0, psMsg{Kind: "m1"}}, {0, validM3(0, 0)}, {0, genuineM5(0, 0, 7, 9)}},
		{{0, psMsg{Kind: "m1"}}, {0, validM3(0, 0)}, {0, genuineM5(0, 0, 7, 9)}, {0, genuineM5(0, 0, 8, 9)}},
		{{0, psMsg{Kind: "m1"}}, {0, validM3(0, 0)}, {0, psMsg{Kind: "m1"}}, {0, genuineM5(0, 0, 7, 9)}},
		{{0, psMsg{Kind: "m1"}}, {0, validM3(0, 0)}, {0, psMsg{Kind: "m5", Short: 5}}, {0, genuineM5(0, 0, 7, 9)}},
		{{0, genuineM5(0, 0, 7, 9)}},
		{{0, psMsg{Kind: "m1"}}, {0, genuineM5(0, 0, 7, 9)}},
		// the exchange is interrupted after the proof and "continued" on a new connection from the same address
		{{0, psMsg{Kind: "m1"}}, {0, validM3(0, 0)}, {0, psMsg{Kind: "reconnect"}}, {0, genuineM5(0, 0, 7, 9)}},
		{{0, psMsg{Kind: "m1"}}, {0, psMsg{Kind: "reconnect"}}, {0, validM3(0, 0)}, {0, genuineM5(0, 0, 7, 9)}},
	}
}

func checkC02(c *Ctx) {
	c.SetRule("histories of 1-12 symbolic pair-setup messages on 1-2 interleaved connections (alphabet: m1, m3 with right/wrong code, " +
		"foreign/stale/garbage/empty proof, A=0 mod N or missing; m5 genuine, sealed under zero / HKDF(nil) / random / other connection's key, " +
		"wrong nonce, bit-flipped, <16 bytes, malformed sub-TLV, bad/foreign/missing signature, bad key length; unknown state/method; malformed TLV), " +
		"concretised with the harness's own SRP client and run against the real endpoint. non-trivial = history reaches an accepted proof (M4 success). " +
		"distinct = distinct symbolic histories")
	c.Assume("SRP-6a / HKDF / ChaCha20-Poly1305 / Ed25519 behave like the free term algebra of HcModel/PairSetup.lean (idealisation; exercised on the real primitives)")
	c02Race(c)
	c02Repin(c)
	c02ConcurrentExchanges(c)
	type hcase struct {
		id    string
		nconn int
		h     []psStep
		seed  int
	}
	var cases []hcase
	for i, h := range psCorpus() {
		cases = append(cases, hcase{fmt.Sprintf("corpus#%d", i), 1, h, i})
	}
	nrand := c.Pick(600, 40000)
	for i := 0; i < nrand; i++ {
		r := c.CaseRng("hist", i)
		nconn := 1 + r.Intn(2)
		cases = append(cases, hcase{c.CaseID("hist", i), nconn, genPsHistory(r, nconn), i})
	}
	var live []hcase
	for _, cs := range cases {
		if !c.Skip(cs.id) {
			live = append(live, cs)
		}
	}
	// model: one line per (case, connection)
	var lines []string
	type lref struct{ ci, conn, seg int }
	var refs []lref
	for ci, cs := range live {
		for conn := 0; conn < cs.nconn; conn++ {
			// a reconnect ends the connection: what follows runs on a new connection (a new run of the model, same id)
			var toks []string
			seg := 0
			flush := func() {
				if len(toks) > 0 {
					if seg == 0 {
						// the fixture's prelude (a start request that is answered, one that is rejected) is part of the
						// connection's history: the first start request of the case already opens the second exchange
						toks = append([]string{"m1", "m1"}, toks...)
					}
					lines = append(lines, fmt.Sprintf("pairsetup run 1 %d %s", conn, strings.Join(toks, " ; ")))
					refs = append(refs, lref{ci, conn, seg})
				}
				toks = nil
				seg++
			}
			for _, s := range cs.h {
				if s.Conn == conn {
					if s.Msg.Kind == "reconnect" {
						flush()
						continue
					}
					toks = append(toks, s.Msg.tok())
				}
			}
			flush()
		}
	}
	model := c.Model(lines)
	modelObs := map[lref][]string{}
	for i, rf := range refs {
		if model[i] == "bad-op" {
			c.Mismatch("pairsetup", live[rf.ci].id, lines[i], "bad-op", "")
			continue
		}
		parts := strings.SplitN(model[i], " | ", 2)
		modelObs[rf] = strings.Split(parts[0], " ; ")
		if rf.seg == 0 && len(modelObs[rf]) >= 2 {
			modelObs[rf] = modelObs[rf][2:] // the prelude's two answers
		}
	}
	implObs := make([][]string, len(live))
	parallel(len(live), func(ci int) {
		cs := live[ci]
		r := c.CaseRng("concretise", cs.seed)
		env, err := newPsEnv(c, r, cs.nconn)
		if err != nil {
			c.Violate("pair-setup fixture cannot be built", cs.id, nil, "fixture", err.Error())
			return
		}
		defer env.f.Close()
		accepted := make([]int, cs.nconn) // direct oracle: client key whose proof the accessory accepted in the current exchange (-1 none)
		for i := range accepted {
			accepted[i] = -1
		}
		reached := false
		var hist []string
		for _, s := range cs.h {
			if s.Msg.Kind == "reconnect" {
				pc := env.conns[s.Conn]
				env.f.CloseConn(pc.addr)
				host := pc.addr[:strings.LastIndex(pc.addr, ":")]
				pc.addr = fmt.Sprintf("%s:%d", host, 20000+r.Intn(20000))
				// no prelude here: the new connection's first request is whatever the history sends next; its salt and B are
				// learnt from the first start request that is answered (until then proofs are computed from the old ones)
				pc.unknown = true
				pc.m2s = nil
				pc.right, pc.wrong = map[[2]int]*refSRPClient{}, map[[2]int]*refSRPClient{}
				env.ldb.take()
				accepted[s.Conn] = -1
				implObs[ci] = append(implObs[ci], "reconnected")
				hist = append(hist, fmt.Sprintf("c%d:reconnect", s.Conn))
				continue
			}
			body := env.concretise(s.Conn, s.Msg)
			st, resp, _, pm := env.f.Do(env.conns[s.Conn].addr, "POST", "/pair-setup", "application/pairing+tlv8", body)
			saves, _ := env.ldb.take()
			if pc := env.conns[s.Conn]; s.Msg.Kind == "m1" && st == 200 {
				// every start response carries the challenge of a new SRP session
				if items, ok := refTlvParse(resp); ok && len(tlvGet(items, tSalt)) == 16 {
					pc.salt, pc.B, pc.unknown = tlvGet(items, tSalt), tlvGet(items, tPubKey), false
					pc.m2s = append(pc.m2s, [2][]byte{pc.salt, pc.B})
				}
			}
			obs := env.observe(st, resp, pm, saves)
			implObs[ci] = append(implObs[ci], obs)
			hist = append(hist, fmt.Sprintf("c%d:%s", s.Conn, s.Msg.tok()))
			m := s.Msg
			// ---- direct oracles (independent of the Lean model)
			m4ok := strings.HasPrefix(obs, "tlv 4 - ")
			validProof := m.Kind == "m3" && m.AGood && m.ProofKind == "valid" && m.PConn == s.Conn && m.PA == m.AN && m.PCodeOk && m.PBack == 0
			if m4ok && !validProof {
				c.Violate("pair-setup accepted an SRP proof that does not prove the setup code", cs.id, hist, "M4 error", obs)
			}
			if pm != "" {
				c.Violate("pair-setup handler panics", cs.id, hist, "response", pm)
			}
			if f := strings.Fields(obs); len(f) >= 5 && f[0] == "tlv" && f[2] != "-" && f[4] == "1" {
				// the accessory's proof H(A | M1 | K) in an answer that REFUSES the controller's proof: whoever sent a wrong proof
				// can now try setup codes offline until one explains that value
				c.Violate("pair-setup answers a refused proof with the accessory's own proof (an offline oracle for the setup code)", cs.id, hist, "an error without a proof item", obs)
			}
			for _, sv := range saves {
				a := accepted[s.Conn]
				g := genuineM5(s.Conn, a, m.Name, m.Key)
				ok := a >= 0 && m.tok() == g.tok() && sv.Name == env.name(m.Name) && eqBytes(sv.PublicKey, env.ident(m.Key).Pub)
				if !ok {
					c.Violate("pair-setup stored a pairing without a valid setup-code proof and authenticated key exchange in this exchange",
						cs.id, hist, "store unchanged", fmt.Sprintf("stored %q key %s", sv.Name, hx(sv.PublicKey)))
				}
			}
			if !m.noop() {
				accepted[s.Conn] = -1
				if m4ok && validProof {
					accepted[s.Conn] = m.AN
					reached = true
				}
			}
		}
		key := fmt.Sprint(hist)
		c.Count(key, reached, fmt.Sprintf("len=%d", len(cs.h)), fmt.Sprintf("conns=%d", cs.nconn))
		for _, o := range implObs[ci] {
			c.Hist("obs:" + firstWords(o, 3))
		}
		c.Trace()
	})
	// compare per connection
	for ci, cs := range live {
		for conn := 0; conn < cs.nconn; conn++ {
			var impl []string
			var toks []string
			k := 0
			for _, s := range cs.h {
				if s.Conn == conn {
					if k < len(implObs[ci]) {
						// implObs is indexed by position in the interleaved history
					}
					toks = append(toks, s.Msg.tok())
				}
			}
			for idx, s := range cs.h {
				if s.Conn == conn && idx < len(implObs[ci]) {
					impl = append(impl, implObs[ci][idx])
				}
			}
			if len(toks) == 0 {
				continue
			}
			var mo []string
			seg := 0
			for _, s := range cs.h {
				if s.Conn == conn && s.Msg.Kind == "reconnect" {
					mo = append(mo, modelObs[lref{ci, conn, seg}]...)
					mo = append(mo, "reconnected")
					seg++
				}
			}
			mo = append(mo, modelObs[lref{ci, conn, seg}]...)
			c.Same("pairsetup", cs.id, map[string]interface{}{"conn": conn, "messages": toks}, strings.Join(mo, " ; "), strings.Join(impl, " ; "))
		}
		if ci%40 == 0 && len(implObs[ci]) > 0 {
			var toks []string
			for _, s := range cs.h {
				toks = append(toks, fmt.Sprintf("c%d:%s", s.Conn, s.Msg.tok()))
			}
			c.Sample(map[string]interface{}{"history": toks, "observed": implObs[ci]})
		}
	}
}

// c02Race: two connections start pair-setup at the same moment; one sends a start and then a proof message (valid SRP
// key, random proof — computing the answer takes milliseconds), the other keeps sending a key exchange anybody can make
// (all-zero key, neutral-element long-term key with its trivial signature). Free-running (the interleaving is the
// scheduler's): whatever the two connections share must not let the second one's message meet the moment in which the
// first one's exchange looks as if the proof had been accepted. Nothing may be stored.
func c02Race(c *Ctx) {
	id := "race#0"
	if c.Skip(id) {
		return
	}
	r := c.CaseRng("race", 0)
	a := accessory.NewSwitch(accessory.Info{Name: "Sw"})
	f, err := newAccFixtureDB(c, "00102003", func(d db.Database) db.Database { return &loggingDB{Database: d} }, a.Accessory)
	if err != nil {
		c.Violate("pair-setup fixture cannot be built", id, nil, "fixture", err.Error())
		return
	}
	defer f.Close()
	ldb := f.db.(*loggingDB)
	env := &psEnv{f: f, ldb: ldb, r: rand.New(rand.NewSource(r.Int63())), pw: f.pin, ids: map[int]*refIdentity{}, names: map[int]string{}}
	zero := genuineM5(0, 0, 7, 9)
	zero.KKind, zero.SigS, zero.Neutral = "zero", psSRef{Nil: true}, true
	m5 := env.concretise(0, zero)
	m1 := tlvMsg(tlvOp{tState, b1(1)}, tlvOp{tMethod, b1(0)})
	rounds := c.Pick(25, 400)
	ldb.take() // the accessory's own entity, stored when the fixture was built
	stored, dependent := 0, 0
	var first, dependentFirst string
	for k := 0; k < rounds && stored == 0; k++ {
		addrA, addrB := fmt.Sprintf("10.3.%d.1:7000", k%250), fmt.Sprintf("10.3.%d.2:7000", k%250)
		f.Conn(addrA)
		f.Conn(addrB)
		cl := newRefSRPClient(rand.New(rand.NewSource(int64(k))), "Pair-Setup", "999-99-999")
		m3 := tlvMsg(tlvOp{tState, b1(3)}, tlvOp{tPubKey, cl.Abytes()}, tlvOp{tProof, randBytes(r, 64)})
		// both connections send their first request at the same moment; then connection 1 answers ITS challenge with
		// the right setup code. Whatever connection 2 does, that is accepted — unless the two are not independent
		var wg sync.WaitGroup
		first2 := make([][]byte, 2)
		begin := make(chan struct{})
		for n, ad := range []string{addrA, addrB} {
			wg.Add(1)
			go func(n int, ad string) {
				defer wg.Done()
				<-begin
				_, first2[n], _, _ = f.Do(ad, "POST", "/pair-setup", "application/pairing+tlv8", m1)
			}(n, ad)
		}
		close(begin)
		wg.Wait()
		long := 1
		if items, ok := refTlvParse(first2[0]); ok && len(tlvGet(items, tSalt)) == 16 {
			honest := newRefSRPClient(rand.New(rand.NewSource(int64(1000+k))), "Pair-Setup", f.pin)
			if proof, err := honest.Respond(tlvGet(items, tSalt), tlvGet(items, tPubKey)); err == nil {
				_, resp, _, _ := f.Do(addrA, "POST", "/pair-setup", "application/pairing+tlv8", tlvMsg(tlvOp{tState, b1(3)}, tlvOp{tPubKey, honest.Abytes()}, tlvOp{tProof, proof}))
				if it, ok := refTlvParse(resp); !ok || tlvHas(it, tError) || !tlvHas(it, tProof) {
					dependent++
					long = 12
					if dependentFirst == "" {
						dependentFirst = fmt.Sprintf("round %d: connection 1 answered the challenge it was given with the right setup code and got %s", k, hx(resp))
					}
				}
			}
		}
		start := make(chan struct{})
		wg.Add(2)
		go func() {
			defer wg.Done()
			<-start
			for t := 0; t < 3*long; t++ {
				f.Do(addrA, "POST", "/pair-setup", "application/pairing+tlv8", m1)
				f.Do(addrA, "POST", "/pair-setup", "application/pairing+tlv8", m3)
			}
		}()
		go func() {
			defer wg.Done()
			<-start
			f.Do(addrB, "POST", "/pair-setup", "application/pairing+tlv8", m1)
			for t := 0; t < 40*long; t++ {
				f.Do(addrB, "POST", "/pair-setup", "application/pairing+tlv8", m5)
			}
		}()
		close(start)
		wg.Wait()
		if saves, _ := ldb.take(); len(saves) > 0 {
			stored += len(saves)
			first = fmt.Sprintf("round %d: stored %q with key %s", k, saves[0].Name, hx(saves[0].PublicKey))
		}
		f.CloseConn(addrA)
		f.CloseConn(addrB)
	}
	if stored > 0 {
		c.Violate("pair-setup stored a pairing without a valid setup-code proof and authenticated key exchange in this exchange", id,
			map[string]interface{}{"connection_1": "start, then proof messages with a valid SRP key and a random proof", "connection_2_at_the_same_time": "start, then key exchanges sealed under the all-zero key carrying the neutral element as long-term key", "rounds": rounds},
			"store unchanged", first)
	} else if dependent > 0 {
		// no pairing was stored, but the exchanges of two connections are not independent of each other, which is
		// what HcModel/PairSetup.lean (one state per connection) and every C02 theorem assume
		c.Mismatch("pairsetup-race", id, map[string]interface{}{"two_connections": "first requests sent at the same moment", "rounds": rounds, "rounds_with_interference": dependent},
			"the proof of connection 1 for its own challenge is accepted (state 4, accessory proof)", dependentFirst)
	}
	c.Count(id, true, "stream:race")
}

// c02Repin: the same accessory (same name, same process) is set up again with ANOTHER setup code — what an application
// does when the user changes the code. From then on the old code proves nothing and the new one does.
func c02Repin(c *Ctx) {
	id := "repin#0"
	if c.Skip(id) {
		return
	}
	r := c.CaseRng("repin", 0)
	pins := []string{"00102003", "81726354"}
	for round, pin := range pins {
		a := accessory.NewSwitch(accessory.Info{Name: "Sw"})
		f, err := newAccFixture(c, pin, a.Accessory)
		if err != nil {
			c.Violate("pair-setup fixture cannot be built", id, nil, "fixture", err.Error())
			return
		}
		try := func(code string, k int) string {
			addr := fmt.Sprintf("10.4.%d.%d:7000", round, k)
			post := f.Post(addr)
			ident := newRefIdentity(r, fmt.Sprintf("ctrl-%d-%d", round, k))
			res := refPairSetup(r, post, code, ident)
			f.CloseConn(addr)
			if res.ErrAt == "" {
				return "paired"
			}
			return "refused at " + res.ErrAt
		}
		cur := pin[:3] + "-" + pin[3:5] + "-" + pin[5:]
		in := map[string]interface{}{"setup_codes_in_order": pins, "accessory_name": f.name, "now_configured": pin}
		if round > 0 {
			old := pins[round-1][:3] + "-" + pins[round-1][3:5] + "-" + pins[round-1][5:]
			if got := try(old, 0); got == "paired" {
				c.Violate("pair-setup accepted an SRP proof that does not prove the setup code", id, in, "the previous setup code is refused", "a controller using the previous code was paired")
			}
		}
		if got := try(cur, 1); got != "paired" {
			c.Violate("pair-setup refuses the setup code the accessory is configured with (after the code was changed)", id, in, "paired", got)
		}
		f.Close()
	}
	c.Count(id, true, "stream:repin")
}

// c02ConcurrentExchanges: several controllers that know the setup code pair at the same time, each on its own connection; their
// key-exchange messages (M5) are released at the same moment. "…stores exactly that name and key": afterwards the entity stored
// under each controller's name carries the key THAT controller delivered — not the one another exchange delivered at that moment.
func c02ConcurrentExchanges(c *Ctx) {
	for round := 0; round < c.Pick(8, 80); round++ {
		id := c.CaseID("concurrent-exchanges", round)
		if c.Skip(id) {
			continue
		}
		r := c.CaseRng("concurrent-exchanges", round)
		a := accessory.NewSwitch(accessory.Info{Name: "Sw"})
		f, err := newAccFixture(c, "00102003", a.Accessory)
		if err != nil {
			c.Violate("pair-setup fixture cannot be built", id, nil, "fixture", err.Error())
			return
		}
		const k = 3
		var ids [k]*refIdentity
		var res [k]*setupResult
		var arrived sync.WaitGroup
		arrived.Add(k)
		release := make(chan struct{})
		go func() {
			done := make(chan struct{})
			go func() { arrived.Wait(); close(done) }()
			select {
			case <-done:
			case <-time.After(3 * time.Second): // an exchange that failed before its M5 never arrives
			}
			close(release)
		}()
		var wg sync.WaitGroup
		for n := 0; n < k; n++ {
			// names of equal length: the documents that are stored have equal lengths too
			ids[n] = newRefIdentity(rand.New(rand.NewSource(r.Int63())), fmt.Sprintf("%08X-0000-4000-8000-%012X", r.Uint32(), r.Int63n(1<<47)))
			wg.Add(1)
			go func(n int) {
				defer wg.Done()
				addr := fmt.Sprintf("10.5.%d.%d:7000", round%250, n+1)
				real := f.Post(addr)
				once := false
				post := func(path string, body []byte) (int, []byte, error) {
					if items, ok := refTlvParse(body); ok && !once {
						if s, _ := tlvFirst(items, tState); s == 5 {
							once = true
							arrived.Done()
							<-release
						}
					}
					return real(path, body)
				}
				res[n] = refPairSetup(rand.New(rand.NewSource(int64(round*k+n))), post, f.pin, ids[n])
				if !once {
					arrived.Done()
				}
			}(n)
		}
		wg.Wait()
		for n := 0; n < k; n++ {
			if res[n] == nil || res[n].ErrAt != "" {
				continue // refused: nothing is claimed for it (that all are served is C04's concern)
			}
			in := map[string]interface{}{"controllers_pairing_at_the_same_moment": k, "controller": ids[n].Name, "delivered_key": hx(ids[n].Pub)}
			e, err := f.db.EntityWithName(ids[n].Name)
			switch {
			case err != nil:
				c.Violate("pair-setup answered a genuine key exchange with success but the pairing is not stored (as it was delivered)", id, in, "stored", err.Error())
			case !bytes.Equal(e.PublicKey, ids[n].Pub) || e.Name != ids[n].Name:
				c.Violate("pair-setup stored a name with a key that was not delivered with that name in that exchange", id, in,
					"the delivered key", fmt.Sprintf("name %q key %s", e.Name, hx(e.PublicKey)))
			}
		}
		c.Count(id, true, "stream:concurrent-exchanges")
		f.Close()
	}
}
