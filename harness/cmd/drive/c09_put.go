package main

// C09 — "…and a multi-status answer carries a status for every entry": the answer of a WRITE request (F75). Stream
// `charhttp-put`: custom boolean characteristics with every subset of {pr, pw, ev} on two accessories; requests of 1–6
// entries that write a value, subscribe, unsubscribe, do both, or name an id that is not served. Model: `charhttp put`
// (`CharHttp.putChars`); the model-free oracle is HAP's rule — no content when every entry succeeded, otherwise 207 with
// one entry per entry of the request, in order: -70409 not served, -70404 not writable, -70406 no events, 0 done.

import (
	"encoding/json"
	"fmt"
	"strings"

	"github.com/brutella/hc/accessory"
	"github.com/brutella/hc/characteristic"
	"github.com/brutella/hc/service"
)

func c09PutAnswers(c *Ctx) {
	permSets := []string{"rwe", "rw", "re", "r", "we", "w", "e"}
	for i := 0; i < c.Pick(40, 600); i++ {
		id := c.CaseID("charhttp-put", i)
		if c.Skip(id) {
			continue
		}
		r := c.CaseRng("charhttp-put", i)
		var accs []*accessory.Accessory
		type chr struct {
			a     *accessory.Accessory
			ch    *characteristic.Bool
			perms string
		}
		var chars []chr
		for a := 0; a < 2; a++ {
			acc := accessory.New(accessory.Info{Name: fmt.Sprintf("A%d", a)}, accessory.TypeOther)
			svc := service.New("F0000002-0000-1000-8000-0026BB765291")
			for k := 0; k < 2+r.Intn(3); k++ {
				ch := characteristic.NewBool(fmt.Sprintf("F00000%02X-0000-1000-8000-0026BB765291", 16+len(chars)))
				ps := permSets[r.Intn(len(permSets))]
				ch.Perms = nil
				for _, p := range ps {
					ch.Perms = append(ch.Perms, map[rune]string{'r': characteristic.PermRead, 'w': characteristic.PermWrite, 'e': characteristic.PermEvents}[p])
				}
				svc.AddCharacteristic(ch.Characteristic)
				chars = append(chars, chr{acc, ch, ps})
			}
			acc.AddService(svc)
			accs = append(accs, acc)
		}
		f, addr, err := verifiedFixture(c, accs)
		if err != nil {
			c.Violate("fixture cannot be built", id, nil, "fixture", err.Error())
			continue
		}
		var dbToks, putToks, entries []string
		var want []int
		failed := false
		for _, x := range chars {
			dbToks = append(dbToks, fmt.Sprintf("%d.%d.%s", x.a.ID, x.ch.ID, x.perms))
		}
		for n := 1 + r.Intn(6); n > 0; n-- {
			var aid, iid uint64
			perms := ""
			if r.Intn(5) == 0 {
				aid, iid = uint64(1+r.Intn(3)), uint64(900+r.Intn(50)) // not served
			} else {
				x := chars[r.Intn(len(chars))]
				aid, iid, perms = x.a.ID, x.ch.ID, x.perms
			}
			hasV := r.Intn(2) == 0
			ev := []string{"n", "t", "f"}[r.Intn(3)]
			if !hasV && ev == "n" {
				hasV = true
			}
			tok := "n"
			m := map[string]interface{}{"aid": aid, "iid": iid}
			if hasV {
				tok = "v"
				m["value"] = true
			}
			if ev != "n" {
				m["ev"] = ev == "t"
			}
			b, _ := json.Marshal(m)
			entries = append(entries, string(b))
			putToks = append(putToks, fmt.Sprintf("%d.%d.%s%s", aid, iid, tok, ev))
			st := 0
			switch {
			case perms == "":
				st = -70409
			default:
				if hasV && !strings.Contains(perms, "w") {
					st = -70404
				}
				if ev != "n" && !strings.Contains(perms, "e") {
					st = -70406
				}
			}
			if st != 0 {
				failed = true
			}
			want = append(want, st)
		}
		body := `{"characteristics":[` + strings.Join(entries, ",") + `]}`
		line := "charhttp put " + strings.Join(dbToks, " ") + " | " + strings.Join(putToks, " ")
		st, resp, _, pm := f.Do(addr, "PUT", "/characteristics", "application/hap+json", []byte(body))
		in := map[string]interface{}{"characteristics_served": dbToks, "request": body}
		impl := fmt.Sprint(st)
		if pm != "" {
			c.Violate("PUT /characteristics panics or does not return", id, in, "an answer", pm)
			f.Close()
			continue
		}
		var doc struct {
			Characteristics []struct {
				Aid    uint64 `json:"aid"`
				Iid    uint64 `json:"iid"`
				Status *int   `json:"status"`
			} `json:"characteristics"`
		}
		if len(resp) > 0 {
			if json.Unmarshal(resp, &doc) != nil {
				c.Violate("the answer of a write request is not JSON", id, in, "JSON", trunc(string(resp), 120))
			}
			for _, e := range doc.Characteristics {
				s := "none"
				if e.Status != nil {
					s = fmt.Sprint(*e.Status)
				}
				impl += fmt.Sprintf(" %d.%d=%s", e.Aid, e.Iid, s)
			}
		}
		wantS := "204"
		if failed {
			wantS = "207"
			for k, s := range want {
				var aid, iid uint64
				fmt.Sscanf(putToks[k], "%d.%d.", &aid, &iid)
				wantS += fmt.Sprintf(" %d.%d=%d", aid, iid, s)
			}
		}
		if impl != wantS {
			c.Violate("a write request is not answered with a status for every entry, in order (or without content when every entry succeeded)", id, in, wantS, impl)
		}
		c.Same("charhttp-put", id, line, c.Model1(line), impl)
		f.Close()
		c.Count(line, failed, "stream:charhttp-put", fmt.Sprintf("charhttp-put:failed=%v", failed), fmt.Sprintf("charhttp-put:entries=%d", len(want)))
	}
}
