package main

// Shared by C05 / C06: independent reference framing (golang.org/x/crypto + own HKDF, never hc's wrappers),
// scripted readers, session helpers, parsing of the model's frame descriptors.

import (
	"bytes"
	"crypto/sha512"
	"encoding/binary"
	"errors"
	"fmt"
	"io"
	"io/ioutil"
	"math/big"
	"math/rand"
	"reflect"
	"strings"
	"unsafe"

	hccrypto "github.com/brutella/hc/crypto"
	refaead "golang.org/x/crypto/chacha20poly1305"
	refhkdf "golang.org/x/crypto/hkdf"
)

// the specification's labels (HAP spec R2 §6.5.2), written out here independently of hc and of the model
const (
	specSalt      = "Control-Salt"
	specInfoRead  = "Control-Read-Encryption-Key"  // accessory → controller
	specInfoWrite = "Control-Write-Encryption-Key" // controller → accessory
)

func refKDF(shared []byte, salt, info string) []byte {
	k := make([]byte, 32)
	if _, err := io.ReadFull(refhkdf.New(sha512.New, shared, []byte(salt), []byte(info)), k); err != nil {
		panic(err)
	}
	return k
}

func frNonce(ctr uint64) []byte {
	n := make([]byte, 12)
	binary.LittleEndian.PutUint64(n[4:], ctr)
	return n
}

func frSeal(key, nonce, ad, msg []byte) []byte {
	a, err := refaead.New(key)
	if err != nil {
		panic(err)
	}
	return a.Seal(nil, nonce, msg, ad)
}

// frFrame is one frame in the specified wire format.
func frFrame(key []byte, ctr uint64, chunk []byte) []byte {
	hdr := []byte{byte(len(chunk)), byte(len(chunk) >> 8)}
	return append(append([]byte{}, hdr...), frSeal(key, frNonce(ctr), hdr, chunk)...)
}

func refChunks(payload []byte) [][]byte {
	var cs [][]byte
	for len(payload) > 0 {
		n := len(payload)
		if n > 1024 {
			n = 1024
		}
		cs = append(cs, payload[:n])
		payload = payload[n:]
	}
	return cs
}

// refEncrypt: the whole message in the specified wire format, counters from ctr (wrapping like a uint64).
func refEncrypt(key []byte, ctr uint64, payload []byte) (out []byte, frames [][]byte) {
	for i, c := range refChunks(payload) {
		f := frFrame(key, ctr+uint64(i), c)
		frames = append(frames, f)
		out = append(out, f...)
	}
	return
}

// ---- scripted readers ------------------------------------------------------------------------------

// burstReader delivers min(len(p), len(head burst)) bytes per Read; an empty burst is a (0, nil) read.
// After the last burst: (0, final) where final is io.EOF or another error; with eofWithLast the final
// error accompanies the last data.
type burstReader struct {
	bursts      [][]byte
	eofWithLast bool
	final       error
	reads       int
}

func (b *burstReader) Read(p []byte) (int, error) {
	b.reads++
	if len(b.bursts) == 0 {
		return 0, b.final
	}
	h := b.bursts[0]
	n := copy(p, h)
	if n < len(h) {
		b.bursts[0] = h[n:]
		return n, nil
	}
	b.bursts = b.bursts[1:]
	if len(b.bursts) == 0 && b.eofWithLast {
		return n, b.final
	}
	return n, nil
}

// recReader records what an arbitrary reader delivered per Read (these become the model's bursts).
type recReader struct {
	r      io.Reader
	bursts [][]byte
}

func (r *recReader) Read(p []byte) (int, error) {
	n, err := r.r.Read(p)
	if n > 0 || err == nil {
		r.bursts = append(r.bursts, append([]byte{}, p[:n]...))
	}
	return n, err
}

func splitBursts(r *rand.Rand, payload []byte, mode string) [][]byte {
	var bs [][]byte
	switch mode {
	case "full":
		if len(payload) > 0 {
			bs = append(bs, payload)
		}
	case "one":
		for i := range payload {
			bs = append(bs, payload[i:i+1])
		}
	case "random", "zeros":
		p := payload
		for len(p) > 0 {
			var n int
			switch r.Intn(6) {
			case 0:
				n = 1
			case 1:
				n = 1 + r.Intn(16)
			case 2:
				n = 1024
			case 3:
				n = 1000 + r.Intn(60)
			case 4:
				n = 1 + r.Intn(3000)
			default:
				n = 1 + r.Intn(600)
			}
			if n > len(p) {
				n = len(p)
			}
			if mode == "zeros" && r.Intn(3) == 0 {
				bs = append(bs, []byte{})
			}
			bs = append(bs, p[:n])
			p = p[n:]
		}
		if mode == "zeros" && r.Intn(2) == 0 {
			bs = append(bs, []byte{})
		}
	}
	return bs
}

func cloneBursts(bs [][]byte) [][]byte {
	out := make([][]byte, len(bs))
	for i, b := range bs {
		out[i] = append([]byte{}, b...)
	}
	return out
}

func burstTokens(bs [][]byte) string {
	var sb strings.Builder
	for _, b := range bs {
		sb.WriteByte(' ')
		sb.WriteString(hx(b))
	}
	return sb.String()
}

// ---- sessions ----------------------------------------------------------------------------------------

type sessPair struct {
	shared  [32]byte
	server  hccrypto.Cryptographer
	client  hccrypto.Cryptographer
	readKey []byte // reference keys (accessory→controller / controller→accessory)
	wrKey   []byte
}

func newSessPair(r *rand.Rand) *sessPair {
	p := &sessPair{}
	r.Read(p.shared[:])
	var err error
	if p.server, err = hccrypto.NewSecureSessionFromSharedKey(p.shared); err != nil {
		panic(err)
	}
	if p.client, err = hccrypto.NewSecureClientSessionFromSharedKey(p.shared); err != nil {
		panic(err)
	}
	p.readKey = refKDF(p.shared[:], specSalt, specInfoRead)
	p.wrKey = refKDF(p.shared[:], specSalt, specInfoWrite)
	return p
}

// counter access by reflection on the unexported uint64 fields (hc's own tests set them the same way,
// in-package). When the fields are not found the callers fall back to sessions that start at zero.
func counterField(s hccrypto.Cryptographer, name string) (reflect.Value, bool) {
	v := reflect.ValueOf(s)
	if v.Kind() != reflect.Ptr || v.Elem().Kind() != reflect.Struct {
		return reflect.Value{}, false
	}
	f := v.Elem().FieldByName(name)
	if !f.IsValid() || f.Kind() != reflect.Uint64 {
		return reflect.Value{}, false
	}
	return f, true
}

func getCounter(s hccrypto.Cryptographer, name string) (uint64, bool) {
	f, ok := counterField(s, name)
	if !ok {
		return 0, false
	}
	return f.Uint(), true
}

func setCounter(s hccrypto.Cryptographer, name string, v uint64) bool {
	f, ok := counterField(s, name)
	if !ok || !f.CanAddr() {
		return false
	}
	reflect.NewAt(f.Type(), unsafe.Pointer(f.UnsafeAddr())).Elem().SetUint(v)
	return true
}

var interestingCounters = []uint64{0, 1, 2, 127, 128, 255, 256, 257, 4999, 5000, 65535, 65536, 1<<24 - 1, 1<<32 - 1, 1 << 32,
	1<<40 + 7, 1 << 56, 1<<63 - 1, 1 << 63, 1<<64 - 3, 1<<64 - 2, 1<<64 - 1}

func pickCounter(r *rand.Rand) uint64 {
	switch r.Intn(4) {
	case 0:
		return 0
	case 1:
		return uint64(r.Intn(5001))
	case 2:
		return interestingCounters[r.Intn(len(interestingCounters))]
	}
	return r.Uint64()
}

func mod64(dec string) (uint64, bool) {
	b, ok := new(big.Int).SetString(dec, 10)
	if !ok {
		return 0, false
	}
	m := new(big.Int).Lsh(big.NewInt(1), 64)
	return new(big.Int).Mod(b, m).Uint64(), true
}

// ---- running the real code ----------------------------------------------------------------------------

func hcEncrypt(s hccrypto.Cryptographer, r io.Reader) ([]byte, error) {
	out, err := s.Encrypt(r)
	if err != nil {
		return nil, err
	}
	return ioutil.ReadAll(out)
}

func decErrClass(err error) string {
	switch {
	case err == io.EOF:
		return "eof"
	case err == io.ErrUnexpectedEOF:
		return "unexpected"
	case strings.Contains(err.Error(), "Data encryption failed") || strings.Contains(err.Error(), "authentication failed"):
		return "auth"
	}
	return "other:" + err.Error()
}

// hcDecrypt runs one Decrypt call; left = bytes of the reader not consumed.
func hcDecrypt(s hccrypto.Cryptographer, rd *bytes.Reader) (out []byte, left int, err error) {
	return hcDecryptVia(s, rd, nil)
}

// hcDecryptVia: like hcDecrypt, the session reads through wrap(rd) (short-reading wrappers).
func hcDecryptVia(s hccrypto.Cryptographer, rd *bytes.Reader, wrap func(io.Reader) io.Reader) (out []byte, left int, err error) {
	var src io.Reader = rd
	if wrap != nil {
		src = wrap(rd)
	}
	o, err := s.Decrypt(src)
	if err != nil {
		if o != nil && !reflect.ValueOf(o).IsNil() {
			// plaintext handed out together with an error still counts as released
			b, _ := ioutil.ReadAll(o)
			return b, rd.Len(), err
		}
		return nil, rd.Len(), err
	}
	b, rerr := ioutil.ReadAll(o)
	if rerr != nil {
		return b, rd.Len(), rerr
	}
	return b, rd.Len(), nil
}

// ---- model descriptors --------------------------------------------------------------------------------

type frameDesc struct{ hdr, nonce, ad, chunk []byte }

type encAnswer struct {
	salt, info string
	msgs       [][]frameDesc
	cnt        string
}

func parseEncAnswer(s string) (*encAnswer, error) {
	parts := strings.Split(s, " | ")
	if len(parts) != 3 || !strings.HasPrefix(parts[0], "key ") || !strings.HasPrefix(parts[2], "cnt ") {
		return nil, fmt.Errorf("unparsable model answer %q", trunc(s, 200))
	}
	key := unhx(strings.TrimPrefix(parts[0], "key "))
	i := bytes.IndexByte(key, '/')
	if i < 0 {
		return nil, errors.New("key label without '/'")
	}
	a := &encAnswer{salt: string(key[:i]), info: string(key[i+1:]), cnt: strings.TrimPrefix(parts[2], "cnt ")}
	for _, m := range strings.Split(parts[1], "/") {
		var fs []frameDesc
		for _, t := range strings.Fields(m) {
			q := strings.Split(t, ".")
			if len(q) != 4 {
				return nil, fmt.Errorf("bad frame descriptor %q", trunc(t, 80))
			}
			fs = append(fs, frameDesc{unhx(q[0]), unhx(q[1]), unhx(q[2]), unhx(q[3])})
		}
		a.msgs = append(a.msgs, fs)
	}
	return a, nil
}

// sealDescs evaluates the model's descriptors with the reference primitives.
func sealDescs(shared []byte, a *encAnswer, msg int) []byte {
	key := refKDF(shared, a.salt, a.info)
	var out []byte
	for _, d := range a.msgs[msg] {
		out = append(out, d.hdr...)
		out = append(out, frSeal(key, d.nonce, d.ad, d.chunk)...)
	}
	return out
}

func lenBucket(n int) string {
	switch {
	case n == 0:
		return "0"
	case n < 1024:
		return "1..1023"
	case n == 1024:
		return "1024"
	case n%1024 == 0:
		return "k*1024"
	case n < 4098:
		return "1025..4097"
	}
	return ">4097"
}

// sameLong compares in full and records a shortened form.
func sameLong(c *Ctx, stream, id, input, model, impl string) bool {
	if model == impl {
		return true
	}
	c.Mismatch(stream, id, trunc(input, 800), trunc(model, 800), trunc(impl, 800))
	return false
}
