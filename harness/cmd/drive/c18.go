package main

// C18 — storage and pairing database behave like a persistent map.
// Correspondence with HcModel/Storage.lean (histories on one directory, storage and database operations
// interleaved, re-opening the store) + direct oracle: an in-memory reference map.

import (
	"bytes"
	"fmt"
	"math/rand"
	"os"
	"path/filepath"
	"sort"
	"strings"
	"unicode/utf8"

	"github.com/brutella/hc/db"
	"github.com/brutella/hc/util"
)

func init() { register("C18", checkC18) }

type stOp struct {
	Kind string `json:"op"` // set get del list reopen save ent dele all
	Key  []byte `json:"key,omitempty"`
	Val  []byte `json:"val,omitempty"`
	Pub  []byte `json:"pub,omitempty"`
	Priv []byte `json:"priv,omitempty"`
}

func (o stOp) token() string {
	switch o.Kind {
	case "set":
		return "set:" + hx(o.Key) + ":" + hx(o.Val)
	case "get", "del", "list", "ent", "dele":
		return o.Kind + ":" + hx(o.Key)
	case "save":
		return "save:" + hx(o.Key) + ":" + hx(o.Pub) + ":" + hx(o.Priv)
	}
	return o.Kind
}

func stLine(ops []stOp) string {
	var sb strings.Builder
	sb.WriteString("storage run")
	for _, o := range ops {
		sb.WriteByte(' ')
		sb.WriteString(o.token())
	}
	return sb.String()
}

// describe gives a short human-readable form of a history for replay files.
func stDescribe(ops []stOp) []string {
	var out []string
	for _, o := range ops {
		switch o.Kind {
		case "set":
			out = append(out, fmt.Sprintf("Set(%q, %d bytes %s)", o.Key, len(o.Val), trunc(hx(o.Val), 24)))
		case "save":
			out = append(out, fmt.Sprintf("SaveEntity(name=%q pub=%s priv=%s)", o.Key, trunc(hx(o.Pub), 16), trunc(hx(o.Priv), 16)))
		case "get", "del", "list", "ent", "dele":
			out = append(out, fmt.Sprintf("%s(%q)", o.Kind, o.Key))
		default:
			out = append(out, o.Kind)
		}
	}
	return out
}

// jsonSanitize: what encoding/json stores for a Go string (ill-formed bytes become U+FFFD). Independent of hc and the model.
func jsonSanitize(b []byte) []byte {
	var out []byte
	for i := 0; i < len(b); {
		r, size := utf8.DecodeRune(b[i:])
		if r == utf8.RuneError && size == 1 {
			out = append(out, 0xEF, 0xBF, 0xBD)
		} else {
			out = append(out, b[i:i+size]...)
		}
		i += size
	}
	return out
}

func entKey(name []byte) string { return fmt.Sprintf("%x.entity", name) }

func showEnt(e db.Entity) string {
	return hx([]byte(e.Name)) + ":" + hx(e.PublicKey) + ":" + hx(e.PrivateKey)
}

type refEnt struct{ name, pub, priv []byte }

// runStorageHistory executes the history on the real code in dir and evaluates the reference-map oracle.
// It returns the result string in the model's format.
type violRec struct{ sig, at, exp, obs string }

type violSink struct{ v []violRec }

func (s *violSink) Violate(sig, at string, _ interface{}, exp, obs string) {
	s.v = append(s.v, violRec{sig, at, exp, obs})
}

func runStorageHistory(c *violSink, caseID string, dir string, ops []stOp, input interface{}) (string, bool) {
	var res []string
	recovered := 0
	open := func() (util.Storage, db.Database) {
		st, err := util.NewFileStorage(dir)
		if err != nil {
			// the operations before damaged the directory tree the store lives in (a key that names the directory or its
			// parent was deleted / written as a file): reported, and the history goes on in a directory of its own
			c.Violate("the storage directory cannot be opened again after operations on keys that name the directory or its parent", caseID, input, "opens", err.Error())
			recovered++
			dir = filepath.Join(filepath.Dir(filepath.Dir(filepath.Dir(dir))), fmt.Sprintf("%s-recovered%d", filepath.Base(filepath.Dir(filepath.Dir(dir))), recovered), "p", "store")
			if st, err = util.NewFileStorage(dir); err != nil {
				fatal("NewFileStorage(%s): %v", dir, err)
			}
		}
		return st, db.NewDatabaseWithStorage(st)
	}
	st, dbase := open()
	ref := map[string][]byte{}  // file name (key without ':') -> value; the reference map
	ents := map[string]refEnt{} // entity name -> entity
	norm := func(k []byte) string { return strings.Replace(string(k), ":", "", -1) }
	nontrivial := false
	reopened := false
	for idx, o := range ops {
		at := fmt.Sprintf("%s op %d %s", caseID, idx, o.Kind)
		switch o.Kind {
		case "set":
			if old, ok := ref[norm(o.Key)]; ok && len(old) != len(o.Val) {
				nontrivial = true
			}
			err := st.Set(string(o.Key), o.Val)
			if err != nil {
				res = append(res, "err")
				if c18KeyUsable(norm(o.Key)) {
					c.Violate("storage Set fails for a usable key", at, input, "nil", err.Error())
				}
			} else {
				res = append(res, "ok")
				ref[norm(o.Key)] = append([]byte{}, o.Val...)
			}
		case "get":
			b, err := st.Get(string(o.Key))
			if reopened {
				nontrivial = true
			}
			want, live := ref[norm(o.Key)]
			if err != nil {
				res = append(res, "err")
				if live {
					c.Violate("storage Get fails for a live key", at, input, "val:"+hx(want), err.Error())
				}
			} else {
				res = append(res, "val:"+hx(b))
				if c18DirName(norm(o.Key)) {
					break // Get of the directory itself: modelled quirk (empty value), not a key
				}
				if !live {
					c.Violate("storage Get returns a value for a key that was deleted or never set", at, input, "not found", "val:"+hx(b))
				} else if !bytes.Equal(b, want) {
					sig := "storage Get returns a value different from the last value set"
					if len(b) > len(want) && bytes.Equal(b[:len(want)], want) {
						sig += " (new value followed by the tail of an older, longer value)"
					}
					c.Violate(sig, at, input, "val:"+hx(want), "val:"+hx(b))
				}
			}
		case "del":
			_, live := ref[norm(o.Key)]
			err := st.Delete(string(o.Key))
			if err != nil {
				res = append(res, "err")
				if live {
					c.Violate("storage Delete fails for a live key", at, input, "nil", err.Error())
				}
			} else {
				res = append(res, "ok")
				if !live {
					c.Violate("storage Delete succeeds for a key that is not live", at, input, "error", "nil")
				}
				delete(ref, norm(o.Key))
			}
		case "list":
			ks, err := st.KeysWithSuffix(string(o.Key))
			if err != nil {
				res = append(res, "err")
				c.Violate("storage KeysWithSuffix fails", at, input, "nil", err.Error())
				break
			}
			var hs []string
			sortedByBytes(ks)
			for _, k := range ks {
				hs = append(hs, hx([]byte(k)))
			}
			res = append(res, "keys:"+strings.Join(hs, ","))
			var want []string
			for k := range ref {
				if strings.HasSuffix(k, string(o.Key)) {
					want = append(want, k)
				}
			}
			for n := range ents {
				if k := entKey([]byte(n)); strings.HasSuffix(k, string(o.Key)) {
					want = append(want, k)
				}
			}
			sortedByBytes(want)
			if strings.Join(want, "\x00") != strings.Join(ks, "\x00") {
				c.Violate("storage KeysWithSuffix differs from the live keys with the suffix", at, input, fmt.Sprintf("%q", want), fmt.Sprintf("%q", ks))
			}
		case "reopen":
			st, dbase = open()
			reopened = true
			res = append(res, "ok")
		case "save":
			if _, ok := ents[string(o.Key)]; ok {
				nontrivial = true
			}
			e := db.NewEntity(string(o.Key), o.Pub, o.Priv)
			err := dbase.SaveEntity(e)
			if err != nil {
				res = append(res, "err")
				if len(o.Key) <= 122 {
					c.Violate("database SaveEntity fails", at, input, "nil", err.Error())
				}
			} else {
				res = append(res, "ok")
				ents[string(o.Key)] = refEnt{o.Key, o.Pub, o.Priv}
			}
		case "ent":
			e, err := dbase.EntityWithName(string(o.Key))
			want, live := ents[string(o.Key)]
			if reopened {
				nontrivial = true
			}
			if err != nil {
				res = append(res, "err")
				if live {
					c.Violate("database EntityWithName fails for a saved entity", at, input, hx(want.name), err.Error())
				}
				break
			}
			res = append(res, "ent:"+showEnt(e))
			if !live {
				c.Violate("database EntityWithName returns an entity that was deleted or never saved", at, input, "not found", showEnt(e))
				break
			}
			c18CompareEntity(c, at, input, want, e, "EntityWithName")
		case "dele":
			dbase.DeleteEntity(db.Entity{Name: string(o.Key)})
			delete(ents, string(o.Key))
			res = append(res, "ok")
		case "all":
			es, err := dbase.Entities()
			if err != nil {
				res = append(res, "err")
				c.Violate("database Entities fails", at, input, "nil", err.Error())
				break
			}
			var parts []string
			for _, e := range es {
				parts = append(parts, showEnt(e))
			}
			res = append(res, "ents:"+strings.Join(parts, ";"))
			var names []string
			for n := range ents {
				names = append(names, n)
			}
			sortedByBytes(names)
			if len(names) != len(es) {
				c.Violate("database Entities does not list exactly the saved entities", at, input, fmt.Sprintf("%d entities %q", len(names), names), fmt.Sprintf("%d entities", len(es)))
				break
			}
			for i, n := range names {
				c18CompareEntity(c, at, input, ents[n], es[i], "Entities")
			}
		}
	}
	return strings.Join(res, " | "), nontrivial
}

func c18CompareEntity(c *violSink, at string, input interface{}, want refEnt, got db.Entity, via string) {
	if !bytes.Equal(got.PublicKey, want.pub) || !bytes.Equal(got.PrivateKey, want.priv) {
		c.Violate("database "+via+" returns keys different from the entity saved", at, input,
			hx(want.pub)+":"+hx(want.priv), hx(got.PublicKey)+":"+hx(got.PrivateKey))
	}
	if got.Name != string(want.name) {
		if !utf8.Valid(want.name) && got.Name == string(jsonSanitize(want.name)) {
			c.Violate("entity name is invalid UTF-8: "+via+" returns the name with U+FFFD in place of the ill-formed bytes (encoding/json)", at, input,
				hx(want.name), hx([]byte(got.Name)))
		} else {
			c.Violate("database "+via+" returns a name different from the entity saved", at, input, hx(want.name), hx([]byte(got.Name)))
		}
	}
}

func c18DirName(n string) bool { return n == "" || n == "." || n == ".." }

// c18KeyUsable: file names on which Set must work (one path component, NAME_MAX incl. the temporary sibling).
// (names of the reserved temporary form "<file>.tmp" are refused by the storage: they are never keys)
func c18KeyUsable(n string) bool {
	return !strings.HasSuffix(n, ".tmp") && !c18DirName(n) && !strings.ContainsAny(n, "/\x00") && len(n)+4 <= 255
}

func sortedByBytes(s []string) { sort.Strings(s) }

// ---- generators --------------------------------------------------------------------------------------

func genKey(r *rand.Rand) []byte {
	alpha := "abcdefghijklmnopqrstuvwxyzABCDEFGHIJKLMNOPQRSTUVWXYZ0123456789-_ ."
	word := func(n int) []byte {
		b := make([]byte, n)
		for i := range b {
			b[i] = alpha[r.Intn(len(alpha)-1)] // no '.' inside words (avoids "." / ".." / accidental suffixes)
		}
		return b
	}
	switch r.Intn(10) {
	case 0:
		return []byte([]string{"uuid", "version", "configHash", "keypair", "schema"}[r.Intn(5)])
	case 1: // colon inside: stripped by removeInvalidFileNameCharacters
		k := word(1 + r.Intn(6))
		k = append(k, ':')
		return append(k, word(1+r.Intn(6))...)
	case 2: // MAC-like id as used for the device name
		return []byte(fmt.Sprintf("%02X:%02X:%02X:%02X", r.Intn(256), r.Intn(256), r.Intn(256), r.Intn(256)))
	case 3: // long, up to the limit
		return word(200 + r.Intn(52))
	case 4: // arbitrary bytes without '/', NUL, ':'
		n := 1 + r.Intn(12)
		b := make([]byte, n)
		for i := range b {
			for {
				b[i] = byte(r.Intn(256))
				if b[i] != '/' && b[i] != 0 && b[i] != ':' && b[i] != '.' {
					break
				}
			}
		}
		return b
	case 5, 6: // with a listing suffix
		return append(word(1+r.Intn(8)), []string{".txt", ".dat", ".t", "xt"}[r.Intn(4)]...)
	case 7: // prefix / extension of another typical key
		return []byte([]string{"a", "ab", "abc", "a.b", "ab.txt", "b.txt"}[r.Intn(6)])
	case 8: // names of the storage directory itself and of its parent (also with the ':' that is stripped): no keys
		if r.Intn(3) == 0 {
			return []byte([]string{"", ".", "..", ":", ".:", ":.:.", "::"}[r.Intn(7)])
		}
	}
	return word(1 + r.Intn(10))
}

func genEntityName(r *rand.Rand) []byte {
	switch r.Intn(8) {
	case 0: // arbitrary bytes (mostly invalid UTF-8)
		return randBytes(r, 1+r.Intn(100))
	case 1: // valid multi-byte UTF-8
		s := []string{"Zoë", "ключ", "鍵", "🔑", "a b", "<&>", "tab\there", "nul\x00in", "q\"uote\\"}[r.Intn(9)]
		return []byte(s)
	case 2: // one ill-formed byte inside ASCII
		b := []byte("controller")
		b[r.Intn(len(b))] = byte(0x80 + r.Intn(0x80))
		return b
	case 3: // truncated / overlong / surrogate sequences
		return [][]byte{{0xE2, 0x82}, {0xC0, 0xAF}, {0xED, 0xA0, 0x80}, {0xF4, 0x90, 0x80, 0x80}, {0xEF, 0xBF, 0xBD}, {0xF0, 0x9F, 0x94}}[r.Intn(6)]
	case 4: // long
		n := 90 + r.Intn(11)
		b := make([]byte, n)
		for i := range b {
			b[i] = byte('a' + r.Intn(26))
		}
		return b
	case 5: // pairing id of a controller (uuid)
		return []byte(fmt.Sprintf("%08X-%04X-%04X-%04X-%012X", r.Uint32(), r.Intn(65536), r.Intn(65536), r.Intn(65536), r.Int63n(1<<48)))
	}
	// device-id style
	return []byte(fmt.Sprintf("%02X:%02X:%02X:%02X:%02X:%02X", r.Intn(256), r.Intn(256), r.Intn(256), r.Intn(256), r.Intn(256), r.Intn(256)))
}

func genValueLen(r *rand.Rand, prev int) (int, string) {
	switch r.Intn(9) {
	case 0:
		return 0, "empty"
	case 1:
		if prev > 0 {
			return r.Intn(prev), "shorter"
		}
	case 2:
		if prev >= 0 {
			return prev, "equal"
		}
	case 3:
		if prev >= 0 && prev < 4096 {
			return prev + 1 + r.Intn(4096-prev), "longer"
		}
	case 4:
		return []int{1, 31, 32, 33, 63, 64, 65, 4095, 4096}[r.Intn(9)], "boundary"
	case 5:
		return r.Intn(4097), "any"
	}
	return r.Intn(48), "small"
}

func genStorageHistory(r *rand.Rand) []stOp {
	nk := 1 + r.Intn(6)
	var keys [][]byte
	for i := 0; i < nk; i++ {
		keys = append(keys, genKey(r))
	}
	if r.Intn(4) == 0 && nk >= 2 { // an aliasing pair: "x:y" and "xy"
		keys[1] = []byte(strings.Replace(string(keys[0]), ":", "", -1))
		if !bytes.Contains(keys[0], []byte(":")) && len(keys[0]) < 200 && len(keys[0]) > 0 {
			keys[0] = append([]byte{keys[0][0], ':'}, keys[0][1:]...)
		}
	}
	if r.Intn(5) == 0 && nk >= 2 && len(keys[0]) < 200 { // a key that has the name of another key's temporary sibling
		keys[nk-1] = append([]byte(strings.Replace(string(keys[0]), ":", "", -1)), ".tmp"...)
	}
	ne := 1 + r.Intn(4)
	var names [][]byte
	for i := 0; i < ne; i++ {
		names = append(names, genEntityName(r))
	}
	if r.Intn(3) == 0 { // a near-twin of the first name: the database must keep them apart
		t := append([]byte{}, names[0]...)
		switch r.Intn(5) {
		case 0:
			t = bytes.ToLower(t)
		case 1:
			t = bytes.ToUpper(t)
		case 2:
			t = append(t, ' ')
		case 3:
			t = t[:len(t)-1]
		default:
			t[r.Intn(len(t))] ^= 0x20
		}
		if len(t) > 0 {
			names = append(names, t)
		}
	}
	if r.Intn(3) == 0 && len(names[0]) <= 49 {
		// a name that is the SPELLING of another name's storage key (the hexadecimal form of its bytes, with or without
		// the suffix of the key): names and keys are different things
		h := fmt.Sprintf("%x", names[0])
		names = append(names, [][]byte{[]byte(h), []byte(h + ".entity"), []byte(strings.ToUpper(h))}[r.Intn(3)])
	}
	n := 1 + r.Intn(60)
	last := map[string]int{}
	var ops []stOp
	dbWeight := r.Intn(3) // 0: storage only, 1: mixed, 2: database heavy
	for i := 0; i < n; i++ {
		k := keys[r.Intn(len(keys))]
		nm := names[r.Intn(len(names))]
		x := r.Intn(100)
		if dbWeight == 0 && x >= 70 {
			x = r.Intn(70)
		}
		if dbWeight == 2 && x < 50 {
			x = 70 + r.Intn(30)
		}
		switch {
		case x < 30:
			prev := -1
			if l, ok := last[string(k)]; ok {
				prev = l
			}
			l, _ := genValueLen(r, prev)
			last[string(k)] = l
			ops = append(ops, stOp{Kind: "set", Key: k, Val: randBytes(r, l)})
		case x < 45:
			ops = append(ops, stOp{Kind: "get", Key: k})
		case x < 52:
			ops = append(ops, stOp{Kind: "del", Key: k})
			delete(last, string(k))
		case x < 60:
			var suf []byte
			switch r.Intn(6) {
			case 0:
				suf = nil
			case 1:
				suf = []byte(".txt")
			case 2:
				suf = []byte(".entity")
			case 3:
				kk := []byte(strings.Replace(string(k), ":", "", -1))
				if len(kk) > 0 {
					suf = kk[r.Intn(len(kk)):]
				}
			case 4:
				suf = []byte(".tmp")
			default:
				suf = []byte([]string{"t", "xt", "y", "p", ".dat"}[r.Intn(5)])
			}
			ops = append(ops, stOp{Kind: "list", Key: suf})
		case x < 70:
			ops = append(ops, stOp{Kind: "reopen"})
		case x < 82:
			ops = append(ops, stOp{Kind: "save", Key: nm, Pub: randBytes(r, []int{0, 1, 32, 32, 32, 33}[r.Intn(6)]), Priv: randBytes(r, []int{0, 64, 64, 64, 5}[r.Intn(5)])})
		case x < 90:
			ops = append(ops, stOp{Kind: "ent", Key: nm})
		case x < 94:
			ops = append(ops, stOp{Kind: "dele", Key: nm})
		default:
			ops = append(ops, stOp{Kind: "all"})
		}
		if r.Intn(3) == 0 { // read back right away, often through a fresh store
			if r.Intn(2) == 0 {
				ops = append(ops, stOp{Kind: "reopen"})
			}
			lastOp := ops[len(ops)-1]
			if lastOp.Kind == "reopen" && len(ops) >= 2 {
				lastOp = ops[len(ops)-2]
			}
			switch lastOp.Kind {
			case "set", "del":
				ops = append(ops, stOp{Kind: "get", Key: lastOp.Key})
			case "save", "dele":
				ops = append(ops, stOp{Kind: "ent", Key: lastOp.Key})
			}
		}
	}
	if len(ops) > 60 {
		ops = ops[:60]
	}
	return ops
}

// malformed / boundary stream: unusable keys and names at the length limits.
func genMalformedHistory(r *rand.Rand) []stOp {
	long := func(n int) []byte { return bytes.Repeat([]byte{byte('a' + r.Intn(26))}, n) }
	bad := [][]byte{{}, []byte(":"), []byte("::"), []byte("."), []byte(".."), []byte(":.:"), []byte("nul\x00byte"),
		long(251), long(252), long(255), long(256), long(300), append(long(251), ':'), append(long(252), ':')}
	var ops []stOp
	ops = append(ops, stOp{Kind: "set", Key: []byte("live"), Val: []byte("v")}) // keeps the directory non-empty
	for i := 0; i < 3+r.Intn(6); i++ {
		k := bad[r.Intn(len(bad))]
		switch r.Intn(4) {
		case 0, 1:
			ops = append(ops, stOp{Kind: "set", Key: k, Val: randBytes(r, r.Intn(20))})
			ops = append(ops, stOp{Kind: "get", Key: k})
		case 2:
			ops = append(ops, stOp{Kind: "get", Key: k})
		default:
			if !c18DirName(strings.Replace(string(k), ":", "", -1)) {
				ops = append(ops, stOp{Kind: "del", Key: k})
			}
		}
		if r.Intn(3) == 0 {
			ops = append(ops, stOp{Kind: "list", Key: nil})
		}
	}
	// entity names around the file-name limit (2·len + 7 + 4 ≤ 255 ⇔ len ≤ 122)
	for _, n := range []int{121, 122, 123, 124, 125, 200} {
		if r.Intn(2) == 0 {
			nm := long(n)
			ops = append(ops, stOp{Kind: "save", Key: nm, Pub: []byte{1}, Priv: []byte{2}}, stOp{Kind: "ent", Key: nm})
		}
	}
	ops = append(ops, stOp{Kind: "all"}, stOp{Kind: "list", Key: nil}, stOp{Kind: "get", Key: []byte("live")})
	return ops
}

func c18Corpus() []struct {
	id  string
	ops []stOp
} {
	k := []byte("k")
	return []struct {
		id  string
		ops []stOp
	}{
		{"corpus#F13-shorter-overwrite", []stOp{{Kind: "set", Key: k, Val: []byte("longvalue")}, {Kind: "set", Key: k, Val: []byte("s")}, {Kind: "get", Key: k}}},
		{"corpus#F13-empty-overwrite-reopen", []stOp{{Kind: "set", Key: k, Val: []byte("longvalue")}, {Kind: "set", Key: k, Val: nil}, {Kind: "reopen"}, {Kind: "get", Key: k}}},
		{"corpus#F13-entity-shrinks", []stOp{{Kind: "save", Key: []byte("ctrl"), Pub: bytes.Repeat([]byte{7}, 32), Priv: bytes.Repeat([]byte{9}, 64)},
			{Kind: "save", Key: []byte("ctrl"), Pub: []byte{1}, Priv: nil}, {Kind: "reopen"}, {Kind: "ent", Key: []byte("ctrl")}, {Kind: "all"}}},
		{"corpus#F15-invalid-utf8-name", []stOp{{Kind: "save", Key: []byte("a\xffb"), Pub: []byte{1}, Priv: []byte{2}}, {Kind: "ent", Key: []byte("a\xffb")}, {Kind: "all"}}},
		{"corpus#delete-then-get", []stOp{{Kind: "set", Key: k, Val: []byte("v")}, {Kind: "del", Key: k}, {Kind: "get", Key: k}, {Kind: "del", Key: k}, {Kind: "list", Key: nil}}},
		{"corpus#temp-sibling-not-listed", []stOp{{Kind: "set", Key: []byte("a.txt"), Val: []byte("1")}, {Kind: "save", Key: []byte("n"), Pub: []byte{1}, Priv: []byte{2}},
			{Kind: "list", Key: []byte(".tmp")}, {Kind: "list", Key: nil}, {Kind: "all"}}},
		{"corpus#F21-temp-named-key", []stOp{{Kind: "set", Key: []byte("k.tmp"), Val: []byte("mine")}, {Kind: "get", Key: []byte("k.tmp")}, {Kind: "set", Key: k, Val: []byte("other")}, {Kind: "get", Key: []byte("k.tmp")},
			{Kind: "list", Key: nil}, {Kind: "del", Key: []byte("k.tmp")}, {Kind: "get", Key: k}}},
		{"corpus#colon-alias", []stOp{{Kind: "set", Key: []byte("a:b"), Val: []byte("1")}, {Kind: "get", Key: []byte("ab")}, {Kind: "set", Key: []byte("ab"), Val: []byte("22")}, {Kind: "get", Key: []byte("a:b")}, {Kind: "list", Key: nil}}},
	}
}

func checkC18(c *Ctx) {
	storageFaults(c, "C18")
	c18RelativePath(c)
	c18DirectoryKeys(c)
	c18ConcurrentSet(c)
	c18TempSpellings(c)
	c18ColonAlias(c)
	c18StaleTemp(c)
	c.SetRule("one case = one history (1–60 operations: Set/Get/Delete/KeysWithSuffix/reopen + SaveEntity/EntityWithName/DeleteEntity/Entities) " +
		"on one fresh directory, over 1–6 keys (incl. keys with ':', aliasing pairs, 200–251 byte keys, arbitrary bytes) and 1–4 entity names " +
		"(arbitrary bytes ≤ 100, valid UTF-8 and not), values 0..4096 bytes; non-trivial = the history overwrites a live key with a value of " +
		"different length or reads through a re-opened store. Streams: corpus, hist (valid), malformed (unusable keys, length limits). " +
		"Oracle: in-memory reference map (independent of the model); correspondence: HcModel.Storage.run on the same history.")
	c.Assume("POSIX byte-string file names, case-sensitive, NAME_MAX = 255; the storage directory contains no sub-directories and no foreign files")
	c.Assume("encoding/json round-trips db.Entity when Name is valid UTF-8 (checked per case by the reference-map oracle through the real library)")

	type hcase struct {
		id     string
		stream string
		ops    []stOp
	}
	var cases []hcase
	for _, cc := range c18Corpus() {
		cases = append(cases, hcase{cc.id, "corpus", cc.ops})
	}
	for i := 0; i < c.Pick(500, 6000); i++ {
		cases = append(cases, hcase{c.CaseID("hist", i), "hist", genStorageHistory(c.CaseRng("hist", i))})
	}
	for i := 0; i < c.Pick(60, 600); i++ {
		cases = append(cases, hcase{c.CaseID("malformed", i), "malformed", genMalformedHistory(c.CaseRng("malformed", i))})
	}
	var live []hcase
	var lines []string
	for _, cs := range cases {
		if c.Skip(cs.id) {
			continue
		}
		live = append(live, cs)
		lines = append(lines, stLine(cs.ops))
	}
	model := c.Model(lines)
	impl := make([]string, len(live))
	nontriv := make([]bool, len(live))
	dirs := make([]string, len(live))
	sinks := make([]violSink, len(live))
	for i := range live {
		dirs[i] = filepath.Join(c.ScratchDir(), "p", oddDirName(i, "store")) // two levels down: ".." stays inside the scratch tree
	}
	parallel(len(live), func(i int) {
		cs := live[i]
		input := map[string]interface{}{"history": stDescribe(cs.ops), "line": trunc(lines[i], 4000)}
		msg, pan := safely(func() {
			impl[i], nontriv[i] = runStorageHistory(&sinks[i], cs.id, dirs[i], cs.ops, input)
		})
		if pan {
			impl[i] = "panic"
			sinks[i].Violate("storage / database operation panics", cs.id, input, "no panic", msg)
		}
		os.RemoveAll(filepath.Dir(filepath.Dir(dirs[i])))
	})
	for i, cs := range live {
		input := map[string]interface{}{"history": stDescribe(cs.ops), "line": trunc(lines[i], 4000)}
		for _, v := range sinks[i].v {
			c.Violate(v.sig, cs.id, map[string]interface{}{"history": stDescribe(cs.ops), "line": trunc(lines[i], 4000), "at": v.at}, v.exp, v.obs)
		}
		c.Same(cs.stream, cs.id, input, trunc(model[i], 6000), trunc(impl[i], 6000))
		kinds := map[string]bool{}
		maxv := 0
		reopens := 0
		badName := false
		for _, o := range cs.ops {
			kinds[o.Kind] = true
			if len(o.Val) > maxv {
				maxv = len(o.Val)
			}
			if o.Kind == "reopen" {
				reopens++
			}
			if (o.Kind == "save" || o.Kind == "ent") && !utf8.Valid(o.Key) {
				badName = true
			}
		}
		b := []string{cs.stream + ":ops<=" + fmt.Sprint(bucket(len(cs.ops), 1, 5, 10, 20, 40, 60, 200)),
			cs.stream + ":maxval<=" + fmt.Sprint(bucket(maxv, 0, 1, 32, 64, 1024, 4095, 4096)),
			cs.stream + ":reopens<=" + fmt.Sprint(bucket(reopens, 0, 1, 3, 10, 60))}
		for k := range kinds {
			b = append(b, "op:"+k)
		}
		if badName {
			b = append(b, "entity-name:invalid-utf8")
		}
		c.Count(lines[i], nontriv[i], b...)
		if i%131 == 0 {
			c.Sample(trunc(strings.Join(stDescribe(cs.ops), "; "), 240) + "  =>  " + trunc(impl[i], 200))
		}
		c.Trace()
	}
}

func bucket(n int, bs ...int) int {
	for _, b := range bs {
		if n <= b {
			return b
		}
	}
	return bs[len(bs)-1]
}

// c18StaleTemp: the map must also survive restarts after a writer was killed: what a killed Set leaves behind (C19: a
// `<file>.tmp` sibling with any content) must not leak into later values of the key. Direct oracle only.
func c18StaleTemp(c *Ctx) {
	for i := 0; i < c.Pick(40, 400); i++ {
		id := c.CaseID("stale-temp", i)
		if c.Skip(id) {
			continue
		}
		r := c.CaseRng("stale-temp", i)
		dir := filepath.Join(c.ScratchDir(), "store")
		st, err := util.NewFileStorage(dir)
		if err != nil {
			c.Violate("storage cannot be created", id, dir, "storage", err.Error())
			continue
		}
		key := []string{"uuid", "version", "configHash", "k" + fmt.Sprint(r.Intn(9)), "a.entity"}[r.Intn(5)]
		junk := randBytes(r, 1+r.Intn(5000))
		var old []byte
		if r.Intn(2) == 0 {
			old = randBytes(r, r.Intn(300))
			st.Set(key, old)
		}
		os.WriteFile(filepath.Join(dir, key+".tmp"), junk, 0644) // what a writer killed between write and rename leaves behind
		st2, _ := util.NewFileStorage(dir)                       // restart
		if old != nil {
			if got, err := st2.Get(key); err != nil || !bytes.Equal(got, old) {
				c.Violate("storage Get after a restart differs from the last value set (stale temporary file present)", id,
					map[string]interface{}{"key": key, "stale_tmp_bytes": len(junk)}, hx(old), fmt.Sprint(hx(got), err))
			}
			if r.Intn(2) == 0 { // the key is deleted while the abandoned temporary file is still there: it must stay deleted
				st2.Delete(key)
				old = nil
			}
		}
		if old == nil {
			if got, err := st2.Get(key); err == nil {
				c.Violate("storage Get returns a value for a key that was deleted or never set (content of an abandoned temporary file)", id,
					map[string]interface{}{"key": key, "stale_tmp_bytes": len(junk)}, "not found", trunc(hx(got), 80))
			}
		}
		val := randBytes(r, r.Intn(len(junk)+10))
		if err := st2.Set(key, val); err != nil {
			c.Violate("storage Set fails when a stale temporary file is present", id, key, "nil", err.Error())
		}
		st3, _ := util.NewFileStorage(dir)
		got, err := st3.Get(key)
		if err != nil || !bytes.Equal(got, val) {
			c.Violate("storage Get returns a mixture of the last value set and an older, abandoned write", id,
				map[string]interface{}{"key": key, "stale_tmp_bytes": len(junk), "new_value_bytes": len(val)}, trunc(hx(val), 200), trunc(hx(got), 200)+fmt.Sprint(" ", err))
		}
		c.Count(fmt.Sprint("stale/", key, len(junk), len(val)), len(val) < len(junk), "stream:stale-temp")
		os.RemoveAll(dir)
	}
}
