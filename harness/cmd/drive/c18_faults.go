package main

import (
	"bytes"
	"fmt"
	"os"
	"path/filepath"

	"hcverif/harness/internal/fstrace"

	"github.com/brutella/hc/util"
)

// storageFaults: a real storage write (child process under strace) in which ONE system call fails (openat / write /
// close / rename answered with ENOSPC, EIO, EACCES or EDQUOT by strace's fault injection).
// Whatever fails: if Set reports success the key reads back the new value in full; if Set reports an error the key
// still reads back its old value (or is still absent), and no other key is touched.
func storageFaults(c *Ctx, who string) {
	probe := c19Probe(c)
	root := c.ScratchDir()
	n := 0
	type cse struct {
		old    []byte
		hasOld bool
		val    []byte
	}
	cases := []cse{{nil, false, []byte("value")}, {[]byte("a-longer-old-value"), true, []byte("new")}, {[]byte("o"), true, bytes.Repeat([]byte("N"), 5000)}, {[]byte("same"), true, []byte("diff")}}
	faults := []string{"openat:error=ENOSPC", "openat:error=EACCES", "write:error=ENOSPC", "write:error=EIO", "write:error=EDQUOT", "close:error=EIO", "renameat:error=ENOSPC", "rename:error=ENOSPC", "renameat2:error=EIO", "fsync:error=EIO"}
	for ci, cs := range cases {
		// which system calls does this write issue? (recorded run without faults)
		d0 := filepath.Join(root, fmt.Sprintf("f%d", n), "store")
		n++
		os.MkdirAll(d0, 0755)
		calls, _, _, err := fstrace.Record(root, d0, []string{probe, "set", d0, hx([]byte("k")), hx(cs.val)}, "")
		if err != nil {
			fatal("strace: %v", err)
		}
		issued := map[string][]int{} // system call → its invocation numbers (strace counts per thread, over all paths)
		for _, cl := range calls {
			issued[cl.Name] = append(issued[cl.Name], cl.Nth)
		}
		os.RemoveAll(filepath.Dir(d0))
		for _, ft := range faults {
			name := ft[:bytes.IndexByte([]byte(ft), ':')]
			for _, nth := range issued[name] {
				id := fmt.Sprintf("fault#%d.%s.%d", ci, ft, nth)
				if c.Skip(id) {
					continue
				}
				d := filepath.Join(root, fmt.Sprintf("f%d", n), "store")
				n++
				os.MkdirAll(d, 0755)
				os.WriteFile(filepath.Join(d, "other"), []byte("bystander"), 0644)
				if cs.hasOld {
					os.WriteFile(filepath.Join(d, "k"), cs.old, 0644)
				}
				_, _, runErr, err := fstrace.Record(root, d, []string{probe, "set", d, hx([]byte("k")), hx(cs.val)}, fmt.Sprintf("%s:when=%d", ft, nth))
				if err != nil {
					fatal("strace: %v", err)
				}
				st, _ := util.NewFileStorage(d)
				got, gerr := st.Get("k")
				other, _ := st.Get("other")
				in := map[string]interface{}{"old_value": string(cs.old), "old_present": cs.hasOld, "new_value_bytes": len(cs.val), "failing_system_call": fmt.Sprintf("%s (invocation %d)", ft, nth), "Set_reported": fmt.Sprint(runErr)}
				switch {
				case runErr == nil && (gerr != nil || !bytes.Equal(got, cs.val)):
					c.Violate(who+": Set reports success although the value was not stored (a failed system call is ignored)", id, in, fmt.Sprintf("%d bytes as set", len(cs.val)), fmt.Sprintf("%d bytes %q…, err=%v", len(got), trunc(string(got), 20), gerr))
				case runErr != nil && cs.hasOld && (gerr != nil || !bytes.Equal(got, cs.old)):
					c.Violate(who+": a failed Set destroys the previous value of the key", id, in, string(cs.old), fmt.Sprintf("%q err=%v", trunc(string(got), 40), gerr))
				case runErr != nil && !cs.hasOld && gerr == nil:
					c.Violate(who+": a failed Set leaves a value under a key that had none", id, in, "not found", fmt.Sprintf("%d bytes", len(got)))
				}
				if string(other) != "bystander" {
					c.Violate(who+": a failed Set touches another key", id, in, "bystander", string(other))
				}
				c.Count(id, true, "stream:fault", fmt.Sprintf("fault:%s set-ok=%v", name, runErr == nil))
				os.RemoveAll(filepath.Dir(d))
			}
		}
	}
}
