package main

import (
	"bytes"
	"fmt"
	"io/ioutil"
	"math/rand"
	"os"
	"os/exec"
	"path/filepath"
	"strings"
	"sync"
	"sync/atomic"

	"hcverif/harness/internal/fstrace"

	"github.com/brutella/hc/util"
)

// storageFaults: a real storage write (child process under strace) in which ONE system call fails (openat / write /
// close / rename answered with ENOSPC, EIO, EACCES or EDQUOT by strace's fault injection).
// Whatever fails: if Set reports success the key reads back the new value in full; if Set reports an error the key
// still reads back its old value (or is still absent), and no other key is touched.
func storageFaults(c *Ctx, who string) {
	probe := c19Probe(c)
	root := c.ScratchDir()
	n := 0
	type cse struct {
		old    []byte
		hasOld bool
		val    []byte
	}
	cases := []cse{{nil, false, []byte("value")}, {[]byte("a-longer-old-value"), true, []byte("new")}, {[]byte("o"), true, bytes.Repeat([]byte("N"), 5000)}, {[]byte("same"), true, []byte("diff")}}
	faults := []string{"openat:error=ENOSPC", "openat:error=EACCES", "write:error=ENOSPC", "write:error=EIO", "write:error=EDQUOT", "close:error=EIO", "renameat:error=ENOSPC", "rename:error=ENOSPC", "renameat2:error=EIO", "fsync:error=EIO"}
	for ci, cs := range cases {
		// which system calls does this write issue? (recorded run without faults)
		d0 := filepath.Join(root, fmt.Sprintf("f%d", n), "store")
		n++
		os.MkdirAll(d0, 0755)
		calls, _, _, err := fstrace.Record(root, d0, []string{probe, "set", d0, hx([]byte("k")), hx(cs.val)}, "")
		if err != nil {
			fatal("strace: %v", err)
		}
		issued := map[string][]int{} // system call → its invocation numbers (strace counts per thread, over all paths)
		for _, cl := range calls {
			issued[cl.Name] = append(issued[cl.Name], cl.Nth)
		}
		os.RemoveAll(filepath.Dir(d0))
		for _, ft := range faults {
			name := ft[:bytes.IndexByte([]byte(ft), ':')]
			for _, nth := range issued[name] {
				id := fmt.Sprintf("fault#%d.%s.%d", ci, ft, nth)
				if c.Skip(id) {
					continue
				}
				d := filepath.Join(root, fmt.Sprintf("f%d", n), "store")
				n++
				os.MkdirAll(d, 0755)
				os.WriteFile(filepath.Join(d, "other"), []byte("bystander"), 0644)
				if cs.hasOld {
					os.WriteFile(filepath.Join(d, "k"), cs.old, 0644)
				}
				_, _, runErr, err := fstrace.Record(root, d, []string{probe, "set", d, hx([]byte("k")), hx(cs.val)}, fmt.Sprintf("%s:when=%d", ft, nth))
				if err != nil {
					fatal("strace: %v", err)
				}
				st, _ := util.NewFileStorage(d)
				got, gerr := st.Get("k")
				other, _ := st.Get("other")
				in := map[string]interface{}{"old_value": string(cs.old), "old_present": cs.hasOld, "new_value_bytes": len(cs.val), "failing_system_call": fmt.Sprintf("%s (invocation %d)", ft, nth), "Set_reported": fmt.Sprint(runErr)}
				switch {
				case runErr == nil && (gerr != nil || !bytes.Equal(got, cs.val)):
					c.Violate(who+": Set reports success although the value was not stored (a failed system call is ignored)", id, in, fmt.Sprintf("%d bytes as set", len(cs.val)), fmt.Sprintf("%d bytes %q…, err=%v", len(got), trunc(string(got), 20), gerr))
				case runErr != nil && cs.hasOld && (gerr != nil || !bytes.Equal(got, cs.old)):
					c.Violate(who+": a failed Set destroys the previous value of the key", id, in, string(cs.old), fmt.Sprintf("%q err=%v", trunc(string(got), 40), gerr))
				case runErr != nil && !cs.hasOld && gerr == nil:
					c.Violate(who+": a failed Set leaves a value under a key that had none", id, in, "not found", fmt.Sprintf("%d bytes", len(got)))
				}
				if string(other) != "bystander" {
					c.Violate(who+": a failed Set touches another key", id, in, "bystander", string(other))
				}
				c.Count(id, true, "stream:fault", fmt.Sprintf("fault:%s set-ok=%v", name, runErr == nil))
				os.RemoveAll(filepath.Dir(d))
			}
		}
	}
}

// c18ConcurrentSet: several goroutines set the same key at the same time (hc saves entities from per-connection
// goroutines), each with values of its own letter and varying lengths, while a reader keeps getting the key. Every value
// read — during and after — is one of the values that were set, in full (never a mixture of two writers' bytes).
func c18ConcurrentSet(c *Ctx) {
	for round := 0; round < c.Pick(3, 40) && c.NumViolations() < 3; round++ {
		id := c.CaseID("concurrent-set", round)
		if c.Skip(id) {
			continue
		}
		r := c.CaseRng("concurrent-set", round)
		dir := filepath.Join(c.ScratchDir(), "store")
		st, err := util.NewFileStorage(dir)
		if err != nil {
			c.Violate("storage cannot be created", id, dir, "storage", err.Error())
			continue
		}
		st2, _ := util.NewFileStorage(dir) // a second storage object on the same directory (db.NewDatabase opens its own)
		nw, per := 2+r.Intn(3), 120+r.Intn(100)
		uniform := func(b []byte) bool {
			for _, x := range b {
				if x != b[0] {
					return false
				}
			}
			return len(b) > 0 && b[0] >= 'A' && int(b[0]) < 'A'+nw
		}
		st.Set("k", []byte{'A'})
		var bad atomic.Value
		var wg sync.WaitGroup
		stop := make(chan struct{})
		for w := 0; w < nw; w++ {
			wg.Add(1)
			go func(w int) {
				defer wg.Done()
				s := st
				if w%2 == 1 {
					s = st2
				}
				rr := rand.New(rand.NewSource(int64(round*10 + w)))
				for i := 0; i < per; i++ {
					n := 1 + rr.Intn(70000)
					if i%3 == 0 {
						n = 1 + rr.Intn(200)
					}
					// in every second round the writers spell the key differently: the store strips ':' from file names, so
					// "k", "k:" and ":k" are one file (and one temporary file) — F38 — and their writers are writers of one key
					key := "k"
					if round%2 == 1 {
						key = []string{"k", "k:", ":k", "k::"}[w%4]
					}
					if err := s.Set(key, bytes.Repeat([]byte{byte('A' + w)}, n)); err != nil {
						bad.Store(fmt.Sprintf("Set returned %v", err))
					}
				}
			}(w)
		}
		go func() {
			for {
				select {
				case <-stop:
					return
				default:
				}
				if b, err := st.Get("k"); err != nil {
					bad.Store(fmt.Sprintf("Get of a live key fails while it is being overwritten: %v", err))
				} else if !uniform(b) {
					bad.Store(fmt.Sprintf("Get returned %d bytes that are not one writer's value (starts %q)", len(b), trunc(string(b), 12)))
				}
			}
		}()
		wg.Wait()
		close(stop)
		final, ferr := st.Get("k")
		in := map[string]interface{}{"writers": nw, "sets_per_writer": per, "key": "k"}
		if v := bad.Load(); v != nil {
			c.Violate("C18: concurrent Sets of one key: a Get does not return one of the values that were set", id, in, "a value some writer set, in full", v.(string))
		} else if ferr != nil || !uniform(final) {
			c.Violate("C18: concurrent Sets of one key: the stored value is a mixture of two writers' values", id, in, "a value some writer set, in full",
				fmt.Sprintf("%d bytes, err=%v, starts %q", len(final), ferr, trunc(string(final), 12)))
		}
		c.Count(id, true, "stream:concurrent-set")
		os.RemoveAll(filepath.Dir(dir))
	}
}

// c18TempSpellings: every spelling of a key whose file is another key's temporary sibling is refused, or — if it is
// accepted — keeps its value when the other key is written.
func c18TempSpellings(c *Ctx) {
	for i, sp := range []string{"k.tmp", "k.tmp/", "k.tmp/.", "./k.tmp", "x/../k.tmp", "k.t:mp", "k.tm:p", ":k.tmp:", "k.tmp:", "k..tmp", "k.TMP", "k.tmp ", "k.tmp/x/.."} {
		id := fmt.Sprintf("temp-spelling#%d", i)
		if c.Skip(id) {
			continue
		}
		dir := filepath.Join(c.ScratchDir(), "store")
		st, _ := util.NewFileStorage(dir)
		err1 := st.Set(sp, []byte("mine"))
		st.Set("k", []byte("other"))
		st.Set("k", []byte("other-again"))
		got, gerr := st.Get(sp)
		if err1 == nil && (gerr != nil || string(got) != "mine") {
			c.Violate("storage Get returns a value different from the last value set (the key's file is another key's temporary file)", id,
				map[string]interface{}{"key": sp, "then": "Set(\"k\", …) twice"}, "mine (or the key refused by Set)", fmt.Sprintf("%q err=%v", got, gerr))
		}
		if err1 != nil && gerr == nil {
			c.Violate("storage Get returns a value for a key that Set refused", id, map[string]interface{}{"key": sp}, "error", string(got))
		}
		c.Count(id, err1 != nil, "stream:temp-spelling", fmt.Sprintf("temp-spelling:refused=%v", err1 != nil))
		os.RemoveAll(filepath.Dir(dir))
	}
}

// c18ColonAlias: keys that differ only in ':' — the storage strips ':' from file names (it is not allowed in file names on
// Windows), so "a:b" and "ab" are one file. By the letter of C18 ("a get returns exactly the last value set for that key")
// this is a deviation; it is the library's design and is recorded as known finding F38.
func c18ColonAlias(c *Ctx) {
	id := "colon-alias#0"
	if c.Skip(id) {
		return
	}
	dir := filepath.Join(c.ScratchDir(), "store")
	st, _ := util.NewFileStorage(dir)
	st.Set("a:b.txt", []byte("one"))
	st.Set("ab.txt", []byte("two"))
	got, err := st.Get("a:b.txt")
	if err != nil || string(got) != "one" {
		c.Violate("storage keys that differ only in ':' share one file", id, []string{`Set("a:b.txt","one")`, `Set("ab.txt","two")`, `Get("a:b.txt")`}, "one", fmt.Sprintf("%q err=%v", got, err))
	}
	c.Count(id, true, "stream:colon-alias")
	os.RemoveAll(filepath.Dir(dir))
}

// c18RelativePath: a store opened with a relative directory keeps meaning the same directory when the process later
// changes its working directory (run in a child: the working directory is per process).
func c18RelativePath(c *Ctx) {
	probe := c19Probe(c)
	for i := 0; i < c.Pick(3, 20); i++ {
		id := c.CaseID("relative-path", i)
		if c.Skip(id) {
			continue
		}
		r := c.CaseRng("relative-path", i)
		base := filepath.Join(c.ScratchDir(), fmt.Sprint("rel", i))
		os.MkdirAll(base, 0755)
		rel := []string{"db", "./data/db", "a/../store"}[i%3]
		key := fmt.Sprintf("key%d", r.Intn(100))
		val := randBytes(r, 1+r.Intn(64))
		out, err := exec.Command(probe, "relstore", base, rel, hx([]byte(key)), hx(val)).Output()
		got := strings.TrimSpace(string(out))
		want := fmt.Sprintf("got %s 1", hx(val))
		in := map[string]interface{}{"working_directory_when_opened": base, "directory": rel, "key": key, "value_hex": hx(val), "then": "chdir(\"/\"), Get, KeysWithSuffix(\"\")"}
		if err != nil || got != want {
			c.Violate("a store opened with a relative directory loses its entries when the process changes its working directory", id, in, want, fmt.Sprint(got, " ", err))
		}
		if b, err := ioutil.ReadFile(filepath.Join(base, rel, key)); err != nil || !bytes.Equal(b, val) {
			c.Violate("a store opened with a relative directory does not keep the value in that directory", id, in, "file "+filepath.Join(base, rel, key), fmt.Sprint(err))
		}
		c.Count(id, true, "stream:relative-path")
	}
}

// c18DirectoryKeys: keys whose file would be the storage directory itself or its parent. They were never set, so Get
// must not find them; Set and Delete refuse them; and the store works afterwards (its directory is still there).
func c18DirectoryKeys(c *Ctx) {
	for i, k := range []string{"", ".", ":", ".:", "..", ":.:.", "a/.."} {
		id := fmt.Sprintf("directory-key#%d", i)
		if c.Skip(id) {
			continue
		}
		dir := filepath.Join(c.ScratchDir(), "dk", "store")
		st, _ := util.NewFileStorage(dir)
		in := map[string]interface{}{"key": k, "store": "empty, just created"}
		for _, order := range []string{"get", "delete", "get"} {
			switch order {
			case "get":
				if v, err := st.Get(k); err == nil {
					c.Violate("storage Get finds a key that was never set (the key names the storage directory)", id, in, "not found", fmt.Sprintf("found, %d bytes", len(v)))
				}
			case "delete":
				st.Delete(k)
			}
		}
		if err := st.Set("x", []byte("1")); err != nil {
			c.Violate("the store no longer works after Delete of a key that names its directory", id, in, "Set(\"x\") succeeds", err.Error())
		}
		if err := st.Set(k, []byte("v")); err == nil {
			if v, gerr := st.Get(k); gerr != nil || string(v) != "v" {
				c.Violate("storage Set accepts a key that names the storage directory and Get does not return the value", id, in, "refused, or read back", fmt.Sprintf("%q %v", v, gerr))
			}
		}
		c.Count(id, true, "stream:directory-keys")
		os.RemoveAll(filepath.Join(c.ScratchDir(), "dk"))
	}
}
