package main

// C03 — a connection becomes verified only by a valid long-term-key signature.
// Correspondence of the real /pair-verify endpoint (hap/endpoint.PairVerify + pair.VerifyServerController + hap.Session)
// with HcModel/PairVerify.lean on symbolic histories over 1-2 connections and a changing pairing store.

import (
	"bufio"
	"bytes"
	"crypto/ed25519"
	"encoding/hex"
	"encoding/json"
	"fmt"
	"github.com/brutella/hc/hap"
	"github.com/brutella/hc/util"
	"io"
	"io/ioutil"
	"math/rand"
	"net"
	"net/http"
	"os"
	"path/filepath"
	"strings"
	"sync"
	"sync/atomic"
	"time"

	"github.com/brutella/hc/accessory"
	"github.com/brutella/hc/crypto"
	"github.com/brutella/hc/db"
)

func init() { register("C03", checkC03) }

type pvMsg struct {
	Kind string // v1 v3 badmethod badstate malformed
	// v1
	Good bool
	Low  bool // v1 with a 32-byte key that is a point of small order
	E    int
	// v3
	Short     int
	KKind     string // zero eph rand
	KConn, KE int
	NonceOk   bool
	Intact    bool
	Malformed bool
	Name      int
	SigKind   string // valid garbage empty
	Signer    int
	CE        int // -1 = none (zero key)
	SigName   int
	AccConn   int
	// KBack / AccBack: WHICH ephemeral key of the accessory on that connection the seal key / the signed material was
	// computed with — 0 the one of the latest start response, k the one k start responses earlier (recorded then)
	KBack, AccBack int
	Entry          string // none nokey key
	EntryPk        int
	N              int
}

func (m pvMsg) tok() string {
	switch m.Kind {
	case "v1":
		if m.Good {
			return fmt.Sprintf("v1 good %d", m.E)
		}
		if m.Low {
			return "v1 loworder"
		}
		return fmt.Sprintf("v1 wronglen %d", m.N)
	case "v3":
		entry := m.Entry
		if m.Entry == "key" {
			entry = fmt.Sprintf("key %d", m.EntryPk)
		}
		if m.Entry == "own" {
			entry = fmt.Sprintf("own %d", m.EntryPk)
		}
		if m.Short >= 0 {
			return fmt.Sprintf("v3 short %d %s", m.Short, entry)
		}
		k := m.KKind
		switch m.KKind {
		case "eph":
			k = fmt.Sprintf("eph %d %d %d", m.KConn, m.KBack, m.KE)
		case "rand":
			k = fmt.Sprintf("rand %d", m.N)
		}
		pt := "malformed"
		if !m.Malformed {
			sig := m.SigKind
			switch m.SigKind {
			case "valid":
				ce := "-"
				if m.CE >= 0 {
					ce = fmt.Sprint(m.CE)
				}
				sig = fmt.Sprintf("valid %d %s %d %d %d", m.Signer, ce, m.SigName, m.AccConn, m.AccBack)
			case "garbage":
				sig = fmt.Sprintf("garbage %d", m.N)
			}
			pt = fmt.Sprintf("tlv %d %s", m.Name, sig)
		}
		return fmt.Sprintf("v3 sealed %s %s %s %s %s", k, b01(m.NonceOk), b01(m.Intact), pt, entry)
	case "badstate":
		return fmt.Sprintf("badstate %d", m.N)
	}
	return m.Kind
}

func (m pvMsg) noop() bool {
	return m.Kind == "badmethod" || m.Kind == "badstate" || m.Kind == "malformed"
}

func genuineV3(conn, e, name, pk int) pvMsg {
	return pvMsg{Kind: "v3", Short: -1, KKind: "eph", KConn: conn, KE: e, NonceOk: true, Intact: true, Name: name,
		SigKind: "valid", Signer: pk, CE: e, SigName: name, AccConn: conn, Entry: "key", EntryPk: pk}
}

type pvEnv struct {
	f      *accFixture
	r      *rand.Rand
	addrs  []string
	accPub [][][]byte // per connection: the accessory's ephemeral key of every start response, in order
	esk    map[int][]byte
	ids    map[int]*refIdentity
	names  map[int]string
	probes map[crypto.Cryptographer]uint64
}

// accKey: the accessory's ephemeral key `back` start responses before the latest one of the connection; a key the
// accessory never sent when there is none.
func (e *pvEnv) accKey(conn, back int) []byte {
	l := e.accPub[conn]
	if i := len(l) - 1 - back; i >= 0 && i < len(l) {
		return l[i]
	}
	return refX25519Pub(randBytes(rand.New(rand.NewSource(int64(conn)*977+int64(back))), 32))
}

func (e *pvEnv) eph(n int) []byte {
	if e.esk[n] == nil {
		e.esk[n] = randBytes(rand.New(rand.NewSource(int64(n)*104729+5)), 32)
	}
	return e.esk[n]
}

// ephPub: the public key of ephemeral key n; n = 7 is a point of small order (nobody holds a private key for it, the shared
// secret with any key is all zero) with the correct length.
func (e *pvEnv) ephPub(n int) []byte {
	return refX25519Pub(e.eph(n))
}

func (e *pvEnv) ident(n int) *refIdentity {
	if e.ids[n] == nil {
		e.ids[n] = newRefIdentity(e.r, fmt.Sprintf("key-%d", n))
	}
	return e.ids[n]
}

func (e *pvEnv) name(n int) string {
	if s, ok := e.names[n]; ok {
		return s
	}
	s := fmt.Sprintf("ctrl-%d", n)
	if n == 0 {
		s = e.f.name // the accessory's own id: an entity that is always stored
	}
	switch n {
	case 9: // the storage key of the pairing named ctrl-2, used as a NAME (another spelling of a stored pairing's file)
		s = hx([]byte("ctrl-2"))
	case 8: // … and a path to it
		s = "./" + hx([]byte("ctrl-2"))
	}
	e.names[n] = s
	return s
}

func (e *pvEnv) concretise(conn int, m pvMsg) []byte {
	switch m.Kind {
	case "v1":
		if m.Good {
			return tlvMsg(tlvOp{tState, b1(1)}, tlvOp{tPubKey, e.ephPub(m.E)})
		}
		if m.Low {
			// the points of small order on Curve25519 (u = 0, 1, two of order 8, p-1, p, p+1), some with the unused top bit set
			pts := []string{
				"0000000000000000000000000000000000000000000000000000000000000000",
				"0100000000000000000000000000000000000000000000000000000000000000",
				"e0eb7a7c3b41b8ae1656e3faf19fc46ada098deb9c32b1fd866205165f49b800",
				"5f9c95bca3508c24b1d0b1559c83ef5b04445cc4581c8e86d8224eddd09f1157",
				"ecffffffffffffffffffffffffffffffffffffffffffffffffffffffffffff7f",
				"edffffffffffffffffffffffffffffffffffffffffffffffffffffffffffff7f",
				"eeffffffffffffffffffffffffffffffffffffffffffffffffffffffffffff7f",
				"0000000000000000000000000000000000000000000000000000000000000080",
				"0100000000000000000000000000000000000000000000000000000000000080",
				"edffffffffffffffffffffffffffffffffffffffffffffffffffffffffffffff",
			}
			pt, _ := hex.DecodeString(pts[m.N%len(pts)])
			return tlvMsg(tlvOp{tState, b1(1)}, tlvOp{tPubKey, pt})
		}
		l := []int{0, 1, 31, 33, 64}[m.N%5]
		if l == 0 {
			return tlvMsg(tlvOp{tState, b1(1)})
		}
		return tlvMsg(tlvOp{tState, b1(1)}, tlvOp{tPubKey, randBytes(e.r, l)})
	case "badmethod":
		return tlvMsg(tlvOp{tState, b1(byte(1 + 2*e.r.Intn(2)))}, tlvOp{tMethod, b1(byte(1 + e.r.Intn(5)))})
	case "badstate":
		return tlvMsg(tlvOp{tState, b1(byte(m.N))})
	case "malformed":
		return [][]byte{{6}, {6, 1}, {6, 5, 1, 2}, {3, 255, 1}}[e.r.Intn(4)]
	case "v3":
		if m.Short >= 0 {
			if m.Short == 0 {
				return tlvMsg(tlvOp{tState, b1(3)})
			}
			return tlvMsg(tlvOp{tState, b1(3)}, tlvOp{tEnc, randBytes(e.r, m.Short)})
		}
		var key []byte
		switch m.KKind {
		case "zero":
			key = make([]byte, 32)
		case "eph":
			key = refHKDF(refX25519(e.eph(m.KE), e.accKey(m.KConn, m.KBack)), "Pair-Verify-Encrypt-Salt", "Pair-Verify-Encrypt-Info")
		default:
			key = randBytes(e.r, 32)
		}
		var pt []byte
		if m.Malformed {
			pt = [][]byte{{1}, {1, 9, 65}, {10, 64, 1, 2, 3}}[e.r.Intn(3)]
		} else {
			var sig []byte
			genuineSig := func() []byte {
				ce := make([]byte, 32)
				if m.CE >= 0 {
					ce = refX25519Pub(e.eph(m.CE))
				}
				info := append(append(append([]byte{}, ce...), []byte(e.name(m.SigName))...), e.accKey(m.AccConn, m.AccBack)...)
				if m.Signer == 98 { // the accessory's own long-term key (an adversary who read the storage directory has it)
					return ed25519.Sign(ed25519.PrivateKey(e.f.device.PrivateKey()), info)
				}
				return ed25519.Sign(e.ident(m.Signer).Priv, info)
			}
			switch m.SigKind {
			case "valid":
				sig = genuineSig()
			case "garbage": // not a signature: random bytes, or a genuine one with junk appended / cut short / a bit flipped
				switch m.N % 4 {
				case 0:
					sig = randBytes(e.r, 64)
				case 1:
					sig = append(genuineSig(), randBytes(e.r, 3)...)
				case 2:
					sig = genuineSig()[:63]
				default:
					sig = genuineSig()
					sig[e.r.Intn(64)] ^= 1 << uint(e.r.Intn(8))
				}
			}
			items := []tlvOp{{tID, []byte(e.name(m.Name))}}
			if sig != nil {
				items = append(items, tlvOp{tSig, sig})
			}
			pt = tlvMsg(items...)
		}
		nonce := "PV-Msg03"
		if !m.NonceOk {
			nonce = "PV-Msg02"
		}
		enc := refSeal(key, []byte(nonce), pt, nil)
		if !m.Intact {
			enc[e.r.Intn(len(enc))] ^= 1 << uint(e.r.Intn(8))
		}
		return tlvMsg(tlvOp{tState, b1(3)}, tlvOp{tEnc, enc})
	}
	panic("unknown kind")
}

// setEntry puts the pairing store into the state the message's `entry` token names, for the claimed name.
func (e *pvEnv) setEntry(m pvMsg) {
	if m.Kind != "v3" || m.Short >= 0 || m.Malformed {
		return
	}
	name := e.name(m.Name)
	// delete first: the harness must not depend on how the store overwrites a longer value (that is C18's subject)
	e.f.db.DeleteEntity(db.NewEntity(name, nil, nil))
	switch m.Entry {
	case "none":
		e.f.db.DeleteEntity(db.NewEntity(name, nil, nil))
	case "nokey":
		e.f.db.SaveEntity(db.NewEntity(name, nil, nil))
	case "key":
		e.f.db.SaveEntity(db.NewEntity(name, e.ident(m.EntryPk).Pub, nil))
	case "badkey":
		sizes := []int{1, 16, 31, 33, 64}
		e.f.db.SaveEntity(db.NewEntity(name, randBytes(e.r, sizes[e.r.Intn(len(sizes))]), nil))
	case "own":
		// the accessory's own entity, key pair included (name 0 is the accessory's id)
		e.f.db.SaveEntity(db.NewEntity(name, e.f.device.PublicKey(), e.f.device.PrivateKey()))
	}
}

// installed reports which shared secret the connection's secure session was installed with ("plain" if none).
func (e *pvEnv) installed(addr string) string {
	sess := e.f.Session(addr)
	responseWritten(e.f.ctx, e.f.raw[addr]) // the handler's response is out: a negotiated cryptographer becomes current
	enc := sess.Encrypter()
	if enc == nil {
		return "plain"
	}
	cg := enc.(crypto.Cryptographer)
	cnt := e.probes[cg]
	e.probes[cg] = cnt + 1
	rd, err := enc.Encrypt(strings.NewReader("probe"))
	if err != nil {
		return "session ?"
	}
	buf := make([]byte, 64)
	n, _ := rd.Read(buf)
	frame := buf[:n]
	try := func(shared []byte) bool {
		s := newRefControllerSession(shared)
		s.decCnt = cnt
		pt, _, ok := s.DecryptFrames(frame)
		return ok && string(pt) == "probe"
	}
	if try(make([]byte, 32)) {
		return "session zero"
	}
	own := -1
	for k, a := range e.addrs {
		if a == addr {
			own = k
		}
	}
	for n, sk := range e.esk {
		for conn, l := range e.accPub {
			for idx, ap := range l {
				if try(refX25519(sk, ap)) {
					if conn != own {
						return fmt.Sprintf("session %d of-connection-%d", n, conn)
					}
					// named relative to the connection's latest accessory key (as the model's observation is)
					return fmt.Sprintf("session %d %d", n, len(l)-1-idx)
				}
			}
		}
	}
	return "session ?"
}

// sameSession: two observations of installed() name the same installed secret although a start response in between
// moved the relative numbering by `shift`.
func sameSession(before, after string, shift int) bool {
	var e1, b1, e2, b2 int
	if n1, _ := fmt.Sscanf(before, "session %d %d", &e1, &b1); n1 == 2 {
		if n2, _ := fmt.Sscanf(after, "session %d %d", &e2, &b2); n2 == 2 {
			return e1 == e2 && b1+shift == b2
		}
	}
	return before == after
}

func (e *pvEnv) observe(addr string, status int, body []byte, pm string) string {
	var o string
	switch {
	case pm != "":
		o = "panic"
	case status == 500:
		o = "500"
	case status == 200:
		items, ok := refTlvParseStrict(body)
		if !ok {
			o = "unparseable-body"
			break
		}
		st, _ := tlvFirst(items, tState)
		errs := "-"
		if ec, ok := tlvFirst(items, tError); ok {
			errs = fmt.Sprint(ec)
		}
		o = fmt.Sprintf("tlv %d %s %s %s", st, errs, b01(tlvHas(items, tPubKey)), b01(tlvHas(items, tEnc)))
	default:
		o = fmt.Sprintf("http-%d", status)
	}
	return o + " " + e.installed(addr)
}

// learn records the accessory's ephemeral key of a start response (false: the answer is not one).
func (e *pvEnv) learn(conn, status int, body []byte) bool {
	if status != 200 {
		return false
	}
	items, ok := refTlvParse(body)
	if st, _ := tlvFirst(items, tState); !ok || st != 2 || tlvHas(items, tError) {
		return false
	}
	k := tlvGet(items, tPubKey)
	if len(k) != 32 {
		return false
	}
	e.accPub[conn] = append(e.accPub[conn], k)
	return true
}

const pvPreludeE = 90

func newPvEnv(c *Ctx, r *rand.Rand, nconn int) (*pvEnv, error) {
	a := accessory.NewSwitch(accessory.Info{Name: "Sw"})
	f, err := newAccFixture(c, "00102003", a.Accessory)
	if err != nil {
		return nil, err
	}
	e := &pvEnv{f: f, r: r, esk: map[int][]byte{}, ids: map[int]*refIdentity{}, names: map[int]string{}, probes: map[crypto.Cryptographer]uint64{}}
	for i := 0; i < nconn; i++ {
		e.addrs = append(e.addrs, fmt.Sprintf("10.0.1.%d:6000", i+1))
		e.accPub = append(e.accPub, nil)
	}
	return e, nil
}

type pvStep struct {
	Conn int
	Msg  pvMsg
}

func genPvMsg(r *rand.Rand, conn, nconn int, e *int, started bool) pvMsg {
	other := (conn + 1) % nconn
	name := r.Intn(4)
	pk := 10 + name
	switch r.Intn(13) {
	case 0, 1, 2:
		if r.Intn(2) == 0 {
			*e = r.Intn(4)
		}
		return pvMsg{Kind: "v1", Good: true, E: *e}
	case 3:
		if r.Intn(2) == 0 {
			return pvMsg{Kind: "v1", Good: false, Low: true, N: r.Intn(10)}
		}
		return pvMsg{Kind: "v1", Good: false, N: r.Intn(5)}
	case 4, 5, 6:
		if name == 0 && r.Intn(2) == 0 {
			// a finish that names the accessory itself, signed with the accessory's own long-term key: no controller
			m := genuineV3(conn, *e, 0, 99)
			m.Entry, m.Signer = "own", 98
			return m
		}
		return genuineV3(conn, *e, name, pk)
	case 7, 8, 9:
		m := genuineV3(conn, *e, name, pk)
		switch r.Intn(18) {
		case 16:
			m.KBack, m.AccBack = 1, 1 // the finish of the previous exchange of this connection, sent again
		case 17:
			m.AccBack = 1 + r.Intn(2) // signed over an accessory key of an earlier exchange, sealed under the current key
		case 0:
			m.Entry = "none" // unknown controller
		case 1:
			m.Entry = "nokey"
			if r.Intn(2) == 0 {
				m.Entry = "badkey" // a stored key of a wrong size (/pairings add stores any): nothing verifies under it
			}
		case 2:
			m.EntryPk = pk + 50 // stored key differs from the signer
		case 3:
			m.SigKind, m.N = "garbage", r.Intn(9)
		case 4:
			m.SigKind = "empty"
		case 5:
			m.CE = (*e + 1) % 4 // signature over a stale / other ephemeral key
		case 6:
			m.CE = -1
		case 7:
			m.SigName = (name + 1) % 4
		case 8:
			m.AccConn = other // signature over the other connection's accessory key
		case 9:
			m.KKind = "zero"
		case 10:
			m.KKind, m.N = "rand", r.Intn(9)
		case 11:
			m.KConn = other
		case 12:
			m.KE = (*e + 1) % 4
		case 13:
			m.NonceOk = false
		case 14:
			m.Intact = false
		default:
			m.Malformed = true
		}
		return m
	case 10:
		m := pvMsg{Kind: "v3", Short: r.Intn(16), Entry: "none"}
		return m
	case 11:
		return pvMsg{Kind: []string{"badmethod", "malformed"}[r.Intn(2)]}
	default:
		return pvMsg{Kind: "badstate", N: []int{0, 2, 4, 5, 9, 200}[r.Intn(6)]}
	}
}

func genPvHistory(r *rand.Rand, nconn int) []pvStep {
	var h []pvStep
	es := make([]int, nconn)
	started := make([]bool, nconn)
	n := 1 + r.Intn(10)
	for len(h) < n {
		c := r.Intn(nconn)
		var m pvMsg
		for try := 0; try < 20; try++ {
			m = genPvMsg(r, c, nconn, &es[c], started[c])
			want := "v1"
			if started[c] {
				want = "v3"
			}
			if m.Kind == want || m.noop() || r.Intn(4) == 0 {
				break
			}
		}
		h = append(h, pvStep{c, m})
		if !m.noop() {
			started[c] = m.Kind == "v1" && m.Good && !started[c]
		}
	}
	return h
}

func pvCorpus() [][]pvStep {
	g := func(f func(m *pvMsg)) pvMsg { m := genuineV3(0, 1, 0, 10); f(&m); return m }
	start := pvMsg{Kind: "v1", Good: true, E: 1}
	return [][]pvStep{
		// F3: bad signature for a stored name (the accessory's own id) must not verify
		{{0, start}, {0, g(func(m *pvMsg) { m.SigKind = "garbage" })}},
		{{0, start}, {0, g(func(m *pvMsg) { m.SigKind = "empty" })}},
		{{0, start}, {0, g(func(m *pvMsg) { m.EntryPk = 77 })}},
		// rejected start, then a finish sealed under the all-zero key
		{{0, pvMsg{Kind: "v1", Good: false, N: 2}}, {0, g(func(m *pvMsg) { m.KKind = "zero"; m.CE = -1; m.SigKind = "garbage" })}},
		{{0, pvMsg{Kind: "v1", Good: false, N: 0}}, {0, g(func(m *pvMsg) { m.KKind = "zero"; m.CE = -1 })}},
		// an exchange that failed, then a start whose key is a point of small order, then the finish made for the FIRST exchange
		{{0, start}, {0, g(func(m *pvMsg) { m.SigKind = "garbage" })}, {0, pvMsg{Kind: "v1", Low: true, N: 2}}, {0, genuineV3(0, 1, 0, 10)}},
		{{0, start}, {0, pvMsg{Kind: "v3", Short: 7, Entry: "none"}}, {0, pvMsg{Kind: "v1", Low: true, N: 2}}, {0, genuineV3(0, 1, 2, 12)}},
		// ctrl-2 is paired (key 12) and verifies; then a finish that claims the NAME "<storage key of ctrl-2>" (or a path to
		// it), signed with that same key: no pairing is stored under that name
		{{0, start}, {0, genuineV3(0, 1, 2, 12)}, {1, pvMsg{Kind: "v1", Good: true, E: 2}}, {1, func() pvMsg { m := genuineV3(1, 2, 9, 12); m.Entry = "none"; return m }()}},
		{{0, start}, {0, genuineV3(0, 1, 2, 12)}, {1, pvMsg{Kind: "v1", Good: true, E: 2}}, {1, func() pvMsg { m := genuineV3(1, 2, 8, 12); m.Entry = "none"; return m }()}},
		// honest
		{{0, start}, {0, genuineV3(0, 1, 0, 10)}},
		{{0, start}, {0, pvMsg{Kind: "badstate", N: 9}}, {0, genuineV3(0, 1, 2, 12)}},
		// replay of the finish in a second exchange with the same ephemeral key, and after a failed one
		{{0, start}, {0, genuineV3(0, 1, 0, 10)}, {0, genuineV3(0, 1, 0, 10)}},
		{{0, start}, {0, g(func(m *pvMsg) { m.Intact = false })}, {0, genuineV3(0, 1, 0, 10)}},
		{{0, start}, {0, pvMsg{Kind: "v3", Short: 7, Entry: "none"}}, {0, genuineV3(0, 1, 0, 10)}},
		{{0, genuineV3(0, 1, 0, 10)}},
		// a stored long-term key that is not 32 bytes long: a genuine-looking finish and one with a garbage signature
		{{0, start}, {0, g(func(m *pvMsg) { m.Entry = "badkey" })}},
		{{0, start}, {0, g(func(m *pvMsg) { m.Entry, m.SigKind, m.N = "badkey", "garbage", 3 })}, {0, start}, {0, genuineV3(0, 1, 0, 10)}},
		// F61: a start with a key of small order opens no exchange; the finish sealed under the key of the all-zero secret
		{{0, pvMsg{Kind: "v1", Low: true, N: 0}}, {0, g(func(m *pvMsg) { m.KKind = "zero"; m.CE = -1 })}},
		{{0, pvMsg{Kind: "v1", Low: true, N: 5}}, {0, start}, {0, genuineV3(0, 1, 0, 10)}},
		// F16: the accessory itself is no controller (a finish naming it, signed with its own long-term key)
		{{0, start}, {0, g(func(m *pvMsg) { m.Name, m.SigName, m.Entry, m.EntryPk, m.Signer = 0, 0, "own", 99, 98 })}},
		// F42: a second exchange with the SAME controller key on the connection; the recorded finish of the first one is
		// sent again (sealed under, and signed over, the accessory key of the first exchange) — and the genuine one after it
		{{0, start}, {0, genuineV3(0, 1, 0, 10)}, {0, start}, {0, g(func(m *pvMsg) { m.KBack, m.AccBack = 1, 1 })}},
		{{0, start}, {0, genuineV3(0, 1, 0, 10)}, {0, start}, {0, g(func(m *pvMsg) { m.AccBack = 1 })}, {0, start}, {0, genuineV3(0, 1, 0, 10)}},
		{{0, start}, {0, genuineV3(0, 1, 2, 12)}, {0, start}, {0, genuineV3(0, 1, 2, 12)}},
	}
}

func checkC03(c *Ctx) {
	c03Handover(c)
	c03ConcurrentLookups(c)
	c03StaleTemp(c)
	c03Revocation(c)
	c03Rekey(c)
	c03VerifyInterleaved(c)
	c03PlainFraming(c)
	c.SetRule("histories of 1-10 symbolic pair-verify messages on 1-2 interleaved connections with a pairing store that changes between messages " +
		"(alphabet: start with good / wrong-length key; finish genuine, unknown name, entity without key, stored key ≠ signer, garbage/empty signature, " +
		"signature over stale/zero ephemeral key, other name, other connection's accessory key; sealed under zero / random / other exchange's / other connection's key; " +
		"wrong nonce; bit-flipped; <16 bytes; malformed sub-TLV; unknown state/method; malformed TLV). non-trivial = history contains an accepted start. " +
		"Observed: HTTP status, TLV state/error, and which shared secret the session's installed cryptographer uses (probed through Session.Encrypter())")
	c.Assume("X25519 / HKDF / ChaCha20-Poly1305 / Ed25519 behave like the free term algebra of HcModel/PairVerify.lean (idealisation; exercised on the real primitives)")
	type hcase struct {
		id    string
		nconn int
		h     []pvStep
		seed  int
	}
	var cases []hcase
	for i, h := range pvCorpus() {
		nc := 1
		for _, st := range h {
			if st.Conn+1 > nc {
				nc = st.Conn + 1
			}
		}
		cases = append(cases, hcase{fmt.Sprintf("corpus#%d", i), nc, h, i})
	}
	for i := 0; i < c.Pick(800, 80000); i++ {
		r := c.CaseRng("hist", i)
		nconn := 1 + r.Intn(2)
		cases = append(cases, hcase{c.CaseID("hist", i), nconn, genPvHistory(r, nconn), i})
	}
	var live []hcase
	for _, cs := range cases {
		if !c.Skip(cs.id) {
			live = append(live, cs)
		}
	}
	prelude := []pvMsg{{Kind: "v1", Good: true, E: pvPreludeE}, {Kind: "v1", Good: true, E: pvPreludeE}}
	var lines []string
	type lref struct{ ci, conn int }
	var refs []lref
	for ci, cs := range live {
		for conn := 0; conn < cs.nconn; conn++ {
			toks := []string{prelude[0].tok(), prelude[1].tok()}
			for _, s := range cs.h {
				if s.Conn == conn {
					toks = append(toks, s.Msg.tok())
				}
			}
			lines = append(lines, fmt.Sprintf("pairverify run 1 %d %s", conn, strings.Join(toks, " ; ")))
			refs = append(refs, lref{ci, conn})
		}
	}
	model := c.Model(lines)
	modelObs := map[lref][]string{}
	for i, rf := range refs {
		if model[i] == "bad-op" {
			c.Mismatch("pairverify", live[rf.ci].id, lines[i], "bad-op", "")
			continue
		}
		modelObs[rf] = strings.Split(model[i], " ; ")
	}
	implObs := make([][]string, len(live))
	preObs := make([][]string, len(live))
	parallel(len(live), func(ci int) {
		cs := live[ci]
		r := c.CaseRng("concretise", cs.seed)
		env, err := newPvEnv(c, r, cs.nconn)
		if err != nil {
			c.Violate("pair-verify fixture cannot be built", cs.id, nil, "fixture", err.Error())
			return
		}
		defer env.f.Close()
		// prelude on every connection (part of the modelled history): learns the accessory's ephemeral key
		for conn := 0; conn < cs.nconn; conn++ {
			for k, m := range prelude {
				st, resp, _, pm := env.f.Do(env.addrs[conn], "POST", "/pair-verify", "application/pairing+tlv8", env.concretise(conn, m))
				if k == 0 {
					if !env.learn(conn, st, resp) {
						c.Violate("pair-verify start is not answered with the accessory's ephemeral key", cs.id, m.tok(), "32-byte key", fmt.Sprint(st, pm))
						return
					}
				}
				preObs[ci] = append(preObs[ci], env.observe(env.addrs[conn], st, resp, pm))
			}
		}
		lastStart := make([]int, cs.nconn)
		for i := range lastStart {
			lastStart[i] = -1
		}
		reached := false
		var hist []string
		for _, s := range cs.h {
			m := s.Msg
			env.setEntry(m)
			before := env.installed(env.addrs[s.Conn])
			st, resp, _, pm := env.f.Do(env.addrs[s.Conn], "POST", "/pair-verify", "application/pairing+tlv8", env.concretise(s.Conn, m))
			shift := 0
			if m.Kind == "v1" && m.Good && env.learn(s.Conn, st, resp) {
				shift = 1 // a start response: the accessory's key of a new exchange (earlier keys are now one further back)
			}
			obs := env.observe(env.addrs[s.Conn], st, resp, pm)
			implObs[ci] = append(implObs[ci], obs)
			hist = append(hist, fmt.Sprintf("c%d:%s", s.Conn, m.tok()))
			after := obs[strings.LastIndex(obs, " session")+1:]
			if !strings.Contains(obs, " session") {
				after = "plain"
			}
			// ---- direct oracles
			if m.Kind == "v1" && m.Low && strings.HasPrefix(obs, "tlv 2") {
				c.Violate("pair-verify opens an exchange for a controller key of small order (the shared secret is all zero whatever the accessory's key pair is: every session negotiated this way has the same keys, a recorded frame of one is a frame of the next)", cs.id,
					append(append([]string{}, hist...)), "the start request is refused", obs)
			}
			e := lastStart[s.Conn]
			genuine := e >= 0 && m.Kind == "v3" && m.tok() == genuineV3(s.Conn, e, m.Name, m.EntryPk).tok()
			success := strings.HasPrefix(obs, "tlv 4 - ")
			if (!sameSession(before, after, shift) || success) && !genuine {
				c.Violate("pair-verify verified a connection (or answered success) without a valid signature by the stored long-term key over this exchange",
					cs.id, hist, "error answer, session unchanged ("+before+")", obs)
			}
			if genuine && after != fmt.Sprintf("session %d 0", e) {
				c.Violate("pair-verify did not verify a connection that presented a valid finish", cs.id, hist, fmt.Sprintf("session %d 0 (the secret of this exchange)", e), obs)
			}
			if m.Kind == "v3" && !genuine && !(strings.HasPrefix(obs, "500") || (strings.HasPrefix(obs, "tlv") && !strings.HasPrefix(obs, "tlv 4 - ") && strings.Fields(obs)[2] != "-")) {
				c.Violate("pair-verify failure is not answered with an error", cs.id, hist, "HTTP 500 or TLV error code", obs)
			}
			if !m.noop() {
				lastStart[s.Conn] = -1
				if m.Kind == "v1" && m.Good && strings.HasPrefix(obs, "tlv 2 - ") {
					lastStart[s.Conn] = m.E
					reached = true
				}
			}
		}
		c.Count(fmt.Sprint(hist), reached, fmt.Sprintf("len=%d", len(cs.h)), fmt.Sprintf("conns=%d", cs.nconn))
		for _, o := range implObs[ci] {
			f := strings.Fields(o)
			if len(f) >= 2 && f[len(f)-2] == "session" && f[len(f)-1] != "zero" && f[len(f)-1] != "?" {
				f[len(f)-1] = "e"
			}
			c.Hist("obs:" + strings.Join(f, " "))
		}
		c.Trace()
	})
	for ci, cs := range live {
		if len(implObs[ci]) != len(cs.h) {
			continue
		}
		for conn := 0; conn < cs.nconn; conn++ {
			impl := append([]string{}, preObs[ci][2*conn:2*conn+2]...)
			toks := []string{prelude[0].tok(), prelude[1].tok()}
			for idx, s := range cs.h {
				if s.Conn == conn {
					impl = append(impl, implObs[ci][idx])
					toks = append(toks, s.Msg.tok())
				}
			}
			c.Same("pairverify", cs.id, map[string]interface{}{"conn": conn, "messages": toks},
				strings.Join(modelObs[lref{ci, conn}], " ; "), strings.Join(impl, " ; "))
		}
		if ci%100 == 0 {
			var toks []string
			for _, s := range cs.h {
				toks = append(toks, fmt.Sprintf("c%d:%s", s.Conn, s.Msg.tok()))
			}
			c.Sample(map[string]interface{}{"history": toks, "observed": implObs[ci]})
		}
	}
}

// ---- hand-over of the connection to the negotiated cryptographer ------------------------------------------------------

// hoConn is a net.Conn whose Read blocks until bytes are pushed (or the connection is closed) and signals when a Read starts.
type hoConn struct {
	mu      sync.Mutex
	in      []byte
	wake    chan struct{}
	started chan struct{}
	out     [][]byte
	closed  bool
	gate    chan struct{} // when set, a Write announces itself on entered and waits here before it completes
	entered chan struct{}
}

func newHoConn() *hoConn {
	return &hoConn{wake: make(chan struct{}, 64), started: make(chan struct{}, 64), entered: make(chan struct{}, 4)}
}
func (h *hoConn) Read(b []byte) (int, error) {
	h.started <- struct{}{}
	deadline := time.After(3 * time.Second)
	for {
		h.mu.Lock()
		if h.closed {
			h.mu.Unlock()
			return 0, io.ErrClosedPipe
		}
		if len(h.in) > 0 {
			n := copy(b, h.in)
			h.in = h.in[n:]
			h.mu.Unlock()
			return n, nil
		}
		h.mu.Unlock()
		select {
		case <-h.wake:
		case <-deadline:
			return 0, io.EOF
		}
	}
}
func (h *hoConn) push(b []byte) {
	h.mu.Lock()
	h.in = append(h.in, b...)
	h.mu.Unlock()
	h.wake <- struct{}{}
}
func (h *hoConn) Write(b []byte) (int, error) {
	h.mu.Lock()
	g := h.gate
	h.mu.Unlock()
	if g != nil {
		h.entered <- struct{}{}
		<-g
	}
	h.mu.Lock()
	defer h.mu.Unlock()
	h.out = append(h.out, append([]byte{}, b...)) // recorded also when the connection is closed (what the writer tried to send)
	if h.closed {
		return 0, io.ErrClosedPipe
	}
	return len(b), nil
}
func (h *hoConn) Close() error {
	h.mu.Lock()
	h.closed = true
	h.mu.Unlock()
	select {
	case h.wake <- struct{}{}:
	default:
	}
	return nil
}
func (h *hoConn) isClosed() bool                     { h.mu.Lock(); defer h.mu.Unlock(); return h.closed }
func (h *hoConn) LocalAddr() net.Addr                { return fakeAddr("127.0.0.1:1") }
func (h *hoConn) RemoteAddr() net.Addr               { return fakeAddr("10.0.4.1:4000") }
func (h *hoConn) SetDeadline(t time.Time) error      { return nil }
func (h *hoConn) SetReadDeadline(t time.Time) error  { return nil }
func (h *hoConn) SetWriteDeadline(t time.Time) error { return nil }

// hoSchedule draws an operation sequence that respects the model's assumptions about one finish request: the handler
// negotiates (at most once) before its answer, the controller sends ciphertext only after a negotiated answer, a read
// completes only when something is in flight; `excess` (bytes glued behind the request) can only come first.
func hoSchedule(r *rand.Rand) []string {
	var ops []string
	crypt, wrote, pending, wire, sent, writing := false, false, false, false, false, false
	if r.Intn(4) == 0 {
		ops = append(ops, "excess")
	}
	for len(ops) < 3+r.Intn(6) {
		var cand []string
		if pending && wire {
			// bytes are in flight towards a waiting read: the read completes on its own, so nothing else may be scheduled first
			cand = []string{"readDone"}
		} else {
			if !pending {
				cand = append(cand, "readStart", "readStart")
			}
			if !crypt && !wrote && !writing && r.Intn(3) > 0 {
				cand = append(cand, "setCrypt", "setCrypt")
			}
			if !wrote && !writing {
				cand = append(cand, "writeResp", "writeBegin")
			}
			if writing {
				cand = append(cand, "writeEnd", "writeEnd")
			}
			if wrote && crypt && !wire && !sent {
				cand = append(cand, "peerSends", "peerSends")
			}
			if !wire {
				cand = append(cand, "foreign")
			}
			cand = append(cand, "event")
		}
		if len(cand) == 0 {
			break
		}
		op := cand[r.Intn(len(cand))]
		switch op {
		case "readStart":
			pending = true
		case "setCrypt":
			crypt = true
		case "writeResp":
			wrote = true
		case "writeBegin":
			writing = true
		case "writeEnd":
			writing, wrote = false, true
		case "peerSends":
			wire, sent = true, true
		case "foreign":
			wire = true
		case "readDone":
			pending, wire = false, false
		}
		ops = append(ops, op)
	}
	if pending && wire {
		ops = append(ops, "readDone")
	}
	if writing {
		ops = append(ops, "writeEnd")
	}
	return ops
}

// c03Handover forces interleavings of (a read starting | the handler negotiating the cryptographer | the answer being
// written | the controller sending ciphertext | foreign plaintext arriving, glued behind the finish request or on its
// own) on a real hap.Connection and compares with HcModel/Handover.lean.
func c03Handover(c *Ctx) {
	schedules := [][]string{
		{"readStart", "setCrypt", "writeResp", "peerSends", "readDone"},
		{"setCrypt", "readStart", "writeResp", "peerSends", "readDone"},
		{"setCrypt", "writeResp", "readStart", "peerSends", "readDone"},
		{"setCrypt", "writeResp", "peerSends", "readStart", "readDone"},
		{"excess", "setCrypt", "writeResp"},
		{"readStart", "foreign", "readDone", "setCrypt", "writeResp"},
		{"readStart", "setCrypt", "foreign", "readDone", "writeResp"},
		{"setCrypt", "writeResp", "readStart", "foreign", "readDone"},
		{"writeResp", "readStart", "foreign", "readDone"},
		{"readStart", "foreign", "readDone"},
		{"setCrypt", "event", "writeResp", "peerSends", "readStart", "readDone"},
		{"event", "setCrypt", "event", "writeResp", "event"},
		{"event", "writeResp", "event"},
		{"readStart", "setCrypt", "writeBegin", "foreign", "readDone", "writeEnd"},
		{"setCrypt", "writeBegin", "readStart", "foreign", "readDone", "writeEnd"},
		{"setCrypt", "writeBegin", "event", "writeEnd", "event"},
		{"writeBegin", "readStart", "foreign", "readDone", "writeEnd"},
	}
	nfixed := len(schedules)
	for i := 0; i < c.Pick(60, 1500); i++ {
		schedules = append(schedules, hoSchedule(c.CaseRng("handover-sched", i)))
	}
	var mu sync.Mutex
	parallel(len(schedules), func(si int) {
		ops := schedules[si]
		id := fmt.Sprintf("handover#%d", si)
		if c.Skip(id) {
			return
		}
		r := c.CaseRng("handover", si)
		raw := newHoConn()
		ctx := hap.NewContextForSecuredDevice(nil)
		conn := hap.NewConnection(raw, ctx)
		sess := ctx.GetSessionForConnection(raw)
		var shared [32]byte
		copy(shared[:], randBytes(r, 32))
		sec, _ := crypto.NewSecureSessionFromSharedKey(shared)
		peer := newRefControllerSession(shared[:])
		body := randBytes(r, 1+r.Intn(60))
		finish := []byte(fmt.Sprintf("POST /pair-verify HTTP/1.1\r\nHost: x\r\nContent-Type: application/pairing+tlv8\r\nContent-Length: %d\r\n\r\n%s", len(body), body))
		answer := []byte("HTTP/1.1 200 OK\r\nContent-Type: application/pairing+tlv8\r\nContent-Length: 3\r\n\r\n\x06\x01\x04")
		request := []byte(fmt.Sprintf("GET /accessories?%d HTTP/1.1\r\nHost: x\r\n\r\n", r.Intn(1000)))
		// longer than any frame its first two bytes could announce, so that a decrypting read does not wait for more
		foreignReq := []byte("PUT /characteristics HTTP/1.1\r\nHost: x\r\nX-Pad: " + strings.Repeat("a", 23000) + "\r\nContent-Length: 0\r\n\r\n")
		type rd struct {
			b   byte
			n   int
			err error
		}
		done := make(chan rd, 1)
		resp, delivered, foreign := "none", "none", 0
		wire := ""
		var viol []func()
		// the finish request itself is read first (with foreign bytes glued behind it when the schedule starts with `excess`)
		first := append([]byte{}, finish...)
		rest := ops
		if len(ops) > 0 && ops[0] == "excess" {
			first = append(first, foreignReq[:200+r.Intn(200)]...)
			rest = ops[1:]
		}
		raw.push(first)
		var got []byte
		buf := make([]byte, 4096)
		for len(got) < len(first) {
			n, err := conn.Read(buf)
			got = append(got, buf[:n]...)
			if err != nil || n == 0 {
				break
			}
		}
		if len(got) > len(finish) {
			foreign = 1
		} else if !raw.isClosed() && !bytes.Equal(got, finish) {
			viol = append(viol, func() {
				c.Violate("a plaintext request is not handed on unchanged", id, ops, hx(finish), hx(got))
			})
		}
		answerChunks, writeBase := 0, 0
		var writeDone chan struct{}
		conn.SetServing(true) // net/http: the request was read, the connection is active until the response is written
		eventMsg := []byte("EVENT/1.0 200 OK\r\nContent-Type: application/hap+json\r\nContent-Length: 49\r\n\r\n{\"characteristics\":[{\"aid\":1,\"iid\":10,\"value\":42}]}")
		for _, op := range rest {
			if raw.isClosed() {
				break
			}
			switch op {
			case "event":
				conn.WriteEvent(eventMsg)
			case "readStart":
				for drained := false; !drained; { // signals of earlier reads (the request itself) must not be taken for this one
					select {
					case <-raw.started:
					default:
						drained = true
					}
				}
				go func() {
					var one [1]byte // net/http's background read asks for one byte
					n, err := conn.Read(one[:])
					done <- rd{one[0], n, err}
				}()
				select {
				case <-raw.started:
				case <-time.After(2 * time.Second):
				}
			case "setCrypt":
				sess.SetCryptographer(sec)
			case "writeResp":
				raw.mu.Lock()
				base := len(raw.out)
				raw.mu.Unlock()
				conn.Write(answer)
				raw.mu.Lock()
				var all []byte
				for _, o := range raw.out[base:] {
					all = append(all, o...)
				}
				answerChunks = len(raw.out) - base
				raw.mu.Unlock()
				conn.SetServing(false) // the response is out: the connection is idle, events that were kept back are written
				if bytes.Equal(all, answer) {
					resp = "plain"
				} else {
					resp = "enc"
					viol = append(viol, func() {
						c.Violate("the answer to the pair-verify finish request is not sent in plaintext (cryptographer handed over too early)", id, ops, "plaintext M4", fmt.Sprintf("%d bytes, first %s", len(all), hx(all[:min(8, len(all))])))
					})
				}
			case "writeBegin":
				raw.mu.Lock()
				writeBase = len(raw.out)
				raw.gate = make(chan struct{})
				raw.mu.Unlock()
				writeDone = make(chan struct{})
				go func() { conn.Write(answer); close(writeDone) }()
				select {
				case <-raw.entered: // the answer is on its way to the socket
				case <-time.After(2 * time.Second):
				}
			case "writeEnd":
				if writeDone == nil {
					break
				}
				raw.mu.Lock()
				g := raw.gate
				raw.gate = nil
				raw.mu.Unlock()
				close(g)
				<-writeDone
				writeDone = nil
				raw.mu.Lock()
				var all []byte
				if writeBase < len(raw.out) {
					all = raw.out[writeBase]
				}
				answerChunks = 1
				raw.mu.Unlock()
				conn.SetServing(false)
				if bytes.Equal(all, answer) {
					resp = "plain"
				} else {
					resp = "enc"
					viol = append(viol, func() {
						c.Violate("the answer to the pair-verify finish request is not sent in plaintext (cryptographer handed over too early)", id, ops, "plaintext M4", fmt.Sprintf("%d bytes, first %s", len(all), hx(all[:min(8, len(all))])))
					})
				}
			case "peerSends":
				raw.push(peer.Encrypt(request))
				wire = "cipher"
			case "foreign":
				raw.push(foreignReq)
				wire = "foreign"
			case "readDone":
				select {
				case x := <-done:
					if os.Getenv("HO_DEBUG") != "" {
						fmt.Fprintf(os.Stderr, "HO readDone %s wire=%s n=%d b=%02x err=%v\n", id, wire, x.n, x.b, x.err)
					}
					switch {
					case wire == "cipher":
						got := []byte{x.b}
						if x.n == 1 && x.b == request[0] {
							delivered = "dec"
							more := make([]byte, len(request))
							for len(got) < len(request) {
								n, err := conn.Read(more)
								if n == 0 || err != nil {
									break
								}
								got = append(got, more[:n]...)
							}
						} else {
							delivered = "plain"
						}
						if !bytes.Equal(got, request) {
							viol = append(viol, func() {
								c.Violate("bytes sent by the controller after the pair-verify answer do not arrive decrypted (read was already waiting)", id, ops, string(request), fmt.Sprintf("n=%d err=%v first byte %02x, %d bytes in all", x.n, x.err, x.b, len(got)))
							})
						}
					case wire == "foreign":
						if x.n == 1 && x.b == foreignReq[0] {
							foreign = 1
						}
					}
					wire = ""
				case <-time.After(5 * time.Second):
					viol = append(viol, func() {
						c.Violate("read on the connection does not return after bytes arrived", id, ops, "bytes or an error", "timeout")
					})
				}
			}
		}
		if writeDone != nil { // the connection was closed while the answer was on its way: let the write finish
			raw.mu.Lock()
			g := raw.gate
			raw.gate = nil
			raw.mu.Unlock()
			close(g)
			<-writeDone
			raw.mu.Lock()
			if writeBase < len(raw.out) {
				if bytes.Equal(raw.out[writeBase], answer) {
					resp = "plain"
				} else {
					resp = "enc"
				}
				answerChunks = 1
			}
			raw.mu.Unlock()
		}
		closed := 0
		if raw.isClosed() {
			closed = 1
		}
		verified := sess.Encrypter() != nil || sess.Decrypter() != nil
		// every Write reaches the scripted connection as one piece: what is not the answer is an event
		raw.mu.Lock()
		evOut := len(raw.out) - answerChunks
		raw.mu.Unlock()
		nEv := 0
		for _, op := range ops {
			if op == "event" {
				nEv++
			}
		}
		impl := fmt.Sprintf("resp=%s delivered=%s closed=%d foreign=%d events=%d", resp, delivered, closed, foreign, evOut)
		model := c.Model1("handover run 3 " + strings.Join(ops, " "))
		if p := strings.Index(model, " queued="); p >= 0 { // what is still kept back is not observable from outside
			model = model[:p]
		}
		_ = nEv
		raw.Close()
		mu.Lock()
		defer mu.Unlock()
		if foreign == 1 && verified {
			c.Violate("bytes that never went through the session's Decrypt were handed to the HTTP layer on a connection that this finish request verifies (a plaintext request glued behind a genuine pair-verify finish would be served)", id, ops,
				"connection closed, or the bytes refused", impl)
		}
		for _, v := range viol {
			v()
		}
		if os.Getenv("HO_DEBUG") != "" {
			fmt.Fprintln(os.Stderr, "HO", id, ops, "| model:", model, "| impl:", impl, "| verified:", verified)
		}
		c.Same("handover", id, ops, model, impl)
		kind := "random"
		if si < nfixed {
			kind = "fixed"
		}
		c.Count(fmt.Sprint(ops), true, "stream:handover", "handover:"+kind, "handover-impl:"+impl)
	})
}

// ---- revocation and key replacement under interleaved lookups ------------------------------------------------------------

// hookStorage runs a callback at the two boundaries of every storage operation.
type hookStorage struct {
	util.Storage
	hook func(point string)
}

func (h *hookStorage) at(p string) {
	if h.hook != nil {
		h.hook(p)
	}
}
func (h *hookStorage) Set(k string, v []byte) error {
	h.at("before Set")
	err := h.Storage.Set(k, v)
	h.at("after Set")
	return err
}
func (h *hookStorage) Delete(k string) error {
	h.at("before Delete")
	err := h.Storage.Delete(k)
	h.at("after Delete")
	return err
}
func (h *hookStorage) Get(k string) ([]byte, error) {
	h.at("before Get")
	b, err := h.Storage.Get(k)
	h.at("after Get")
	return b, err
}

// c03Revocation: "the long-term key STORED for the claimed controller name". A pairing is removed (or its key replaced)
// while another connection's pair-verify looks the same controller up; the second operation runs in full at every storage
// boundary of the first (both orders). Once both have returned, the store is what the later of the two says — a removed
// controller no longer verifies, a replaced key verifies and the old one does not — whatever the interleaving was.
func c03Revocation(c *Ctx) {
	type opfn func(f *accFixture, name string, k2 *refIdentity)
	lookup := func(f *accFixture, name string, _ *refIdentity) { f.db.EntityWithName(name) }
	remove := func(f *accFixture, name string, _ *refIdentity) { f.db.DeleteEntity(db.NewEntity(name, nil, nil)) }
	replace := func(f *accFixture, name string, k2 *refIdentity) { f.db.SaveEntity(db.NewEntity(name, k2.Pub, nil)) }
	list := func(f *accFixture, name string, _ *refIdentity) { f.db.Entities() }
	type pairing struct {
		a, b   string
		fa, fb opfn
		final  string // removed | replaced
	}
	pairs := []pairing{
		{"lookup", "remove", lookup, remove, "removed"}, {"remove", "lookup", remove, lookup, "removed"},
		{"lookup", "replace", lookup, replace, "replaced"}, {"replace", "lookup", replace, lookup, "replaced"},
		{"list", "remove", list, remove, "removed"}, {"remove", "list", remove, list, "removed"},
	}
	for pi, p := range pairs {
		for point := 0; point < 8; point++ {
			id := fmt.Sprintf("revocation#%s-inside-%s.%d", p.b, p.a, point)
			if c.Skip(id) {
				continue
			}
			r := c.CaseRng("revocation", pi*10+point)
			hs := &hookStorage{}
			sw := accessory.NewSwitch(accessory.Info{Name: "R"})
			f, err := newAccFixtureOpt(c, "00102003", func(s util.Storage) util.Storage { hs.Storage = s; return hs }, nil, sw.Accessory)
			if err != nil {
				c.Violate("fixture cannot be built", id, nil, "fixture", err.Error())
				return
			}
			name := fmt.Sprintf("ctrl-%d", r.Intn(1000))
			k1, k2 := newRefIdentity(r, name), newRefIdentity(r, name)
			f.db.SaveEntity(db.NewEntity(name, k1.Pub, nil))
			f.db.EntityWithName(name) // a lookup before: whatever the database remembers about this name, it has it now
			n, where := 0, ""
			fired := false
			hs.hook = func(pt string) {
				if fired {
					return
				}
				if n == point {
					fired = true
					where = pt
					p.fb(f, name, k2)
				}
				n++
			}
			p.fa(f, name, k2)
			hs.hook = nil
			if !fired {
				f.Close()
				continue // operation A has fewer boundaries than `point`
			}
			in := map[string]interface{}{"first_operation": p.a, "second_operation_runs_in_full": where + fmt.Sprintf(" (boundary %d of the first)", point), "second_operation": p.b}
			ent, lerr := f.db.EntityWithName(name)
			verifies := func(idn *refIdentity, addr string) bool {
				vr := refPairVerify(r, f.Post(addr), idn, f.device.PublicKey())
				return vr.Shared != nil
			}
			switch p.final {
			case "removed":
				if lerr == nil {
					c.Violate("a removed pairing is still found by name after the removal has returned", id, in, "not found", "key "+hx(ent.PublicKey))
				}
				if verifies(k1, "10.0.6.1:9000") {
					c.Violate("a controller whose pairing was removed still completes pair-verify (its key is no longer stored)", id, in, "error", "verified")
				}
			case "replaced":
				if lerr != nil || !bytes.Equal(ent.PublicKey, k2.Pub) {
					c.Violate("a replaced long-term key is not what a lookup returns after the replacement has returned", id, in, hx(k2.Pub), fmt.Sprint(lerr, hx(ent.PublicKey)))
				}
				if verifies(k1, "10.0.6.1:9000") {
					c.Violate("pair-verify succeeds with a long-term key that is no longer the one stored for the name", id, in, "error", "verified")
				}
				if !verifies(k2, "10.0.6.2:9000") {
					c.Violate("pair-verify fails with the long-term key stored for the name", id, in, "verified", "error")
				}
			}
			c.Count(id, true, "stream:revocation", "revocation:"+p.b+" inside "+p.a+" @ "+where)
			f.Close()
		}
	}
}

// ---- plaintext request framing (hap/connection.go plainRequest vs HcModel/PlainFraming.lean) ---------------------------------

// c03PlainFraming: a connection without cryptographer receives a stream of requests (headers drawn from a pool that
// net/http's own parser has classified: content length n, or unusable), with bodies of the announced, a shorter or a longer
// length, cut into raw reads at arbitrary places, with responses written at the right and at the wrong moments, and with
// bytes glued behind a complete request. Per event the real connection and the model agree on accepted / refused, and
// what the real Read hands on is exactly what arrived.
func c03PlainFraming(c *Ctx) {
	pool := []string{
		"POST /pair-verify HTTP/1.1\r\nHost: x\r\nContent-Type: application/pairing+tlv8\r\nContent-Length: 37\r\n\r\n",
		"POST /pair-setup HTTP/1.1\r\nHost: x\r\nContent-Length: 1\r\n\r\n",
		"POST /pair-setup HTTP/1.1\r\nContent-Length: 0\r\nHost: x\r\n\r\n",
		"GET /accessories HTTP/1.1\r\nHost: x\r\n\r\n",
		"GET /accessories HTTP/1.1\nHost: x\n\n",
		"PUT /characteristics HTTP/1.1\r\nHost: x\r\ncontent-length:   300  \r\n\r\n",
		"POST /pair-verify HTTP/1.1\r\nHost: x\r\nTransfer-Encoding: chunked\r\n\r\n",
		"POST /pair-verify HTTP/1.1\r\nHost: x\r\nContent-Length: 5\r\nContent-Length: 6\r\n\r\n",
		"POST /pair-verify HTTP/1.1\r\nHost: x\r\nContent-Length: abc\r\n\r\n",
		"\r\nGET / HTTP/1.1\r\nHost: x\r\n\r\n",
		"GARBAGE\r\n\r\n",
		"POST /identify HTTP/1.0\r\nContent-Length: 2\r\n\r\n",
		"POST /x HTTP/1.1\r\nHost: x\r\nContent-Length: 5\n\r\n",
	}
	var tbl []string
	cls := make([]int, len(pool))
	for i, h := range pool {
		req, err := http.ReadRequest(bufio.NewReader(strings.NewReader(h)))
		cls[i] = -1
		if err == nil && req.ContentLength >= 0 {
			cls[i] = int(req.ContentLength)
			tbl = append(tbl, fmt.Sprintf("%s=%d", hx([]byte(h)), cls[i]))
		} else {
			tbl = append(tbl, hx([]byte(h))+"=x")
		}
	}
	table := strings.Join(tbl, ",")
	n := c.Pick(150, 6000)
	lines := make([]string, n)
	impls := make([]string, n)
	ins := make([]interface{}, n)
	parallel(n, func(i int) {
		id := c.CaseID("plain", i)
		if c.Skip(id) {
			return
		}
		r := c.CaseRng("plain", i)
		// the stream: requests and response marks
		type piece struct {
			b []byte
			w bool
			i bool // w: the write is an interim response (100 Continue), not the response
		}
		var pieces []piece
		for k := 0; k < 1+r.Intn(4); k++ {
			hi := r.Intn(len(pool))
			if r.Intn(3) > 0 {
				hi = r.Intn(6) // mostly usable ones
			}
			b := []byte(pool[hi])
			bl := cls[hi]
			if bl < 0 {
				bl = r.Intn(8)
			}
			switch r.Intn(8) {
			case 0:
				bl += 1 + r.Intn(3) // bytes glued behind the request
			case 1:
				if bl > 0 {
					bl -= 1 + r.Intn(bl) // the body is not complete yet
				}
			}
			b = append(b, randBytes(r, bl)...)
			pieces = append(pieces, piece{b: b})
			if r.Intn(5) == 0 {
				// net/http answers `Expect: 100-continue` when the handler starts to read the body — whether the body has
				// already arrived or not; an adversary on the path can add the header field to any plaintext request
				pieces = append(pieces, piece{w: true, i: true})
			}
			if r.Intn(6) > 0 {
				pieces = append(pieces, piece{w: true})
			}
			if r.Intn(12) == 0 {
				pieces = append(pieces, piece{w: true}) // a second write (a response in two pieces)
			}
		}
		if i < 4 {
			// corpus (F48): a complete request, an interim response, then more bytes before the response
			get := []byte(pool[3])
			m3 := append([]byte(pool[0]), randBytes(r, 37)...)
			pieces = [][]piece{
				{{b: get}, {w: true, i: true}, {b: get}, {w: true}},
				{{b: m3}, {w: true, i: true}, {b: []byte("X")}, {w: true}},
				{{b: m3[:len(m3)-5]}, {w: true, i: true}, {b: m3[len(m3)-5:]}, {w: true}, {b: get}},
				{{b: m3}, {w: true, i: true}, {w: true, i: true}, {b: get}},
			}[i]
		}
		// cut the byte runs into raw reads
		var evs []piece
		var pend []byte
		flush := func() {
			for len(pend) > 0 {
				k := 1 + r.Intn(len(pend))
				if r.Intn(3) == 0 {
					k = len(pend)
				}
				if k > 1500 {
					k = 1500
				}
				evs = append(evs, piece{b: pend[:k]})
				pend = pend[k:]
			}
		}
		for _, p := range pieces {
			if p.w {
				if r.Intn(4) > 0 { // sometimes the bytes before and after a response arrive together afterwards
					flush()
				}
				evs = append(evs, p)
			} else {
				pend = append(pend, p.b...)
			}
		}
		flush()
		var toks []string
		for _, e := range evs {
			if e.w && e.i {
				toks = append(toks, "i")
			} else if e.w {
				toks = append(toks, "w")
			} else {
				toks = append(toks, "r "+hx(e.b))
			}
		}
		lines[i] = "plain run 1048576 " + table + " | " + strings.Join(toks, " ; ")
		// the real connection
		raw := newHoConn()
		ctx := hap.NewContextForSecuredDevice(nil)
		conn := hap.NewConnection(raw, ctx)
		var outs []string
		closed := false
		buf := make([]byte, 4096)
		for _, e := range evs {
			if closed {
				outs = append(outs, "closed")
				continue
			}
			if e.w && e.i {
				conn.Write([]byte("HTTP/1.1 100 Continue\r\n\r\n"))
				outs = append(outs, "ok")
				continue
			}
			if e.w {
				conn.Write([]byte("HTTP/1.1 200 OK\r\nContent-Length: 0\r\n\r\n"))
				outs = append(outs, "ok")
				continue
			}
			raw.push(e.b)
			nn, err := conn.Read(buf)
			switch {
			case err == nil && bytes.Equal(buf[:nn], e.b):
				outs = append(outs, "ok")
			case err != nil && nn == 0:
				outs = append(outs, "refused")
				closed = true
				raw.mu.Lock()
				var last []byte
				if len(raw.out) > 0 {
					last = raw.out[len(raw.out)-1]
				}
				raw.mu.Unlock()
				if bytes.HasPrefix(last, []byte("HTTP/1.1 4")) {
					outs[len(outs)-1] = "refused-answered" // an HTTP error response was written before the connection was closed
				}
				if !raw.isClosed() {
					outs[len(outs)-1] = "refused-but-open"
				}
			default:
				outs = append(outs, fmt.Sprintf("altered(%d of %d bytes, err=%v)", nn, len(e.b), err))
			}
		}
		raw.Close()
		impls[i] = strings.Join(outs, " ")
		ins[i] = toks
		refused := strings.Contains(impls[i], "refused")
		c.Count(fmt.Sprint(toks), refused, "stream:plain", fmt.Sprintf("plain:refused=%v", refused), fmt.Sprintf("plain:events<=%d", (len(evs)/4+1)*4))
	})
	var live []int
	var ll []string
	for i := range lines {
		if lines[i] != "" {
			live = append(live, i)
			ll = append(ll, lines[i])
		}
	}
	model := c.Model(ll)
	for k, i := range live {
		m := model[k]
		if p := strings.Index(m, " | "); p >= 0 {
			m = m[:p]
		}
		// the concrete failure behind a difference of this kind: bytes the model refuses (they follow a complete request
		// whose response has not been written) are handed on by the connection
		mo, io := strings.Fields(m), strings.Fields(impls[i])
		for k := 0; k < len(mo) && k < len(io); k++ {
			if strings.HasPrefix(mo[k], "refused") && io[k] == "ok" {
				c.Violate("plaintext bytes that follow a complete request are accepted before its response was written (they are served after the response — after a pair-verify finish: as if they had arrived encrypted)", c.CaseID("plain", i),
					map[string]interface{}{"events (r = raw read, hex; i = interim response 100 Continue written; w = response written)": ins[i], "accepted_event_index": k}, "refused, connection closed", "accepted")
				break
			}
			if mo[k] != io[k] {
				break
			}
		}
		c.Same("plain", c.CaseID("plain", i), ins[i], m, impls[i])
	}
}

// c03Rekey: a second pair-verify on a connection that is already encrypted (session σ1 → σ2) while a read is waiting:
// the answer still goes out under σ1, what the controller sends afterwards under σ2 is decrypted with σ2.
func c03Rekey(c *Ctx) {
	for mode := 0; mode < 3; mode++ {
		// early: the controller's first frame under the new keys is read after the new cryptographer was negotiated and BEFORE
		// the accessory's write of the answer has returned (the answer is on the wire, the writing goroutine has not got from
		// the socket write to its bookkeeping yet)
		pending, early := mode == 0, mode == 2
		id := fmt.Sprintf("rekey#pending=%v", pending)
		if early {
			id = "rekey#early-frame"
		}
		if c.Skip(id) {
			continue
		}
		r := c.CaseRng("rekey", 0)
		raw := newHoConn()
		ctx := hap.NewContextForSecuredDevice(nil)
		conn := hap.NewConnection(raw, ctx)
		sess := ctx.GetSessionForConnection(raw)
		var k1, k2 [32]byte
		copy(k1[:], randBytes(r, 32))
		copy(k2[:], randBytes(r, 32))
		s1, _ := crypto.NewSecureSessionFromSharedKey(k1)
		s2, _ := crypto.NewSecureSessionFromSharedKey(k2)
		p1, p2 := newRefControllerSession(k1[:]), newRefControllerSession(k2[:])
		sess.SetCryptographer(s1)
		responseWritten(ctx, raw)
		type rd struct {
			b   []byte
			err error
		}
		done := make(chan rd, 1)
		read := func() {
			buf := make([]byte, 256)
			n, err := conn.Read(buf)
			done <- rd{buf[:n], err}
		}
		if pending {
			go read()
			select {
			case <-raw.started:
			case <-time.After(2 * time.Second):
			}
		}
		sess.SetCryptographer(s2)
		raw.mu.Lock()
		raw.out = nil
		raw.mu.Unlock()
		request := []byte("GET /accessories HTTP/1.1\r\nHost: x\r\n\r\n")
		if early {
			raw.push(p2.Encrypt(request))
			go read()
			select {
			case x := <-done:
				if x.err != nil || !bytes.HasPrefix(request, x.b) || len(x.b) == 0 {
					c.Violate("bytes sent by the controller under the newly negotiated session do not arrive decrypted (they were read before the write of the answer had returned)", id,
						map[string]interface{}{"order": "second pair-verify negotiated; the controller's first frame under the new keys is read; then the write of the answer returns"},
						string(request), fmt.Sprintf("%q err=%v", trunc(string(x.b), 40), x.err))
				}
			case <-time.After(4 * time.Second):
				c.Violate("read on the connection does not return after bytes arrived", id, nil, "request bytes", "timeout")
			}
		}
		answer := []byte("HTTP/1.1 200 OK\r\nContent-Length: 3\r\n\r\n\x06\x01\x04")
		conn.Write(answer)
		raw.mu.Lock()
		var wire []byte
		for _, o := range raw.out {
			wire = append(wire, o...)
		}
		raw.mu.Unlock()
		in := map[string]interface{}{"read_waiting_when_the_new_cryptographer_is_negotiated": pending}
		if pt, _, ok := p1.DecryptFrames(wire); !ok || !bytes.Equal(pt, answer) {
			c.Violate("the answer to a pair-verify finish on an encrypted connection is not sent under the session that was in use", id, in, "decrypts under the old session", fmt.Sprintf("%d bytes, ok=%v", len(pt), ok))
		}
		// … and what the accessory writes from now on (the next response, an event) goes out under the NEW session
		raw.mu.Lock()
		nOut := len(raw.out)
		raw.mu.Unlock()
		later := []byte("EVENT/1.0 200 OK\r\nContent-Length: 0\r\n\r\n")
		conn.Write(later)
		raw.mu.Lock()
		var wire2 []byte
		for _, o := range raw.out[nOut:] {
			wire2 = append(wire2, o...)
		}
		raw.mu.Unlock()
		if pt, _, ok := p2.DecryptFrames(wire2); !ok || !bytes.Equal(pt, later) {
			_, _, underOld := p1.DecryptFrames(wire2)
			c.Violate("what the accessory writes after the answer to a second pair-verify is not sent under the newly negotiated session", id, in, "decrypts under the new session (frame counter 0)", fmt.Sprintf("%d bytes, ok=%v, decrypts under the old session: %v", len(pt), ok, underOld))
		}
		if early {
			request = []byte("GET /characteristics?id=1.9 HTTP/1.1\r\nHost: x\r\n\r\n") // the second frame under the new keys
		}
		raw.push(p2.Encrypt(request))
		if !pending {
			go read()
		}
		select {
		case x := <-done:
			if x.err != nil || !bytes.HasPrefix(request, x.b) || len(x.b) == 0 {
				c.Violate("bytes sent by the controller under the newly negotiated session do not arrive decrypted (read was already waiting)", id, in, string(request), fmt.Sprintf("%q err=%v", trunc(string(x.b), 40), x.err))
			}
		case <-time.After(4 * time.Second):
			c.Violate("read on the connection does not return after bytes arrived", id, in, "request bytes", "timeout")
		}
		raw.Close()
		c.Count(id, true, "stream:rekey")
	}
}

// ---- another connection's pair-verify request in the middle of a genuine finish ------------------------------------------

// hookDB runs a callback inside EntityWithName (the pairing lookup of a pair-verify finish).
type hookDB struct {
	db.Database
	hook func()
}

func (h *hookDB) EntityWithName(name string) (db.Entity, error) {
	if f := h.hook; f != nil {
		h.hook = nil
		f()
	}
	return h.Database.EntityWithName(name)
}

// c03VerifyInterleaved: while the accessory processes the genuine finish of paired controller P (it is looking P's pairing
// up), a pair-verify request of ANOTHER connection S is served completely. P — and only P — is verified afterwards: S stays
// in plaintext and is refused protected requests, whatever its request was.
func c03VerifyInterleaved(c *Ctx) {
	kinds := []string{"start", "start-after-start", "garbage-finish", "empty"}
	for i := 0; i < c.Pick(8, 200); i++ {
		id := c.CaseID("verify-interleaved", i)
		if c.Skip(id) {
			continue
		}
		r := c.CaseRng("verify-interleaved", i)
		kind := kinds[i%len(kinds)]
		hd := &hookDB{}
		sw := accessory.NewSwitch(accessory.Info{Name: "V"})
		f, err := newAccFixtureDB(c, "00102003", func(d db.Database) db.Database { hd.Database = d; return hd }, sw.Accessory)
		if err != nil {
			c.Violate("fixture cannot be built", id, nil, "fixture", err.Error())
			return
		}
		p := newRefIdentity(r, fmt.Sprintf("ctrl-p-%d", i))
		f.db.SaveEntity(db.NewEntity(p.Name, p.Pub, nil))
		addrP, addrS := "10.0.5.1:6001", "10.0.5.2:6002"
		sEph := randBytes(r, 32)
		post := func(addr string, body []byte) (int, []byte) {
			st, resp, _, _ := f.Do(addr, "POST", "/pair-verify", "application/pairing+tlv8", body)
			return st, resp
		}
		if kind == "start-after-start" {
			post(addrS, tlvMsg(tlvOp{tState, b1(1)}, tlvOp{tPubKey, refX25519Pub(sEph)}))
		}
		nested := func() {
			switch kind {
			case "start", "start-after-start":
				post(addrS, tlvMsg(tlvOp{tState, b1(1)}, tlvOp{tPubKey, refX25519Pub(sEph)}))
			case "garbage-finish":
				post(addrS, tlvMsg(tlvOp{tState, b1(3)}, tlvOp{tEnc, randBytes(r, 80)}))
			default:
				post(addrS, nil)
			}
		}
		// P's exchange; the other connection's request is served inside the lookup of P's finish
		n := 0
		vr := refPairVerify(r, func(path string, body []byte) (int, []byte, error) {
			n++
			if n == 2 {
				hd.hook = nested
			}
			st, resp := post(addrP, body)
			return st, resp, nil
		}, p, f.device.PublicKey())
		hd.hook = nil
		f.Conn(addrS)
		responseWritten(f.ctx, f.raw[addrP])
		responseWritten(f.ctx, f.raw[addrS])
		in := map[string]interface{}{"request_of_the_other_connection": kind}
		if f.Session(addrS).Encrypter() != nil || f.Session(addrS).Decrypter() != nil {
			c.Violate("pair-verify verified a connection (or answered success) without a valid signature by the stored long-term key over this exchange", id, in,
				"the other connection stays in plaintext", "a secure session was installed on the connection that sent no finish")
		}
		if st, body, _, pm := f.Do(addrS, "GET", "/accessories", "", nil); classify(st, body, pm) != "refused" {
			c.Violate("unverified connection was not refused a protected operation", id, in, "HTTP 470", fmt.Sprint(st, " ", trunc(string(body), 80), pm))
		}
		if vr.Shared == nil || f.Session(addrP).Encrypter() == nil {
			c.Violate("paired reference controller cannot verify (another connection's request was served meanwhile)", id, in, "verified", vr.ErrAt)
		}
		c.Count(id, true, "stream:verify-interleaved", "verify-interleaved:"+kind)
		f.Close()
	}
}

// c03ConcurrentLookups: several connections run pair-verify at the same time against a store with two pairings whose
// entity files have the same size. Half of them are genuine (controller Y), the other half claim controller X with a
// signature made by Y's key. Free-running: whatever the lookups of different connections share (buffers, caches), a
// finish is checked against the key stored for the name IT claims — the forged ones are never accepted.
func c03ConcurrentLookups(c *Ctx) {
	id := "concurrent-lookups#0"
	if c.Skip(id) {
		return
	}
	r := c.CaseRng("concurrent-lookups", 0)
	a := accessory.NewSwitch(accessory.Info{Name: "Sw"})
	f, err := newAccFixture(c, "00102003", a.Accessory)
	if err != nil {
		c.Violate("pair-verify fixture cannot be built", id, nil, "fixture", err.Error())
		return
	}
	defer f.Close()
	X, Y := newRefIdentity(r, "ctrl-X"), newRefIdentity(r, "ctrl-Y")
	f.db.SaveEntity(db.NewEntity(X.Name, X.Pub, nil))
	f.db.SaveEntity(db.NewEntity(Y.Name, Y.Pub, nil))
	forged := &refIdentity{Name: X.Name, Pub: Y.Pub, Priv: Y.Priv}
	workers := 8
	deadline := time.Now().Add(time.Duration(c.Pick(1200, 8000)) * time.Millisecond)
	var accepted, attempts, genuineFailed int64
	var firstMu sync.Mutex
	first := ""
	var wg sync.WaitGroup
	for w := 0; w < workers; w++ {
		wg.Add(1)
		go func(w int) {
			defer wg.Done()
			wr := rand.New(rand.NewSource(int64(w)*7717 + 3))
			for k := 0; time.Now().Before(deadline); k++ {
				addr := fmt.Sprintf("10.5.%d.%d:%d", w, k%250, 6000+k%1000)
				who := Y
				if w%2 == 0 {
					who = forged
				}
				vr := refPairVerify(wr, f.Post(addr), who, nil)
				f.CloseConn(addr)
				atomic.AddInt64(&attempts, 1)
				switch {
				case who == forged && vr.Shared != nil:
					atomic.AddInt64(&accepted, 1)
					firstMu.Lock()
					if first == "" {
						first = fmt.Sprintf("attempt %d of worker %d", k, w)
					}
					firstMu.Unlock()
				case who == Y && vr.Shared == nil:
					atomic.AddInt64(&genuineFailed, 1)
				}
			}
		}(w)
	}
	wg.Wait()
	in := map[string]interface{}{"stored_pairings": []string{X.Name, Y.Name}, "connections_at_a_time": workers, "half_of_them": "finish naming ctrl-X, signed with ctrl-Y's key", "the_others": "genuine ctrl-Y", "attempts": attempts}
	if accepted > 0 {
		c.Violate("pair-verify verified a connection (or answered success) without a valid signature by the stored long-term key over this exchange", id, in,
			"every finish that names ctrl-X but is signed by ctrl-Y's key is refused", fmt.Sprintf("%d accepted (first: %s)", accepted, first))
	}
	if genuineFailed > 0 {
		c.Violate("pair-verify did not verify a connection that presented a valid finish", id, in, "every genuine finish of ctrl-Y is accepted", fmt.Sprintf("%d refused", genuineFailed))
	}
	c.Count(id, true, "stream:concurrent-lookups")
	c.Extra("concurrent_lookup_attempts", attempts)
}

// c03StaleTemp: a pairing whose storage write was interrupted before the rename is NOT stored — only its temporary file
// is there (listing shows no such controller, the accessory advertises itself accordingly). A finish of that controller
// must be refused like that of any unknown controller.
func c03StaleTemp(c *Ctx) {
	id := "stale-temp-pairing#0"
	if c.Skip(id) {
		return
	}
	r := c.CaseRng("stale-temp-pairing", 0)
	a := accessory.NewSwitch(accessory.Info{Name: "Sw"})
	f, err := newAccFixture(c, "00102003", a.Accessory)
	if err != nil {
		c.Violate("pair-verify fixture cannot be built", id, nil, "fixture", err.Error())
		return
	}
	defer f.Close()
	Z := newRefIdentity(r, "ctrl-Z")
	b, _ := json.Marshal(db.NewEntity(Z.Name, Z.Pub, nil))
	tmp := filepath.Join(f.dir, hex.EncodeToString([]byte(Z.Name))+".entity.tmp")
	if err := ioutil.WriteFile(tmp, b, 0644); err != nil {
		fatal("write %s: %v", tmp, err)
	}
	in := map[string]interface{}{"left_in_the_storage_directory": filepath.Base(tmp), "content": "the complete entity of ctrl-Z (its write was killed before the rename)"}
	if es, err := f.db.Entities(); err == nil {
		for _, e := range es {
			if e.Name == Z.Name {
				c.Violate("a pairing whose write was interrupted is listed as stored", id, in, "not listed", "listed")
			}
		}
	}
	addr := "10.6.0.1:6000"
	if vr := refPairVerify(r, f.Post(addr), Z, nil); vr.Shared != nil {
		c.Violate("pair-verify verified a connection (or answered success) without a valid signature by the stored long-term key over this exchange", id, in,
			"refused: no pairing is stored for ctrl-Z", "verified")
	}
	c.Count(id, true, "stream:stale-temp-pairing")
}
