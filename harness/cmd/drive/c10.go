package main

// C10 — each change is notified exactly once to exactly the subscribed others.
// End-to-end over loopback TCP against a started hc.NewIPTransport with 2-4 reference controllers (the fan-out code lives
// in the unexported ipTransport, there is no smaller in-process surface). After every step each open connection sends a
// "fence" request; the EVENT messages it receives before the fence's response are what the step caused.

import (
	"errors"
	"bytes"
	"encoding/json"
	"fmt"
	"github.com/brutella/hc/hap"
	"math/rand"
	"net"
	"sort"
	"strings"
	"sync/atomic"
	"time"

	"github.com/brutella/hc/accessory"
	"github.com/brutella/hc/characteristic"
	"github.com/brutella/hc/service"
)

func init() { register("C10", checkC10) }

type c10Char struct {
	name   string
	c      *characteristic.Characteristic
	acc    *accessory.Accessory
	isBool bool
	isStr  bool   // string-valued: value n stands for c10Strings[n]
	flags  string // r w e u
	max    int    // declared maximum (0 = none): values above it are clamped by the characteristic
}

// string values for the string-valued characteristic: text that looks like the protocol lines around it
var c10Strings = []string{"", "on", "HTTP/1.0 200 OK", "via HTTP/1.0 proxy HTTP/1.0", "EVENT/1.0", "a\r\n\r\nb", "Content-Length: 0", "e\u0301 \u212b"}

func (k *c10Char) goValue(v int) interface{} {
	if k.isBool {
		return v%2 == 1
	}
	if k.isStr {
		return c10Strings[v%len(c10Strings)]
	}
	return v
}

func natOfJSON(v interface{}) string {
	switch x := v.(type) {
	case nil:
		return "-"
	case bool:
		if x {
			return "1"
		}
		return "0"
	case float64:
		return fmt.Sprint(int(x))
	case int:
		return fmt.Sprint(x)
	case string:
		for i, t := range c10Strings {
			if t == x {
				return fmt.Sprint(i)
			}
		}
	}
	return fmt.Sprintf("?%v", v)
}

type c10World struct {
	chars []*c10Char
	accs  []*accessory.Accessory
}

func newC10World() *c10World {
	w := &c10World{}
	sw := accessory.NewSwitch(accessory.Info{Name: "Sw"})
	lb := accessory.NewColoredLightbulb(accessory.Info{Name: "Lb"})
	extra := service.New("F001")
	noEv := characteristic.NewInt("F101")
	noEv.Format = characteristic.FormatUInt8
	noEv.Perms = []string{characteristic.PermRead, characteristic.PermWrite}
	noEv.SetValue(0)
	wo := characteristic.NewInt("F102")
	wo.Format = characteristic.FormatUInt8
	wo.Perms = []string{characteristic.PermWrite, characteristic.PermEvents}
	pse := characteristic.NewProgrammableSwitchEvent()
	str := characteristic.NewString("F103")
	str.Perms = characteristic.PermsAll()
	str.SetValue("")
	extra.AddCharacteristic(str.Characteristic)
	extra.AddCharacteristic(noEv.Characteristic)
	extra.AddCharacteristic(wo.Characteristic)
	extra.AddCharacteristic(pse.Characteristic)
	sw.AddService(extra)
	w.accs = []*accessory.Accessory{sw.Accessory, lb.Accessory}
	w.chars = []*c10Char{
		{"Switch.On", sw.Switch.On.Characteristic, sw.Accessory, true, false, "rwe-", 0},
		{"Lightbulb.Brightness", lb.Lightbulb.Brightness.Characteristic, lb.Accessory, false, false, "rwe-", 100},
		{"custom no-ev", noEv.Characteristic, sw.Accessory, false, false, "rw--", 0},
		{"custom write-only ev", wo.Characteristic, sw.Accessory, false, false, "-we-", 0},
		{"ProgrammableSwitchEvent", pse.Characteristic, sw.Accessory, false, false, "r-eu", 0},
		{"Lightbulb.On", lb.Lightbulb.On.Characteristic, lb.Accessory, true, false, "rwe-", 0},
		{"custom string", str.Characteristic, sw.Accessory, false, true, "rwe-", 0},
	}
	return w
}

func (w *c10World) find(aid, iid uint64) int {
	for i, k := range w.chars {
		if k.acc.ID == aid && k.c.ID == iid {
			return i
		}
	}
	return -1
}

func checkC10(c *Ctx) {
	c.SetRule("histories of 5-60 steps (connect / pair-verify / close / subscribe / unsubscribe / local set / remote write) over 2-4 TCP connections and " +
		"6 characteristics on 2 accessories (incl. one without ev, one without pr, a ProgrammableSwitchEvent, and two characteristics sharing an iid on " +
		"different accessories), against a started hc.NewIPTransport; every step is followed by a fence request on every open connection. " +
		"non-trivial = history in which at least one EVENT was delivered. Model: exact multiset of (receiver, characteristic, value) per step")
	c.Assume("events are attributed to a step by a following request/response on the same connection (hc writes notifications synchronously from the goroutine that changed the value)")
	c10Wire(c)
	c10DuringResponse(c)
	c10StalledSubscriber(c)
	queuedEvents(c, "C10")
	eventDuringFlush(c, "C10")
	c10RangeChange(c)
	c10Entries(c)
	c10Churn(c)
	c10SecondTransport(c)
	duplexStress(c, "C10") // events and responses written to one connection at the same time must stay decryptable: a garbled event is a lost event
	n := c.Pick(32, 1500)
	type res struct{ line, impl string }
	results := make([]res, n)
	parallel(n, func(i int) {
		id := c.CaseID("hist", i)
		if c.Skip(id) {
			return
		}
		r := c.CaseRng("hist", i)
		line, impl := c10History(c, id, r)
		results[i] = res{line, impl}
	})
	var lines []string
	var idx []int
	for i, rs := range results {
		if rs.line != "" {
			lines = append(lines, rs.line)
			idx = append(idx, i)
		}
	}
	model := c.Model(lines)
	for k, i := range idx {
		c.Same("notify", c.CaseID("hist", i), lines[k], model[k], results[i].impl)
		if k%8 == 0 {
			c.Sample(map[string]interface{}{"history": trunc(lines[k], 600), "events_per_step": trunc(results[i].impl, 400)})
		}
	}
}

func c10History(c *Ctx, id string, r *rand.Rand) (string, string) {
	w := newC10World()
	if r.Intn(2) == 0 {
		// the application reads Brightness from hardware that lags behind: a get callback that does not (yet) return what was
		// just written. No step of a history reads this characteristic, so the callback has no business being invoked.
		w.chars[1].c.OnValueGet(func() interface{} { return 7 })
	}
	acc, err := startE2E(c.ScratchDir(), "00102003", false, w.accs[0], w.accs[1])
	if err != nil {
		c.Violate("transport does not start", id, nil, "started", err.Error())
		return "", ""
	}
	defer acc.Stop()
	ident := newRefIdentity(r, "ctrl-1")
	first, err := acc.Dial()
	if err != nil {
		c.Violate("cannot connect", id, nil, "connect", err.Error())
		return "", ""
	}
	sr := refPairSetup(r, first.Post(), "001-02-003", ident)
	first.Close()
	if sr.ErrAt != "" {
		c.Violate("reference controller cannot pair", id, nil, "paired", sr.ErrAt)
		return "", ""
	}
	var spec []string
	cur := make([]string, len(w.chars)) // current value as the harness's reference expects it ("-" = nil)
	for i, k := range w.chars {
		cur[i] = natOfJSON(k.c.Value)
		spec = append(spec, fmt.Sprintf("%d:%s:%s", i, k.flags, cur[i]))
	}
	nconn := 2 + r.Intn(3)
	conns := make([]*refClient, nconn+1)
	verified := make([]bool, nconn+1)
	subs := make([]map[int]bool, nconn+1)
	defer func() {
		for _, cl := range conns {
			if cl != nil {
				cl.Close()
			}
		}
	}()
	var toks, outs []string
	delivered := false
	steps := 5 + r.Intn(56)
	// prelude (part of the history): most connections connect, verify and subscribe to something, so that histories
	// reach the fan-out; the random part then churns subscriptions, values and connections
	var script []string
	for cn := 1; cn <= nconn; cn++ {
		if r.Intn(8) == 0 {
			continue
		}
		script = append(script, fmt.Sprintf("connect %d", cn))
		if r.Intn(7) > 0 {
			script = append(script, fmt.Sprintf("verify %d", cn))
		}
		for k := 0; k < 1+r.Intn(3); k++ {
			script = append(script, fmt.Sprintf("sub %d %d", cn, r.Intn(len(w.chars))))
		}
	}
	steps += len(script)
	forceLocal := -1
	for s := 0; s < steps; s++ {
		var tok string
		if forceLocal >= 0 {
			// right after a connection vanished: change a characteristic somebody else is subscribed to, at once
			ch := forceLocal
			forceLocal = -1
			v := r.Intn(3)
			if w.chars[ch].isBool {
				v = r.Intn(2)
			}
			tok = fmt.Sprintf("local %d %d", ch, v)
		} else if s < len(script) {
			tok = script[s]
		} else {
			cn := 1 + r.Intn(nconn)
			ch := r.Intn(len(w.chars))
			v := r.Intn(3)
			if w.chars[ch].isBool {
				v = r.Intn(2)
			}
			if w.chars[ch].isStr {
				v = r.Intn(len(c10Strings))
			}
			if w.chars[ch].max > 0 { // bounded: also values at and beyond the limit (the characteristic clamps them)
				v = []int{0, 1, 2, w.chars[ch].max - 1, w.chars[ch].max, w.chars[ch].max, w.chars[ch].max + 1, w.chars[ch].max + 20, 250}[r.Intn(9)]
			}
			switch k := r.Intn(20); {
			case k < 1:
				tok = fmt.Sprintf("connect %d", cn)
			case k < 3:
				tok = fmt.Sprintf("verify %d", cn)
			case k < 4:
				tok = fmt.Sprintf("close %d", cn)
				if r.Intn(2) == 0 {
					tok = fmt.Sprintf("kill %d", cn)
				}
			case k < 7:
				tok = fmt.Sprintf("sub %d %d", cn, ch)
			case k < 9:
				tok = fmt.Sprintf("unsub %d %d", cn, ch)
			case k < 15:
				tok = fmt.Sprintf("local %d %d", ch, v)
			case k < 18:
				tok = fmt.Sprintf("remote %d %d %d", cn, ch, v)
			default: // one entry carrying both a value and "ev"
				tok = fmt.Sprintf("remoteev %d %d %d %d", cn, ch, v, r.Intn(2))
			}
		}
		f := strings.Fields(tok)
		num := func(i int) int { var x int; fmt.Sscan(f[i], &x); return x }
		skip := false
		extraTok := ""
		subAfter, subAfterCn, subAfterCh, subAfterOn := false, 0, 0, false
		noFence := false
		origin := 0
		changed := -1 // characteristic whose value the reference expects to change (or to be re-notified)
		sameValue := false
		switch f[0] {
		case "connect":
			cn := num(1)
			if conns[cn] != nil {
				conns[cn].Close()
			}
			cl, err := acc.Dial()
			if err != nil {
				c.Violate("accessory does not accept connections", id, toks, "connect", err.Error())
				return "", ""
			}
			conns[cn], verified[cn], subs[cn] = cl, false, map[int]bool{}
		case "verify":
			cn := num(1)
			if conns[cn] == nil || verified[cn] {
				skip = true
				break
			}
			vr := refPairVerify(r, conns[cn].Post(), ident, sr.AccLTPK)
			if vr.Shared == nil {
				c.Violate("paired reference controller cannot verify", id, append(toks, tok), "verified", vr.ErrAt)
				return "", ""
			}
			conns[cn].Upgrade(vr.Shared)
			verified[cn] = true
		case "kill":
			// the controller vanishes (connection reset) and the very next thing that happens is a value change: the fan-out
			// meets a session whose connection is dead but not yet cleaned up; the other subscribers must still be served
			cn := num(1)
			if conns[cn] == nil {
				skip = true
				break
			}
			if tc, ok := conns[cn].conn.(*net.TCPConn); ok {
				tc.SetLinger(0)
			}
			conns[cn].Close()
			conns[cn], verified[cn], subs[cn] = nil, false, nil
			tok = fmt.Sprintf("close %d", cn) // for the model this is a close
			noFence = true
			for ch := range w.chars {
				for o := 1; o <= nconn; o++ {
					if conns[o] != nil && verified[o] && subs[o][ch] {
						forceLocal = ch
					}
				}
			}
		case "close":
			cn := num(1)
			if conns[cn] == nil {
				skip = true
				break
			}
			conns[cn].Close()
			conns[cn], verified[cn], subs[cn] = nil, false, nil
			time.Sleep(2 * time.Millisecond)
		case "sub", "unsub":
			cn, ch := num(1), num(2)
			if conns[cn] == nil {
				skip = true
				break
			}
			k := w.chars[ch]
			body := fmt.Sprintf(`{"characteristics":[{"aid":%d,"iid":%d,"ev":%v}]}`, k.acc.ID, k.c.ID, f[0] == "sub")
			m, err := conns[cn].Do("PUT", "/characteristics", "application/hap+json", []byte(body))
			if err != nil {
				c.Violate("request on an open connection fails", id, append(toks, tok), "response", err.Error())
				return "", ""
			}
			if verified[cn] && strings.Contains(k.flags, "e") {
				subs[cn][ch] = f[0] == "sub"
				if m.Status != 204 {
					c.Violate("subscription request of a verified connection on an observable characteristic is not accepted", id, append(toks, tok), "204", fmt.Sprint(m.Status, string(m.Body)))
				}
			}
		case "local":
			ch, raw := num(1), num(2)
			k := w.chars[ch]
			v := raw
			if k.max > 0 && v > k.max {
				v = k.max
			}
			tok = fmt.Sprintf("local %d %d", ch, v) // the model gets the effective (clamped) value, the code the raw one
			want := natOfJSON(k.goValue(v))
			sameValue = cur[ch] == want
			if msg, panicked := safely(func() { k.c.UpdateValue(k.goValue(raw)) }); panicked {
				c.Violate("a value change by the application panics in the application's goroutine while a subscribed connection is closing (no subscriber gets its event; an unrecovered panic ends the accessory process)", id,
					append(append([]string{}, toks...), tok), "events to the remaining subscribers", trunc(msg, 300))
				return strings.Join(toks, ";"), ""
			}
			changed = ch
			if strings.Contains(k.flags, "r") {
				cur[ch] = want
			}
		case "remote", "remoteev":
			cn, ch, raw := num(1), num(2), num(3)
			if conns[cn] == nil {
				skip = true
				break
			}
			k := w.chars[ch]
			v := raw
			if k.max > 0 && v > k.max {
				v = k.max
			}
			tok = fmt.Sprintf("remote %d %d %d", cn, ch, v)
			vb, _ := json.Marshal(k.goValue(raw))
			body := fmt.Sprintf(`{"characteristics":[{"aid":%d,"iid":%d,"value":%s}]}`, k.acc.ID, k.c.ID, vb)
			if f[0] == "remoteev" {
				// for the model: the write, then the subscription change (hc handles the members of an entry in this order)
				body = fmt.Sprintf(`{"characteristics":[{"aid":%d,"iid":%d,"value":%s,"ev":%v}]}`, k.acc.ID, k.c.ID, vb, num(4) == 1)
				extraTok = fmt.Sprintf("%s %d %d", map[bool]string{true: "sub", false: "unsub"}[num(4) == 1], cn, ch)
				if verified[cn] && strings.Contains(k.flags, "e") {
					subAfter, subAfterCn, subAfterCh, subAfterOn = true, cn, ch, num(4) == 1
				}
			}
			if _, err := conns[cn].Do("PUT", "/characteristics", "application/hap+json", []byte(body)); err != nil {
				c.Violate("request on an open connection fails", id, append(toks, tok), "response", err.Error())
				return "", ""
			}
			if verified[cn] && strings.Contains(k.flags, "w") {
				want := natOfJSON(k.goValue(v))
				sameValue = cur[ch] == want
				changed, origin = ch, cn
				if strings.Contains(k.flags, "r") {
					cur[ch] = want
				}
			}
		}
		if skip {
			continue
		}
		// ---- fence: collect the events this step caused
		var evs []string
		got := map[int]int{}
		for cn := 1; cn <= nconn; cn++ {
			cl := conns[cn]
			if cl == nil || noFence {
				continue
			}
			k0 := w.chars[0]
			if _, err := cl.Do("GET", fmt.Sprintf("/characteristics?id=%d.%d", k0.acc.ID, k0.c.ID), "", nil); err != nil {
				c.Violate("request on an open connection fails", id, append(toks, tok), "fence response", err.Error())
				return "", ""
			}
			for _, e := range cl.Events {
				var body struct {
					Characteristics []struct {
						Aid   uint64      `json:"aid"`
						Iid   uint64      `json:"iid"`
						Value interface{} `json:"value"`
					} `json:"characteristics"`
				}
				if json.Unmarshal(e.Body, &body) != nil || len(body.Characteristics) != 1 {
					c.Violate("EVENT message is not a single-characteristic HAP JSON body", id, append(toks, tok), "one characteristic", string(e.Body))
					continue
				}
				ce := body.Characteristics[0]
				ch := w.find(ce.Aid, ce.Iid)
				evs = append(evs, fmt.Sprintf("%d:%d:%s", cn, ch, natOfJSON(ce.Value)))
				got[cn]++
				delivered = true
				// ---- direct oracle (independent of the model)
				k := (*c10Char)(nil)
				if ch >= 0 {
					k = w.chars[ch]
				}
				switch {
				case ch != changed:
					c.Violate("EVENT for a characteristic that was not changed by this step", id, append(toks, tok), fmt.Sprint("characteristic ", changed), fmt.Sprint(cn, " got ", string(e.Body)))
				case cn == origin:
					c.Violate("EVENT delivered to the connection that made the change", id, append(toks, tok), "none", fmt.Sprint(cn, " got ", string(e.Body)))
				case !verified[cn] || !subs[cn][ch]:
					c.Violate("EVENT delivered to a connection that is not a verified subscriber", id, append(toks, tok), "none", fmt.Sprint(cn, " got ", string(e.Body)))
				case sameValue && strings.Contains(k.flags, "u"):
					c.Violate("EVENT sent although the value did not change (characteristic has updateOnSameValue, type 73)", id, append(toks, tok), "none", fmt.Sprint(cn, " got ", string(e.Body)))
				case sameValue:
					c.Violate("EVENT sent although the value did not change", id, append(toks, tok), "none", fmt.Sprint(cn, " got ", string(e.Body)))
				case natOfJSON(ce.Value) != cur[ch]:
					c.Violate("EVENT does not carry the new value", id, append(toks, tok), cur[ch], natOfJSON(ce.Value))
				}
			}
			cl.Events = nil
		}
		if changed >= 0 && !sameValue {
			for cn := 1; cn <= nconn; cn++ {
				if conns[cn] != nil && verified[cn] && subs[cn][changed] && cn != origin && got[cn] != 1 {
					c.Violate("subscribed verified connection did not receive exactly one EVENT for a change", id, append(toks, tok), "1 event", fmt.Sprint(cn, " got ", got[cn]))
				}
			}
		}
		sort.Strings(evs)
		// sort by receiver number like the model (receiver is a single digit)
		if len(evs) == 0 {
			outs = append(outs, "-")
		} else {
			outs = append(outs, strings.Join(evs, " "))
		}
		toks = append(toks, tok)
		if extraTok != "" {
			toks = append(toks, extraTok)
			outs = append(outs, "-")
		}
		if subAfter {
			subs[subAfterCn][subAfterCh] = subAfterOn
		}
		c.Hist("step:" + f[0])
	}
	c.Count(strings.Join(toks, ";"), delivered, fmt.Sprintf("conns=%d", nconn), fmt.Sprintf("steps<=%d", (len(toks)/10+1)*10))
	c.Trace()
	return "notify run " + strings.Join(spec, " ") + " | " + strings.Join(toks, " ; "), strings.Join(outs, " ; ")
}

// c10Wire: hap.FixProtocolSpecifier vs the model on serialised notifications (status line + header + a JSON body whose
// string value contains protocol-looking text) and on arbitrary bytes with the specifier at several places.
func c10Wire(c *Ctx) {
	var lines, impls []string
	var ids []string
	texts := []string{"", "on", "HTTP/1.0", "HTTP/1.0 200 OK", "xHTTP/1.0yHTTP/1.0", "EVENT/1.0", "HTTP/1.", "HTTP/1.1", "HHTTP/1.0", "\r\n\r\nHTTP/1.0"}
	for i := 0; i < c.Pick(80, 3000); i++ {
		id := c.CaseID("wire", i)
		if c.Skip(id) {
			continue
		}
		r := c.CaseRng("wire", i)
		var b []byte
		if i%3 == 0 {
			n := r.Intn(40)
			b = randBytes(r, n)
			for k := r.Intn(3); k > 0 && n > 0; k-- {
				at := r.Intn(len(b) + 1)
				b = append(b[:at:at], append([]byte(texts[r.Intn(len(texts))]), b[at:]...)...)
			}
		} else {
			str := characteristic.NewString("F103")
			str.SetValue(texts[r.Intn(len(texts))] + texts[r.Intn(len(texts))])
			str.ID = uint64(1 + r.Intn(40))
			a := accessory.New(accessory.Info{Name: "W"}, accessory.TypeOther)
			a.ID = uint64(1 + r.Intn(5))
			resp, err := hap.NewCharacteristicNotification(a, str.Characteristic)
			if err != nil {
				c.Violate("notification cannot be built", id, str.Value, "response", err.Error())
				continue
			}
			var buf bytes.Buffer
			resp.Write(&buf)
			b = buf.Bytes()
			// direct oracle: after the fix the message is an EVENT/1.0 message whose body is the JSON that was built
			fixed := hap.FixProtocolSpecifier(append([]byte{}, b...))
			body, _ := hap.Body(a, str.Characteristic)
			if !bytes.HasPrefix(fixed, []byte("EVENT/1.0 200 OK\r\n")) || !bytes.HasSuffix(fixed, body.Bytes()) || len(fixed) != len(b)+1 {
				c.Violate("EVENT message on the wire is not the notification that was built (only the protocol specifier of the status line may change)", id,
					map[string]interface{}{"value": str.Value}, "EVENT/1.0 200 OK … "+body.String(), trunc(string(fixed), 300))
			}
		}
		lines = append(lines, "notify fix "+hx(b))
		impls = append(impls, hx(hap.FixProtocolSpecifier(append([]byte{}, b...))))
		ids = append(ids, id)
		c.Count("wire/"+hx(b), bytes.Contains(b, []byte("HTTP/1.0")), "stream:wire")
	}
	model := c.Model(lines)
	for i := range lines {
		c.Same("wire", ids[i], lines[i], model[i], impls[i])
	}
}

// c10DuringResponse: the application changes a subscribed characteristic continuously while the subscriber fetches the
// attribute database of a bridge (an answer of tens of kilobytes, written in many pieces). Every answer and every EVENT
// must arrive as a well-formed message of its own: an event is never written into the middle of a response.
func c10DuringResponse(c *Ctx) {
	id := "during-response#0"
	if c.Skip(id) {
		return
	}
	r := c.CaseRng("during-response", 0)
	bridge := accessory.NewBridge(accessory.Info{Name: "B"})
	var lamps []*accessory.Lightbulb
	var accs []*accessory.Accessory
	for i := 0; i < 40; i++ {
		l := accessory.NewLightbulb(accessory.Info{Name: fmt.Sprintf("Lamp %d", i), SerialNumber: strings.Repeat("s", 40)})
		lamps = append(lamps, l)
		accs = append(accs, l.Accessory)
	}
	acc, err := startE2E(c.ScratchDir(), "00102003", false, bridge.Accessory, accs...)
	if err != nil {
		c.Violate("transport does not start", id, nil, "started", err.Error())
		return
	}
	defer acc.Stop()
	ident := newRefIdentity(r, "ctrl-dr")
	setup, _ := acc.Dial()
	sr := refPairSetup(r, setup.Post(), "001-02-003", ident)
	setup.Close()
	if sr.ErrAt != "" {
		c.Violate("reference controller cannot pair", id, nil, "paired", sr.ErrAt)
		return
	}
	cl, err := acc.Dial()
	if err != nil {
		return
	}
	defer cl.Close()
	vr := refPairVerify(r, cl.Post(), ident, sr.AccLTPK)
	if vr.Shared == nil {
		c.Violate("paired reference controller cannot verify", id, nil, "verified", vr.ErrAt)
		return
	}
	cl.Upgrade(vr.Shared)
	cl.timeout = 3 * time.Second
	lamp := lamps[3]
	body := fmt.Sprintf(`{"characteristics":[{"aid":%d,"iid":%d,"ev":true}]}`, lamp.Accessory.ID, lamp.Lightbulb.On.ID)
	if m, err := cl.Do("PUT", "/characteristics", "application/hap+json", []byte(body)); err != nil || m.Status != 204 {
		c.Violate("subscription request of a verified connection on an observable characteristic is not accepted", id, nil, "204", fmt.Sprint(err, m))
		return
	}
	stop := make(chan struct{})
	var toggles int64
	go func() {
		v := false
		for {
			select {
			case <-stop:
				return
			default:
			}
			v = !v
			lamp.Lightbulb.On.SetValue(v)
			atomic.AddInt64(&toggles, 1)
			time.Sleep(50 * time.Microsecond)
		}
	}()
	n := c.Pick(60, 600)
	pipelined := 0
	for k := 0; k < n; k++ {
		if k%6 == 4 {
			// a second pair-verify through the encrypted connection while the events keep coming: the answer of the finish
			// under the old session, every event after it under the new one
			cl.rekeying = true
			vr2 := refPairVerify(r, cl.Post(), ident, sr.AccLTPK)
			if vr2.Shared == nil {
				close(stop)
				c.Violate("a pair-verify on an encrypted connection that is subscribed to a changing characteristic fails (an EVENT met the hand-over of the session)", id,
					map[string]interface{}{"request": k, "local_changes_so_far": atomic.LoadInt64(&toggles)}, "verified", vr2.ErrAt+" "+cl.broken)
				return
			}
			cl.Upgrade(vr2.Shared)
			if cl.broken != "" {
				close(stop)
				c.Violate("after a pair-verify on an encrypted, subscribed connection the controller cannot decrypt what the accessory sends (an EVENT met the hand-over of the session)", id,
					map[string]interface{}{"request": k, "local_changes_so_far": atomic.LoadInt64(&toggles)}, "frames under the new session from the answer on", cl.broken)
				return
			}
		}
		var m *refMsg
		var err error
		if k%2 == 1 {
			// two requests in ONE frame (a controller that does not wait): the second answer is as large as the first
			req := "GET /accessories HTTP/1.1\r\nHost: acc.local\r\n\r\n"
			cl.conn.Write(cl.sess.Encrypt([]byte(req + req)))
			for got := 0; got < 2 && err == nil; {
				var x *refMsg
				if x, err = cl.next(cl.timeout); err == nil && x == nil {
					err = errors.New("timeout waiting for the answers to two requests sent in one frame")
				}
				if x != nil && x.Event {
					cl.Events = append(cl.Events, *x)
				} else if x != nil {
					got++
					m = x
					var p2 struct {
						Accessories []json.RawMessage `json:"accessories"`
					}
					if x.Status != 200 || json.Unmarshal(bytes.TrimSpace(x.Body), &p2) != nil || len(p2.Accessories) != 41 {
						err = fmt.Errorf("answer %d of 2: status %d, %d body bytes", got, x.Status, len(x.Body))
					}
				}
			}
			pipelined++
		} else {
			m, err = cl.Do("GET", "/accessories", "", nil)
		}
		var parsed struct {
			Accessories []json.RawMessage `json:"accessories"`
		}
		if err != nil || m == nil || m.Status != 200 || json.Unmarshal(bytes.TrimSpace(m.Body), &parsed) != nil || len(parsed.Accessories) != 41 {
			got := fmt.Sprint(err)
			if m != nil {
				got = fmt.Sprintf("status %d, %d body bytes: …%s", m.Status, len(m.Body), trunc(string(m.Body[max(0, len(m.Body)-120):]), 120))
			}
			close(stop)
			c.Violate("an answer fetched while a subscribed characteristic changes does not arrive as a well-formed message (an EVENT was written into the middle of the response)", id,
				map[string]interface{}{"request": k, "accessories": 41, "local_changes_so_far": atomic.LoadInt64(&toggles)}, "200 with the attribute database of 41 accessories", got)
			return
		}
		for _, e := range cl.Events {
			var eb struct {
				Characteristics []struct {
					Aid, Iid uint64
				} `json:"characteristics"`
			}
			if json.Unmarshal(e.Body, &eb) != nil || len(eb.Characteristics) != 1 || eb.Characteristics[0].Aid != lamp.Accessory.ID {
				close(stop)
				c.Violate("EVENT message is not a single-characteristic HAP JSON body", id, k, "one characteristic", trunc(string(e.Body), 200))
				return
			}
		}
		cl.Events = nil
	}
	close(stop)
	c.Extra("during_response_local_changes", atomic.LoadInt64(&toggles))
	c.Count(id, true, "stream:during-response")
}

// c10StalledSubscriber: one subscribed controller keeps its connection open but stops reading (asleep, out of range). The
// others are subscribed too and keep reading. Every change must still reach them, the application's SetValue must return,
// and another controller's request must still be answered. (The fan-out writes to each connection synchronously and
// without a limit: once the stalled controller's socket buffers are full it blocks for ever — known finding F45.)
func c10StalledSubscriber(c *Ctx) {
	id := "stalled-subscriber#0"
	if c.Skip(id) {
		return
	}
	r := c.CaseRng("stalled-subscriber", 0)
	acc0 := accessory.New(accessory.Info{Name: "Stall"}, accessory.TypeOther)
	svc := service.New("F0AA")
	text := characteristic.NewString("F5AA")
	text.Format = characteristic.FormatString
	text.Perms = []string{characteristic.PermRead, characteristic.PermEvents}
	text.SetValue("-")
	svc.AddCharacteristic(text.Characteristic)
	acc0.AddService(svc)
	acc, err := startE2E(c.ScratchDir(), "00102003", false, acc0)
	if err != nil {
		c.Violate("transport does not start", id, nil, "started", err.Error())
		return
	}
	defer acc.Stop()
	ident := newRefIdentity(r, "ctrl-stall")
	setup, _ := acc.Dial()
	sr := refPairSetup(r, setup.Post(), "001-02-003", ident)
	setup.Close()
	if sr.ErrAt != "" {
		c.Violate("reference controller cannot pair", id, nil, "paired", sr.ErrAt)
		return
	}
	sub := fmt.Sprintf(`{"characteristics":[{"aid":%d,"iid":%d,"ev":true}]}`, acc0.ID, text.ID)
	connect := func(small bool) *refClient {
		cl, err := acc.Dial()
		if err != nil {
			return nil
		}
		if tc, ok := cl.conn.(*net.TCPConn); ok && small {
			tc.SetReadBuffer(4096)
		}
		vr := refPairVerify(r, cl.Post(), ident, sr.AccLTPK)
		if vr.Shared == nil {
			cl.Close()
			return nil
		}
		cl.Upgrade(vr.Shared)
		cl.timeout = 3 * time.Second
		if m, err := cl.Do("PUT", "/characteristics", "application/hap+json", []byte(sub)); err != nil || m.Status != 204 {
			cl.Close()
			return nil
		}
		return cl
	}
	stalled, listener, asker := connect(true), connect(false), connect(false)
	if stalled == nil || listener == nil || asker == nil {
		c.Violate("verified reference controllers cannot subscribe", id, nil, "3 subscribed connections", "failed")
		return
	}
	defer stalled.Close()
	defer listener.Close()
	defer asker.Close()
	// the listener reads everything that arrives; the stalled one reads nothing from now on
	var received int64
	go func() {
		for {
			m, err := listener.next(20 * time.Second)
			if err != nil {
				return
			}
			if m != nil && m.Event {
				atomic.AddInt64(&received, 1)
			}
		}
	}()
	changes := c.Pick(300, 1200)
	var done int64
	finished := make(chan struct{})
	go func() {
		defer close(finished)
		for k := 0; k < changes; k++ {
			text.SetValue(strings.Repeat(string(rune('a'+k%26)), 30000))
			atomic.StoreInt64(&done, int64(k+1))
		}
	}()
	in := map[string]interface{}{"subscribed_connections": 3, "one_of_them_stops_reading": true, "changes": changes, "event_bytes_each": 30000}
	// wait until all changes are made — or none has been made for two seconds
	last, lastAt := int64(-1), time.Now()
wait:
	for {
		select {
		case <-finished:
			break wait
		case <-time.After(100 * time.Millisecond):
		}
		if d := atomic.LoadInt64(&done); d != last {
			last, lastAt = d, time.Now()
		} else if time.Since(lastAt) > 2*time.Second {
			break
		}
	}
	made := atomic.LoadInt64(&done)
	time.Sleep(300 * time.Millisecond)
	got := atomic.LoadInt64(&received)
	// a request of the third controller while the fan-out is (possibly) stuck
	asker.timeout = 2 * time.Second
	_, aerr := asker.Do("GET", fmt.Sprintf("/characteristics?id=%d.%d", acc0.ID, text.ID), "", nil)
	blocked := made < int64(changes)
	if blocked || got < made {
		c.Violate("a subscribed controller that stops reading halts the notifications of all others (and the application's SetValue)", id, in,
			fmt.Sprintf("%d changes made, each notified to the reading subscriber", changes), fmt.Sprintf("SetValue number %d never returned; the reading subscriber received %d events; another controller's GET: %v", made+1, got, aerr))
	}
	c.Count(id, true, "stream:stalled-subscriber", fmt.Sprintf("stalled-subscriber:blocked=%v", blocked))
}

// c10RangeChange: the application narrows the range of a characteristic at run time (SetMaxValue / SetMinValue) so that
// the current value has to move. That is a change of the value like any other: the subscribed controllers are told.
func c10RangeChange(c *Ctx) {
	id := "range-change#0"
	if c.Skip(id) {
		return
	}
	r := c.CaseRng("range-change", 0)
	lamp := accessory.NewLightbulb(accessory.Info{Name: "Range"})
	b := characteristic.NewBrightness()
	lamp.Lightbulb.AddCharacteristic(b.Characteristic)
	b.SetValue(80)
	acc, err := startE2E(c.ScratchDir(), "00102003", false, lamp.Accessory)
	if err != nil {
		c.Violate("transport does not start", id, nil, "started", err.Error())
		return
	}
	defer acc.Stop()
	ident := newRefIdentity(r, "ctrl-range")
	setup, _ := acc.Dial()
	sr := refPairSetup(r, setup.Post(), "001-02-003", ident)
	setup.Close()
	cl, err := acc.Dial()
	if sr.ErrAt != "" || err != nil {
		c.Violate("reference controller cannot pair", id, nil, "paired", sr.ErrAt)
		return
	}
	defer cl.Close()
	vr := refPairVerify(r, cl.Post(), ident, sr.AccLTPK)
	if vr.Shared == nil {
		c.Violate("paired reference controller cannot verify", id, nil, "verified", vr.ErrAt)
		return
	}
	cl.Upgrade(vr.Shared)
	sub := fmt.Sprintf(`{"characteristics":[{"aid":%d,"iid":%d,"ev":true}]}`, lamp.Accessory.ID, b.ID)
	if m, err := cl.Do("PUT", "/characteristics", "application/hap+json", []byte(sub)); err != nil || m.Status != 204 {
		c.Violate("subscription request of a verified connection on an observable characteristic is not accepted", id, nil, "204", fmt.Sprint(err, m))
		return
	}
	for _, st := range []struct {
		what string
		do   func()
		want int
	}{
		{"SetMaxValue(25) with the value at 80", func() { b.SetMaxValue(25) }, 25},
		{"SetMinValue(20) after SetValue(5)", func() { b.SetValue(5); cl.Drain(200 * time.Millisecond); cl.Events = nil; b.SetMinValue(20) }, 20},
	} {
		cl.Events = nil
		st.do()
		cl.Drain(400 * time.Millisecond)
		got := []string{}
		for _, e := range cl.Events {
			got = append(got, trunc(string(bytes.TrimSpace(e.Body)), 100))
		}
		wantBody := fmt.Sprintf(`"value":%d`, st.want)
		if b.GetValue() != st.want || len(got) != 1 || !strings.Contains(got[0], wantBody) {
			c.Violate("a change of the value caused by a changed range is not notified to the subscribed controller exactly once", id,
				map[string]interface{}{"application_calls": st.what}, fmt.Sprintf("value %d and one EVENT carrying it", st.want), fmt.Sprintf("value %d, events %v", b.GetValue(), got))
		}
	}
	c.Count(id, true, "stream:range-change")
}
