package main

import (
	"fmt"

	"github.com/brutella/hc/accessory"
)

func init() { register("C04", checkC04) }

func checkC04(c *Ctx) {
	for i := 0; i < c.Pick(3, 50); i++ {
		id := c.CaseID("e2e", i)
		if c.Skip(id) {
			continue
		}
		r := c.CaseRng("e2e", i)
		pin := fmt.Sprintf("%08d", r.Intn(100000000))
		if pin == "12345678" {
			continue
		}
		a := accessory.NewSwitch(accessory.Info{Name: "Sw"})
		acc, err := startE2E(c.ScratchDir(), pin, false, a.Accessory)
		if err != nil {
			c.Violate("transport does not start", id, pin, "started", err.Error())
			continue
		}
		cl, _ := acc.Dial()
		ident := newRefIdentity(r, "ctrl-1")
		sr := refPairSetup(r, cl.Post(), pin[:3]+"-"+pin[3:5]+"-"+pin[5:], ident)
		fmt.Println("setup:", sr.ErrAt, sr.ErrCode, sr.AccName, sr.M2Valid, sr.M6SigOK)
		vr := refPairVerify(r, cl.Post(), ident, sr.AccLTPK)
		fmt.Println("verify:", vr.ErrAt, vr.ErrCode, vr.AccName, vr.M2SigOK)
		if vr.Shared != nil {
			cl.Upgrade(vr.Shared)
			m, err := cl.Do("GET", "/accessories", "", nil)
			fmt.Println("GET:", err, m != nil && m.Status == 200, m != nil && len(m.Body) > 0)
			if m != nil {
				fmt.Println(string(m.Body)[:min(200, len(m.Body))])
			}
		}
		cl.Close()
		acc.Stop()
		c.Count(pin, true, "e2e")
	}
}
