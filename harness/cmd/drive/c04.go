package main

// C04 — a specification-conformant controller can pair, verify and talk.
// End-to-end: the independent reference controller (ref_crypto.go / ref_flows.go: own SRP-6a, TLV8, HKDF, AEAD, framing;
// golang.org/x/crypto + stdlib only) against a real hc.NewIPTransport over loopback TCP. Every proof, signature and
// derived key the accessory produces is verified with the specification's algorithms; the outcome vector is compared
// with the symbolic run of HcModel/SpecController.lean over the labels regenerated from /repo.

import (
	"bytes"
	"encoding/json"
	"fmt"
	"io/ioutil"
	"math/big"
	"math/rand"
	"os"
	"path/filepath"
	"strings"
	"sync"
	"time"

	"github.com/brutella/hc/accessory"
	"github.com/brutella/hc/db"
	"github.com/brutella/hc/hap/pair"
	"github.com/brutella/hc/util"
)

func init() { register("C04", checkC04) }

func randomValidPin(r *rand.Rand) string {
	for {
		var p string
		switch r.Intn(4) {
		case 0:
			p = fmt.Sprintf("%08d", r.Intn(1000)) // leading zeros
		case 1:
			p = fmt.Sprintf("%08d", 99999000+r.Intn(1000))
		default:
			p = fmt.Sprintf("%08d", r.Intn(100000000))
		}
		bad := false
		for _, b := range []string{"12345678", "87654321", "00000000", "11111111", "22222222", "33333333", "44444444", "55555555", "66666666", "77777777", "88888888", "99999999"} {
			if p == b {
				bad = true
			}
		}
		if !bad {
			return p
		}
	}
}

func randomCtrlID(r *rand.Rand, kind int) string {
	switch kind % 8 {
	case 6: // white space at the ends is part of the identifier
		return []string{" lead", "trail ", "\ttab\n", "\u00a0nbsp\u00a0", "\u3000wide", " "}[r.Intn(6)] + fmt.Sprint(r.Intn(10))
	case 7:
		return fmt.Sprint(r.Intn(10)) + []string{" ", "\n", "\r\n", "\x00", "\u2028"}[r.Intn(5)]
	case 0:
		return fmt.Sprintf("%08X-%04X-%04X-%04X-%012X", r.Uint32(), r.Intn(65536), r.Intn(65536), r.Intn(65536), r.Int63n(1<<48))
	case 1:
		return string(rune('a' + r.Intn(26)))
	case 2:
		return strings.Repeat("ü", 1+r.Intn(30)) // 2-byte runes, up to 60 bytes
	case 3:
		return "控制器-" + fmt.Sprint(r.Intn(1000)) + "-𝄞"
	case 4:
		return strings.Repeat("x", 64)
	default:
		return fmt.Sprintf("controller %d / test", r.Intn(100000))
	}
}

func fmtPin(p string) string { return p[:3] + "-" + p[3:5] + "-" + p[5:] }

func checkC04(c *Ctx) {
	c.SetRule("full runs of an independent specification controller against hc.NewIPTransport over loopback TCP: random valid setup codes " +
		"(incl. leading zeros), controller ids of 1-64 bytes (UUID form, multi-byte UTF-8, non-BMP), fresh key pairs, client SRP keys whose A has a " +
		"leading zero byte (thorough), then pair-verify on a new connection and encrypted requests whose total size sweeps 1 B .. 64 KiB incl. exact " +
		"multiples of 1024; plus the same controller with a wrong code. non-trivial = run reached the encrypted phase (or, for wrong-code runs, M4). " +
		"The outcome vector is diffed with the symbolic run of the Lean model")
	c.Assume("conformance is relative to the transcription of the HAP constants in HcModel/SpecController.lean and ref_crypto.go; " +
		"SRP values A, B, S enter M1/M2/K in minimal big-endian form (Stanford reference; DESIGN.md §6 C04 limits)")
	c04SrpKeyLength(c)
	// "everything after it is encrypted in both directions": the hand-over itself, at every point at which the controller's
	// first frames can meet the accessory's write of the answer (forced on the real connection), first and second pair-verify
	c03Handover(c)
	c03Rekey(c)
	// "for every valid setup code": also the code an accessory is given after it ran with another one (same name, same
	// process) — the new code pairs, the previous one is answered with an authentication error
	c02Repin(c)
	// "for every … accessory identity and storage contents": a storage written by another installation of the library
	c20ForeignStorage(c)
	n := c.Pick(16, 96)
	model := c.Model([]string{"spec run 1", "spec run 0"})
	parallel(n, func(i int) {
		id := c.CaseID("e2e", i)
		if c.Skip(id) {
			return
		}
		r := c.CaseRng("e2e", i)
		codeOk := i%3 != 2
		c04Run(c, id, r, i, codeOk, c.Thorough() && i%10 == 5, i%2 == 0, model)
	})
}

func c04Run(c *Ctx, id string, r *rand.Rand, idx int, codeOk, forceLeadingZeroA, segmented bool, model []string) {
	pin := randomValidPin(r)
	ctrlPin := pin
	if !codeOk {
		for ctrlPin == pin {
			ctrlPin = randomValidPin(r)
		}
	}
	ctrlID := randomCtrlID(r, idx*3+idx/8) // every kind of identifier with a right and with a wrong code
	if idx%16 == 9 && codeOk {
		// an identifier the accessory cannot store (its pairing file would need a name beyond NAME_MAX): the controller must be
		// TOLD so — an M6 that reports success while nothing was stored leaves it paired with an accessory that does not know it
		ctrlID = strings.Repeat("y", 123+r.Intn(100))
	}
	input := map[string]interface{}{"pin": pin, "controller_pin": ctrlPin, "controller_id": ctrlID, "code_ok": codeOk}
	sw := accessory.NewSwitch(accessory.Info{Name: "Sw " + fmt.Sprint(r.Intn(100)), SerialNumber: strings.Repeat("S", r.Intn(3000))})
	dir := c.ScratchDir()
	acc, err := startE2E(dir, pin, false, sw.Accessory)
	if err != nil {
		c.Violate("transport does not start", id, input, "started", err.Error())
		return
	}
	defer acc.Stop()
	ident := newRefIdentity(r, ctrlID)
	cl, err := acc.Dial()
	if err != nil {
		c.Violate("cannot connect", id, input, "connect", err.Error())
		return
	}
	defer cl.Close()
	if idx%5 == 4 {
		cl.expect = true // a controller whose HTTP stack sends "Expect: 100-continue" and waits for the interim answer
		input["expect_100_continue"] = true
		c.Hist("expect 100-continue")
	}
	if idx%4 == 1 {
		// a crash during an earlier attempt to store this controller's pairing left its temporary file behind
		os.MkdirAll(dir, 0755)
		ioutil.WriteFile(filepath.Join(dir, hx([]byte(ctrlID))+".entity.tmp"), []byte(`{"Name":"half written`), 0644)
		input["stale_temporary_file_of_this_controllers_pairing"] = true
		c.Hist("stale entity temporary file")
	}
	if segmented {
		cl.seg = rand.New(rand.NewSource(r.Int63())) // requests arrive cut into several TCP segments
		input["segmented_requests"] = true
		c.Hist("segmented requests")
	}
	rr := r
	if forceLeadingZeroA {
		// choose the client's SRP secret so that A has a leading zero byte (A < 2^3064): minimal vs padded encodings differ
		for k := 0; k < 3000; k++ {
			seed := r.Int63()
			a := new(big.Int).SetBytes(randBytes(rand.New(rand.NewSource(seed)), 32))
			if len(new(big.Int).Exp(refSrpG, a, refSrpN).Bytes()) < 384 {
				rr = rand.New(rand.NewSource(seed))
				input["A_leading_zero"] = true
				c.Hist("A with leading zero byte")
				break
			}
		}
	}
	setupPost := cl.Post()
	if idx == 3 && codeOk {
		// a user who needs a while to type the setup code: more than ten seconds pass between the start response and the
		// proof message (one run; the others go on meanwhile)
		inner, n := setupPost, 0
		setupPost = func(path string, body []byte) (int, []byte, error) {
			if n++; n == 2 {
				time.Sleep(10500 * time.Millisecond)
			}
			return inner(path, body)
		}
		input["pause_before_the_proof_message_s"] = 10.5
		c.Hist("slow user")
	}
	sr := refPairSetup(rr, setupPost, fmtPin(ctrlPin), ident)
	database, _ := db.NewDatabase(dir)
	ent, eerr := database.EntityWithName(ctrlID)
	storedOK := eerr == nil && eqBytes(ent.PublicKey, ident.Pub) && ent.Name == ctrlID
	uuid, _ := ioutil.ReadFile(filepath.Join(dir, "uuid"))
	obs := map[string]string{}
	obs["accepted"] = b01(sr.ErrAt == "" || !strings.HasPrefix(sr.ErrAt, "M4"))
	obs["proof"] = b01(sr.M2Valid)
	obs["stored"] = "none"
	if storedOK {
		obs["stored"] = "ctrl"
	} else if eerr == nil {
		obs["stored"] = "other"
	}
	obs["m6"] = b01(sr.M6SigOK)
	if codeOk && len(ctrlID) > 122 && strings.HasPrefix(sr.ErrAt, "M6 error") && eerr != nil {
		// the documented limit: not storable, and said so
		c.Hist("unstorable identifier refused at M6")
		c.Count(fmt.Sprint(input), true, "codeOk=true", "idlen>122")
		return
	}
	if codeOk {
		if sr.ErrAt != "" {
			c.Violate("specification controller with the right setup code cannot complete pair-setup", id, input, "M6 verified", sr.ErrAt)
		} else {
			if sr.AccName != string(uuid) {
				c.Violate("accessory identifier in M6 differs from its device id", id, input, string(uuid), sr.AccName)
			}
			if dev, err := database.EntityWithName(string(uuid)); err != nil || !eqBytes(dev.PublicKey, sr.AccLTPK) {
				c.Violate("accessory LTPK in M6 differs from its stored key", id, input, "stored key", hx(sr.AccLTPK))
			}
		}
		if !storedOK {
			c.Violate("controller name / key not stored exactly after a completed pair-setup", id, input, ctrlID+" "+hx(ident.Pub), fmt.Sprint(eerr, ent.Name, hx(ent.PublicKey)))
		}
	} else {
		if !(strings.HasPrefix(sr.ErrAt, "M4 error") && sr.ErrCode == 2) {
			c.Violate("wrong setup code is not answered with authentication error 2 at M4", id, input, "M4 error 2", fmt.Sprint(sr.ErrAt, " code=", sr.ErrCode))
		}
		if eerr == nil {
			c.Violate("pairing stored although the setup code was wrong", id, input, "nothing stored", ent.Name)
		}
		if es, _ := database.Entities(); len(es) != 1 {
			c.Violate("pairing store changed by a pair-setup with a wrong code", id, input, "only the accessory's own entity", fmt.Sprint(len(es), " entities"))
		}
		// the user corrects the code: the same controller, on the same connection, now pairs
		if true {
			sr2 := refPairSetup(r, cl.Post(), fmtPin(pin), ident)
			if sr2.ErrAt != "" {
				c.Violate("specification controller that retries with the right setup code after a wrong one (same connection) cannot pair", id, input, "paired", sr2.ErrAt)
			} else {
				database.DeleteEntity(db.NewEntity(ctrlID, nil, nil)) // back to the unpaired state the rest of this run expects
			}
			c.Hist("retry after wrong code on the same connection")
		}
	}
	// ---- pair-verify on a new connection
	accLTPK := sr.AccLTPK
	if accLTPK == nil {
		if dev, err := database.EntityWithName(string(uuid)); err == nil {
			accLTPK = dev.PublicKey
		}
	}
	v2ok := false
	var cl2 *refClient
	var vr *verifyResult
	for attempt := 0; attempt < 1; attempt++ {
		cl2, err = acc.Dial()
		if err != nil {
			c.Violate("cannot connect", id, input, "connect", err.Error())
			return
		}
		defer cl2.Close()
		cl2.seg = cl.seg
		vr = refPairVerify(r, cl2.Post(), ident, accLTPK)
		v2ok = vr.M2SigOK
	}
	obs["v2"] = b01(v2ok)
	obs["v4"] = b01(vr.Shared != nil)
	if !v2ok {
		c.Violate("accessory's pair-verify M2 does not verify under the specification", id, input, "signature by the accessory LTSK over accEph|id|ctrlEph", vr.ErrAt)
	}
	if codeOk && vr.Shared == nil {
		c.Violate("paired specification controller cannot complete pair-verify", id, input, "verified", vr.ErrAt)
	}
	if !codeOk && vr.Shared != nil {
		c.Violate("unpaired controller completed pair-verify", id, input, "error", "verified")
	}
	keys := true
	reached := false
	if vr.Shared != nil {
		cl2.Upgrade(vr.Shared)
		// encrypted request / response exchanges; total request sizes sweep over frame boundaries
		want, _ := json.Marshal(struct {
			Accessories []*accessory.Accessory `json:"accessories"`
		}{[]*accessory.Accessory{sw.Accessory}})
		sizes := []int{0, 1, 300, 1024, 1025, 2048, 4096, 4097, 10240, 65536}
		if !c.Thorough() {
			sizes = []int{0, 1024, 2048, 4097, 20480}
		}
		for _, total := range sizes {
			m, err := c04SizedGet(cl2, total)
			if err != nil || m.Status != 200 {
				keys = false
				c.Violate("encrypted request of a verified specification controller is not served", id,
					map[string]interface{}{"run": input, "request_total_bytes": total}, "200 with the attribute database", fmt.Sprint(err, m))
				break
			}
			got := bytes.TrimSpace(m.Body)
			if !jsonEqual(got, want) {
				keys = false
				c.Violate("decrypted /accessories response differs from the accessory's attribute database", id,
					map[string]interface{}{"run": input, "request_total_bytes": total}, trunc(string(want), 300), trunc(string(got), 300))
				break
			}
			c.Hist(fmt.Sprintf("encrypted request bytes<=%d", bucketLen2(total)))
			reached = true
		}
	}
	if vr.Shared != nil && keys {
		// a record that straddles the end of the previous exchange: request A and the first bytes of the record that carries
		// request B arrive together; the rest of B only after A has been answered (net/http aborts its pending read in between)
		for _, cut := range []int{1, 2, 3, 20} {
			a := cl2.sess.Encrypt([]byte("GET /characteristics?id=1.2 HTTP/1.1\r\nHost: acc.local\r\n\r\n"))
			b := cl2.sess.Encrypt([]byte("GET /accessories HTTP/1.1\r\nHost: acc.local\r\n\r\n"))
			cl2.conn.Write(append(append([]byte{}, a...), b[:cut]...))
			ma, err := cl2.next(cl2.timeout)
			if err != nil || ma == nil {
				keys = false
				c.Violate("encrypted request of a verified specification controller is not served", id, map[string]interface{}{"run": input, "straddle": "request A + first bytes of the next record"}, "answer to A", fmt.Sprint(err, ma))
				break
			}
			time.Sleep(3 * time.Millisecond)
			cl2.conn.Write(b[cut:])
			mb, err := cl2.next(cl2.timeout)
			if err != nil || mb == nil || mb.Status != 200 {
				keys = false
				c.Violate("a record whose first bytes arrived together with the previous request is lost (the verified controller gets no answer)", id,
					map[string]interface{}{"run": input, "first_bytes_of_record_sent_early": cut}, "200", fmt.Sprint(err, mb))
				break
			}
			c.Hist("straddling record")
		}
	}
	if codeOk && sr.ErrAt == "" && keys && idx%6 == 0 {
		// two controllers (two connections of the paired one) verify at the same time: both start requests are answered
		// before either finish request is sent
		ca, erra := acc.Dial()
		cb, errb := acc.Dial()
		if erra == nil && errb == nil {
			started := make(chan struct{}, 2)
			both := make(chan struct{})
			go func() { <-started; <-started; close(both) }()
			gate := func(p postFn) postFn {
				n := 0
				return func(path string, body []byte) (int, []byte, error) {
					n++
					if n == 2 {
						select {
						case <-both:
						case <-time.After(5 * time.Second):
						}
					}
					st, b, err := p(path, body)
					if n == 1 {
						started <- struct{}{}
					}
					return st, b, err
				}
			}
			res := make([]*verifyResult, 2)
			var wg sync.WaitGroup
			for k, cx := range []*refClient{ca, cb} {
				wg.Add(1)
				go func(k int, cx *refClient) {
					defer wg.Done()
					res[k] = refPairVerify(rand.New(rand.NewSource(int64(idx*2+k))), gate(cx.Post()), ident, accLTPK)
				}(k, cx)
			}
			wg.Wait()
			for k := range res {
				if res[k].Shared == nil {
					keys = false
					c.Violate("paired specification controller cannot complete pair-verify while another connection is in the middle of its own", id,
						map[string]interface{}{"run": input, "order": "start(c1) start(c2) finish(c1) finish(c2)"}, "both verified", fmt.Sprintf("connection %d: %s", k+1, res[k].ErrAt))
				}
			}
			c.Hist("interleaved pair-verify of two connections")
		}
		if ca != nil {
			ca.Close()
		}
		if cb != nil {
			cb.Close()
		}
	}
	if codeOk && sr.ErrAt == "" && keys && idx%6 == 4 {
		// the user resets the controller and pairs it again: same identifier, a new long-term key
		ident2 := newRefIdentity(r, ctrlID)
		if cp, err := acc.Dial(); err == nil {
			sr2 := refPairSetup(r, cp.Post(), fmtPin(pin), ident2)
			cp.Close()
			if sr2.ErrAt != "" {
				c.Violate("specification controller cannot pair again under its identifier with a new key", id, input, "paired", sr2.ErrAt)
			} else {
				cn, _ := acc.Dial()
				if vn := refPairVerify(r, cn.Post(), ident2, sr2.AccLTPK); vn.Shared == nil {
					keys = false
					c.Violate("paired specification controller cannot complete pair-verify (it paired again under its identifier with a new key, after it had verified with the old one)", id, input, "verified with the new key", vn.ErrAt)
				}
				cn.Close()
				co, _ := acc.Dial()
				if vo := refPairVerify(r, co.Post(), ident, sr2.AccLTPK); vo.Shared != nil {
					c.Violate("unpaired controller completed pair-verify", id, map[string]interface{}{"run": input, "key": "the one the identifier had before it was paired again"}, "error", "verified")
				}
				co.Close()
				ident = ident2
			}
			c.Hist("paired again with a new key")
		}
	}
	if codeOk && sr.ErrAt == "" && keys {
		// the accessory is restarted on the same storage: same identity, and the pairing still verifies
		cl.Close()
		if cl2 != nil {
			cl2.Close()
		}
		acc.Stop()
		sw2 := accessory.NewSwitch(accessory.Info{Name: sw.Info.Name.GetValue(), SerialNumber: sw.Info.SerialNumber.GetValue()})
		acc2, err := startE2E(dir, pin, false, sw2.Accessory)
		if err != nil {
			c.Violate("transport does not start again on its own storage", id, input, "started", err.Error())
		} else {
			if cl3, err := acc2.Dial(); err == nil {
				vr3 := refPairVerify(r, cl3.Post(), ident, sr.AccLTPK)
				if vr3.Shared == nil || !vr3.M2SigOK {
					keys = false
					c.Violate("after a restart of the accessory on the same storage the paired specification controller cannot complete pair-verify (accessory identity or key changed)", id, input,
						"verified under the long-term key learned at pair-setup", vr3.ErrAt)
				}
				cl3.Close()
				c.Hist("verify after restart")
			}
			acc2.Stop()
		}
	}
	obs["keys"] = b01(keys)
	implVec := fmt.Sprintf("accepted=%s proof=%s stored=%s m6=%s v2=%s v4=%s keys=%s", obs["accepted"], obs["proof"], obs["stored"], obs["m6"], obs["v2"], obs["v4"], obs["keys"])
	mi := 1
	if codeOk {
		mi = 0
	}
	c.Same("spec-run", id, input, model[mi], implVec)
	c.Count(fmt.Sprint(input), reached || (!codeOk && strings.HasPrefix(sr.ErrAt, "M4")), fmt.Sprintf("codeOk=%v", codeOk), fmt.Sprintf("idlen<=%d", (len(ctrlID)/16+1)*16))
	c.Sample(map[string]interface{}{"input": input, "outcome": implVec, "setup": sr.ErrAt, "verify": vr.ErrAt})
	c.Trace()
}

// c04SizedGet sends GET /accessories padded with a header so that the whole request is exactly `total` bytes
// (total = 0: no padding).
func c04SizedGet(cl *refClient, total int) (*refMsg, error) {
	base := "GET /accessories HTTP/1.1\r\nHost: acc.local\r\n"
	pad := ""
	if total > 0 {
		overhead := len(base) + len("X-Pad: \r\n") + len("\r\n")
		if total > overhead {
			pad = strings.Repeat("p", total-overhead)
		}
	}
	req := base
	if pad != "" {
		req += "X-Pad: " + pad + "\r\n"
	}
	req += "\r\n"
	if err := cl.send([]byte(req)); err != nil {
		return nil, err
	}
	for {
		m, err := cl.next(cl.timeout)
		if err != nil {
			return nil, err
		}
		if m == nil {
			return nil, fmt.Errorf("timeout waiting for response (request of %d bytes)", len(req))
		}
		if !m.Event {
			return m, nil
		}
	}
}

func jsonEqual(a, b []byte) bool {
	var x, y interface{}
	if json.Unmarshal(a, &x) != nil || json.Unmarshal(b, &y) != nil {
		return false
	}
	ja, _ := json.Marshal(x)
	jb, _ := json.Marshal(y)
	return bytes.Equal(ja, jb)
}

func bucketLen2(n int) int {
	for _, b := range []int{0, 1, 1024, 2048, 4096, 8192, 16384, 65536} {
		if n <= b {
			return b
		}
	}
	return 1 << 20
}

// c04SrpKeyLength: the accessory's SRP public key B is a 3072-bit number; one in 256 has a leading zero byte. The start
// response carries it as the 384 bytes the specification defines (a controller written from the specification — and the
// library's own client — refuses any other length), and pairing succeeds with such a key like with any other.
func c04SrpKeyLength(c *Ctx) {
	id := "srp-key-length#0"
	if c.Skip(id) {
		return
	}
	r := c.CaseRng("srp-key-length", 0)
	a := accessory.NewSwitch(accessory.Info{Name: "Sw"})
	f, err := newAccFixture(c, "00102003", a.Accessory)
	if err != nil {
		c.Violate("C04 fixture cannot be built", id, nil, "fixture", err.Error())
		return
	}
	defer f.Close()
	tried, short := 0, 0
	for ; tried < 1500 && short < 1; tried++ {
		ctl, err := pair.NewSetupServerController(f.device, f.db)
		if err != nil {
			c.Violate("pair-setup controller cannot be created", id, nil, "controller", err.Error())
			return
		}
		in, _ := util.NewTLV8ContainerFromReader(bytes.NewReader(tlvMsg(tlvOp{tState, b1(1)}, tlvOp{tMethod, b1(0)})))
		out, err := ctl.Handle(in)
		if err != nil {
			c.Violate("pair-setup start is refused", id, nil, "M2", err.Error())
			return
		}
		B, salt := out.GetBytes(pair.TagPublicKey), out.GetBytes(pair.TagSalt)
		leadingZero := len(B) < 384 || B[0] == 0
		if len(B) != 384 {
			c.Violate("the accessory's SRP public key is not sent as the 384 bytes the specification defines (its value has a leading zero byte)", id,
				map[string]interface{}{"pair_setup_controllers_tried": tried + 1}, "384 bytes", fmt.Sprintf("%d bytes", len(B)))
		}
		if !leadingZero {
			continue
		}
		short++
		// the exchange goes on with this key
		cl := newRefSRPClient(r, "Pair-Setup", f.pin)
		cl.Respond(salt, B)
		m3, _ := util.NewTLV8ContainerFromReader(bytes.NewReader(tlvMsg(tlvOp{tState, b1(3)}, tlvOp{tPubKey, cl.Abytes()}, tlvOp{tProof, cl.M1})))
		m4, err := ctl.Handle(m3)
		if err != nil || m4.GetByte(pair.TagErrCode) != 0 || !cl.VerifyM2(m4.GetBytes(pair.TagProof)) {
			c.Violate("the setup-code proof is refused when the accessory's SRP public key has a leading zero byte", id, map[string]interface{}{"B_bytes_on_the_wire": len(B)}, "M4 with the accessory's proof", fmt.Sprint(err, m4))
		}
	}
	c.Count(id, short > 0, "stream:srp-key-length", fmt.Sprintf("srp-key-length:leading-zero-keys=%d", short))
	c.Extra("srp_key_length_controllers_tried", tried)
}
