package main

// C15 — "every constructor the library exports for a characteristic … returns a usable object": also the generic ones,
// `NewCharacteristic / NewBool / NewInt / NewFloat / NewString / NewBytes (typ)`, the way an application declares a
// characteristic of its own (F67). Stream `generic-ctors`: each of them in a service of an accessory that is served over a
// verified session: the characteristic carries a valid permission list and (all but the untyped base) a HAP format; a
// controller writes values of every kind to it, the application sets a NaN; the attribute database is served all the
// same and the typed getter returns.

import (
	"bytes"
	"encoding/json"
	"fmt"
	"math"

	"github.com/brutella/hc/accessory"
	"github.com/brutella/hc/characteristic"
	"github.com/brutella/hc/service"
)

func c15GenericCtors(c *Ctx) {
	hapFormats := map[string]bool{"bool": true, "uint8": true, "uint16": true, "uint32": true, "uint64": true, "int": true, "int32": true, "float": true, "string": true, "tlv8": true, "data": true}
	hapPerms := map[string]bool{"pr": true, "pw": true, "ev": true, "aa": true, "tw": true, "hd": true, "wr": true}
	const typ = "F0000001-0000-1000-8000-0026BB765291"
	for _, kind := range []string{"NewCharacteristic", "NewBool", "NewInt", "NewFloat", "NewString", "NewBytes"} {
		id := "generic-ctors#" + kind
		if c.Skip(id) {
			continue
		}
		var ch *characteristic.Characteristic
		var getter func()
		var nan func()
		msg, pan := safely(func() {
			switch kind {
			case "NewCharacteristic":
				ch = characteristic.NewCharacteristic(typ)
				getter = func() { ch.GetValue() }
			case "NewBool":
				x := characteristic.NewBool(typ)
				ch, getter = x.Characteristic, func() { x.GetValue() }
			case "NewInt":
				x := characteristic.NewInt(typ)
				ch, getter = x.Characteristic, func() { x.GetValue() }
			case "NewFloat":
				x := characteristic.NewFloat(typ)
				ch, getter = x.Characteristic, func() { x.GetValue() }
				nan = func() { x.SetValue(math.NaN()) }
			case "NewString":
				x := characteristic.NewString(typ)
				ch, getter = x.Characteristic, func() { x.GetValue() }
			case "NewBytes":
				x := characteristic.NewBytes(typ)
				ch, getter = x.Characteristic, func() { x.GetValue() }
			}
		})
		in := map[string]interface{}{"constructor": "characteristic." + kind + "(typ)", "used": "as returned, in a service of an accessory that is served"}
		if pan {
			c.Violate("generic characteristic constructor panics", id, in, "a characteristic", msg)
			continue
		}
		svc := service.New("F0000002-0000-1000-8000-0026BB765291")
		svc.AddCharacteristic(ch)
		a := accessory.New(accessory.Info{Name: "Own"}, accessory.TypeOther)
		a.AddService(svc)
		f, addr, err := verifiedFixture(c, []*accessory.Accessory{a})
		if err != nil {
			c.Violate("fixture cannot be built", id, in, "fixture", err.Error())
			continue
		}
		served := func(when string) map[string]interface{} {
			st, body, _, pm := f.Do(addr, "GET", "/accessories", "", nil)
			var doc struct {
				Accessories []struct {
					Services []struct {
						Characteristics []map[string]interface{} `json:"characteristics"`
					} `json:"services"`
				} `json:"accessories"`
			}
			if pm != "" || st != 200 || json.Unmarshal(bytes.TrimSpace(body), &doc) != nil {
				c.Violate("the attribute database with a characteristic of a generic constructor is not served as well-formed JSON ("+when+")", id, in, "200 + JSON", fmt.Sprint(st, " ", trunc(string(body), 100), pm))
				return nil
			}
			for _, a := range doc.Accessories {
				for _, s := range a.Services {
					for _, ch := range s.Characteristics {
						if ch["type"] == typ || ch["type"] == "F0000001" {
							return ch
						}
					}
				}
			}
			c.Violate("the characteristic of a generic constructor is not served", id, in, "type "+typ, trunc(string(body), 200))
			return nil
		}
		if ch := served("as constructed"); ch != nil {
			perms, _ := ch["perms"].([]interface{})
			okPerms := len(perms) > 0
			for _, p := range perms {
				if s, _ := p.(string); !hapPerms[s] {
					okPerms = false
				}
			}
			if !okPerms {
				c.Violate("a characteristic of a generic constructor is served without a valid permission list", id, in, "a non-empty list of HAP permissions (NewCharacteristic: \"If no permissions are specified, the value of PermsAll() is used\")", fmt.Sprint(ch["perms"]))
			}
			if fm, _ := ch["format"].(string); kind != "NewCharacteristic" && !hapFormats[fm] {
				c.Violate("a characteristic of a typed generic constructor is served without a HAP format", id, in, "one of the formats of package characteristic", fmt.Sprintf("%q", ch["format"]))
			}
			if iid, _ := ch["iid"].(float64); iid == 0 {
				c.Violate("a characteristic of a generic constructor is served without an instance id", id, in, "iid > 0", fmt.Sprint(ch["iid"]))
			}
		}
		// a controller writes values of every kind
		aid, iid := a.ID, ch.ID
		for _, v := range []string{`"hello"`, `99`, `-3.5`, `true`, `null`, `[1]`, `{"a":1}`, `1e40`} {
			body := fmt.Sprintf(`{"characteristics":[{"aid":%d,"iid":%d,"value":%s}]}`, aid, iid, v)
			f.Do(addr, "PUT", "/characteristics", body, nil)
		}
		if _, pg := safely(getter); pg {
			c.Violate("the typed getter of a generic constructor's characteristic panics after a controller's writes", id, in, "a value", "panic")
		}
		served("after a controller wrote values of every JSON kind")
		if nan != nil {
			safely(nan)
			served("after the application set NaN")
			if _, pg := safely(getter); pg {
				c.Violate("the typed getter of a generic constructor's characteristic panics after the application set NaN", id, in, "a value", "panic")
			}
		}
		f.Close()
		c.Count(id, true, "stream:generic-ctors")
	}
}
