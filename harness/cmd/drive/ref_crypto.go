package main

// Independent reference implementation of the cryptography and message formats of HAP, written from the
// specification (HAP R2 §5: pair-setup with SRP-6a 3072/SHA-512, pair-verify, session security).
// Uses only the Go standard library and golang.org/x/crypto — never hc's own wrappers or its SRP dependency.

import (
	"bytes"
	"crypto/ed25519"
	"crypto/sha512"
	"encoding/binary"
	"errors"
	"io"
	"math/big"
	"math/rand"

	"golang.org/x/crypto/chacha20poly1305"
	"golang.org/x/crypto/curve25519"
	"golang.org/x/crypto/hkdf"
)

// RFC 5054 3072-bit group, generator 5.
const refSrpNHex = "FFFFFFFFFFFFFFFFC90FDAA22168C234C4C6628B80DC1CD129024E088A67CC74020BBEA63B139B22514A08798E3404DDEF9519B3CD3A431B302B0A6DF25F14374FE1356D6D51C245E485B576625E7EC6F44C42E9A637ED6B0BFF5CB6F406B7EDEE386BFB5A899FA5AE9F24117C4B1FE649286651ECE45B3DC2007CB8A163BF0598DA48361C55D39A69163FA8FD24CF5F83655D23DCA3AD961C62F356208552BB9ED529077096966D670C354E4ABC9804F1746C08CA18217C32905E462E36CE3BE39E772C180E86039B2783A2EC07A28FB5C55DF06F4C52C9DE2BCBF6955817183995497CEA956AE515D2261898FA051015728E5A8AAAC42DAD33170D04507A33A85521ABDF1CBA64ECFB850458DBEF0A8AEA71575D060C7DB3970F85A6E1E4C7ABF5AE8CDB0933D71E8C94E04A25619DCEE3D2261AD2EE6BF12FFA06D98A0864D87602733EC86A64521F2B18177B200CBBE117577A615D6C770988C0BAD946E208E24FA074E5AB3143DB5BFCE0FD108E4B82D120A93AD2CAFFFFFFFFFFFFFFFF"

type bigInt = big.Int

var refSrpN, _ = new(big.Int).SetString(refSrpNHex, 16)
var refSrpG = big.NewInt(5)

func refH(parts ...[]byte) []byte {
	h := sha512.New()
	for _, p := range parts {
		h.Write(p)
	}
	return h.Sum(nil)
}

func refPad(n *big.Int) []byte {
	b := n.Bytes()
	if len(b) < 384 {
		p := make([]byte, 384)
		copy(p[384-len(b):], b)
		return p
	}
	return b
}

// refSRPClient is an SRP-6a client: x = H(s | H(I ":" P)), k = H(N | PAD(g)), u = H(PAD(A) | PAD(B)),
// S = (B - k g^x)^(a + u x), K = H(S), M1 = H(H(N) xor H(g) | H(I) | s | A | B | K), M2 = H(A | M1 | K).
// A, B and S enter M1/M2/K in minimal big-endian form (Stanford reference behaviour; DESIGN.md §6 C04 limits).
type refSRPClient struct {
	I, P []byte
	a, A *big.Int
	salt []byte
	B    *big.Int
	K    []byte
	M1   []byte
}

func newRefSRPClient(r *rand.Rand, user, pass string) *refSRPClient {
	a := new(big.Int).SetBytes(randBytes(r, 32))
	return &refSRPClient{I: []byte(user), P: []byte(pass), a: a, A: new(big.Int).Exp(refSrpG, a, refSrpN)}
}

func (c *refSRPClient) Abytes() []byte { return c.A.Bytes() }

// Respond computes K and M1 from the server's salt and B.
func (c *refSRPClient) Respond(salt, Bb []byte) (M1 []byte, err error) {
	c.salt = salt
	c.B = new(big.Int).SetBytes(Bb)
	if new(big.Int).Mod(c.B, refSrpN).Sign() == 0 {
		return nil, errors.New("B mod N == 0")
	}
	x := new(big.Int).SetBytes(refH(salt, refH(c.I, []byte(":"), c.P)))
	k := new(big.Int).SetBytes(refH(refSrpN.Bytes(), refPad(refSrpG)))
	u := new(big.Int).SetBytes(refH(refPad(c.A), refPad(c.B)))
	gx := new(big.Int).Exp(refSrpG, x, refSrpN)
	base := new(big.Int).Mul(k, gx)
	base.Sub(c.B, base)
	base.Mod(base, refSrpN)
	e := new(big.Int).Mul(u, x)
	e.Add(e, c.a)
	S := new(big.Int).Exp(base, e, refSrpN)
	c.K = refH(S.Bytes())
	hn := new(big.Int).SetBytes(refH(refSrpN.Bytes()))
	hg := new(big.Int).SetBytes(refH(refSrpG.Bytes()))
	hng := new(big.Int).Xor(hn, hg)
	c.M1 = refH(hng.Bytes(), refH(c.I), salt, c.A.Bytes(), c.B.Bytes(), c.K)
	return c.M1, nil
}

func (c *refSRPClient) VerifyM2(M2 []byte) bool {
	return bytes.Equal(M2, refH(c.A.Bytes(), c.M1, c.K))
}

func refHKDF(ikm []byte, salt, info string) []byte {
	r := hkdf.New(sha512.New, ikm, []byte(salt), []byte(info))
	out := make([]byte, 32)
	io.ReadFull(r, out)
	return out
}

func refNonce(n []byte) []byte {
	out := make([]byte, 12)
	copy(out[12-len(n):], n)
	return out
}

// refSeal returns ciphertext || 16-byte tag. nonce: up to 12 bytes, left-padded with zeros (HAP: 8-byte nonces).
func refSeal(key, nonce, pt, ad []byte) []byte {
	a, err := chacha20poly1305.New(key)
	if err != nil {
		panic(err)
	}
	return a.Seal(nil, refNonce(nonce), pt, ad)
}

func refOpen(key, nonce, ct, ad []byte) ([]byte, bool) {
	a, err := chacha20poly1305.New(key)
	if err != nil {
		panic(err)
	}
	pt, err := a.Open(nil, refNonce(nonce), ct, ad)
	return pt, err == nil
}

func refX25519Pub(sk []byte) []byte {
	p, err := curve25519.X25519(sk, curve25519.Basepoint)
	if err != nil {
		panic(err)
	}
	return p
}

func refX25519(sk, pk []byte) []byte {
	var out, s, p [32]byte
	copy(s[:], sk)
	copy(p[:], pk)
	curve25519.ScalarMult(&out, &s, &p) // low-order points give zeros, like hc's wrapper (no error)
	return out[:]
}

// ---- HAP session framing (reference) --------------------------------------------------------------

type refSession struct {
	encKey, decKey []byte
	encCnt, decCnt uint64
}

// newRefControllerSession: controller side (writes with Control-Write key, reads with Control-Read key).
func newRefControllerSession(shared []byte) *refSession {
	return &refSession{encKey: refHKDF(shared, "Control-Salt", "Control-Write-Encryption-Key"),
		decKey: refHKDF(shared, "Control-Salt", "Control-Read-Encryption-Key")}
}

// newRefAccessorySession: accessory side.
func newRefAccessorySession(shared []byte) *refSession {
	return &refSession{encKey: refHKDF(shared, "Control-Salt", "Control-Read-Encryption-Key"),
		decKey: refHKDF(shared, "Control-Salt", "Control-Write-Encryption-Key")}
}

func refFrame(key []byte, ctr uint64, chunk []byte) []byte {
	var n [8]byte
	binary.LittleEndian.PutUint64(n[:], ctr)
	var l [2]byte
	binary.LittleEndian.PutUint16(l[:], uint16(len(chunk)))
	return append(append([]byte{}, l[:]...), refSeal(key, n[:], chunk, l[:])...)
}

// Encrypt frames a message into <=1024-byte frames.
func (s *refSession) Encrypt(msg []byte) []byte {
	var out []byte
	for len(msg) > 0 {
		n := len(msg)
		if n > 1024 {
			n = 1024
		}
		out = append(out, refFrame(s.encKey, s.encCnt, msg[:n])...)
		s.encCnt++
		msg = msg[n:]
	}
	return out
}

// EmptyFrame seals a frame without data (the wire format allows it; a receiver skips it).
func (s *refSession) EmptyFrame() []byte {
	f := refFrame(s.encKey, s.encCnt, nil)
	s.encCnt++
	return f
}

// DecryptFrames decrypts as many whole frames as buf holds; returns plaintext, consumed bytes, ok=false on auth failure.
func (s *refSession) DecryptFrames(buf []byte) (pt []byte, used int, ok bool) {
	for len(buf)-used >= 2 {
		l := int(binary.LittleEndian.Uint16(buf[used:]))
		if len(buf)-used < 2+l+16 {
			break
		}
		var n [8]byte
		binary.LittleEndian.PutUint64(n[:], s.decCnt)
		p, good := refOpen(s.decKey, n[:], buf[used+2:used+2+l+16], buf[used:used+2])
		if !good {
			return pt, used, false
		}
		s.decCnt++
		pt = append(pt, p...)
		used += 2 + l + 16
	}
	return pt, used, true
}

// ---- TLV8 helpers (reference; see also c16.go) ------------------------------------------------------

const (
	tMethod = 0x00
	tID     = 0x01
	tSalt   = 0x02
	tPubKey = 0x03
	tProof  = 0x04
	tEnc    = 0x05
	tState  = 0x06
	tError  = 0x07
	tSig    = 0x0a
	tPerm   = 0x0b
)

func tlvGet(items []tlvOp, tag byte) []byte {
	var v []byte
	for _, it := range items {
		if it.Tag == tag {
			v = append(v, it.Val...)
		}
	}
	return v
}

func tlvHas(items []tlvOp, tag byte) bool {
	for _, it := range items {
		if it.Tag == tag {
			return true
		}
	}
	return false
}

// tlvFirst returns the first item's first byte for tag (what a spec reader takes for a 1-byte field), ok=false if absent.
func tlvFirst(items []tlvOp, tag byte) (byte, bool) {
	for _, it := range items {
		if it.Tag == tag {
			if len(it.Val) == 0 {
				return 0, true
			}
			return it.Val[0], true
		}
	}
	return 0, false
}

// ---- reference controller identity -------------------------------------------------------------------

type refIdentity struct {
	Name string
	Pub  ed25519.PublicKey
	Priv ed25519.PrivateKey
}

func newRefIdentity(r *rand.Rand, name string) *refIdentity {
	seed := randBytes(r, 32)
	priv := ed25519.NewKeyFromSeed(seed)
	return &refIdentity{Name: name, Pub: priv.Public().(ed25519.PublicKey), Priv: priv}
}
