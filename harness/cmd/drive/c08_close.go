package main

import (
	"bytes"
	"fmt"
	"net"
	"sync"

	"github.com/brutella/hc/crypto"
	"github.com/brutella/hc/hap"
)

// raceCtx is a hap.Context in which the connection's session disappears (as Connection.Close on another goroutine
// makes it disappear) after a chosen number of lookups have still seen it.
type raceCtx struct {
	hap.Context
	mu    sync.Mutex
	armed bool
	left  int // lookups that still see the session; <0: never deleted
	// closer, when set, is what makes the session disappear: the connection's real Close (everything Close does to the
	// session happens at that point, not only its removal from the context)
	closer func()
}

func (r *raceCtx) GetSessionForConnection(cn net.Conn) hap.Session {
	r.mu.Lock()
	defer r.mu.Unlock()
	closeNow := func() {
		r.armed = false // Close looks the session up itself
		r.mu.Unlock()
		r.closer()
		r.mu.Lock()
	}
	if r.armed && r.left == 0 {
		if r.closer != nil {
			closeNow()
		} else {
			r.Context.DeleteSessionForConnection(cn)
		}
	}
	if r.armed && r.left > 0 {
		r.left--
		if r.left == 0 && r.closer != nil {
			// the connection is closed right after this lookup has returned the session: the caller holds a session
			// whose connection is gone (with one lookup per operation there is no later lookup to notice it)
			sess := r.Context.GetSessionForConnection(cn)
			closeNow()
			return sess
		}
	}
	return r.Context.GetSessionForConnection(cn)
}

// c08CloseRace: a connection is closed (its session deleted from the context) while the application writes a
// notification to it, or while a background read finds a frame — at every position among the operation's session
// lookups. Compared with HcModel/SessLookup.lean; direct oracle: no panic, nothing unencrypted on a verified connection.
func c08CloseRace(c *Ctx) {
	for _, verified := range []bool{true, false} {
		for d := -1; d <= 4; d++ {
			for _, op := range []string{"write", "read", "write.close", "read.close"} {
				id := fmt.Sprintf("close-race#%s.v%v.d%d", op, verified, d)
				realClose := len(op) > 5
				if realClose {
					op = op[:len(op)-6]
				}
				if c.Skip(id) {
					continue
				}
				r := c.CaseRng("close-race", d+1)
				raw := newHoConn()
				ctx := &raceCtx{Context: hap.NewContextForSecuredDevice(nil), left: d}
				conn := hap.NewConnection(raw, ctx)
				var shared [32]byte
				copy(shared[:], randBytes(r, 32))
				peer := newRefControllerSession(shared[:])
				if verified {
					sec, _ := crypto.NewSecureSessionFromSharedKey(shared)
					ctx.Context.GetSessionForConnection(raw).SetCryptographer(sec)
					responseWritten(ctx.Context, raw)
				}
				payload := []byte("EVENT/1.0 200 OK\r\nContent-Type: application/hap+json\r\nContent-Length: 49\r\n\r\n{\"characteristics\":[{\"aid\":1,\"iid\":10,\"value\":" + fmt.Sprint(r.Intn(90)+10) + "}]}")
				request := []byte("GET /accessories HTTP/1.1\r\nHost: x\r\n\r\n")
				if realClose {
					ctx.closer = func() { conn.Close() }
				}
				ctx.armed = true
				out := "?"
				var detail string
				msg, panicked := safely(func() {
					switch op {
					case "write":
						n, err := conn.Write(payload)
						raw.mu.Lock()
						var all []byte
						for _, o := range raw.out {
							all = append(all, o...)
						}
						raw.mu.Unlock()
						switch {
						case len(all) == 0:
							out = "refused"
						case bytes.Equal(all, payload):
							out = "raw"
						default:
							if pt, _, ok := peer.DecryptFrames(all); ok && bytes.Equal(pt, payload) {
								out = "sealed"
							} else {
								out = "garbled"
							}
						}
						detail = fmt.Sprintf("n=%d err=%v wire=%d bytes", n, err, len(all))
					case "read":
						wire := request
						if verified {
							wire = peer.Encrypt(request)
						}
						raw.push(wire)
						buf := make([]byte, 4096)
						n, err := conn.Read(buf)
						switch {
						case n == 0:
							out = "refused"
						case verified && bytes.Equal(buf[:n], request):
							out = "sealed"
						case bytes.Equal(buf[:n], wire[:n]):
							out = "raw"
						default:
							out = "garbled"
						}
						detail = fmt.Sprintf("n=%d err=%v", n, err)
					}
				})
				if panicked {
					out, detail = "panic", msg
				}
				ctx.armed = false
				in := map[string]interface{}{"operation": op, "verified_connection": verified, "session_lookups_before_the_session_is_deleted": d, "deleted_by_the_connections_Close": realClose}
				if out == "panic" {
					c.Violate("closing a connection while it is "+map[string]string{"write": "written to (notification from the application's goroutine)", "read": "read"}[op]+" panics", id, in, "sealed or refused", trunc(detail, 300))
				}
				if verified && op == "write" && (out == "raw" || out == "garbled") {
					c.Violate("a write on a verified connection that is being closed goes out unencrypted", id, in, "sealed or refused", out+" "+detail)
				}
				ds := "-"
				if d >= 0 {
					ds = fmt.Sprint(d)
				}
				v := "0"
				if verified {
					v = "1"
				}
				model := c.Model1(fmt.Sprintf("sess %s 1 %s %s", op, v, ds))
				if op == "read" && !verified && model == "raw" && out == "refused" {
					// an unverified connection refuses what is not a well-formed request line; the bytes here are a request, so this does not happen
				}
				if realClose && op == "read" && model == "raw" && out == "refused" {
					model = "refused" // Close also closes the socket: nothing can be read from it any more
				}
				c.Same("close-race", id, in, model, out)
				c.Count(id, d >= 0, "stream:close-race", "close-race:"+op+":"+out)
				raw.Close()
			}
		}
	}
}

// c08StaleConnection: a controller resets its connection and connects again from the same port while the accessory is
// still busy with a request of the old connection (both connections have the same pair of addresses, the key of a
// session in the context). What the old connection's goroutines then write — the answer of that request, an event — must
// not be sealed with the NEW connection's session: that would use up its frame counters (the peer of the new connection
// could not decrypt what follows) and put a frame under its key on the dead socket.
func c08StaleConnection(c *Ctx) {
	for i := 0; i < c.Pick(4, 40); i++ {
		id := c.CaseID("stale-connection", i)
		if c.Skip(id) {
			continue
		}
		r := c.CaseRng("stale-connection", i)
		ctx := hap.NewContextForSecuredDevice(nil)
		addr := fakeAddr(fmt.Sprintf("10.7.0.%d:%d", 1+r.Intn(200), 40000+r.Intn(1000)))
		mk := func() (*sinkConn, *hap.Connection, *refSession) {
			raw := &sinkConn{remote: addr}
			conn := hap.NewConnection(raw, ctx)
			var shared [32]byte
			copy(shared[:], randBytes(r, 32))
			sec, _ := crypto.NewSecureSessionFromSharedKey(shared)
			ctx.GetSessionForConnection(raw).SetCryptographer(sec)
			responseWritten(ctx, raw)
			return raw, conn, newRefControllerSession(shared[:])
		}
		raw1, conn1, peer1 := mk()
		nBefore := r.Intn(3)
		var want1 []byte
		for k := 0; k < nBefore; k++ {
			p := randBytes(r, 1+r.Intn(1500))
			conn1.Write(p)
			want1 = append(want1, p...)
		}
		raw2, conn2, peer2 := mk() // the same addresses: replaces the session in the context
		viaEvent := r.Intn(2) == 0
		stale := randBytes(r, 1+r.Intn(2500))
		var n1 int
		var err1 error
		msg, pan := safely(func() {
			if viaEvent {
				n1, err1 = conn1.WriteEvent(stale)
			} else {
				n1, err1 = conn1.Write(stale)
			}
		})
		var want2 []byte
		for k := 0; k < 1+r.Intn(3); k++ {
			p := randBytes(r, 1+r.Intn(1500))
			conn2.Write(p)
			want2 = append(want2, p...)
		}
		in := map[string]interface{}{"writes_before_the_reconnect": nBefore, "stale_write_bytes": len(stale), "stale_write_is_an_event": viaEvent}
		if pan {
			c.Violate("a write on a connection that was replaced by a new one with the same addresses panics", id, in, "error or sealed under its own session", msg)
			continue
		}
		pt2, _, ok2 := peer2.DecryptFrames(raw2.out)
		if !ok2 || !bytes.Equal(pt2, want2) {
			c.Violate("the peer of a connection cannot decrypt its stream after an older connection with the same addresses was written to (the old connection used the new session's keys and frame counters)", id, in,
				fmt.Sprintf("%d bytes in frames 0.. under the new session", len(want2)), fmt.Sprintf("authenticated=%v, %d plaintext bytes (stale write returned n=%d err=%v)", ok2, len(pt2), n1, err1))
		}
		// the dead socket: whatever was put on it must be under the OLD session, in order — or nothing
		pt1, _, ok1 := peer1.DecryptFrames(raw1.out)
		if !ok1 || !(bytes.Equal(pt1, want1) || bytes.Equal(pt1, append(append([]byte{}, want1...), stale...))) {
			c.Violate("bytes written to a replaced connection are not sealed under that connection's own session", id, in, "frames under the old session, or nothing", fmt.Sprintf("authenticated=%v, %d plaintext bytes for %d+%d written", ok1, len(pt1), len(want1), len(stale)))
		}
		c.Count(id, true, "stream:stale-connection", fmt.Sprintf("stale-connection:event=%v", viaEvent))
	}
}
