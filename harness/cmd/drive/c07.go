package main

// C07 — reads on an encrypted hap.Connection deliver exactly the bytes sent.
//
// A real hap.Connection (real hap.Context / Session, real accessory-side secure session) reads from a scripted
// net.Conn: segments of the peer's ciphertext stream cut at arbitrary offsets, read deadlines firing
// (net.Error with Timeout() = true), close (io.EOF). Ciphertext comes from hc's own controller-side session and
// is cross-checked against the reference framing (connref.go); streams with empty-plaintext frames or altered
// frames are sealed with the reference framing.
// Direct oracles (independent of the model): exactness (returned bytes = prefix of the sent plaintext, all of
// it once every event is consumed), promptness (plaintext of completely delivered frames outstanding ⇒ the next
// read returns n>0 and touches no further event), no spurious error.
// Correspondence: per read (n, error class, offset) against HcModel/ConnRead.lean `run`.

import (
	"bytes"
	"errors"
	"fmt"
	"io"
	"math/rand"
	"net"
	"strconv"
	"strings"
	"time"

	"github.com/brutella/hc/crypto"
	"github.com/brutella/hc/hap"
)

func init() { register("C07", checkC07) }

type c07Ev struct {
	Kind byte // 's' segment, 'i' deadline fires, 'c' peer closed
	B    []byte
}

type c07Timeout struct{}

func (c07Timeout) Error() string   { return "i/o timeout" }
func (c07Timeout) Timeout() bool   { return true }
func (c07Timeout) Temporary() bool { return true }

var errC07Closed = errors.New("use of closed connection")
var errC07CloseAgain = errors.New("close of closed connection")

type c07Conn struct {
	script  []c07Ev
	pos     int
	off     int // bytes of script[pos] already handed out
	handed  int // ciphertext bytes handed to the reader so far
	closed  bool
	blocked bool // the current Connection.Read ran out of events (the real call would not return)
	touched int  // number of underlying Read calls during the current Connection.Read that consumed (part of) an event
	idled   bool
	eofed   bool
}

func (c *c07Conn) Read(p []byte) (int, error) {
	if c.closed {
		return 0, errC07Closed
	}
	if len(p) == 0 {
		return 0, nil
	}
	for c.pos < len(c.script) && c.script[c.pos].Kind == 's' && c.off >= len(c.script[c.pos].B) {
		c.pos++
		c.off = 0
	}
	if c.pos >= len(c.script) {
		c.blocked = true
		return 0, c07Timeout{}
	}
	c.touched++
	ev := c.script[c.pos]
	switch ev.Kind {
	case 'i':
		c.pos++
		c.idled = true
		return 0, c07Timeout{}
	case 'c':
		c.pos++
		c.eofed = true
		return 0, io.EOF
	}
	n := copy(p, ev.B[c.off:])
	c.off += n
	c.handed += n
	if c.off >= len(ev.B) {
		c.pos++
		c.off = 0
	}
	return n, nil
}
func (c *c07Conn) unconsumed() int {
	n := 0
	for i := c.pos; i < len(c.script); i++ {
		if c.script[i].Kind != 's' || i > c.pos || c.off < len(c.script[i].B) {
			n++
		}
	}
	return n
}
func (c *c07Conn) Write(b []byte) (int, error) { return len(b), nil }
func (c *c07Conn) Close() error {
	if c.closed {
		return errC07CloseAgain
	}
	c.closed = true
	return nil
}
func (c *c07Conn) LocalAddr() net.Addr                { return c08Addr("10.0.0.1:1") }
func (c *c07Conn) RemoteAddr() net.Addr               { return c08Addr("10.0.0.3:3") }
func (c *c07Conn) SetDeadline(t time.Time) error      { return nil }
func (c *c07Conn) SetReadDeadline(t time.Time) error  { return nil }
func (c *c07Conn) SetWriteDeadline(t time.Time) error { return nil }

type c07Frame struct {
	Len int
	Bad bool
}

type c07Case struct {
	ID     string
	Msgs   []int      // message lengths (-1 = a single frame with empty plaintext, 100000+n = a single frame of n bytes; reference sealed)
	BadAt  int        // frames from this index on are altered (-1: none)
	Frames []c07Frame // derived
	Plain  []byte     // concatenation of the plaintexts
	Ends   []int      // ciphertext offset at which frame k is complete
	PEnds  []int      // plaintext bytes available once frame k is complete
	Script []c07Ev
	Bufs   []int // buffer sizes, cycled
	Kind   string
}

func c07Msg(r *rand.Rand, n int) []byte { return randBytes(r, n) }

// c07Build seals the messages, computes frame boundaries and cuts the stream at the given offsets, inserting extra events.
func c07Build(cs *c07Case, r *rand.Rand, c *Ctx) []byte {
	_, ctlKey := crRefKeys(c08Shared)
	var stream []byte
	ctr := uint64(0)
	useRef := cs.BadAt >= 0
	for _, m := range cs.Msgs {
		if m < 0 || m >= 100000 {
			useRef = true
		}
	}
	var hcSess crypto.Cryptographer
	if !useRef {
		hcSess, _ = crypto.NewSecureClientSessionFromSharedKey(c08Shared)
	}
	for _, m := range cs.Msgs {
		var frames [][]byte
		var msg []byte
		if m < 0 {
			frames = [][]byte{crSealFrame(ctlKey, ctr, nil)}
			ctr++
		} else if m >= 100000 { // one frame larger than hc's own 1024-byte packets (the receiver accepts any 16-bit length)
			msg = c07Msg(r, m-100000)
			frames = [][]byte{crSealFrame(ctlKey, ctr, msg)}
			ctr++
		} else {
			msg = c07Msg(r, m)
			frames, ctr = crSealMessage(ctlKey, ctr, msg)
		}
		var ref []byte
		for _, f := range frames {
			ref = append(ref, f...)
		}
		if hcSess != nil {
			enc, err := hcSess.Encrypt(bytes.NewBuffer(append([]byte{}, msg...)))
			var got []byte
			if err == nil {
				got, _ = io.ReadAll(enc)
			}
			if !bytes.Equal(got, ref) {
				c.Violate("C07 hc's controller-side framing differs from the reference framing", cs.ID, cs.Msgs, hx(ref[:min(len(ref), 40)]), hx(got[:min(len(got), 40)]))
			}
		}
		for _, f := range frames {
			stream = append(stream, f...)
			pl := len(f) - 18
			cs.Frames = append(cs.Frames, c07Frame{Len: pl})
			cs.Ends = append(cs.Ends, len(stream))
		}
		cs.Plain = append(cs.Plain, msg...)
	}
	if cs.BadAt >= 0 {
		for k := cs.BadAt; k < len(cs.Frames); k++ {
			start := 0
			if k > 0 {
				start = cs.Ends[k-1]
			}
			// flip a bit in the body or the tag, never in the length prefix
			p := start + 2 + r.Intn(cs.Ends[k]-start-2)
			stream[p] ^= 1 << uint(r.Intn(8))
			cs.Frames[k].Bad = true
		}
	}
	tot := 0
	for _, f := range cs.Frames {
		tot += f.Len
		cs.PEnds = append(cs.PEnds, tot)
	}
	return stream
}

func c07Cut(stream []byte, cuts []int) []c07Ev {
	var evs []c07Ev
	prev := 0
	for _, c := range append(append([]int{}, cuts...), len(stream)) {
		if c > prev && c <= len(stream) {
			evs = append(evs, c07Ev{'s', stream[prev:c]})
			prev = c
		}
	}
	return evs
}

func (cs *c07Case) line() string {
	var fr, ev, bf []string
	for _, f := range cs.Frames {
		s := strconv.Itoa(f.Len)
		if f.Bad {
			s += "x"
		}
		fr = append(fr, s)
	}
	for _, e := range cs.Script {
		switch e.Kind {
		case 's':
			ev = append(ev, "s"+strconv.Itoa(len(e.B)))
		default:
			ev = append(ev, string(e.Kind))
		}
	}
	for _, b := range cs.Bufs {
		bf = append(bf, strconv.Itoa(b))
	}
	return "connread run " + strings.Join(fr, " ") + " | " + strings.Join(ev, " ") + " | " + strings.Join(bf, " ")
}

// c07Run drives the real hap.Connection; returns the result tokens. The number of reads is decided here (until two
// consecutive reads block or fail, at most maxReads) and written back to cs.Bufs so that the model gets the same list.
func c07Run(c *Ctx, cs *c07Case) string {
	sc := &c07Conn{script: cs.Script}
	ctx := hap.NewContextForSecuredDevice(nil)
	conn := hap.NewConnection(sc, ctx)
	sess := ctx.GetSessionForConnection(sc)
	sec, err := crypto.NewSecureSessionFromSharedKey(c08Shared)
	if err != nil {
		panic(err)
	}
	sess.SetCryptographer(sec)
	allGood := cs.BadAt < 0
	var toks []string
	var used []int
	returned := 0
	dead := 0
	input := func() interface{} {
		return map[string]interface{}{"line": cs.line(), "reads_so_far": strings.Join(toks, " ")}
	}
	maxReads := 40 + 3*len(cs.Script) + len(cs.Plain)
	if maxReads > 6000 {
		maxReads = 6000
	}
	for i := 0; i < maxReads && dead < 2; i++ {
		b := cs.Bufs[i%len(cs.Bufs)]
		used = append(used, b)
		buf := make([]byte, b)
		// plaintext of completely delivered frames that the caller has not been given yet
		avail := 0
		for k, e := range cs.Ends {
			if sc.handed >= e {
				avail = cs.PEnds[k]
			}
		}
		mustBePrompt := allGood && b >= 1 && returned < avail
		sc.blocked, sc.touched, sc.idled, sc.eofed = false, 0, false, false
		wasClosed := sc.closed
		var n int
		var rerr error
		msg, pan := safely(func() { n, rerr = conn.Read(buf) })
		var tok string
		switch {
		case pan:
			tok = "panic"
			c.Violate("C07 Connection.Read panics", cs.ID, input(), "no panic", msg)
			dead = 2
		case n > 0:
			tok = fmt.Sprintf("d%d+%d", returned, n)
			if returned+n > len(cs.Plain) || !bytes.Equal(buf[:n], cs.Plain[returned:returned+n]) {
				if allGood {
					c.Violate("C07 returned bytes are not the next bytes of the sent plaintext (lost, duplicated or reordered data)", cs.ID, input(),
						fmt.Sprintf("plaintext[%d:%d]", returned, returned+n), hx(buf[:min(n, 24)]))
				}
				tok = "dX+" + strconv.Itoa(n)
			}
			returned += n
			if rerr != nil {
				tok += "+err"
			}
			dead = 0
		case rerr == nil:
			if sc.closed && !wasClosed {
				// the frame did not authenticate and the connection was closed, but the caller is told (0, nil)
				tok = "c0-unreported"
				dead++
				c.Violate("C07 a frame that does not authenticate is not reported to the reader (Read returns 0, nil; frames behind it would still be released)", cs.ID, input(), "an error", "n=0 err=nil")
			} else {
				tok = "d0"
			}
		case rerr == io.EOF:
			tok = "eof"
			dead++
		case rerr == io.ErrUnexpectedEOF && sc.closed && !wasClosed:
			tok = "cut" // the stream ended inside a frame: reported, and the connection closed
			dead++
		default:
			if ne, ok := rerr.(net.Error); ok && ne.Timeout() {
				if sc.blocked {
					tok = "b"
					dead++
				} else {
					tok = "t"
					dead = 0
				}
			} else if rerr == errC07CloseAgain || rerr == errC07Closed {
				tok = "c1"
				dead++
			} else if sc.closed && !wasClosed {
				tok = "c0" // decryption failed: the error is returned and the connection closed
				dead++
			} else if sc.closed && wasClosed {
				tok = "c1" // … and every later read reports it again
				dead++
			} else {
				tok = "err:" + firstWords(rerr.Error(), 3)
				dead++
			}
		}
		toks = append(toks, tok)
		// ---- direct oracles
		if allGood && !pan {
			if mustBePrompt && (n == 0 || sc.touched > 0 || sc.blocked) {
				c.Violate("C07 a complete frame was delivered but Read does not return its data promptly", cs.ID, input(),
					fmt.Sprintf("n>0 without touching the network (%d plaintext bytes of complete frames outstanding)", avail-returned),
					fmt.Sprintf("%s, network reads consuming events: %d, blocked: %v", tok, sc.touched, sc.blocked))
			}
			if (tok == "eof" && !sc.eofed) || strings.HasPrefix(tok, "err:") || strings.HasSuffix(tok, "+err") || ((tok == "c0" || tok == "c1") && !sc.eofed && !wasClosed) {
				c.Violate("C07 Read reports end-of-stream or an error although the peer is connected and sends well-formed frames", cs.ID, input(),
					"data, timeout or wait", tok+" "+fmt.Sprint(rerr))
			}
			if tok == "t" && !sc.idled {
				c.Violate("C07 Read reports a timeout although no deadline fired", cs.ID, input(), "no timeout", tok)
			}
			if b >= 1 && tok == "d0" {
				c.Violate("C07 Read returns (0, nil) for a non-empty buffer", cs.ID, input(), "n>0 or error", tok)
			}
		}
	}
	cs.Bufs = used
	// completeness: everything was consumed, nothing failed ⇒ everything was returned
	hasClose := false
	for _, e := range cs.Script {
		if e.Kind == 'c' {
			hasClose = true
		}
	}
	if allGood && !hasClose && len(toks) > 0 && toks[len(toks)-1] == "b" && returned != len(cs.Plain) {
		c.Violate("C07 bytes were lost: the stream was delivered completely but Read returned fewer bytes", cs.ID, input(),
			strconv.Itoa(len(cs.Plain))+" bytes", strconv.Itoa(returned)+" bytes")
	}
	return strings.Join(toks, " ") + " ; net=" + strconv.Itoa(sc.unconsumed())
}

func c07LenClass(n int) string {
	switch {
	case n < 0:
		return "emptyframe"
	case n >= 100000:
		return "oversized-frame"
	case n == 0:
		return "0"
	case n == 1:
		return "1"
	case n < 1023:
		return "2..1022"
	case n <= 1025:
		return strconv.Itoa(n)
	case n%1024 == 0:
		return "k*1024"
	default:
		return ">1025"
	}
}

func checkC07(c *Ctx) {
	duplexStress(c, "C07")
	alternatingReads(c, "C07")
	cipherLooksLikeHeader(c, "C07")
	waitingReadCoalesced(c, "C07")
	cutInsideFrame(c, "C07")
	timeoutInsideFrame(c, "C07")
	c03Rekey(c)    // a second pair-verify on an encrypted connection (reads and writes change keys at the right moment)
	c03Handover(c) // reads that are waiting while the first cryptographer is negotiated
	c.SetRule("one case = (message lengths, segmentation of the ciphertext stream, idle/close events, caller buffer sizes) read " +
		"through a real hap.Connection until it can only block; non-trivial = a frame is split across segments, or a segment " +
		"carries more than one frame, or a deadline fires inside a frame. distinct = distinct model input lines")
	c.Assume("bufio.Reader (Peek/fill), bytes.Buffer.Read, io.LimitReader are modelled, exercised through the real library")
	c.Assume("a Read that finds no scripted event stands for a call that would not return")
	c.Assume("the capacity of the connection's bufio.Reader (≥ the largest frame) is not modelled")

	var cases []*c07Case
	add := func(cs *c07Case) { cases = append(cases, cs) }
	mk := func(id, kind string, msgs []int, bad int, cutf func(stream []byte, cs *c07Case, r *rand.Rand) []c07Ev, bufs []int, r *rand.Rand) {
		if c.Skip(id) {
			return
		}
		cs := &c07Case{ID: id, Kind: kind, Msgs: msgs, BadAt: bad, Bufs: bufs}
		stream := c07Build(cs, r, c)
		cs.Script = cutf(stream, cs, r)
		add(cs)
	}
	whole := func(stream []byte, cs *c07Case, r *rand.Rand) []c07Ev { return c07Cut(stream, nil) }

	// ---- corpus: the four failures of the unrepaired code (F6 a–d), the empty-frame gap of the candidate repair ----
	r0 := c.CaseRng("corpus", 0)
	mk("corpus/a-two-messages-one-segment", "corpus", []int{5, 6}, -1, whole, []int{4096}, r0)
	mk("corpus/b-1024-then-idle", "corpus", []int{1024}, -1, func(s []byte, cs *c07Case, r *rand.Rand) []c07Ev {
		return append(c07Cut(s, nil), c07Ev{Kind: 'i'})
	}, []int{4096}, r0)
	mk("corpus/b2-2048-then-next-message", "corpus", []int{2048, 3}, -1, func(s []byte, cs *c07Case, r *rand.Rand) []c07Ev {
		return c07Cut(s, []int{cs.Ends[1]})
	}, []int{4096}, r0)
	mk("corpus/c-buffer-equals-remainder", "corpus", []int{10}, -1, whole, []int{4, 6, 16}, r0)
	mk("corpus/d-timeout-mid-frame", "corpus", []int{20}, -1, func(s []byte, cs *c07Case, r *rand.Rand) []c07Ev {
		return []c07Ev{{'s', s[:10]}, {Kind: 'i'}, {'s', s[10:]}}
	}, []int{4096}, r0)
	mk("corpus/d2-timeout-inside-length-prefix", "corpus", []int{20, 7}, -1, func(s []byte, cs *c07Case, r *rand.Rand) []c07Ev {
		return []c07Ev{{'s', s[:1]}, {Kind: 'i'}, {'s', s[1:39]}, {Kind: 'i'}, {'s', s[39:]}}
	}, []int{7}, r0)
	mk("corpus/e-empty-frame", "corpus", []int{3, -1, -1, 4}, -1, whole, []int{4096}, r0)
	mk("corpus/e2-empty-frame-then-idle", "corpus", []int{-1, 4}, -1, func(s []byte, cs *c07Case, r *rand.Rand) []c07Ev {
		return []c07Ev{{'s', s[:18]}, {Kind: 'i'}, {'s', s[18:]}}
	}, []int{1}, r0)
	mk("corpus/f-peer-closes-mid-frame", "corpus", []int{9, 30}, -1, func(s []byte, cs *c07Case, r *rand.Rand) []c07Ev {
		return []c07Ev{{'s', s[:40]}, {Kind: 'c'}}
	}, []int{512}, r0)
	mk("corpus/g-altered-frame", "corpus", []int{9, 30}, 1, whole, []int{512}, r0)
	mk("corpus/i-frames-larger-than-1024", "corpus", []int{103000, 5, 165535, 1}, -1, func(s []byte, cs *c07Case, r *rand.Rand) []c07Ev {
		return c07Cut(s, []int{1500, 3100, 40000})
	}, []int{4096, 1}, r0)
	mk("corpus/h-segment-larger-than-bufio", "corpus", []int{4096, 4096, 4096, 4096, 4096, 4096, 4096, 4096, 4096, 4096, 4096, 4096, 4096, 4096, 4096, 4096, 4096, 100}, -1, whole, []int{4097}, r0)

	// ---- every split point of short streams (2 segments; 3 segments: all pairs in the thorough tier) --------------
	small := [][]int{{1, 3}, {0, 2, -1, 1}, {5}, {2, 2, 2}}
	for si, msgs := range small {
		probe := &c07Case{Msgs: msgs, BadAt: -1}
		n := len(c07Build(probe, c.CaseRng("split-probe", si), c))
		for a := 1; a < n; a++ {
			a := a
			for _, bufs := range [][]int{{4096}, {1}, {2, 7}} {
				mk(fmt.Sprintf("split2/%d/%d/%d", si, a, bufs[0]), "split2", msgs, -1, func(s []byte, cs *c07Case, r *rand.Rand) []c07Ev {
					evs := c07Cut(s, []int{a})
					if bufs[0] == 1 { // a deadline fires between the two segments
						evs = []c07Ev{evs[0], {Kind: 'i'}, evs[1]}
					}
					return evs
				}, bufs, c.CaseRng("split2", si*1000+a))
			}
			step := c.Pick(7, 1)
			for b := a + 1 + (a*3)%step; b < n; b += step {
				b := b
				mk(fmt.Sprintf("split3/%d/%d.%d", si, a, b), "split3", msgs, -1, func(s []byte, cs *c07Case, r *rand.Rand) []c07Ev {
					return c07Cut(s, []int{a, b})
				}, []int{3}, c.CaseRng("split3", si*100000+a*300+b))
			}
		}
	}

	// ---- random structured cases ----------------------------------------------------------------------------------
	lenPool := []int{0, 1, 1, 2, 7, 16, 100, 511, 512, 513, 1023, 1024, 1025, 2047, 2048, 2049, 3000, 4095, 4096, 4097, -1}
	for i := 0; i < c.Pick(2500, 250000); i++ {
		id := c.CaseID("rnd", i)
		if c.Skip(id) {
			continue
		}
		r := c.CaseRng("rnd", i)
		var msgs []int
		for k := 1 + r.Intn(5); k > 0; k-- {
			if r.Intn(40) == 0 {
				msgs = append(msgs, 100000+1025+r.Intn(3000))
			} else if r.Intn(3) == 0 {
				msgs = append(msgs, r.Intn(40))
			} else {
				msgs = append(msgs, lenPool[r.Intn(len(lenPool))])
			}
		}
		bad := -1
		kind := "rnd"
		cs := &c07Case{ID: id, Msgs: msgs, BadAt: -1}
		if r.Intn(12) == 0 { // malformed stream: altered frames from some index on
			probe := &c07Case{Msgs: msgs, BadAt: -1}
			c07Build(probe, c.CaseRng("rnd-probe", i), c)
			if len(probe.Frames) > 0 {
				bad = r.Intn(len(probe.Frames))
				kind = "rnd-altered"
			}
		}
		cs.BadAt, cs.Kind = bad, kind
		stream := c07Build(cs, r, c)
		// segmentation
		var cuts []int
		switch r.Intn(6) {
		case 0: // everything in one segment
		case 1: // byte by byte (short streams) / small pieces
			stepMax := 1 + len(stream)/60
			for p := 1; p < len(stream); p += 1 + r.Intn(stepMax) {
				cuts = append(cuts, p)
			}
		case 2: // cuts at / next to frame boundaries
			for _, e := range cs.Ends {
				if r.Intn(2) == 0 {
					cuts = append(cuts, e+r.Intn(5)-2)
				}
			}
		default:
			for k := r.Intn(7); k > 0 && len(stream) > 1; k-- {
				cuts = append(cuts, 1+r.Intn(len(stream)-1))
			}
		}
		cuts = c07SortUniq(cuts, len(stream))
		evs := c07Cut(stream, cuts)
		// idle events anywhere; sometimes the peer closes somewhere
		var script []c07Ev
		pIdle := []int{0, 0, 4, 2}[r.Intn(4)]
		for _, e := range evs {
			for pIdle > 0 && r.Intn(pIdle) == 0 {
				script = append(script, c07Ev{Kind: 'i'})
			}
			script = append(script, e)
		}
		if pIdle > 0 && r.Intn(2) == 0 {
			script = append(script, c07Ev{Kind: 'i'})
		}
		if r.Intn(10) == 0 {
			at := r.Intn(len(script) + 1)
			script = append(append(append([]c07Ev{}, script[:at]...), c07Ev{Kind: 'c'}), script[at:]...)
			script = script[:at+1]
		}
		cs.Script = script
		// buffer sizes
		ln := 1
		if len(msgs) > 0 && msgs[0] > 0 {
			ln = msgs[0] % 100000
		}
		pool := []int{1, 2, 7, ln, ln + 1, ln - 1, 512, 4096, 4097}
		switch r.Intn(4) {
		case 0:
			cs.Bufs = []int{pool[r.Intn(len(pool))]}
		case 1:
			cs.Bufs = []int{4096}
		default:
			for k := 1 + r.Intn(6); k > 0; k-- {
				cs.Bufs = append(cs.Bufs, pool[r.Intn(len(pool))])
			}
		}
		for k := range cs.Bufs {
			if cs.Bufs[k] < 1 {
				cs.Bufs[k] = 1
			}
		}
		add(cs)
	}

	// ---- run the real code, then the model --------------------------------------------------------------------------
	impl := make([]string, len(cases))
	parallel(len(cases), func(i int) { impl[i] = c07Run(c, cases[i]) })
	lines := make([]string, len(cases))
	for i, cs := range cases {
		lines[i] = cs.line()
	}
	model := c.Model(lines)
	for i, cs := range cases {
		c.Same("reads", cs.ID, lines[i], model[i], impl[i])
		// classification
		nontriv := false
		prev := 0
		idleIn := false
		pos := 0
		for _, e := range cs.Script {
			switch e.Kind {
			case 's':
				end := pos + len(e.B)
				nb := 0
				for _, fe := range cs.Ends {
					if fe > pos && fe <= end {
						nb++
					}
					if fe > pos && fe > end && (prev < fe) && end > pos {
						// segment ends inside this frame
					}
				}
				if nb > 1 {
					nontriv = true
				}
				onBoundary := end == 0
				for _, fe := range cs.Ends {
					if fe == end {
						onBoundary = true
					}
				}
				if !onBoundary {
					nontriv = true
				}
				pos = end
			case 'i':
				onBoundary := pos == 0
				for _, fe := range cs.Ends {
					if fe == pos {
						onBoundary = true
					}
				}
				if !onBoundary {
					idleIn = true
					nontriv = true
				}
			}
		}
		_ = prev
		nIdle, nSeg := 0, 0
		for _, e := range cs.Script {
			if e.Kind == 'i' {
				nIdle++
			} else if e.Kind == 's' {
				nSeg++
			}
		}
		buckets := []string{"kind=" + cs.Kind, fmt.Sprintf("frames<=%d", c08Bucket(len(cs.Frames))), fmt.Sprintf("segments<=%d", c08Bucket(nSeg)),
			fmt.Sprintf("idle<=%d", c08Bucket(nIdle)), fmt.Sprintf("idle-inside-frame=%v", idleIn), fmt.Sprintf("bufs[0]<=%d", c07BufBucket(cs.Bufs[0]))}
		seen := map[string]bool{}
		for _, m := range cs.Msgs {
			k := "msglen=" + c07LenClass(m)
			if !seen[k] {
				seen[k] = true
				buckets = append(buckets, k)
			}
		}
		c.Count(lines[i], nontriv, buckets...)
		c.Trace()
		if i%401 == 0 {
			c.Sample(trunc(lines[i], 150) + "  =>  " + trunc(model[i], 150))
		}
	}
}

func c07BufBucket(n int) int {
	for _, b := range []int{1, 2, 7, 511, 512, 1025, 4096, 4097} {
		if n <= b {
			return b
		}
	}
	return 99999
}

func c07SortUniq(cuts []int, n int) []int {
	seen := map[int]bool{}
	var out []int
	for _, c := range cuts {
		if c > 0 && c < n && !seen[c] {
			seen[c] = true
			out = append(out, c)
		}
	}
	for i := 1; i < len(out); i++ {
		for j := i; j > 0 && out[j] < out[j-1]; j-- {
			out[j], out[j-1] = out[j-1], out[j]
		}
	}
	return out
}
