package main

// C16 — util TLV8 container: correspondence with HcModel/Tlv8.lean + direct oracles.

import (
	"sync"
	"time"
	"bytes"
	"fmt"
	"io"
	"io/ioutil"
	"math/rand"
	"strings"
	"testing/iotest"

	"github.com/brutella/hc/util"
)

func init() { register("C16", checkC16) }

type tlvOp struct {
	Tag byte
	Val []byte
}

func tlvOpsLine(ops []tlvOp) string {
	var sb strings.Builder
	sb.WriteString("tlv8 sets")
	for _, o := range ops {
		fmt.Fprintf(&sb, " %02x:%s", o.Tag, hx(o.Val))
	}
	return sb.String()
}

// refTlvEncode is the harness's own encoder (independent of hc and of the model).
func refTlvEncode(ops []tlvOp) []byte {
	var b []byte
	for _, o := range ops {
		v := o.Val
		for len(v) > 0 {
			n := len(v)
			if n > 255 {
				n = 255
			}
			b = append(b, o.Tag, byte(n))
			b = append(b, v[:n]...)
			v = v[n:]
		}
	}
	return b
}

// refTlvParse: plain item parser; ok=false when the input is truncated.
func refTlvParse(b []byte) (items []tlvOp, ok bool) {
	for len(b) > 0 {
		if len(b) < 2 || len(b) < 2+int(b[1]) {
			return nil, false
		}
		n := int(b[1])
		items = append(items, tlvOp{b[0], append([]byte{}, b[2:2+n]...)})
		b = b[2+n:]
	}
	return items, true
}

// refTlvStd: standard reader — merge a fragment into its predecessor iff same tag and predecessor fragment had 255 bytes.
func refTlvStd(items []tlvOp) []tlvOp {
	var out []tlvOp
	last := -1
	for _, it := range items {
		if len(out) > 0 && out[len(out)-1].Tag == it.Tag && last == 255 {
			out[len(out)-1].Val = append(out[len(out)-1].Val, it.Val...)
		} else {
			out = append(out, tlvOp{it.Tag, append([]byte{}, it.Val...)})
		}
		last = len(it.Val)
	}
	return out
}

func showTlvItems(items []tlvOp) string {
	var parts []string
	for _, it := range items {
		parts = append(parts, fmt.Sprintf("%02x:%s", it.Tag, hx(it.Val)))
	}
	return strings.Join(parts, " ")
}

func tlvErrClass(err error) string {
	switch err {
	case io.EOF:
		return "err eof"
	case io.ErrUnexpectedEOF:
		return "err unexpected"
	}
	return "err other:" + err.Error()
}

func checkC16(c *Ctx) {
	c16ConcurrentParse(c)
	platformProbe(c, "C16", "tlvprobe") // every tag / integers at the ends of every width, on 32-bit and non-amd64 builds too
	c.SetRule("streams: sets (operation sequences over tags/lengths incl. 0, 254..257, k*255, up to 1024+; non-trivial = " +
		"at least one value > 255 bytes or a repeated tag), parse (arbitrary / truncated / valid byte strings; non-trivial = " +
		"parser consumed at least one item), std (standard reader on hc's bytes). distinct = distinct canonical input lines")
	c.Assume("encoding/binary.Read and io.ReadFull are modelled (Tlv8.parse), exercised through the real library")

	// ---------------- stream "sets"
	type setCase struct {
		id  string
		ops []tlvOp
	}
	var cases []setCase
	lens := []int{0, 1, 2, 3, 254, 255, 256, 257, 509, 510, 511, 764, 765, 766, 1020, 1021, 1022, 1023, 1024}
	if c.Thorough() {
		lens = nil
		for i := 0; i <= 1024; i++ {
			lens = append(lens, i)
		}
	}
	n := 0
	for _, l := range lens {
		r := c.CaseRng("sets-len", l)
		cases = append(cases, setCase{c.CaseID("sets-len", l), []tlvOp{{byte(r.Intn(256)), randBytes(r, l)}}})
		n++
	}
	// containers whose serialisation is longer than 64 KiB (one with an item boundary exactly at byte 65536)
	for bi, big := range [][]tlvOp{
		{{5, nil}},
		{{1, nil}, {2, nil}, {5, nil}, {6, nil}},
		{{9, nil}, {9, nil}},
	} {
		r := c.CaseRng("sets-big", bi)
		sizes := [][]int{{70000}, {100, 154, 65770 - 1000, 300}, {40000, 40000}}[bi]
		for k := range big {
			big[k].Val = randBytes(r, sizes[k])
		}
		if bi == 1 {
			// 102 + 156 bytes of short items, then 254 full fragments: the 254th ends at byte 65536
			big[0].Val, big[1].Val, big[2].Val = randBytes(r, 100), randBytes(r, 154), randBytes(r, 254*255+200)
		}
		cases = append(cases, setCase{c.CaseID("sets-big", bi), big})
	}
	// text whose length in bytes and in characters differ (SetString): 86–255 characters that take 256–1020 bytes
	for ui, ru := range []string{"é", "灯", "𝄞", "aé", "é灯𝄞"} {
		for _, nr := range []int{85, 86, 127, 128, 129, 170, 171, 200, 254, 255, 256} {
			n := nr / len([]rune(ru))
			if n == 0 {
				continue
			}
			cases = append(cases, setCase{fmt.Sprintf("sets-utf8#%d.%d", ui, nr), []tlvOp{{byte(1 + ui), []byte(strings.Repeat(ru, n))}, {byte(9), []byte("after")}}})
		}
	}
	for t := 0; t < 256; t++ { // every tag
		r := c.CaseRng("sets-tag", t)
		cases = append(cases, setCase{c.CaseID("sets-tag", t), []tlvOp{{byte(t), randBytes(r, 1+r.Intn(300))}, {byte(r.Intn(256)), randBytes(r, r.Intn(4))}}})
	}
	for i := 0; i < c.Pick(400, 60000); i++ {
		r := c.CaseRng("sets-seq", i)
		k := 1 + r.Intn(8)
		var ops []tlvOp
		tags := []byte{byte(r.Intn(256)), byte(r.Intn(256)), byte(r.Intn(256))}
		for j := 0; j < k; j++ {
			var l int
			switch r.Intn(5) {
			case 0:
				l = r.Intn(4)
			case 1:
				l = 253 + r.Intn(5)
			case 2:
				l = 255 * (1 + r.Intn(3))
			case 3:
				l = r.Intn(1100)
			default:
				l = r.Intn(40)
			}
			ops = append(ops, tlvOp{tags[r.Intn(3)], randBytes(r, l)})
		}
		cases = append(cases, setCase{c.CaseID("sets-seq", i), ops})
	}
	var lines []string
	var live []setCase
	for _, cs := range cases {
		if c.Skip(cs.id) {
			continue
		}
		live = append(live, cs)
		lines = append(lines, tlvOpsLine(cs.ops))
	}
	model := c.Model(lines)
	for i, cs := range live {
		impl, perr := "", ""
		var ser []byte
		msg, pan := safely(func() {
			cont := util.NewTLV8Container()
			// in every other case the caller hands its values over in ONE scratch buffer that it overwrites after each call
			// (the container must hold its own copy of what was set)
			var scratch []byte
			for _, o := range cs.ops {
				if i%2 == 1 {
					if len(scratch) < len(o.Val) {
						scratch = make([]byte, len(o.Val)+64)
					}
					n := copy(scratch, o.Val)
					cont.SetBytes(o.Tag, scratch[:n])
					for j := range scratch {
						scratch[j] ^= 0xA5
					}
				} else if i%4 == 2 || strings.HasPrefix(cs.id, "sets-utf8") {
					cont.SetString(o.Tag, string(o.Val)) // a Go string holds any bytes: the same value through the other setter
				} else {
					cont.SetBytes(o.Tag, o.Val)
				}
			}
			ser = cont.BytesBuffer().Bytes()
			// a container may be serialised more than once, and its buffers may be consumed by reading (io.Copy to a
			// response): every serialisation must give the same bytes, also after an empty set in between
			first, _ := ioutil.ReadAll(cont.BytesBuffer())
			if i%2 == 0 {
				cont.SetBytes(cs.ops[0].Tag, nil)
			}
			second, _ := ioutil.ReadAll(cont.BytesBuffer())
			if !bytes.Equal(first, ser) || !bytes.Equal(second, ser) {
				c.Violate("tlv8 container serialises differently when serialised again", cs.id, lines[i], hx(ser), hx(first)+" then "+hx(second))
			}
			re, err := util.NewTLV8ContainerFromReader(bytes.NewReader(ser))
			if err != nil {
				perr = tlvErrClass(err)
				return
			}
			items, _ := refTlvParse(ser)
			seen := map[byte]bool{}
			var gets, byts []string
			for _, o := range cs.ops {
				if seen[o.Tag] {
					continue
				}
				seen[o.Tag] = true
				gets = append(gets, fmt.Sprintf("%02x:%s", o.Tag, hx(re.GetBytes(o.Tag))))
				byts = append(byts, fmt.Sprintf("%02x:%02x", o.Tag, re.GetByte(o.Tag)))
				// direct oracle 1: value after round trip = concatenation of what was set
				var want []byte
				for _, o2 := range cs.ops {
					if o2.Tag == o.Tag {
						want = append(want, o2.Val...)
					}
				}
				if !bytes.Equal(want, re.GetBytes(o.Tag)) || !bytes.Equal(want, cont.GetBytes(o.Tag)) {
					c.Violate("tlv8 value changed by serialise/parse round trip", cs.id, lines[i], hx(want), hx(re.GetBytes(o.Tag)))
				}
			}
			impl = "ser " + hx(ser) + " | items " + showTlvItems(items) + " | get " + strings.Join(gets, " ") + " | byte " + strings.Join(byts, " ")
		})
		if pan {
			impl = "panic"
			c.Violate("tlv8 container panics on set/serialise/parse", cs.id, lines[i], "no panic", msg)
		} else if perr != "" {
			impl = "ser " + hx(ser) + " | " + perr
			c.Violate("tlv8 container cannot parse its own serialisation", cs.id, lines[i], "ok", perr)
		}
		// direct oracle 2: wire bytes equal the reference encoder (fragments <= 255, consecutive)
		if !pan && !bytes.Equal(ser, refTlvEncode(cs.ops)) {
			c.Violate("tlv8 wire bytes differ from reference encoder", cs.id, lines[i], hx(refTlvEncode(cs.ops)), hx(ser))
		}
		// direct oracle 3: a standard reader reassembles hc's bytes
		if !pan {
			items, ok := refTlvParse(ser)
			if ok {
				std := refTlvStd(items)
				// expected: consecutive ops merge only when tag equal and previous fragment was full
				var wantItems []tlvOp
				for _, o := range cs.ops {
					if len(o.Val) > 0 {
						wantItems = append(wantItems, o)
					}
				}
				mergeable := false
				for j := 1; j < len(wantItems); j++ {
					if wantItems[j].Tag == wantItems[j-1].Tag {
						mergeable = true
					}
				}
				if !mergeable && showTlvItems(std) != showTlvItems(wantItems) {
					c.Violate("standard TLV8 reader does not reassemble fragments", cs.id, lines[i], showTlvItems(wantItems), showTlvItems(std))
				}
				ms := c.Model1("tlv8 std " + hx(ser))
				c.Same("std", cs.id, "tlv8 std "+hx(ser), ms, "ok "+showTlvItems(std))
			}
		}
		nontriv := false
		seen := map[byte]bool{}
		for _, o := range cs.ops {
			if len(o.Val) > 255 || seen[o.Tag] {
				nontriv = true
			}
			seen[o.Tag] = true
		}
		maxl := 0
		for _, o := range cs.ops {
			if len(o.Val) > maxl {
				maxl = len(o.Val)
			}
		}
		c.Count(lines[i], nontriv, fmt.Sprintf("sets:ops=%d", len(cs.ops)), fmt.Sprintf("sets:maxlen<=%d", bucketLen(maxl)))
		c.Same("sets", cs.id, lines[i], model[i], impl)
		if i%97 == 0 {
			c.Sample(trunc(lines[i], 200) + "  =>  " + trunc(impl, 200))
		}
		c.Trace()
	}

	// ---------------- stream "parse": arbitrary bytes
	type parseCase struct {
		id string
		b  []byte
	}
	var pcs []parseCase
	for i := 0; i < c.Pick(1500, 300000); i++ {
		r := c.CaseRng("parse", i)
		pcs = append(pcs, parseCase{c.CaseID("parse", i), genTlvInput(r)})
	}
	// exhaustive tiny inputs: all strings of length <= 2 over a small alphabet, plus every (tag,len) header with a 3-byte body
	for a := 0; a < 256; a += 17 {
		for l := 0; l < 256; l += 5 {
			pcs = append(pcs, parseCase{fmt.Sprintf("parse-hdr#%d.%d", a, l), []byte{byte(a), byte(l), 1, 2, 3}})
		}
	}
	lines = lines[:0]
	var plive []parseCase
	for _, p := range pcs {
		if c.Skip(p.id) {
			continue
		}
		plive = append(plive, p)
		lines = append(lines, "tlv8 parse "+hx(p.b))
	}
	model = c.Model(lines)
	stuck := 0
	for i, p := range plive {
		for variant := 0; variant < 4 && stuck < 2; variant++ {
			var impl string
			consumed := 0
			msg, pan := safely(func() {
				var rd io.Reader = bytes.NewReader(p.b)
				switch variant {
				case 1:
					rd = iotest.OneByteReader(rd)
				case 2:
					rd = iotest.DataErrReader(rd) // the last bytes arrive together with io.EOF (the body of an HTTP request does that)
				case 3:
					rd = iotest.HalfReader(rd)
				}
				var cont util.Container
				var err error
				parsed := make(chan struct{})
				go func() {
					defer close(parsed)
					defer func() {
						if r := recover(); r != nil {
							err = fmt.Errorf("panic: %v", r)
						}
					}()
					cont, err = util.NewTLV8ContainerFromReader(rd)
				}()
				select {
				case <-parsed:
				case <-time.After(5 * time.Second):
					stuck++
					impl = "does not return"
					c.Violate("tlv8 parser does not return on a finite input", p.id, map[string]interface{}{"input": lines[i], "reader": []string{"bytes.Reader", "iotest.OneByteReader", "iotest.DataErrReader", "iotest.HalfReader"}[variant]}, "value or error", "still running after 5 s")
					return
				}
				if err != nil && strings.HasPrefix(err.Error(), "panic: ") {
					panic(err.Error())
				}
				if err != nil {
					impl = tlvErrClass(err)
					return
				}
				out := cont.BytesBuffer().Bytes()
				items, _ := refTlvParse(out)
				consumed = len(items)
				impl = "ok " + showTlvItems(items)
				// every getter on every tag that occurs (and one that does not): a value, never a panic; the byte getter
				// returns the first byte of the tag's value (0 if there is none)
				tags := map[byte]bool{0xEE: true}
				for _, it := range items {
					tags[it.Tag] = true
				}
				for tg := range tags {
					var all []byte
					for _, it := range items {
						if it.Tag == tg {
							all = append(all, it.Val...)
						}
					}
					gb, gs, gby := cont.GetBytes(tg), cont.GetString(tg), cont.GetByte(tg)
					var want byte
					if len(all) > 0 {
						want = all[0]
					}
					if !bytes.Equal(gb, all) || gs != string(all) || gby != want {
						c.Violate("tlv8 getters disagree with the items of the parsed input", p.id, lines[i], fmt.Sprintf("tag %02x = %s", tg, hx(all)), fmt.Sprintf("GetBytes %s GetString %q GetByte %02x", hx(gb), gs, gby))
					}
				}
				// direct oracle: nothing that was not in the input
				if !bytes.Equal(out, p.b) {
					c.Violate("tlv8 parser yields data that was not in the input", p.id, lines[i], hx(p.b), hx(out))
				}
				// what a getter hands out belongs to the caller: written to, wiped, appended to — the container is
				// what it was
				for tg := range tags {
					outs := [][]byte{cont.GetBytes(tg)}
					if gb, ok := cont.(interface {
						GetBuffer(uint8) *bytes.Buffer
					}); ok {
						outs = append(outs, gb.GetBuffer(tg).Bytes())
					}
					for n, got := range outs {
						for k := range got {
							got[k] = ^got[k] + byte(n) // not an involution when both results are the same memory
						}
						_ = append(got, 0xEE, 0xEE, 0xEE)
					}
				}
				if again := cont.BytesBuffer().Bytes(); !bytes.Equal(again, out) {
					c.Violate("a tlv8 container changes when the caller writes to what a getter returned", p.id, lines[i], hx(out), hx(again))
				}
				// a container that was read is then written to (SetString / SetBytes / SetByte): it serialises to what it was
				// read from followed by the encoding of what was set (set_after_parse)
				rr := rand.New(rand.NewSource(int64(i)*4 + int64(variant)))
				var added []tlvOp
				for k := rr.Intn(3); k > 0; k-- {
					tg := byte(rr.Intn(4))
					v := randBytes(rr, []int{0, 1, 3, 254, 255, 256, 300}[rr.Intn(7)])
					switch rr.Intn(3) {
					case 0:
						for j := range v {
							v[j] = 'a' + v[j]%26
						}
						cont.SetString(tg, string(v))
					case 1:
						cont.SetBytes(tg, v)
					default:
						if len(v) == 0 {
							v = []byte{7}
						}
						v = v[:1]
						cont.SetByte(tg, v[0])
					}
					added = append(added, tlvOp{tg, append([]byte{}, v...)})
				}
				if want, got := append(append([]byte{}, out...), refTlvEncode(added)...), cont.BytesBuffer().Bytes(); !bytes.Equal(got, want) {
					c.Violate("a tlv8 container that was read and then written to does not serialise to what it was read from followed by what was set", p.id,
						map[string]interface{}{"read_from": hx(p.b), "then_set": tlvOpsLine(added)}, hx(want), hx(got))
				}
			})
			if pan {
				impl = "panic"
				c.Violate("tlv8 parser panics on arbitrary bytes", p.id, lines[i], "value or error", msg)
			}
			_, refOK := refTlvParse(p.b)
			if !pan && refOK != strings.HasPrefix(impl, "ok") {
				c.Violate("tlv8 parser accepts/rejects differently from reference parser", p.id, lines[i], fmt.Sprint(refOK), impl)
			}
			c.Same("parse", p.id, lines[i], model[i], impl)
			if variant == 0 {
				c.Count(lines[i], consumed > 0, fmt.Sprintf("parse:%s items<=%d", firstWords(impl, 1), bucketLen(consumed)))
			}
		}
		if i%499 == 0 {
			c.Sample(trunc(lines[i], 120) + "  =>  " + trunc(model[i], 120))
		}
		c.Trace()
	}
}

func firstWords(s string, n int) string {
	f := strings.Fields(s)
	if len(f) > n {
		f = f[:n]
	}
	for i := range f {
		if len(f[i]) > 12 {
			f[i] = f[i][:12]
		}
	}
	return strings.Join(f, " ")
}

func min(a, b int) int {
	if a < b {
		return a
	}
	return b
}

func bucketLen(n int) int {
	for _, b := range []int{0, 1, 254, 255, 256, 510, 765, 1024} {
		if n <= b {
			return b
		}
	}
	return 99999
}

func trunc(s string, n int) string {
	if len(s) <= n {
		return s
	}
	return s[:n] + fmt.Sprintf("…(%d chars)", len(s))
}

// genTlvInput: mostly-valid TLV8 byte strings with structured damage, plus pure noise.
func genTlvInput(r *rand.Rand) []byte {
	switch r.Intn(6) {
	case 0:
		return randBytes(r, r.Intn(40))
	case 1:
		return nil
	}
	var ops []tlvOp
	for j := 0; j < 1+r.Intn(4); j++ {
		l := r.Intn(20)
		if r.Intn(4) == 0 {
			l = 250 + r.Intn(300)
		}
		ops = append(ops, tlvOp{byte(r.Intn(12)), randBytes(r, l)})
	}
	b := refTlvEncode(ops)
	switch r.Intn(5) {
	case 0: // truncate
		if len(b) > 0 {
			b = b[:r.Intn(len(b))]
		}
	case 1: // corrupt a byte
		if len(b) > 0 {
			b[r.Intn(len(b))] = byte(r.Intn(256))
		}
	case 2: // zero-length item inserted
		b = append([]byte{byte(r.Intn(256)), 0}, b...)
	case 3: // trailing garbage
		b = append(b, randBytes(r, 1+r.Intn(3))...)
	}
	return b
}

// c16ConcurrentParse: the accessory parses the pairing requests of different connections at the same time, each on its own
// goroutine with its own reader. A container is what ITS input says — whatever is parsed next to it.
func c16ConcurrentParse(c *Ctx) {
	id := "concurrent-parse#0"
	if c.Skip(id) {
		return
	}
	r := c.CaseRng("concurrent-parse", 0)
	var inputs [][]byte
	for k := 0; k < 24; k++ {
		var ops []tlvOp
		for j := 0; j < 1+r.Intn(6); j++ {
			ops = append(ops, tlvOp{byte(1 + (k*7+j)%250), randBytes(r, []int{0, 1, 3, 40, 255, 300}[r.Intn(6)])})
		}
		inputs = append(inputs, refTlvEncode(ops))
	}
	var mu sync.Mutex
	bad := ""
	var wg sync.WaitGroup
	deadline := time.Now().Add(time.Duration(c.Pick(400, 3000)) * time.Millisecond)
	for g := 0; g < 8; g++ {
		wg.Add(1)
		go func(g int) {
			defer wg.Done()
			for k := 0; time.Now().Before(deadline); k++ {
				in := inputs[(g*5+k)%len(inputs)]
				var out []byte
				var err error
				msg, pan := safely(func() {
					var cont util.Container
					if cont, err = util.NewTLV8ContainerFromReader(iotest.OneByteReader(bytes.NewReader(in))); err == nil {
						out = cont.BytesBuffer().Bytes()
					}
				})
				if pan || err != nil || !bytes.Equal(out, in) {
					mu.Lock()
					if bad == "" {
						bad = fmt.Sprintf("input %s parsed (next to 7 other parses) into %s err=%v %s", trunc(hx(in), 80), trunc(hx(out), 80), err, msg)
					}
					mu.Unlock()
					return
				}
			}
		}(g)
	}
	wg.Wait()
	if bad != "" {
		c.Violate("tlv8 parser yields data that was not in the input (several inputs are parsed at the same time, each by its own goroutine)", id,
			map[string]interface{}{"goroutines": 8, "inputs": len(inputs)}, "the container of each input serialises to that input", bad)
	}
	c.Count(id, true, "stream:concurrent-parse")
}
