package main

import (
	"encoding/json"
	"fmt"
	"math"
	"net"
	"os"
	"os/exec"
	"path/filepath"
	"strings"
	"time"

	"github.com/brutella/hc/accessory"
	"github.com/brutella/hc/characteristic"
	"github.com/brutella/hc/service"
)

// c09Reentrant: updates that arrive while the callbacks of another update of the same characteristic are running.
//   - an application that corrects what a controller wrote (its remote-update callback sets another value);
//   - a value-change callback that moves the value on (a → b);
//   - a controller's write arriving while the application's callback for its own SetValue is still running (forced with
//     channels: the callback has been entered and has not returned).
//
// In each the last update to complete decides what the getter returns and what a controller reads.
func c09Reentrant(c *Ctx) {
	c09ReentrantModel(c)
	for i := 0; i < c.Pick(9, 90); i++ {
		id := c.CaseID("reentrant", i)
		if c.Skip(id) {
			continue
		}
		r := c.CaseRng("reentrant", i)
		acc := accessory.New(accessory.Info{Name: "R"}, accessory.TypeOther)
		svc := service.New("F00F")
		ch := characteristic.NewInt("F301")
		ch.Format = characteristic.FormatInt32
		ch.Perms = []string{characteristic.PermRead, characteristic.PermWrite, characteristic.PermEvents}
		ch.SetMinValue(0)
		ch.SetMaxValue(1000)
		ch.SetStepValue(1)
		ch.SetValue(5)
		svc.AddCharacteristic(ch.Characteristic)
		acc.AddService(svc)
		f, addr, err := verifiedFixture(c, []*accessory.Accessory{acc})
		if err != nil {
			c.Violate("C09 fixture cannot be built", id, nil, "fixture", err.Error())
			continue
		}
		written, corrected, third := 10+r.Intn(400), 500+r.Intn(400), 910+r.Intn(80)
		kind := []string{"app-corrects-controller", "callback-moves-on", "put-during-callback"}[i%3]
		put := func(v int) string {
			body := fmt.Sprintf(`{"characteristics":[{"aid":%d,"iid":%d,"value":%d}]}`, acc.ID, ch.ID, v)
			st, _, _, pm := f.Do(addr, "PUT", "/characteristics", "application/hap+json", []byte(body))
			if pm != "" {
				return pm
			}
			return fmt.Sprint(st)
		}
		var want int
		var trace []string
		msg, pan := safely(func() {
			switch kind {
			case "app-corrects-controller":
				ch.OnValueRemoteUpdate(func(v int) {
					trace = append(trace, fmt.Sprint("remote-update(", v, ")"))
					if v == written {
						ch.SetValue(corrected)
					}
				})
				trace = append(trace, "PUT "+fmt.Sprint(written)+" -> "+put(written))
				want = corrected
			case "callback-moves-on":
				ch.Characteristic.OnValueUpdate(func(_ *characteristic.Characteristic, n, o interface{}) {
					trace = append(trace, fmt.Sprint("update(", n, ")"))
					if n == interface{}(written) {
						ch.SetValue(corrected)
					}
				})
				ch.SetValue(written)
				want = corrected
			case "put-during-callback":
				entered, release := make(chan struct{}), make(chan struct{})
				first := true
				ch.Characteristic.OnValueUpdate(func(_ *characteristic.Characteristic, n, o interface{}) {
					if first {
						first = false
						close(entered)
						<-release
					}
				})
				ch.Characteristic.OnValueUpdateFromConn(func(_ net.Conn, _ *characteristic.Characteristic, n, o interface{}) {
					trace = append(trace, fmt.Sprint("remote-update(", n, ")"))
				})
				done := make(chan struct{})
				go func() { defer close(done); safely(func() { ch.SetValue(written) }) }()
				<-entered
				trace = append(trace, "SetValue("+fmt.Sprint(written)+") is inside its callback")
				trace = append(trace, "PUT "+fmt.Sprint(third)+" -> "+put(third))
				close(release)
				<-done
				want = third
			}
		})
		in := map[string]interface{}{"scenario": kind, "first_value": written, "value_set_from_the_callback": corrected, "controllers_value": third}
		if pan {
			c.Violate("C09 re-entrant update panics", id, in, "no panic", msg)
			f.Close()
			continue
		}
		got := ch.GetValue()
		_, body, _, _ := f.Do(addr, "GET", fmt.Sprintf("/characteristics?id=%d.%d", acc.ID, ch.ID), "", nil)
		var parsed struct {
			Characteristics []struct {
				Value json.Number `json:"value"`
			} `json:"characteristics"`
		}
		json.Unmarshal(body, &parsed)
		read := "?"
		if len(parsed.Characteristics) == 1 {
			read = parsed.Characteristics[0].Value.String()
		}
		if got != want || read != fmt.Sprint(want) {
			c.Violate("an update made while the callbacks of another update of the same characteristic run is lost", id, in,
				fmt.Sprintf("getter and controller see %d (the last update to complete)", want), fmt.Sprintf("getter %d, controller reads %s; %v", got, read, trace))
		}
		c.Count(id, true, "stream:reentrant", "reentrant:"+kind)
		f.Close()
	}
}

// c09ReentrantModel: the same nesting against HcModel/Reentrant.lean (`char reent`): a characteristic with range
// [10,100], callbacks that react to a value with another UpdateValue as a random table says (chains up to five deep,
// values outside the range so that clamping happens inside the chain, reactions asking for the value already stored),
// first update local or from a connection. Compared: the stored value and every callback invocation (origin, new, old).
func c09ReentrantModel(c *Ctx) {
	for i := 0; i < c.Pick(150, 3000); i++ {
		id := c.CaseID("reentrant-model", i)
		if c.Skip(id) {
			continue
		}
		r := c.CaseRng("reentrant-model", i)
		// distinct values; reactions only lead forward in this list (no cycles: those recurse until the stack overflows), or to the value itself
		perm := r.Perm(151)
		vals := perm[:2+r.Intn(5)]
		tbl := map[int]int{}
		var ts []string
		for k := 0; k < len(vals)-1; k++ {
			if r.Intn(5) == 0 {
				continue
			}
			to := vals[k+1+r.Intn(len(vals)-k-1)]
			if r.Intn(8) == 0 {
				to = vals[k]
			}
			tbl[vals[k]] = to
			ts = append(ts, fmt.Sprintf("%d:%d", vals[k], to))
		}
		clamp := func(v int) int {
			if v > 100 {
				return 100
			}
			if v < 10 {
				return 10
			}
			return v
		}
		// a clamped value that has a reaction leading back would be a cycle: drop reactions keyed by clamped images of later values
		seen := map[int]bool{}
		ok := true
		for v, n := vals[0], 0; ; n++ {
			cv := clamp(v)
			if seen[cv] || n > 10 {
				ok = false
				break
			}
			seen[cv] = true
			w, has := tbl[cv]
			if !has || clamp(w) == cv {
				break
			}
			v = w
		}
		if !ok {
			continue
		}
		ch := characteristic.NewInt("F302")
		ch.Format = characteristic.FormatInt32
		ch.Perms = []string{characteristic.PermRead, characteristic.PermWrite, characteristic.PermEvents}
		ch.SetMinValue(10)
		ch.SetMaxValue(100)
		initial := 10 + r.Intn(91)
		ch.SetValue(initial)
		var cbs []string
		react := func(n interface{}) {
			if k, isInt := n.(int); isInt {
				if w, has := tbl[k]; has {
					ch.Characteristic.UpdateValue(w)
				}
			}
		}
		ch.Characteristic.OnValueUpdate(func(_ *characteristic.Characteristic, n, o interface{}) {
			cbs = append(cbs, fmt.Sprintf("L(i%v;i%v)", n, o))
			react(n)
		})
		ch.Characteristic.OnValueUpdateFromConn(func(_ net.Conn, _ *characteristic.Characteristic, n, o interface{}) {
			cbs = append(cbs, fmt.Sprintf("C(i%v;i%v)", n, o))
			react(n)
		})
		fromConn := r.Intn(2) == 0
		msg, pan := safely(func() {
			if fromConn {
				ch.Characteristic.UpdateValueFromConnection(vals[0], quietConn{fakeAddr("10.1.1.1:1"), fakeAddr("10.1.1.2:2")})
			} else {
				ch.Characteristic.UpdateValue(vals[0])
			}
		})
		impl := fmt.Sprintf("ok v=i%d cb=%s", ch.GetValue(), strings.Join(cbs, ""))
		if len(cbs) == 0 {
			impl = fmt.Sprintf("ok v=i%d cb=-", ch.GetValue())
		}
		if pan {
			impl = "panic " + trunc(msg, 80)
		}
		t := "-"
		if len(ts) > 0 {
			t = strings.Join(ts, ",")
		}
		bits := "00"
		if fromConn {
			bits = "11"
		}
		in := map[string]interface{}{"range": "10..100", "initial": initial, "first_update": vals[0], "from_connection": fromConn, "callbacks_react": t}
		model := c.Model1(fmt.Sprintf("char reent 0 int32 pr+pw+ev i10 i100 0 - i%d u%s=i%d %s", initial, bits, vals[0], t))
		c.Same("reentrant-model", id, in, model, impl)
		if !strings.HasPrefix(model, "ok") {
			c.Count(id, false, "stream:reentrant-model")
			continue
		}
		c.Count(fmt.Sprint(id, t, vals[0]), len(cbs) >= 2, "stream:reentrant-model", fmt.Sprintf("reentrant-depth:%d", len(cbs)))
	}
}

// c09OtherPlatforms: what a controller writes is what the application reads ON EVERY PLATFORM the library is built for.
// cmd/convprobe (every signed-integer characteristic of the catalog × negative, fractional and out-of-range numbers as a
// controller sends them, plus application-side strings and ints) is built and run for the host, for GOARCH=386 and for
// js/wasm under node — platforms whose float→integer conversions differ where the language leaves them to the
// implementation (arm64, the usual deployment, converts like wasm: a negative float64 → uint64 saturates to 0).
func c09OtherPlatforms(c *Ctx) { otherPlatforms(c, "C09") }

func otherPlatforms(c *Ctx, who string) {
	id := "other-platforms#0"
	if c.Skip(id) {
		return
	}
	goroot, _ := exec.Command("go", "env", "GOROOT").Output()
	wasmExec := filepath.Join(strings.TrimSpace(string(goroot)), "misc", "wasm", "go_js_wasm_exec")
	if _, err := os.Stat(wasmExec); err != nil {
		wasmExec = filepath.Join(strings.TrimSpace(string(goroot)), "lib", "wasm", "go_js_wasm_exec")
	}
	run := func(env []string, args ...string) (string, error) {
		cmd := exec.Command("go", append([]string{"run"}, args...)...)
		cmd.Dir = filepath.Join(c.VerifDir, "harness")
		cmd.Env = append(append(os.Environ(), "GOFLAGS=-mod=mod", "GOPROXY=off", "GOSUMDB=off", "GOTOOLCHAIN=local", "CGO_ENABLED=0"), env...)
		out, err := cmd.CombinedOutput()
		return string(out), err
	}
	host, err := run(nil, "./cmd/convprobe")
	if err != nil {
		c.Mismatch("other-platforms", id, "cmd/convprobe on the host", "runs", trunc(host, 300))
		return
	}
	platforms := [][]string{{"386", "GOARCH=386"}}
	if _, err := exec.LookPath("node"); err == nil {
		platforms = append(platforms, []string{"js/wasm", "GOOS=js", "GOARCH=wasm"})
	}
	hl := strings.Split(strings.TrimSpace(host), "\n")
	// one line of the probe
	type pline struct {
		name, in, out, format string
		f                     float64
		isFloat, isInt        bool
		v, lo, hi             int64 // stored value; declared bounds ∩ range of the format (as far as `bits` go)
	}
	parse := func(l string, bits int) (pl pline, ok bool) {
		var mn, mx, fm string
		if n, _ := fmt.Sscanf(l, "%s %s -> %s %s %s %s", &pl.name, &pl.in, &pl.out, &mn, &mx, &fm); n != 6 {
			return pl, false
		}
		pl.format = strings.TrimPrefix(fm, "format=")
		if k, _ := fmt.Sscanf(pl.in, "float64(%g)", &pl.f); k == 1 {
			pl.isFloat = true
		}
		if k, _ := fmt.Sscanf(pl.out, "int(%d)", &pl.v); k == 1 {
			pl.isInt = true
		}
		lo, hi, isIntFormat := formatRange(pl.format)
		if !isIntFormat {
			return pl, false
		}
		if bits == 32 && hi > math.MaxInt32 {
			hi = math.MaxInt32
		}
		var b int64
		if k, _ := fmt.Sscanf(mn, "min=%d", &b); k == 1 && b > lo {
			lo = b
		}
		if k, _ := fmt.Sscanf(mx, "max=%d", &b); k == 1 && b < hi {
			hi = b
		}
		pl.lo, pl.hi = lo, hi
		return pl, true
	}
	// on the host: a whole number inside the declared range and the range of the format, written by a controller, is
	// stored as it is; and whatever is written, what is stored lies within both
	for _, l := range hl {
		pl, ok := parse(l, 64)
		if !ok {
			continue
		}
		if !pl.isInt || pl.v < pl.lo || pl.v > pl.hi {
			c.Violate(who+": a value outside the declared range or the range of the format is stored", id, map[string]string{"platform": "host", "line": l}, fmt.Sprintf("an int within [%d, %d]", pl.lo, pl.hi), pl.out)
			break
		}
		if pl.isFloat && math.Abs(pl.f) < 1e18 && pl.f == float64(int64(pl.f)) && int64(pl.f) >= pl.lo && int64(pl.f) <= pl.hi {
			if want := fmt.Sprintf("int(%d)", int64(pl.f)); pl.out != want {
				c.Violate("a whole number inside the range, written by a controller, is not what the application reads", id, map[string]string{"platform": "host", "line": l}, want, pl.out)
			}
		}
	}
	for _, p := range platforms {
		args := []string{"./cmd/convprobe"}
		if p[0] == "js/wasm" {
			args = []string{"-exec", wasmExec, "./cmd/convprobe"}
		}
		out, err := run(p[1:], args...)
		if err != nil {
			c.Mismatch("other-platforms", id, "cmd/convprobe built for "+p[0], "builds and runs", trunc(out, 300))
			continue
		}
		ol := strings.Split(strings.TrimSpace(out), "\n")
		bits := 64
		if p[0] == "386" {
			bits = 32
		}
		// on every platform: what is stored lies within the declared bounds and the range of the format
		for _, l := range ol {
			if pl, ok := parse(l, bits); ok && (!pl.isInt || pl.v < pl.lo || pl.v > pl.hi) {
				c.Violate(who+": a value outside the declared range or the range of the format is stored on a platform the library is built for", id, map[string]string{"platform": p[0], "line": l}, fmt.Sprintf("an int within [%d, %d]", pl.lo, pl.hi), pl.out)
				break
			}
		}
		for k := range hl {
			// what the 32-bit int of the platform cannot hold cannot be equal to the host's (and an application's uint64 /
			// uint32 beyond it is not one value on both); the range rule above covers those lines
			if pl, ok := parse(hl[k], 64); bits == 32 && ok && (pl.v > math.MaxInt32 || pl.v < math.MinInt32 || strings.HasPrefix(pl.in, "uint")) {
				continue
			}
			if k >= len(ol) || ol[k] != hl[k] {
				got := "(missing)"
				if k < len(ol) {
					got = ol[k]
				}
				c.Violate("what the application reads after a write depends on the platform the library is built for", id,
					map[string]string{"platform": p[0], "reproduce": strings.Join(p[1:], " ") + " go run ./cmd/convprobe (js/wasm: -exec go_js_wasm_exec, under node)"}, hl[k]+" (host)", got+" ("+p[0]+")")
				break
			}
		}
		c.Count("other-platforms:"+p[0], true, "stream:other-platforms", "other-platforms:"+p[0])
	}
}

// c09Getter: a characteristic whose value the application supplies on demand (OnValueGet / OnValueRemoteGet — a sensor
// that is read when asked). What the getter returns at the moment of the read is what the controller reads through
// /characteristics, whatever the permissions of the characteristic are otherwise (sensors are read-only).
func c09Getter(c *Ctx) {
	type gcase struct {
		name string
		mk   func() *characteristic.Characteristic
		vals []interface{}
	}
	cases := []gcase{
		{"NewCurrentTemperature", func() *characteristic.Characteristic { return characteristic.NewCurrentTemperature().Characteristic }, []interface{}{21.5, 3.2, 36.6, 0.0} /* inside the declared range 0..100 */},
		{"NewContactSensorState", func() *characteristic.Characteristic { return characteristic.NewContactSensorState().Characteristic }, []interface{}{1, 0, 1}},
		{"NewMotionDetected", func() *characteristic.Characteristic { return characteristic.NewMotionDetected().Characteristic }, []interface{}{true, false, true}},
		{"NewBrightness", func() *characteristic.Characteristic { return characteristic.NewBrightness().Characteristic }, []interface{}{40, 60, 0}},
		{"NewSerialNumber", func() *characteristic.Characteristic { return characteristic.NewSerialNumber().Characteristic }, []interface{}{"SN-1", "SN-2 \"q\""}},
	}
	for i, gc := range cases {
		id := fmt.Sprintf("getter#%s", gc.name)
		if c.Skip(id) {
			continue
		}
		ch := gc.mk()
		acc := accessory.New(accessory.Info{Name: "G"}, accessory.TypeOther)
		svc := service.New("F0" + fmt.Sprint(10+i))
		svc.AddCharacteristic(ch)
		acc.AddService(svc)
		f, addr, err := verifiedFixture(c, []*accessory.Accessory{acc})
		if err != nil {
			c.Violate("C09 fixture cannot be built", id, nil, "fixture", err.Error())
			continue
		}
		var cur interface{}
		ch.OnValueGet(func() interface{} { return cur })
		for _, v := range gc.vals {
			cur = v
			st, body, _, pm := f.Do(addr, "GET", fmt.Sprintf("/characteristics?id=%d.%d", acc.ID, ch.ID), "", nil)
			es, ok := parseGetBody(body)
			if pm != "" || st != 200 || !ok || len(es) != 1 || !es[0].hasVal || !jsonSame(es[0].Value, v) {
				c.Violate("GET /characteristics does not return the value the application's getter supplies", id,
					map[string]interface{}{"constructor": gc.name, "perms": ch.Perms, "getter_returns": fmt.Sprintf("%T %v", v, v)}, fmt.Sprint(v), fmt.Sprint(st, " ", trunc(string(body), 160), pm))
				break
			}
		}
		c.Count(id, true, "stream:getter", "getter:"+formatKind(ch.Format))
		f.Close()
	}
}

// c09AfterMalformed: a request that is refused (malformed id list, malformed body) must not leave anything behind: the
// next requests — of this and of another controller — are answered as if it had never been sent.
func c09AfterMalformed(c *Ctx) {
	id := "after-malformed#0"
	if c.Skip(id) {
		return
	}
	sw := accessory.NewSwitch(accessory.Info{Name: "M"})
	f, addr, err := verifiedFixture(c, []*accessory.Accessory{sw.Accessory})
	if err != nil {
		c.Violate("C09 fixture cannot be built", id, nil, "fixture", err.Error())
		return
	}
	defer f.Close()
	target := fmt.Sprintf("/characteristics?id=%d.%d", sw.Accessory.ID, sw.Switch.On.ID)
	type step struct{ method, target, body string }
	bad := []step{
		{"GET", target + ",", ""}, {"GET", "/characteristics?id=1", ""}, {"GET", "/characteristics?id=" + strings.Repeat("1.", 3), ""},
		{"PUT", "/characteristics", `{"characteristics":[{"aid":1`}, {"PUT", "/characteristics", `[]`},
	}
	for k, b := range bad {
		f.Do(addr, b.method, b.target, "application/hap+json", []byte(b.body))
		done := make(chan string, 1)
		go func() {
			sw.Switch.On.SetValue(k%2 == 0)
			st, body, _, pm := f.Do(addr, "GET", target, "", nil)
			es, ok := parseGetBody(body)
			if pm != "" || st != 200 || !ok || len(es) != 1 || !jsonSame(es[0].Value, k%2 == 0) {
				done <- fmt.Sprint(st, " ", trunc(string(body), 100), pm)
				return
			}
			if st, _, _, pm := f.Do(addr, "GET", "/accessories", "", nil); st != 200 || pm != "" {
				done <- fmt.Sprint("/accessories: ", st, pm)
				return
			}
			done <- ""
		}()
		select {
		case msg := <-done:
			if msg != "" {
				c.Violate("GET /characteristics does not return the value the application set", id, map[string]interface{}{"after_the_refused_request": b.method + " " + b.target + " " + b.body}, fmt.Sprint(k%2 == 0), msg)
			}
		case <-time.After(3 * time.Second):
			c.Violate("after a refused request no further request is answered", id, map[string]interface{}{"refused_request": b.method + " " + b.target + " " + b.body}, "the next GET is answered", "no answer within 3 s")
			return
		}
	}
	c.Count(id, true, "stream:after-malformed")
}

// platformProbe runs harness/cmd/<prog> (a self-checking program: one line per check, ending in "ok" or "FAIL …") on the
// host, for GOARCH=386 and — when node is installed — for js/wasm: no line fails anywhere, and every platform prints what
// the host prints.
func platformProbe(c *Ctx, who, prog string) {
	id := "platform-probe#" + prog
	if c.Skip(id) {
		return
	}
	goroot, _ := exec.Command("go", "env", "GOROOT").Output()
	wasmExec := filepath.Join(strings.TrimSpace(string(goroot)), "misc", "wasm", "go_js_wasm_exec")
	if _, err := os.Stat(wasmExec); err != nil {
		wasmExec = filepath.Join(strings.TrimSpace(string(goroot)), "lib", "wasm", "go_js_wasm_exec")
	}
	platforms := [][]string{{"host"}, {"386", "GOARCH=386"}}
	if _, err := exec.LookPath("node"); err == nil {
		platforms = append(platforms, []string{"js/wasm", "GOOS=js", "GOARCH=wasm"})
	}
	var host []string
	for _, p := range platforms {
		args := []string{"run"}
		if p[0] == "js/wasm" {
			args = append(args, "-exec", wasmExec)
		}
		cmd := exec.Command("go", append(args, "./cmd/"+prog)...)
		cmd.Dir = filepath.Join(c.VerifDir, "harness")
		cmd.Env = append(append(os.Environ(), "GOFLAGS=-mod=mod", "GOPROXY=off", "GOSUMDB=off", "GOTOOLCHAIN=local", "CGO_ENABLED=0"), p[1:]...)
		out, err := cmd.CombinedOutput()
		if err != nil {
			c.Mismatch("platform-probe", id, "cmd/"+prog+" built for "+p[0], "builds and runs", trunc(string(out), 300))
			continue
		}
		lines := strings.Split(strings.TrimSpace(string(out)), "\n")
		for k, l := range lines {
			if !strings.HasSuffix(l, " ok") {
				c.Violate(who+": "+prog+" check fails on a platform the library is built for", id, map[string]string{"platform": p[0], "reproduce": strings.Join(p[1:], " ") + " go run ./cmd/" + prog + " (in /verif/harness)"}, "ok", trunc(l, 200))
				break
			}
			if host != nil && (k >= len(host) || host[k] != l) {
				c.Violate(who+": "+prog+" prints something else on another platform", id, map[string]string{"platform": p[0]}, trunc(host[min(k, len(host)-1)], 160), trunc(l, 160))
				break
			}
		}
		if p[0] == "host" {
			host = lines
		}
		c.Count(id+p[0], true, "stream:platform-probe", "platform-probe:"+p[0])
	}
}
