package main

// C20, stream "restart": histories of start / pair / unpair / stop / value change / structure change on one storage
// directory against the real hc.NewIPTransport, the real pair.PairingController and the transport's own event handler;
// observed through the files of the storage directory, the TXT records (verif accessor) and XHMURI().
// Correspondence with HcModel/Config.lean (`config run …`) + direct oracles O1..O6 that do not use the model.

import (
	"bytes"
	"encoding/hex"
	"encoding/json"
	"fmt"
	"io/ioutil"
	"math/rand"
	"net"
	"path/filepath"
	"runtime"
	"sort"
	"strings"
	"sync"
	"time"

	"github.com/brutella/hc"
	"github.com/brutella/hc/accessory"
	"github.com/brutella/hc/db"
	"github.com/brutella/hc/event"
	"github.com/brutella/hc/hap/pair"
	hclog "github.com/brutella/hc/log"
	"github.com/brutella/hc/service"
	"github.com/brutella/hc/util"
)

// ---- accessory sets ---------------------------------------------------------------------------------------------

type accSpec struct {
	Kind   string  `json:"kind"` // switch | bulb | cbulb | outlet | thermo | bridge
	Name   string  `json:"name"`
	On     bool    `json:"on"`
	Bright int     `json:"bright"`
	Hue    float64 `json:"hue"`
	Temp   float64 `json:"temp"`
	Max    float64 `json:"max"`   // thermo: maxValue (structure, not a value)
	Extra  int     `json:"extra"` // number of additional battery services (structure)
}

func (s accSpec) build() *accessory.Accessory {
	info := accessory.Info{Name: s.Name, SerialNumber: "SN-" + s.Name, Manufacturer: "verif", Model: s.Kind}
	var a *accessory.Accessory
	switch s.Kind {
	case "switch":
		x := accessory.NewSwitch(info)
		x.Switch.On.SetValue(s.On)
		a = x.Accessory
	case "bulb":
		x := accessory.NewLightbulb(info)
		x.Lightbulb.On.SetValue(s.On)
		a = x.Accessory
	case "cbulb":
		x := accessory.NewColoredLightbulb(info)
		x.Lightbulb.On.SetValue(s.On)
		x.Lightbulb.Brightness.SetValue(s.Bright)
		x.Lightbulb.Hue.SetValue(s.Hue)
		a = x.Accessory
	case "outlet":
		x := accessory.NewOutlet(info)
		x.Outlet.On.SetValue(s.On)
		a = x.Accessory
	case "thermo":
		x := accessory.NewTemperatureSensor(info, s.Temp, -50, s.Max, 0.1)
		a = x.Accessory
	default:
		a = accessory.NewBridge(info).Accessory
	}
	for i := 0; i < s.Extra; i++ {
		b := service.NewBatteryService()
		b.BatteryLevel.SetValue(s.Bright % 101)
		a.AddService(b.Service)
	}
	return a
}

func buildSet(specs []accSpec) []*accessory.Accessory {
	var as []*accessory.Accessory
	for _, s := range specs {
		as = append(as, s.build())
	}
	return as
}

// structure descriptor: everything that is structure, nothing that is a characteristic value
func descr(specs []accSpec) string {
	var p []string
	for _, s := range specs {
		d := fmt.Sprintf("%s+%d", s.Kind, s.Extra)
		if s.Kind == "thermo" {
			d += fmt.Sprintf("/max%v", s.Max)
		}
		p = append(p, d)
	}
	return strings.Join(p, ",")
}

var accTypeOf = map[string]int{"switch": int(accessory.TypeSwitch), "bulb": int(accessory.TypeLightbulb), "cbulb": int(accessory.TypeLightbulb),
	"outlet": int(accessory.TypeOutlet), "thermo": int(accessory.TypeThermostat), "bridge": int(accessory.TypeBridge)}

func expectedCategory(specs []accSpec) int {
	if len(specs) > 1 {
		return 2 // bridge
	}
	return accTypeOf[specs[0].Kind]
}

var c20Kinds = []string{"switch", "bulb", "cbulb", "outlet", "thermo", "bridge"}

func genSpec(r *rand.Rand, i int) accSpec {
	return accSpec{Kind: c20Kinds[r.Intn(len(c20Kinds))], Name: fmt.Sprintf("acc %d-%d", i, r.Intn(1000)), On: r.Intn(2) == 0,
		Bright: r.Intn(101), Hue: float64(r.Intn(360)), Temp: float64(r.Intn(60)), Max: float64(60 + 10*r.Intn(3)), Extra: r.Intn(4) / 3}
}

func changeValues(r *rand.Rand, specs []accSpec) []accSpec {
	out := append([]accSpec{}, specs...)
	for n := 1 + r.Intn(3); n > 0; n-- {
		i := r.Intn(len(out))
		switch r.Intn(5) {
		case 0:
			out[i].On = !out[i].On
		case 1:
			out[i].Bright = (out[i].Bright + 1 + r.Intn(99)) % 101
		case 2:
			out[i].Hue = float64((int(out[i].Hue) + 1 + r.Intn(300)) % 360)
		case 3:
			out[i].Temp = float64((int(out[i].Temp) + 1 + r.Intn(40)) % 50)
		default: // the accessory name is a characteristic value too (so are serial number and model, built from it) …
			out[i].Name = fmt.Sprintf("renamed %d", r.Intn(100000))
			if r.Intn(2) == 0 {
				// … of any length: a value is a value, also a long one
				out[i].Name += " " + strings.Repeat("long name ", 20)[:60+r.Intn(120)]
			}
		}
	}
	return out
}

func changeStructure(r *rand.Rand, specs []accSpec) []accSpec {
	out := append([]accSpec{}, specs...)
	for try := 0; ; try++ {
		switch r.Intn(6) {
		case 0: // add an accessory (becomes a bridge)
			if len(out) < 4 {
				out = append(out, genSpec(r, len(out)))
			}
		case 1: // remove the last one
			if len(out) > 1 {
				out = out[:len(out)-1]
			}
		case 2: // another kind at some position
			i := r.Intn(len(out))
			out[i].Kind = c20Kinds[r.Intn(len(c20Kinds))]
		case 3: // add / remove a service
			i := r.Intn(len(out))
			out[i].Extra = (out[i].Extra + 1) % 3
		case 4: // swap two accessories of different structure
			if len(out) > 1 {
				out[0], out[len(out)-1] = out[len(out)-1], out[0]
			}
		default: // metadata (maxValue) of a characteristic
			i := r.Intn(len(out))
			if out[i].Kind == "thermo" {
				out[i].Max += 5
			}
		}
		if descr(out) != descr(specs) {
			return out
		}
	}
}

// ---- history -----------------------------------------------------------------------------------------------------

type rsOp struct {
	Op    string    `json:"op"` // start | pair | unpair | stop | badpin | noname | pairself | unpairself | wipe-version | wipe-hash
	Ctl   int       `json:"ctl,omitempty"`
	Key   int       `json:"key,omitempty"`
	Specs []accSpec `json:"specs,omitempty"` // start: accessory set handed to NewIPTransport
	Why   string    `json:"why,omitempty"`   // start: same | values | structure | first
	Live  bool      `json:"live,omitempty"`  // start: also Start() the server
	Pin   string    `json:"pin,omitempty"`
	Setup string    `json:"setup,omitempty"`
}

type rsCase struct {
	id   string
	ops  []rsOp
	self bool // contains a pairing / removal under the device id (F16)
}

func genHistory(r *rand.Rand, allowSelf bool, live bool) (ops []rsOp, self bool) {
	n := 3 + r.Intn(23)
	nacc := 1 + r.Intn(3)
	if r.Intn(3) == 0 {
		nacc = 1
	}
	var specs []accSpec
	for i := 0; i < nacc; i++ {
		specs = append(specs, genSpec(r, i))
	}
	pin := []string{"00102003", "", "46637726", "00000001", "99999998"}[r.Intn(5)]
	setup := []string{"", "HOME", "ABCD", "Z1"}[r.Intn(4)]
	started := false
	key := 500
	nlive := 0
	mkStart := func(why string) rsOp {
		lv := live && nlive < 2 && r.Intn(2) == 0 // stopping a started transport takes ~1 s (mDNS goodbye): at most two per history
		if lv {
			nlive++
		}
		return rsOp{Op: "start", Specs: append([]accSpec{}, specs...), Why: why, Live: lv, Pin: pin, Setup: setup}
	}
	ops = append(ops, mkStart("first"))
	started = true
	for len(ops) < n-1 {
		switch k := r.Intn(100); {
		case k < 14:
			ops = append(ops, mkStart("same"))
		case k < 26:
			specs = changeValues(r, specs)
			ops = append(ops, mkStart("values"))
		case k < 38:
			specs = changeStructure(r, specs)
			ops = append(ops, mkStart("structure"))
		case k < 42: // values and structure, back and forth
			specs = changeValues(r, changeStructure(r, specs))
			ops = append(ops, mkStart("structure"))
		case k < 66:
			key++
			ops = append(ops, rsOp{Op: "pair", Ctl: 1 + r.Intn(4), Key: key})
		case k < 84:
			ops = append(ops, rsOp{Op: "unpair", Ctl: 1 + r.Intn(4)})
		case k < 92:
			ops = append(ops, rsOp{Op: "stop"})
		case k < 95:
			bad := []string{"12345678", "0010200", "001-02-003", "0010200a", "11111111", "１２34"}[r.Intn(6)]
			ops = append(ops, rsOp{Op: "badpin", Specs: append([]accSpec{}, specs...), Pin: bad, Setup: setup})
		case k < 96:
			ops = append(ops, rsOp{Op: "noname", Specs: append([]accSpec{}, specs...), Pin: pin, Setup: setup})
		case k < 98: // a write interrupted after the truncation (cf. C19) leaves an empty file: load treats it as absent
			ops = append(ops, rsOp{Op: []string{"wipe-version", "wipe-hash"}[r.Intn(2)]})
		default:
			if allowSelf && started && !self {
				self = true
				key++
				if r.Intn(3) == 0 {
					ops = append(ops, rsOp{Op: "unpairself"})
				} else {
					ops = append(ops, rsOp{Op: "pairself", Key: key})
				}
			}
		}
	}
	// always end with a restart so that every pairing / change is followed by one
	ops = append(ops, mkStart("same"))
	return ops, self
}

// ---- observation of the storage directory (own reader, not hc's) ----------------------------------------------------

type entFile struct {
	Name       string
	PublicKey  []byte
	PrivateKey []byte
	bad        bool
	raw        []byte
}

func readEntities(dir string) []entFile {
	infos, _ := ioutil.ReadDir(dir)
	var out []entFile
	for _, fi := range infos {
		if fi.IsDir() || !strings.HasSuffix(fi.Name(), ".entity") {
			continue
		}
		b, _ := ioutil.ReadFile(filepath.Join(dir, fi.Name()))
		var e entFile
		nm, _ := hex.DecodeString(strings.TrimSuffix(fi.Name(), ".entity"))
		if err := json.Unmarshal(b, &e); err != nil {
			e = entFile{Name: string(nm), bad: true}
		}
		e.Name = string(nm) // the file name carries the identifier byte for byte (the JSON does not, for bytes that are not UTF-8)
		e.raw = b
		out = append(out, e)
	}
	return out
}

func snapshotDir(dir string) string {
	infos, _ := ioutil.ReadDir(dir)
	var sb strings.Builder
	for _, fi := range infos {
		b, _ := ioutil.ReadFile(filepath.Join(dir, fi.Name()))
		fmt.Fprintf(&sb, "%s=%x;", fi.Name(), b)
	}
	return sb.String()
}

// ctlName: some controller identifiers are not valid UTF-8 (a Latin-1 name): stored under the hex of their bytes, the
// JSON inside the file carries U+FFFD (known finding F15) — they are pairings like any other
func ctlName(n int) string {
	if n%4 == 2 {
		return fmt.Sprintf("ctl%d caf\xe9", n)
	}
	return fmt.Sprintf("ctl%d", n)
}

func ctlKey(code int) []byte {
	b := make([]byte, 32)
	for i := range b {
		b[i] = byte(code*7 + i*13 + code>>8)
	}
	return b
}

// JSON document → tree tokens of the model's line protocol; keys and scalars are numbered per history
type jenc struct {
	keys   map[string]int
	leaves map[string]int
}

func newJenc() *jenc { return &jenc{keys: map[string]int{"value": 0}, leaves: map[string]int{}} }

func (e *jenc) enc(v interface{}, out *[]string) {
	switch x := v.(type) {
	case map[string]interface{}:
		ks := make([]string, 0, len(x))
		for k := range x {
			ks = append(ks, k)
		}
		sort.Strings(ks)
		*out = append(*out, fmt.Sprintf("O%d", len(ks)))
		for _, k := range ks {
			n, ok := e.keys[k]
			if !ok {
				n = len(e.keys)
				e.keys[k] = n
			}
			*out = append(*out, fmt.Sprintf("K%d", n))
			e.enc(x[k], out)
		}
	case []interface{}:
		*out = append(*out, fmt.Sprintf("A%d", len(x)))
		for _, y := range x {
			e.enc(y, out)
		}
	default:
		b, _ := json.Marshal(x)
		n, ok := e.leaves[string(b)]
		if !ok {
			n = len(e.leaves)
			e.leaves[string(b)] = n
		}
		*out = append(*out, fmt.Sprintf("L%d", n))
	}
}

func (e *jenc) tree(as []*accessory.Accessory) (string, error) {
	cont := accessory.NewContainer()
	for _, a := range as {
		cont.AddAccessory(a)
	}
	b, err := json.Marshal(cont)
	if err != nil {
		return "", err
	}
	dec := json.NewDecoder(bytes.NewReader(b))
	dec.UseNumber()
	var v interface{}
	if err := dec.Decode(&v); err != nil {
		return "", err
	}
	var toks []string
	e.enc(v, &toks)
	return strings.Join(toks, ","), nil
}

type c20Transport interface {
	hc.Transport
	XHMURI() (string, error)
	Handle(ev interface{})
}

// Every NewIPTransport opens two multicast UDP sockets (dnssd.NewResponder) that only the garbage collector closes when the
// transport was never started. fdGuard keeps the number of open descriptors bounded: above the mark it collects and waits
// for the finalizers.
var fdMu sync.Mutex

func openFDs() int {
	fs, err := ioutil.ReadDir("/proc/self/fd")
	if err != nil {
		return 0
	}
	return len(fs)
}

func fdGuard() {
	fdMu.Lock()
	defer fdMu.Unlock()
	if openFDs() < 1500 {
		return
	}
	for i := 0; i < 100 && openFDs() > 300; i++ {
		runtime.GC()
		time.Sleep(20 * time.Millisecond)
	}
}

func dbFor(dir string) (db.Database, error) { return db.NewDatabase(dir) }

var c20Ports = struct {
	sync.Mutex
	used map[int]bool
}{used: map[int]bool{}}

// freePort: a port that is free now and was not handed out before in this process
func freePort() string {
	c20Ports.Lock()
	defer c20Ports.Unlock()
	for try := 0; try < 50; try++ {
		l, err := net.Listen("tcp", ":0")
		if err != nil {
			continue
		}
		p := l.Addr().(*net.TCPAddr).Port
		l.Close()
		if !c20Ports.used[p] {
			c20Ports.used[p] = true
			return fmt.Sprint(p)
		}
	}
	return "0"
}

// ---- one history on the real code -----------------------------------------------------------------------------------

type rsExec struct {
	c    *Ctx
	cs   rsCase
	dir  string
	enc  *jenc
	t    c20Transport
	live bool

	ids    []string // interned device ids
	keys   []string // interned device public keys (hex)
	hashes []string

	viol []Violation
	toks []string // model line
	segs []string // canonical observation per step
	cut  int      // segments compared with the model (everything before the first self pairing)

	// expectations of the direct oracles
	expCtl    map[int]int
	devID     string
	devPub    []byte
	devPriv   []byte
	lastDescr string
	lastVer   int
	hashGone  bool // the configHash file was emptied since the last start
	haveStart bool
	tainted   bool
	restarts  int
}

func internStr(x string, l *[]string) int {
	for i, y := range *l {
		if y == x {
			return i
		}
	}
	*l = append(*l, x)
	return len(*l) - 1
}

func (x *rsExec) suffix() string {
	if x.tainted {
		return " after a pairing or removal whose pairing name equals the device id"
	}
	return ""
}

// violations are buffered per history and reported in case order (histories run in parallel; output stays deterministic)
func (x *rsExec) violate(sig string, step int, exp, got string) {
	x.viol = append(x.viol, Violation{sig, x.cs.id, map[string]interface{}{"history": x.cs.ops, "failing_step": step}, exp, got})
}

func (x *rsExec) showName(n string) string {
	if strings.HasPrefix(n, "ctl") {
		var k int
		if _, err := fmt.Sscanf(n, "ctl%d", &k); err == nil && n == ctlName(k) {
			return fmt.Sprintf("c%d", k) // the model names controllers by number
		}
		return "c" + n[3:]
	}
	return fmt.Sprintf("I%d", internStr(n, &x.ids))
}

func (x *rsExec) showKey(pub []byte) string {
	for c := 500; c < 600; c++ {
		if bytes.Equal(pub, ctlKey(c)) {
			return fmt.Sprintf("k%d", c)
		}
	}
	return fmt.Sprintf("K%d", internStr(hex.EncodeToString(pub), &x.keys))
}

func (x *rsExec) showPriv(pub, priv []byte) string {
	if len(priv) == 0 {
		return "-"
	}
	if len(priv) == 64 && bytes.Equal(priv[32:], pub) {
		return x.showKey(pub)
	}
	return "Kmismatch"
}

func (x *rsExec) showEnts(es []entFile) string {
	var devs, ctls []entFile
	for _, e := range es {
		if strings.HasPrefix(e.Name, "ctl") {
			ctls = append(ctls, e)
		} else {
			devs = append(devs, e)
		}
	}
	for _, e := range devs {
		internStr(e.Name, &x.ids)
	}
	sort.SliceStable(devs, func(i, j int) bool { return internStr(devs[i].Name, &x.ids) < internStr(devs[j].Name, &x.ids) })
	sort.SliceStable(ctls, func(i, j int) bool {
		var a, b int
		fmt.Sscanf(ctls[i].Name, "ctl%d", &a)
		fmt.Sscanf(ctls[j].Name, "ctl%d", &b)
		return a < b
	})
	var parts []string
	for _, e := range append(devs, ctls...) {
		if e.bad {
			parts = append(parts, x.showName(e.Name)+":unparseable")
			continue
		}
		parts = append(parts, fmt.Sprintf("%s:%s:%s", x.showName(e.Name), x.showKey(e.PublicKey), x.showPriv(e.PublicKey, e.PrivateKey)))
	}
	if len(parts) == 0 {
		return "-"
	}
	return strings.Join(parts, ",")
}

func (x *rsExec) sf() string {
	if x.t == nil {
		return "-"
	}
	return hc.VerifTxtRecords(x.t)["sf"]
}

func (x *rsExec) stopTransport() {
	if x.t == nil {
		return
	}
	ch := x.t.Stop()
	if x.live {
		select {
		case <-ch:
		case <-time.After(10 * time.Second):
			x.violate("transport does not stop", len(x.segs), "stopped within 10 s", "still running")
		}
	}
	x.t, x.live = nil, false
}

// oracles O2 (pairings = what was added and not removed) and O4 (discoverable iff no controller pairing), after every step
func (x *rsExec) checkAfterStep(step int, es []entFile) {
	got := map[string]string{}
	for _, e := range es {
		if strings.HasPrefix(e.Name, "ctl") {
			if e.bad {
				got[e.Name] = "unparseable"
			} else {
				got[e.Name] = hex.EncodeToString(e.PublicKey)
			}
		}
	}
	exp := map[string]string{}
	for c, k := range x.expCtl {
		exp[ctlName(c)] = hex.EncodeToString(ctlKey(k))
	}
	if fmt.Sprint(exp) != fmt.Sprint(got) {
		x.violate("stored controller pairings differ from the pairings added and not removed", step, fmt.Sprint(exp), fmt.Sprint(got))
	}
	if x.t != nil {
		want := "1"
		if len(x.expCtl) > 0 {
			want = "0"
		}
		if sf := x.sf(); sf != want {
			x.violate("discoverable flag sf is not (no controller pairing stored)"+x.suffix(), step, "sf="+want, "sf="+sf)
		}
	}
}

func (x *rsExec) doStart(step int, op rsOp) {
	as := buildSet(op.Specs)
	if op.Op == "noname" {
		as[0].Info.Name.SetValue("")
	}
	tree, err := x.enc.tree(as)
	if err != nil {
		fatal("cannot encode accessory set: %v", err)
	}
	ne := 0
	if op.Op == "noname" {
		ne = 1
	}
	pinModel := op.Pin
	if pinModel == "" {
		pinModel = "00102003" // Config.merge keeps the default pin
	}
	setupModel := op.Setup
	if setupModel == "" {
		setupModel = "HOME"
	}
	x.toks = append(x.toks, fmt.Sprintf("S:%s:%s:%d:%d:%d:%d:%s", hx([]byte(pinModel)), hx([]byte(setupModel)), expectedCategory(op.Specs), ne,
		10000+step, 20000+step, tree))

	before := snapshotDir(x.dir)
	cfg := hc.Config{StoragePath: x.dir, Pin: op.Pin, SetupId: op.Setup}
	if op.Live {
		cfg.Port = freePort()
	}
	var t c20Transport
	var terr error
	msg, pan := safely(func() {
		tt, e := hc.NewIPTransport(cfg, as[0], as[1:]...)
		terr = e
		if e == nil {
			t = tt
		}
	})
	switch {
	case pan:
		if op.Op != "noname" {
			x.violate("NewIPTransport panics", step, "transport", msg)
		}
		if after := snapshotDir(x.dir); after != before {
			x.violate("a panicking NewIPTransport changed the storage", step, before, after)
		}
		x.segs = append(x.segs, fmt.Sprintf("panic-name sf=%s ents=%s", x.sf(), x.showEnts(readEntities(x.dir))))
		return
	case terr != nil:
		if op.Op != "badpin" {
			x.violate("NewIPTransport fails with a valid configuration", step, "transport", terr.Error())
		}
		// O6: a rejected setup code leaves the storage untouched
		if after := snapshotDir(x.dir); after != before {
			x.violate("NewIPTransport with a rejected setup code changed the storage", step, before, after)
		}
		x.segs = append(x.segs, fmt.Sprintf("err-pin sf=%s ents=%s", x.sf(), x.showEnts(readEntities(x.dir))))
		return
	case op.Op == "badpin":
		x.violate("NewIPTransport accepts a setup code that ValidatePin must reject", step, "error", op.Pin)
	case op.Op == "noname":
		x.violate("NewIPTransport accepts an empty accessory name", step, "panic", "transport")
	}
	// a restart replaces the previous transport object (the application would have exited)
	x.stopTransport()
	x.t = t
	if op.Live {
		x.live = true
		failed := make(chan string, 1)
		go func() {
			if msg, pan := safely(t.Start); pan { // NewServer panics when the port cannot be bound
				failed <- msg
			}
		}()
		ok := false
		for i := 0; i < 400 && x.live; i++ {
			select {
			case <-failed:
				x.live = false
				x.c.Hist("restart:live-start-could-not-bind")
				continue
			default:
			}
			if p := hc.VerifPort(t); p != "" {
				if conn, err := net.DialTimeout("tcp", "127.0.0.1:"+p, time.Second); err == nil {
					conn.Close()
					ok = true
					break
				}
			}
			time.Sleep(5 * time.Millisecond)
		}
		if !ok && x.live {
			x.violate("started transport does not accept connections", step, "listening", "no connection within 2 s")
		}
	}
	txt := hc.VerifTxtRecords(t)
	uuid, _ := ioutil.ReadFile(filepath.Join(x.dir, "uuid"))
	verFile, _ := ioutil.ReadFile(filepath.Join(x.dir, "version"))
	hashFile, _ := ioutil.ReadFile(filepath.Join(x.dir, "configHash"))
	es := readEntities(x.dir)
	var dev *entFile
	for i := range es {
		if es[i].Name == txt["id"] {
			dev = &es[i]
		}
	}
	uri, uerr := t.XHMURI()

	// ---- canonical observation (same scheme as HcModel/Drv/Config.lean)
	idTok := x.showName(txt["id"])
	keyTok := "missing/missing"
	if dev != nil && !dev.bad {
		keyTok = x.showKey(dev.PublicKey) + "/" + x.showPriv(dev.PublicKey, dev.PrivateKey)
	}
	uriTok := "err"
	if uerr == nil {
		uriTok = hx([]byte(uri))
	}
	x.segs = append(x.segs, fmt.Sprintf("started id=%s key=%s ver=%s sf=%s hash=H%d ci=%s uri=%s ents=%s", idTok, keyTok, txt["c#"], txt["sf"],
		internStr(hex.EncodeToString(hashFile), &x.hashes), txt["ci"], uriTok, x.showEnts(es)))

	// ---- direct oracles
	if string(uuid) != txt["id"] || string(verFile) != txt["c#"] {
		x.violate("advertised id / c# differ from the stored uuid / version", step, fmt.Sprintf("id=%s c#=%s", uuid, verFile), fmt.Sprintf("id=%s c#=%s", txt["id"], txt["c#"]))
	}
	if dev == nil || dev.bad || len(dev.PublicKey) != 32 || len(dev.PrivateKey) != 64 {
		x.violate("no usable key pair stored for the device id after construction"+x.suffix(), step, "entity with 32-byte public and 64-byte private key", fmt.Sprintf("%+v", dev))
	}
	// O1 identity
	if x.haveStart {
		x.restarts++
		if txt["id"] != x.devID {
			x.violate("device id changed across a restart"+x.suffix(), step, x.devID, txt["id"])
		}
		if dev != nil && (!bytes.Equal(dev.PublicKey, x.devPub) || !bytes.Equal(dev.PrivateKey, x.devPriv)) {
			x.violate("long-term key pair changed across a restart"+x.suffix(), step, hex.EncodeToString(x.devPub), hex.EncodeToString(dev.PublicKey))
		}
	}
	// O3 configuration number
	ver := -1
	fmt.Sscanf(txt["c#"], "%d", &ver)
	if !x.haveStart {
		if ver != 1 {
			x.violate("configuration number of a fresh storage is not 1", step, "1", txt["c#"])
		}
	} else {
		want := x.lastVer
		d := descr(op.Specs)
		if d != x.lastDescr && !x.hashGone {
			want++
		}
		if ver != want {
			kind := "although only characteristic values changed"
			if d != x.lastDescr {
				kind = "although the structure of the accessory database changed"
			} else if op.Why == "same" {
				kind = "although nothing changed"
			}
			x.violate("configuration number wrong after restart: "+map[bool]string{true: "not incremented ", false: "incremented "}[ver < want]+kind, step,
				fmt.Sprintf("c#=%d (previous %d, structure %q -> %q)", want, x.lastVer, x.lastDescr, d), "c#="+txt["c#"])
		}
	}
	// O5 setup URI and category
	if want := fmt.Sprint(expectedCategory(op.Specs)); txt["ci"] != want {
		x.violate("advertised category differs from the accessory set", step, want, txt["ci"])
	}
	{
		pin := op.Pin
		if pin == "" {
			pin = "00102003"
		}
		setup := op.Setup
		if setup == "" {
			setup = "HOME"
		}
		var wantCode uint64
		fmt.Sscanf(pin, "%d", &wantCode)
		code, cat, fl, sid, ok := refXhmDecode(uri)
		exp := fmt.Sprintf("code=%d cat=%d flags=2 setup=%q", wantCode, expectedCategory(op.Specs), setup)
		got := fmt.Sprintf("code=%d cat=%d flags=%d setup=%q", code, cat, fl, sid)
		if uerr != nil || !ok || exp != got {
			x.violate("transport setup URI does not decode to its setup code, category, IP flag and setup id", step, exp, fmt.Sprint(got, " ", uri, " ", uerr))
		}
	}
	if dev != nil {
		x.devID, x.devPub, x.devPriv = txt["id"], dev.PublicKey, dev.PrivateKey
	}
	x.lastDescr, x.lastVer, x.haveStart, x.hashGone = descr(op.Specs), ver, true, false
	x.checkAfterStep(step, es)
}

func (x *rsExec) doPair(step int, name string, key []byte, del bool) {
	x.doPairAs(step, name, key, del, false)
}

// doPairAs: self = the pairing names the accessory's own device id. Such a request is refused (F16 repair): the
// controller returns an error (the endpoint answers 500 and emits no event) and nothing changes.
func (x *rsExec) doPairAs(step int, name string, key []byte, del bool, self bool) {
	database, err := dbFor(x.dir)
	if err != nil {
		fatal("db: %v", err)
	}
	in := util.NewTLV8Container()
	ev := interface{}(event.DevicePaired{})
	if del {
		in.SetByte(pair.TagPairingMethod, byte(pair.PairingMethodDelete))
		ev = event.DeviceUnpaired{}
	} else {
		in.SetByte(pair.TagPairingMethod, byte(pair.PairingMethodAdd))
		in.SetBytes(pair.TagPublicKey, key)
		in.SetByte(pair.TagPermission, 1)
	}
	in.SetString(pair.TagUsername, name)
	msg, pan := safely(func() {
		_, err := pair.NewPairingController(database).Handle(in)
		if self {
			if err == nil {
				x.violate("a pairing request that names the accessory's own device id is not refused", step, "error (HTTP 500), nothing stored or removed", "accepted")
			}
			return
		}
		if err != nil {
			panic(err)
		}
		if x.t != nil { // what endpoint.Pairing does after the controller: emit through the emitter the transport gave it
			hc.VerifEmitter(x.t).Emit(ev)
		}
	})
	if pan {
		x.violate("pairing controller / event handler fails", step, "ok", msg)
	}
	es := readEntities(x.dir)
	x.segs = append(x.segs, fmt.Sprintf("ok sf=%s ents=%s", x.sf(), x.showEnts(es)))
	x.checkAfterStep(step, es)
}

func (x *rsExec) run() {
	for step, op := range x.cs.ops {
		switch op.Op {
		case "start", "badpin", "noname":
			x.doStart(step, op)
		case "pair":
			x.toks = append(x.toks, fmt.Sprintf("P:%d:%d", op.Ctl, op.Key))
			x.expCtl[op.Ctl] = op.Key
			x.doPair(step, ctlName(op.Ctl), ctlKey(op.Key), false)
		case "unpair":
			x.toks = append(x.toks, fmt.Sprintf("U:%d", op.Ctl))
			delete(x.expCtl, op.Ctl)
			x.doPair(step, ctlName(op.Ctl), nil, true)
		case "pairself":
			x.toks = append(x.toks, fmt.Sprintf("P:D:%d", op.Key))
			x.doPairAs(step, x.devID, ctlKey(op.Key), false, true)
		case "unpairself":
			x.toks = append(x.toks, "U:D")
			x.doPairAs(step, x.devID, nil, true, true)
		case "wipe-version", "wipe-hash":
			file, tok := "version", "W:v"
			if op.Op == "wipe-hash" {
				file, tok = "configHash", "W:h"
				x.hashGone = true
			} else {
				x.lastVer = 1 // an absent version file means the default 1
			}
			x.toks = append(x.toks, tok)
			if err := ioutil.WriteFile(filepath.Join(x.dir, file), nil, 0644); err != nil {
				fatal("wipe: %v", err)
			}
			es := readEntities(x.dir)
			x.segs = append(x.segs, fmt.Sprintf("ok sf=%s ents=%s", x.sf(), x.showEnts(es)))
			x.checkAfterStep(step, es)
		case "stop":
			x.toks = append(x.toks, "X")
			x.stopTransport()
			es := readEntities(x.dir)
			x.segs = append(x.segs, fmt.Sprintf("ok sf=- ents=%s", x.showEnts(es)))
			x.checkAfterStep(step, es)
		}
	}
	x.stopTransport()
}

func c20Restart(c *Ctx) {
	hclog.Info.Disable()
	var cases []rsCase
	// corpus first: F16 witnesses (pairing / removal under the accessory's own device id), then shapes named in DESIGN §6 C20
	sw := []accSpec{{Kind: "switch", Name: "corpus switch"}}
	sw2 := []accSpec{{Kind: "switch", Name: "corpus switch", On: true}}
	br := []accSpec{{Kind: "bridge", Name: "corpus bridge"}, {Kind: "bulb", Name: "lamp"}}
	st := func(s []accSpec, why string) rsOp { return rsOp{Op: "start", Specs: s, Why: why} }
	cases = append(cases,
		rsCase{"restart-corpus#0", []rsOp{st(sw, "first"), {Op: "pairself", Key: 501}, st(sw, "same")}, true},
		rsCase{"restart-corpus#1", []rsOp{st(sw, "first"), {Op: "pair", Ctl: 1, Key: 501}, {Op: "unpairself"}, st(sw, "same")}, true},
		rsCase{"restart-corpus#2", []rsOp{st(sw, "first"), st(sw2, "values"), st(br, "structure"), st(br, "same"), st(sw, "structure"), st(sw, "same")}, false},
		rsCase{"restart-corpus#3", []rsOp{st(sw, "first"), {Op: "pair", Ctl: 1, Key: 501}, {Op: "stop"}, st(sw, "same"), {Op: "unpair", Ctl: 1}, {Op: "stop"}, st(sw, "same")}, false},
		rsCase{"restart-corpus#4", []rsOp{st(sw, "first"), {Op: "stop"}, {Op: "pair", Ctl: 2, Key: 502}, {Op: "pair", Ctl: 3, Key: 503}, st(sw, "same"), {Op: "unpair", Ctl: 2}, {Op: "unpair", Ctl: 3}, st(sw2, "values")}, false},
		rsCase{"restart-corpus#5", []rsOp{st(sw, "first"), {Op: "badpin", Specs: sw, Pin: "12345678"}, {Op: "noname", Specs: sw}, st(sw, "same")}, false},
	)
	cases = append(cases, rsCase{"restart-corpus#7", []rsOp{st(sw, "first"), st(br, "structure"), {Op: "wipe-hash"}, st(sw, "structure"), st(br, "structure"),
		{Op: "wipe-version"}, st(br, "same"), st(sw, "structure"), {Op: "wipe-version"}, {Op: "wipe-hash"}, st(br, "structure")}, false})
	{ // configuration numbers with more than one digit: twelve structure changes in a row, then value changes only
		ops := []rsOp{st(sw, "first")}
		for i := 0; i < 6; i++ {
			ops = append(ops, st(br, "structure"), st(sw, "structure"))
		}
		ops = append(ops, st(sw2, "values"), st(sw2, "same"))
		cases = append(cases, rsCase{"restart-corpus#6", ops, false})
	}
	n := c.Pick(260, 5000)
	nlive := c.Pick(6, 40)
	for i := 0; i < n; i++ {
		r := c.CaseRng("restart", i)
		ops, self := genHistory(r, i%8 == 7, i < nlive)
		cases = append(cases, rsCase{c.CaseID("restart", i), ops, self})
	}
	var live []rsCase
	for _, cs := range cases {
		if !c.Skip(cs.id) {
			live = append(live, cs)
		}
	}
	execs := make([]*rsExec, len(live))
	for i := range live {
		execs[i] = &rsExec{c: c, cs: live[i], dir: filepath.Join(c.ScratchDir(), oddDirName(i, "db")), enc: newJenc(), expCtl: map[int]int{}, cut: -1}
	}
	// histories that Start() a server run one after the other, the rest in parallel (each on its own directory)
	var seq, par []int
	for i, x := range execs {
		isLive := false
		for _, op := range x.cs.ops {
			isLive = isLive || op.Live
		}
		if isLive {
			seq = append(seq, i)
		} else {
			par = append(par, i)
		}
	}
	t0 := time.Now()
	parallel(len(seq), func(k int) { execs[seq[k]].run() })
	tSeq := time.Since(t0).Seconds()
	parallel(len(par), func(k int) {
		fdGuard()
		execs[par[k]].run()
	})
	c.Extra("restart_timing_s", map[string]float64{"live_histories": tSeq, "all_histories": time.Since(t0).Seconds()})
	lines := make([]string, len(execs))
	for i, x := range execs {
		lines[i] = "config run " + strings.Join(x.toks, " ")
	}
	model := c.Model(lines)
	for i, x := range execs {
		for _, v := range x.viol {
			c.Violate(v.Signature, v.Case, v.Input, v.Expected, v.Observed)
		}
		msegs := strings.Split(model[i], " | ")
		isegs := x.segs
		if x.cut >= 0 { // the model is compared up to the first pairing under the device id (F16: outside the theorem's hypothesis)
			if len(msegs) > x.cut {
				msegs = msegs[:x.cut]
			}
			isegs = isegs[:x.cut]
		}
		input := map[string]interface{}{"history": x.cs.ops, "model_line": trunc(lines[i], 400)}
		c.Same("restart", x.cs.id, input, strings.Join(msegs, " | "), strings.Join(isegs, " | "))
		starts, pairs, structs, vals := 0, 0, 0, 0
		for _, op := range x.cs.ops {
			switch {
			case op.Op == "start":
				starts++
				if op.Why == "structure" {
					structs++
				} else if op.Why == "values" {
					vals++
				}
			case op.Op == "pair" || op.Op == "unpair":
				pairs++
			}
			c.Hist("restart:op=" + op.Op + map[bool]string{true: "(" + op.Why + ")", false: ""}[op.Op == "start"])
		}
		c.Count(lines[i], starts >= 2 && (pairs > 0 || structs > 0), fmt.Sprintf("restart:steps<=%d", (len(x.cs.ops)+4)/5*5),
			fmt.Sprintf("restart:accessories=%d", len(x.cs.ops[0].Specs)), fmt.Sprintf("restart:self-pairing=%v", x.cs.self))
		if i == 2 || i == 9 {
			c.Sample(fmt.Sprintf("%s: %d steps => %s", x.cs.id, len(x.cs.ops), trunc(strings.Join(x.segs, " | "), 300)))
		}
		c.Trace()
	}
}

// oddDirName: storage directories whose names contain the characters that mean something to glob patterns, shells and
// URL paths (the default storage path is the accessory's name: "Lamp [kitchen]").
func oddDirName(i int, plain string) string {
	switch i % 5 {
	case 1:
		return plain + " [kitchen]"
	case 3:
		return plain + "\\b*?{a,b} %41#"
	}
	return plain
}
