package main

// Fixtures shared by the protocol-level checks:
//   accFixture  — the real hap/http server object driven in-process through its mux (no TCP accept)
//   e2eAcc      — a real hc.NewIPTransport started on loopback
//   refClient   — reference controller speaking HTTP (plaintext, then HAP-framed) over a net.Conn

import (
	"bufio"
	"bytes"
	gocontext "context"
	"errors"
	"fmt"
	"image"
	"io"
	"io/ioutil"
	"math/rand"
	"net"
	"net/http"
	"net/http/httptest"
	"os"
	"os/exec"
	"strconv"
	"strings"
	"sync"
	"syscall"
	"time"

	"github.com/brutella/hc"
	"github.com/brutella/hc/accessory"
	"github.com/brutella/hc/db"
	"github.com/brutella/hc/event"
	"github.com/brutella/hc/hap"
	haphttp "github.com/brutella/hc/hap/http"
	hclog "github.com/brutella/hc/log"
	"github.com/brutella/hc/util"
)

type fakeAddr string

func (a fakeAddr) Network() string { return "tcp" }
func (a fakeAddr) String() string  { return string(a) }

// fakeConn is a net.Conn that records writes; reads block until closed.
type fakeConn struct {
	addr   string
	mu     sync.Mutex
	out    bytes.Buffer
	closed bool
}

func (f *fakeConn) Read(b []byte) (int, error) { return 0, io.EOF }
func (f *fakeConn) Write(b []byte) (int, error) {
	f.mu.Lock()
	defer f.mu.Unlock()
	if f.closed {
		return 0, errors.New("closed")
	}
	return f.out.Write(b)
}
func (f *fakeConn) Close() error {
	f.mu.Lock()
	f.closed = true
	f.mu.Unlock()
	return nil
}
func (f *fakeConn) Written() []byte {
	f.mu.Lock()
	defer f.mu.Unlock()
	b := append([]byte{}, f.out.Bytes()...)
	f.out.Reset()
	return b
}
func (f *fakeConn) LocalAddr() net.Addr                { return fakeAddr(localOf(f.addr)) }
func (f *fakeConn) RemoteAddr() net.Addr               { return fakeAddr(remoteOf(f.addr)) }
func (f *fakeConn) SetDeadline(t time.Time) error      { return nil }
func (f *fakeConn) SetReadDeadline(t time.Time) error  { return nil }
func (f *fakeConn) SetWriteDeadline(t time.Time) error { return nil }

type accFixture struct {
	dir       string
	storage   util.Storage
	db        db.Database
	device    hap.SecuredDevice
	ctx       hap.Context
	server    *haphttp.Server
	container *accessory.Container
	emitter   event.Emitter
	mutex     *sync.Mutex
	pin       string
	name      string
	conns     map[string]*hap.Connection
	raw       map[string]*fakeConn
	cmu       sync.Mutex
	paired    int // DevicePaired events seen
	unpaired  int
}

type evCounter struct{ f *accFixture }

func (e evCounter) Handle(ev interface{}) {
	switch ev.(type) {
	case event.DevicePaired:
		e.f.paired++
	case event.DeviceUnpaired:
		e.f.unpaired++
	}
}

// newAccFixture builds the same objects NewIPTransport/Start build, minus mDNS; pin is the 8-digit code.
func newAccFixture(c *Ctx, pin8 string, accs ...*accessory.Accessory) (*accFixture, error) {
	return newAccFixtureDB(c, pin8, nil, accs...)
}

// newAccFixtureDB: wrap (optional) decorates the database handed to the handlers (e.g. to log SaveEntity calls).
func newAccFixtureDB(c *Ctx, pin8 string, wrap func(db.Database) db.Database, accs ...*accessory.Accessory) (*accFixture, error) {
	return newAccFixtureOpt(c, pin8, nil, wrap, accs...)
}

// newAccFixtureOpt: wrapStorage (optional) decorates the key-value storage underneath the database (e.g. to run
// something at a chosen point inside a storage operation).
func newAccFixtureOpt(c *Ctx, pin8 string, wrapStorage func(util.Storage) util.Storage, wrap func(db.Database) db.Database, accs ...*accessory.Accessory) (*accFixture, error) {
	f := &accFixture{dir: c.ScratchDir(), conns: map[string]*hap.Connection{}, raw: map[string]*fakeConn{}}
	var err error
	if f.storage, err = util.NewFileStorage(f.dir); err != nil {
		return nil, err
	}
	if wrapStorage != nil {
		f.storage = wrapStorage(f.storage)
	}
	f.db = db.NewDatabaseWithStorage(f.storage)
	if wrap != nil {
		f.db = wrap(f.db)
	}
	if f.pin, err = hc.ValidatePin(pin8); err != nil {
		return nil, err
	}
	f.name = "AA:BB:CC:DD:EE:FF"
	if f.device, err = hap.NewSecuredDevice(f.name, f.pin, f.db); err != nil {
		return nil, err
	}
	f.ctx = hap.NewContextForSecuredDevice(f.device)
	f.container = accessory.NewContainer()
	for _, a := range accs {
		f.container.AddAccessory(a)
	}
	f.emitter = event.NewEmitter()
	f.emitter.AddListener(evCounter{f})
	f.mutex = &sync.Mutex{}
	f.server = haphttp.NewServer(haphttp.Config{Port: "127.0.0.1:0", Context: f.ctx, Database: f.db, Container: f.container,
		Device: f.device, Mutex: f.mutex, Emitter: f.emitter})
	return f, nil
}

func (f *accFixture) Close() { f.server.Close() }

// Conn returns (creating on first use) the hap connection + session registered for remote address addr.
func (f *accFixture) Conn(addr string) *hap.Connection {
	f.cmu.Lock()
	defer f.cmu.Unlock()
	if hc, ok := f.conns[addr]; ok {
		return hc
	}
	fc := &fakeConn{addr: addr}
	hcn := hap.NewConnection(fc, f.ctx)
	f.conns[addr] = hcn
	f.raw[addr] = fc
	return hcn
}

func (f *accFixture) CloseConn(addr string) {
	f.cmu.Lock()
	defer f.cmu.Unlock()
	if hcn, ok := f.conns[addr]; ok {
		hcn.Close()
		delete(f.conns, addr)
		delete(f.raw, addr)
	}
}

func (f *accFixture) Session(addr string) hap.Session {
	f.Conn(addr)
	s := f.ctx.GetSessionForConnection(f.raw[addr])
	return s
}

// Do sends one request through the real mux as if it arrived on connection addr.
func (f *accFixture) Do(addr, method, target, ctype string, body []byte) (status int, resp []byte, hdr http.Header, panicMsg string) {
	f.Conn(addr)
	req := httptest.NewRequest(method, target, bytes.NewReader(body))
	req = req.WithContext(gocontext.WithValue(req.Context(), http.LocalAddrContextKey, net.Addr(fakeAddr(localOf(addr)))))
	req.RemoteAddr = remoteOf(addr)
	if ctype != "" {
		req.Header.Set("Content-Type", ctype)
	}
	rec := httptest.NewRecorder()
	type res struct {
		msg string
		pan bool
	}
	done := make(chan res, 1)
	go func() {
		msg, pan := safely(func() { f.server.Mux.ServeHTTP(rec, req) })
		done <- res{msg, pan}
	}()
	select {
	case r := <-done:
		if r.pan {
			return 0, nil, nil, "panic: " + r.msg
		}
	case <-time.After(10 * time.Second):
		return 0, nil, nil, "wedged: the handler did not return within 10 s"
	}
	return rec.Code, rec.Body.Bytes(), rec.Header(), ""
}

func (f *accFixture) Post(addr string) postFn {
	return func(path string, body []byte) (int, []byte, error) {
		st, resp, _, pm := f.Do(addr, "POST", path, "application/pairing+tlv8", body)
		if pm != "" {
			return 0, nil, errors.New(pm)
		}
		return st, resp, nil
	}
}

// Entities returns name -> hex(public key) of everything in the pairing database.
func (f *accFixture) Entities() map[string]string {
	out := map[string]string{}
	es, err := f.db.Entities()
	if err != nil {
		out["<error>"] = err.Error()
		return out
	}
	for _, e := range es {
		out[e.Name] = hx(e.PublicKey)
	}
	return out
}

func showMap(m map[string]string) string {
	var ks []string
	for k := range m {
		ks = append(ks, k)
	}
	sortStrings(ks)
	var parts []string
	for _, k := range ks {
		parts = append(parts, fmt.Sprintf("%q=%s", k, m[k]))
	}
	return strings.Join(parts, ",")
}

func sortStrings(s []string) {
	for i := 1; i < len(s); i++ {
		for j := i; j > 0 && s[j] < s[j-1]; j-- {
			s[j], s[j-1] = s[j-1], s[j]
		}
	}
}

// ---- end-to-end accessory over loopback TCP ----------------------------------------------------------

type e2eAcc struct {
	t    hc.Transport
	port string
	dir  string
	// accessory running in a child process (so that a fatal error of the accessory is an observation, not the end of the
	// harness): cmd, its stdin (closing it stops the child) and the ids it reported
	cmd      *exec.Cmd
	stdin    io.WriteCloser
	exited   chan struct{}
	aid, iid uint64
}

func startE2E(dir, pin8 string, snapshot bool, a *accessory.Accessory, as ...*accessory.Accessory) (*e2eAcc, error) {
	t, err := hc.NewIPTransport(hc.Config{StoragePath: dir, Pin: pin8}, a, as...)
	if err != nil {
		return nil, err
	}
	if snapshot {
		t.CameraSnapshotReq = snapshotFn
	}
	go t.Start()
	deadline := time.Now().Add(5 * time.Second)
	for time.Now().Before(deadline) {
		if p := hc.VerifPort(t); p != "" {
			if cn, err := net.DialTimeout("tcp", "127.0.0.1:"+p, time.Second); err == nil {
				cn.Close()
				return &e2eAcc{t: t, port: p, dir: dir}, nil
			}
		}
		time.Sleep(5 * time.Millisecond)
	}
	return nil, errors.New("transport did not start")
}

func (e *e2eAcc) Stop() {
	if e.cmd != nil {
		e.stdin.Close()
		select {
		case <-e.exited:
		case <-time.After(5 * time.Second):
			e.cmd.Process.Kill()
		}
		return
	}
	select {
	case <-e.t.Stop():
	case <-time.After(5 * time.Second):
	}
}

func (e *e2eAcc) Dial() (*refClient, error) {
	cn, err := net.DialTimeout("tcp", "127.0.0.1:"+e.port, 2*time.Second)
	if err != nil {
		return nil, err
	}
	return &refClient{conn: cn, timeout: 10 * time.Second}, nil
}

// ---- reference HTTP client over plaintext / HAP session ------------------------------------------------

type refMsg struct {
	Event  bool
	Status int
	Header http.Header
	Body   []byte
}

type refClient struct {
	conn    net.Conn
	sess    *refSession // nil = plaintext
	enc     []byte      // undecrypted bytes
	plain   []byte      // decrypted, unparsed bytes
	timeout time.Duration
	expect  bool       // plaintext requests with a body are sent with "Expect: 100-continue": head, wait for the interim answer, body
	seg     *rand.Rand // when set, every request is delivered in several TCP segments
	Events  []refMsg   // EVENT messages received so far (in order)
	broken  string
	// rekeying: a second pair-verify is under way on this encrypted connection. A frame that does not open under the
	// current session may be the first one under the session that is being negotiated: it is kept until Upgrade
	rekeying bool
}

func (cl *refClient) Close() { cl.conn.Close() }

// Upgrade switches to the encrypted session (after pair-verify M4).
func (cl *refClient) Upgrade(shared []byte) {
	cl.sess = newRefControllerSession(shared)
	cl.rekeying = false
	if len(cl.enc) > 0 {
		pt, used, ok := cl.sess.DecryptFrames(cl.enc)
		cl.enc = cl.enc[used:]
		cl.plain = append(cl.plain, pt...)
		if !ok {
			cl.broken = "frame failed authentication"
		}
	}
}

func (cl *refClient) send(b []byte) error {
	if cl.sess != nil {
		b = cl.sess.Encrypt(b)
	}
	cl.conn.SetWriteDeadline(time.Now().Add(cl.timeout))
	if cl.seg != nil && len(b) > 2 {
		// deliver the request in 2-3 TCP segments cut at random offsets (Go sets TCP_NODELAY; the pause lets each
		// piece arrive on its own)
		cuts := []int{1 + cl.seg.Intn(len(b)-1)}
		if len(b) > 10 && cl.seg.Intn(2) == 0 {
			cuts = append(cuts, 1+cl.seg.Intn(len(b)-1))
			if cuts[1] < cuts[0] {
				cuts[0], cuts[1] = cuts[1], cuts[0]
			}
		}
		prev := 0
		for _, k := range append(cuts, len(b)) {
			if k <= prev {
				continue
			}
			if _, err := cl.conn.Write(b[prev:k]); err != nil {
				return err
			}
			prev = k
			time.Sleep(1500 * time.Microsecond)
		}
		return nil
	}
	_, err := cl.conn.Write(b)
	return err
}

// fill reads more bytes from the socket; returns false on timeout/EOF.
func (cl *refClient) fill(d time.Duration) (bool, error) {
	buf := make([]byte, 65536)
	cl.conn.SetReadDeadline(time.Now().Add(d))
	n, err := cl.conn.Read(buf)
	if n > 0 {
		if cl.sess == nil {
			cl.plain = append(cl.plain, buf[:n]...)
		} else {
			cl.enc = append(cl.enc, buf[:n]...)
			pt, used, ok := cl.sess.DecryptFrames(cl.enc)
			cl.enc = cl.enc[used:]
			cl.plain = append(cl.plain, pt...)
			if !ok && !cl.rekeying {
				cl.broken = "frame failed authentication"
				return false, errors.New(cl.broken)
			}
		}
		return true, nil
	}
	if ne, ok := err.(net.Error); ok && ne.Timeout() {
		return false, nil
	}
	return false, err
}

// parseOne tries to parse one complete message from cl.plain.
func (cl *refClient) parseOne() (*refMsg, bool) {
	if len(cl.plain) == 0 {
		return nil, false
	}
	data := cl.plain
	ev := false
	if bytes.HasPrefix(data, []byte("EVENT/1.0")) {
		ev = true
		data = append([]byte("HTTP/1.0"), data[len("EVENT/1.0"):]...)
	} else if len(data) < 9 && bytes.HasPrefix([]byte("EVENT/1.0"), data) {
		return nil, false
	}
	rd := bytes.NewReader(data)
	br := bufio.NewReader(rd)
	resp, err := http.ReadResponse(br, nil)
	if err != nil {
		return nil, false
	}
	body, err := ioutil.ReadAll(resp.Body)
	if err != nil {
		return nil, false
	}
	if resp.ContentLength < 0 && len(resp.TransferEncoding) == 0 && resp.StatusCode != 204 {
		// body delimited by connection close: cannot be complete while the connection is open
		return nil, false
	}
	consumed := len(data) - br.Buffered() - rd.Len()
	if ev {
		consumed += len("EVENT/1.0") - len("HTTP/1.0")
	}
	cl.plain = cl.plain[consumed:]
	return &refMsg{Event: ev, Status: resp.StatusCode, Header: resp.Header, Body: body}, true
}

// next returns the next message (response or event) within d.
func (cl *refClient) next(d time.Duration) (*refMsg, error) {
	deadline := time.Now().Add(d)
	for {
		if m, ok := cl.parseOne(); ok {
			return m, nil
		}
		left := time.Until(deadline)
		if left <= 0 {
			return nil, nil
		}
		if ok, err := cl.fill(left); err != nil {
			return nil, err
		} else if !ok {
			if m, ok := cl.parseOne(); ok {
				return m, nil
			}
			return nil, nil
		}
	}
}

// Do performs one request and returns its response; EVENT messages arriving before it are appended to cl.Events.
func (cl *refClient) Do(method, target, ctype string, body []byte) (*refMsg, error) {
	var sb bytes.Buffer
	fmt.Fprintf(&sb, "%s %s HTTP/1.1\r\nHost: acc.local\r\n", method, target)
	if ctype != "" {
		fmt.Fprintf(&sb, "Content-Type: %s\r\n", ctype)
	}
	if body != nil || method == "POST" || method == "PUT" {
		fmt.Fprintf(&sb, "Content-Length: %d\r\n", len(body))
	}
	if cl.expect && cl.sess == nil && len(body) > 0 {
		sb.WriteString("Expect: 100-continue\r\n\r\n")
		if err := cl.send(sb.Bytes()); err != nil {
			return nil, err
		}
		// the interim answer
		deadline := time.Now().Add(cl.timeout)
		for !bytes.Contains(cl.plain, []byte("\r\n\r\n")) {
			if ok, err := cl.fill(time.Until(deadline)); err != nil || !ok {
				return nil, fmt.Errorf("waiting for 100 Continue: %v (got %q)", err, trunc(string(cl.plain), 60))
			}
		}
		if !bytes.HasPrefix(cl.plain, []byte("HTTP/1.1 100")) {
			return nil, fmt.Errorf("expected 100 Continue, got %q", trunc(string(cl.plain), 60))
		}
		cl.plain = cl.plain[bytes.Index(cl.plain, []byte("\r\n\r\n"))+4:]
		if err := cl.send(body); err != nil {
			return nil, err
		}
	} else {
		sb.WriteString("\r\n")
		sb.Write(body)
		if err := cl.send(sb.Bytes()); err != nil {
			return nil, err
		}
	}
	for {
		m, err := cl.next(cl.timeout)
		if err != nil {
			return nil, err
		}
		if m == nil {
			return nil, fmt.Errorf("timeout waiting for response (unparsed plaintext %d bytes %q, undecrypted %d bytes)", len(cl.plain), trunc(string(cl.plain), 40), len(cl.enc))
		}
		if m.Event {
			cl.Events = append(cl.Events, *m)
			continue
		}
		return m, nil
	}
}

// Drain collects EVENT messages for up to d of silence.
func (cl *refClient) Drain(d time.Duration) {
	for {
		m, err := cl.next(d)
		if err != nil || m == nil {
			return
		}
		if m.Event {
			cl.Events = append(cl.Events, *m)
		}
	}
}

func (cl *refClient) Post() postFn {
	return func(path string, body []byte) (int, []byte, error) {
		m, err := cl.Do("POST", path, "application/pairing+tlv8", body)
		if err != nil {
			return 0, nil, err
		}
		return m.Status, m.Body, nil
	}
}

func snapshotFn(w, h uint) (*image.Image, error) {
	var img image.Image = image.NewRGBA(image.Rect(0, 0, 4, 4))
	return &img, nil
}

// quietConn is a net.Conn that only has a remote address; writes succeed, reads report EOF.
type quietConn struct{ remote, local net.Addr }

func (q quietConn) Read(b []byte) (int, error)         { return 0, io.EOF }
func (q quietConn) Write(b []byte) (int, error)        { return len(b), nil }
func (q quietConn) Close() error                       { return nil }
func (q quietConn) LocalAddr() net.Addr                { return q.local }
func (q quietConn) RemoteAddr() net.Addr               { return q.remote }
func (q quietConn) SetDeadline(t time.Time) error      { return nil }
func (q quietConn) SetReadDeadline(t time.Time) error  { return nil }
func (q quietConn) SetWriteDeadline(t time.Time) error { return nil }

// responseWritten emulates, for handlers driven in-process (their responses go to a recorder, not through the
// hap.Connection), the moment the response has been written on the connection `raw`: hc switches the session to a
// cryptographer negotiated by that request only then (hap/session.go didWrite; before the F18 repair: on the next Read).
func responseWritten(ctx hap.Context, raw net.Conn) {
	sess := ctx.GetSessionForConnection(raw)
	if sess == nil {
		return
	}
	hap.VerifResponseWritten(sess) // what Connection.Write does after a response (hook, build tag verif)
}

// serveAccessory is the child side of startE2EChild.
func serveAccessory(dir string) {
	hclog.Info.Disable()
	sw := accessory.NewSwitch(accessory.Info{Name: "Sw"})
	sw.Switch.On.OnValueRemoteUpdate(func(bool) {})
	acc, err := startE2E(dir, "00102003", true, sw.Accessory)
	if err != nil {
		fmt.Println("ERROR", err)
		os.Exit(3)
	}
	if n, _ := strconv.Atoi(os.Getenv("HC_VERIF_NOFILE")); n > 0 {
		// a small descriptor table (set after start-up: only connections accepted from now on run into it)
		syscall.Setrlimit(syscall.RLIMIT_NOFILE, &syscall.Rlimit{Cur: uint64(n), Max: uint64(n)})
	}
	if n, _ := strconv.ParseUint(os.Getenv("HC_VERIF_AS"), 10, 64); n > 0 {
		// a small address space, as on the boards such accessories run on: a request that makes the process allocate
		// beyond it ends the process
		syscall.Setrlimit(syscall.RLIMIT_AS, &syscall.Rlimit{Cur: n, Max: n})
	}
	fmt.Printf("READY %s %d %d\n", acc.port, sw.ID, sw.Switch.On.ID)
	io.Copy(ioutil.Discard, os.Stdin)
	acc.Stop()
}

// startE2EChild starts `drive -serve dir` and waits for its READY line.
func startE2EChild(dir string, env ...string) (*e2eAcc, error) {
	self, err := os.Executable()
	if err != nil {
		return nil, err
	}
	cmd := exec.Command(self, "-serve", dir)
	cmd.Env = append(os.Environ(), env...)
	cmd.Stderr = ioutil.Discard
	stdin, _ := cmd.StdinPipe()
	out, _ := cmd.StdoutPipe()
	if err := cmd.Start(); err != nil {
		return nil, err
	}
	e := &e2eAcc{dir: dir, cmd: cmd, stdin: stdin, exited: make(chan struct{})}
	br := bufio.NewReader(out)
	line, err := br.ReadString('\n')
	if err != nil || !strings.HasPrefix(line, "READY ") {
		cmd.Process.Kill()
		return nil, fmt.Errorf("child accessory did not start: %q %v", line, err)
	}
	fmt.Sscanf(line, "READY %s %d %d", &e.port, &e.aid, &e.iid)
	go func() { io.Copy(ioutil.Discard, br); cmd.Wait(); close(e.exited) }()
	return e, nil
}

// Alive reports whether the child accessory process is still running.
func (e *e2eAcc) Alive() bool {
	if e.cmd == nil {
		return true
	}
	select {
	case <-e.exited:
		return false
	default:
		return true
	}
}

// withLocal gives an in-process request the local address its connection has (the harness's fake connections all report
// 127.0.0.1:1): since F33 a session is keyed by both ends of its connection, net/http puts the local address into the
// request context for real connections.
func withLocal(req *http.Request) *http.Request {
	return req.WithContext(gocontext.WithValue(req.Context(), http.LocalAddrContextKey, net.Addr(fakeAddr("127.0.0.1:1"))))
}

// A fixture connection is named "remote" or "remote#local" (the default local address is 127.0.0.1:1): two connections may
// have the same remote address when the accessory listens on several local addresses.
func remoteOf(addr string) string {
	if i := strings.IndexByte(addr, '#'); i >= 0 {
		return addr[:i]
	}
	return addr
}

func localOf(addr string) string {
	if i := strings.IndexByte(addr, '#'); i >= 0 {
		return addr[i+1:]
	}
	return "127.0.0.1:1"
}
