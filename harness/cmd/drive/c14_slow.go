package main

// C14 — "the attribute database served to controllers is well-formed HAP JSON": for every controller, also the one that
// takes its time to read the answer while another one asks (the answer is written outside the lock since F57). Stream
// `slow-reader`: controller A's response writer blocks in its second Write; the application changes a value; controller B
// is served; A goes on. What A received is ONE well-formed document: the encoding of the moment it asked.

import (
	"bytes"
	gocontext "context"
	"encoding/json"
	"fmt"
	"net"
	"net/http"
	"net/http/httptest"
	"strings"
	"time"

	"github.com/brutella/hc/accessory"
)

type gateWriter struct {
	hdr     http.Header
	body    bytes.Buffer
	writes  int
	blocked chan struct{}
	release chan struct{}
}

func (g *gateWriter) Header() http.Header { return g.hdr }
func (g *gateWriter) WriteHeader(int)     {}
func (g *gateWriter) Write(b []byte) (int, error) {
	g.writes++
	if g.writes == 2 {
		close(g.blocked)
		<-g.release
	}
	return g.body.Write(b)
}

func c14SlowReader(c *Ctx) {
	for i := 0; i < c.Pick(2, 12); i++ {
		id := c.CaseID("slow-reader", i)
		if c.Skip(id) {
			continue
		}
		r := c.CaseRng("slow-reader", i)
		var accs []*accessory.Accessory
		bridge := accessory.NewBridge(accessory.Info{Name: "Bridge"})
		accs = append(accs, bridge.Accessory)
		for k := 0; k < 2+r.Intn(3); k++ {
			accs = append(accs, accessory.NewLightbulb(accessory.Info{Name: fmt.Sprintf("Lamp %d", k)}).Accessory)
		}
		f, addr, err := verifiedFixture(c, accs)
		if err != nil {
			c.Violate("fixture cannot be built", id, nil, "fixture", err.Error())
			continue
		}
		request := func(w http.ResponseWriter) {
			req := httptest.NewRequest("GET", "/accessories", nil)
			req = req.WithContext(gocontext.WithValue(req.Context(), http.LocalAddrContextKey, net.Addr(fakeAddr(localOf(addr)))))
			req.RemoteAddr = remoteOf(addr)
			f.server.Mux.ServeHTTP(w, req)
		}
		before := httptest.NewRecorder()
		request(before)
		g := &gateWriter{hdr: http.Header{}, blocked: make(chan struct{}), release: make(chan struct{})}
		done := make(chan struct{})
		go func() { defer close(done); safely(func() { request(g) }) }()
		in := map[string]interface{}{"accessories": len(accs), "controller_A": "blocks in the second Write of its response",
			"meanwhile": "the application renames the bridge; controller B asks for /accessories and is served", "then": "A's writes go on"}
		select {
		case <-g.blocked:
		case <-done:
			close(g.release)
			c.Count(id, false, "stream:slow-reader", "slow-reader:one-write")
			f.Close()
			continue
		case <-time.After(3 * time.Second):
			c.Violate("GET /accessories does not start to write its answer", id, in, "a response", "nothing after 3 s")
			f.Close()
			continue
		}
		newName := "Bridge " + strings.Repeat("x", 1+r.Intn(40))
		bridge.Info.Name.SetValue(newName)
		b := httptest.NewRecorder()
		request(b)
		close(g.release)
		select {
		case <-done:
		case <-time.After(3 * time.Second):
			c.Violate("GET /accessories does not finish", id, in, "a response", "the handler did not return")
		}
		var any interface{}
		got := hapUnchunk(g.body.Bytes())
		switch {
		case json.Unmarshal(bytes.TrimSpace(got), &any) != nil:
			c.Violate("the attribute database a slow controller received is not one well-formed JSON document (another controller was served in the meantime)", id, in,
				fmt.Sprintf("%d bytes of JSON", before.Body.Len()), fmt.Sprintf("%d bytes: …%s", len(got), trunc(string(got[max(0, len(got)-60):]), 60)))
		case !bytes.Equal(bytes.TrimSpace(got), bytes.TrimSpace(hapUnchunk(before.Body.Bytes()))):
			c.Violate("the attribute database a slow controller received is not the encoding of the moment it asked", id, in, "the document as before the change", trunc(string(got), 120))
		}
		if json.Unmarshal(bytes.TrimSpace(hapUnchunk(b.Body.Bytes())), &any) != nil || !bytes.Contains(b.Body.Bytes(), []byte(newName)) {
			c.Violate("the attribute database served to the second controller is not well-formed or does not carry the new value", id, in, "JSON with "+newName, trunc(b.Body.String(), 120))
		}
		c.Count(id, true, "stream:slow-reader")
		f.Close()
	}
}

// hapUnchunk: the handlers write through hap.NewChunkedWriter, which cuts the body into writes of 2048 bytes (no framing
// of its own: net/http adds the chunked coding), so the recorded bytes are the document.
func hapUnchunk(b []byte) []byte { return b }
