package main

// C19 — a crash during a storage write never corrupts the stored value.
//
// The theorem (crash_safe_of_shape) is about the file-system model HcModel/Crash.lean and the shape of the
// system-call sequence. This driver ties both to the code and the kernel on every run:
//   trace   : record the system calls of the real fileStorage.Set / SaveEntity / three config Sets (strace on
//             cmd/setprobe) for seeded keys, old/new value combinations and bystander files; the model's
//             executable checkTrace must accept each write's segment; for EVERY prefix k the first k operations
//             are replayed with real system calls into a fresh copy of the initial directory, which is then read
//             through a fresh store of the real code and compared with the model's `apply`; direct oracle on
//             that state: value ∈ {old, new}, everything else unchanged.
//   kill    : the real process is killed at system call j (strace inject SIGKILL) and the directory inspected
//             through a fresh store (all crash points in the thorough tier, a sample in quick).
//   fsrand  : random operation lists (incl. operations on missing files, rename onto existing files, writes
//             beyond the end) replayed on the kernel vs `apply` — validates every branch of the fs model.

import (
	"bytes"
	"encoding/json"
	"fmt"
	"io/ioutil"
	"math/rand"
	"os"
	"os/exec"
	"path/filepath"
	"sort"
	"strings"

	"github.com/brutella/hc/db"
	"github.com/brutella/hc/util"
	"hcverif/harness/internal/fstrace"
)

func init() { register("C19", checkC19) }

type c19Write struct {
	File   string // file name of the key
	Old    []byte
	HasOld bool
	New    []byte
}

type c19Case struct {
	id     string
	kind   string // set | save | cfg
	argv   []string
	writes []c19Write
	init   map[string][]byte // initial directory (file name -> content), includes the old values
	what   string
}

func c19Probe(c *Ctx) string {
	// always rebuilt: the probe links the storage code of the tree under test
	p := filepath.Join(c.VerifDir, ".bin", fmt.Sprintf("setprobe-%d", os.Getpid()))
	if _, err := os.Stat(p); err == nil {
		return p
	}
	cmd := exec.Command("go", "build", "-o", p, "./cmd/setprobe")
	cmd.Dir = filepath.Join(c.VerifDir, "harness")
	if out, err := cmd.CombinedOutput(); err != nil {
		fatal("go build ./cmd/setprobe: %v\n%s", err, out)
	}
	return p
}

func c19Populate(dir string, init map[string][]byte) {
	os.MkdirAll(dir, 0755)
	for n, v := range init {
		if err := ioutil.WriteFile(filepath.Join(dir, n), v, 0644); err != nil {
			fatal("populate %s: %v", dir, err)
		}
	}
}

func showState(m map[string][]byte) string {
	if len(m) == 0 {
		return "-"
	}
	var ns []string
	for n := range m {
		ns = append(ns, n)
	}
	sort.Strings(ns)
	var parts []string
	for _, n := range ns {
		parts = append(parts, hx([]byte(n))+"="+hx(m[n]))
	}
	return strings.Join(parts, ",")
}

// observe reads a directory through a fresh store of the real code.
// observe reads the directory at file-system level (what the fs model describes) and checks that the storage API, on
// a fresh storage object, shows exactly those files that are not temporary siblings, with the same content.
func observe(dir string) (map[string][]byte, error) {
	m := map[string][]byte{}
	infos, err := os.ReadDir(dir)
	if err != nil {
		return nil, err
	}
	for _, in := range infos {
		b, err := os.ReadFile(filepath.Join(dir, in.Name()))
		if err != nil {
			return nil, err
		}
		m[in.Name()] = b
	}
	st, err := util.NewFileStorage(dir)
	if err != nil {
		return nil, err
	}
	ks, err := st.KeysWithSuffix("")
	if err != nil {
		return nil, err
	}
	listed := map[string]bool{}
	for _, k := range ks {
		listed[k] = true
		b, err := st.Get(k)
		if err != nil {
			return nil, fmt.Errorf("Get(%q) of a listed key: %v", k, err)
		}
		if fb, ok := m[k]; !ok || !bytes.Equal(fb, b) {
			return nil, fmt.Errorf("Get(%q) returns %x, the file holds %x", k, b, fb)
		}
	}
	for n := range m {
		if !listed[n] && !isTemp(n) {
			return nil, fmt.Errorf("file %q is not listed as a key", n)
		}
		if base := strings.TrimSuffix(n, ".tmp"); isTemp(n) {
			// a temporary sibling left behind by the crash is not a value of its key
			if _, ok := m[base]; !ok {
				if b, err := st.Get(base); err == nil {
					return nil, fmt.Errorf("Get(%q) returns %d bytes (content of the abandoned temporary file), the key has no file", base, len(b))
				}
			}
		}
	}
	return m, nil
}

func isTemp(n string) bool { return strings.HasSuffix(n, ".tmp") }

// c19Oracle: the property itself on an observed directory (independent of the model).
func c19Oracle(cs *c19Case, st map[string][]byte) (sig, exp, obs string) {
	written := map[string]bool{}
	for _, w := range cs.writes {
		written[w.File] = true
		got, present := st[w.File]
		switch {
		case !present && !w.HasOld:
		case present && w.HasOld && bytes.Equal(got, w.Old):
		case present && bytes.Equal(got, w.New):
		default:
			o := "absent"
			if w.HasOld {
				o = "val:" + hx(w.Old)
			}
			g := "absent"
			if present {
				g = "val:" + hx(got)
			}
			kind := "a value that is neither the old nor the new one"
			if present && len(got) == 0 {
				kind = "an empty value"
			} else if present && len(got) < len(w.New) && bytes.Equal(got, w.New[:len(got)]) {
				kind = "a truncated new value"
			} else if !present {
				kind = "no value (the old one is lost)"
			}
			return "crash during storage write leaves " + kind + " under the key", o + " or val:" + hx(w.New), g
		}
	}
	for n, v := range cs.init {
		if written[n] || isTemp(n) {
			continue
		}
		if got, ok := st[n]; !ok || !bytes.Equal(got, v) {
			return "crash during storage write changes another key", n + "=" + hx(v), fmt.Sprintf("%s=%s present=%v", n, hx(got), ok)
		}
	}
	for n := range st {
		if _, ok := cs.init[n]; !ok && !written[n] && !isTemp(n) {
			return "crash during storage write leaves a file that a listing by key suffix can see", "only keys and *.tmp", n
		}
	}
	return "", "", ""
}

func genC19Case(c *Ctx, r *rand.Rand, id string, probe string) *c19Case {
	cs := &c19Case{id: id, init: map[string][]byte{}}
	maxLen := c.Pick(600, 4096)
	val := func() []byte {
		switch r.Intn(5) {
		case 0:
			return nil
		case 1:
			return randBytes(r, 1+r.Intn(40))
		}
		return randBytes(r, r.Intn(maxLen+1))
	}
	rel := func(old []byte) []byte { // new value relative to old: shorter / equal / longer / empty / any
		switch r.Intn(5) {
		case 0:
			if len(old) > 0 {
				return randBytes(r, r.Intn(len(old)))
			}
		case 1:
			return randBytes(r, len(old))
		case 2:
			return randBytes(r, len(old)+1+r.Intn(50))
		case 3:
			return nil
		}
		return val()
	}
	// bystanders
	cs.init["other"] = []byte("bystander")
	cs.init["6f.entity"] = []byte(`{"Name":"o","PublicKey":"AQ==","PrivateKey":"Ag=="}`)
	switch x := r.Intn(10); {
	case x < 6:
		cs.kind = "set"
		var key []byte
		for {
			key = genKey(r)
			if f := strings.Replace(string(key), ":", "", -1); c18KeyUsable(f) && !isTemp(f) && f != "other" {
				break
			}
		}
		file := strings.Replace(string(key), ":", "", -1)
		w := c19Write{File: file}
		if r.Intn(4) != 0 {
			w.HasOld = true
			w.Old = val()
			cs.init[file] = w.Old
		}
		w.New = rel(w.Old)
		cs.writes = []c19Write{w}
		cs.argv = []string{probe, "set", "@DIR@", hx(key), hx(w.New)}
		cs.what = fmt.Sprintf("Set(%q) old=%s new=%d bytes", key, oldDescr(w), len(w.New))
	case x < 8:
		cs.kind = "save"
		var name []byte
		for {
			name = genEntityName(r)
			if len(name) <= 100 {
				break
			}
		}
		file := entKey(name)
		pub, priv := randBytes(r, []int{0, 1, 32}[r.Intn(3)]), randBytes(r, []int{0, 64, 7}[r.Intn(3)])
		w := c19Write{File: file}
		if r.Intn(3) != 0 {
			w.HasOld = true
			w.Old = []byte(fmt.Sprintf(`{"Name":"old-%d","PublicKey":"AAAA","PrivateKey":"%s"}`, r.Intn(1000), strings.Repeat("B", 4*r.Intn(30))))
			cs.init[file] = w.Old
		}
		w.New = nil // learnt from the trace-independent final state below
		cs.writes = []c19Write{w}
		cs.argv = []string{probe, "save", "@DIR@", hx(name), hx(pub), hx(priv)}
		cs.what = fmt.Sprintf("SaveEntity(name=%q) old=%s", name, oldDescr(w))
	default:
		cs.kind = "cfg"
		vals := [][]byte{[]byte(fmt.Sprintf("%02X:%02X:%02X:%02X:%02X:%02X", r.Intn(256), r.Intn(256), r.Intn(256), r.Intn(256), r.Intn(256), r.Intn(256))),
			[]byte(fmt.Sprint(1 + r.Intn(2000))), randBytes(r, 16)}
		for i, f := range []string{"uuid", "version", "configHash"} {
			w := c19Write{File: f, New: vals[i]}
			if r.Intn(3) != 0 {
				w.HasOld = true
				w.Old = rel(vals[i])
				if i == 1 {
					w.Old = []byte(fmt.Sprint(r.Intn(100000)))
				}
				cs.init[f] = w.Old
			}
			cs.writes = append(cs.writes, w)
		}
		cs.argv = []string{probe, "cfg", "@DIR@", hx(vals[0]), hx(vals[1]), hx(vals[2])}
		cs.what = "Config.save: Set(uuid), Set(version), Set(configHash)"
	}
	if r.Intn(3) == 0 { // a stale temporary sibling left by an earlier crash, longer than the new value
		cs.init[cs.writes[0].File+".tmp"] = randBytes(r, 20+len(cs.writes[0].New)+r.Intn(40))
	}
	return cs
}

func oldDescr(w c19Write) string {
	if !w.HasOld {
		return "absent"
	}
	return fmt.Sprintf("%d bytes", len(w.Old))
}

func (cs *c19Case) argvFor(dir string) []string {
	a := append([]string{}, cs.argv...)
	for i := range a {
		if a[i] == "@DIR@" {
			a[i] = dir
		}
	}
	return a
}

func opsTokens(ops []fstrace.Op) string {
	var t []string
	for _, o := range ops {
		t = append(t, o.Token())
	}
	return strings.Join(t, " ")
}

// c19Unstorable: writes that cannot create their temporary file — the key's file name has room in NAME_MAX but the name
// of its temporary sibling has not (a 123- or 124-byte controller name gives such an entity file), or something that
// cannot be opened for writing sits where the temporary file would go. Such a Set fails; killed at any of its system
// calls, or left to fail, it leaves the old value as it was.
func c19Unstorable(c *Ctx) {
	probe := c19Probe(c)
	root := c.ScratchDir()
	n := 0
	for i, kind := range []string{"name-252", "name-253", "name-255", "temp-is-a-directory"} {
		id := "unstorable#" + kind
		if c.Skip(id) {
			continue
		}
		r := c.CaseRng("unstorable", i)
		key := "k"
		switch kind {
		case "name-252":
			key = strings.Repeat("a", 252)
		case "name-253":
			key = strings.Repeat("b", 246) + ".entity"
		case "name-255":
			key = strings.Repeat("c", 255)
		}
		old, nw := randBytes(r, 20+r.Intn(100)), randBytes(r, 1+r.Intn(200))
		prepare := func() string {
			n++
			d := filepath.Join(root, fmt.Sprintf("u%d", n), "store")
			c19Populate(d, map[string][]byte{key: old, "other": []byte("bystander")})
			if kind == "temp-is-a-directory" {
				os.MkdirAll(filepath.Join(d, key+".tmp", "x"), 0755)
			}
			return d
		}
		intact := func(d string) string {
			got, err := ioutil.ReadFile(filepath.Join(d, key))
			by, _ := ioutil.ReadFile(filepath.Join(d, "other"))
			switch {
			case err != nil:
				return "the key's file is gone: " + err.Error()
			case !bytes.Equal(got, old) && !bytes.Equal(got, nw):
				return fmt.Sprintf("the key holds %d bytes that are neither the old (%d bytes) nor the new value (%d bytes)", len(got), len(old), len(nw))
			case string(by) != "bystander":
				return "another key changed"
			}
			return ""
		}
		argv := func(d string) []string { return []string{probe, "set", d, hx([]byte(key)), hx(nw)} }
		d0 := prepare()
		calls, _, runErr, err := fstrace.Record(root, d0, argv(d0), "")
		if err != nil {
			fatal("strace: %v", err)
		}
		in := map[string]interface{}{"key_file_name_bytes": len(key), "situation": kind, "old_value_bytes": len(old), "new_value_bytes": len(nw), "system_calls": callDescr(calls)}
		if msg := intact(d0); msg != "" {
			c.Violate("a storage write that cannot create its temporary file damages the stored value", id, in, "old or new value in full", msg)
		}
		got, _ := ioutil.ReadFile(filepath.Join(d0, key))
		if runErr == nil && !bytes.Equal(got, nw) {
			c.Violate("a storage write reports success but the key does not hold the new value", id, in, "new value", fmt.Sprintf("%d bytes", len(got)))
		}
		os.RemoveAll(filepath.Dir(d0))
		for j, call := range calls {
			d := prepare()
			_, _, kerr, err := fstrace.Record(root, d, argv(d), fmt.Sprintf("%s:signal=SIGKILL:when=%d", call.Name, call.Nth))
			if err != nil {
				fatal("strace: %v", err)
			}
			pin := map[string]interface{}{"key_file_name_bytes": len(key), "situation": kind, "old_value_bytes": len(old), "new_value_bytes": len(nw), "system_calls": callDescr(calls), "killed_on_entering_system_call": j, "call": call.Descr}
			if kerr == nil {
				c.Mismatch("kill-injection", id, pin, "process killed at "+call.Descr, "process ran to completion")
			} else if msg := intact(d); msg != "" {
				c.Violate("crash during a storage write that cannot create its temporary file leaves a damaged value under the key", id, pin, "old or new value in full", msg)
			}
			os.RemoveAll(filepath.Dir(d))
			c.Hist("kill:" + call.Name)
		}
		c.Count(id, true, "stream:unstorable", fmt.Sprintf("unstorable:set-failed=%v", runErr != nil), fmt.Sprintf("unstorable:syscalls=%d", len(calls)))
	}
}

// c19DeleteCrash: a removal (Delete of a key, DeleteEntity of a pairing) killed at every file-system call it makes: the
// key then holds its value, in full, or is gone — nothing in between (and the other keys are untouched).
func c19DeleteCrash(c *Ctx) {
	probe := c19Probe(c)
	root := c.ScratchDir()
	n := 0
	for i, kind := range []string{"del", "delent"} {
		id := "delete-crash#" + kind
		if c.Skip(id) {
			continue
		}
		r := c.CaseRng("delete-crash", i)
		name := "ctrl-delete"
		key, old := "k.dat", randBytes(r, 40+r.Intn(200))
		arg := hx([]byte(key))
		if kind == "delent" {
			key = hx([]byte(name)) + ".entity"
			old, _ = json.Marshal(db.NewEntity(name, randBytes(r, 32), nil))
			arg = hx([]byte(name))
		}
		prepare := func() string {
			n++
			d := filepath.Join(root, fmt.Sprintf("dc%d", n), "store")
			c19Populate(d, map[string][]byte{key: old, "other": []byte("bystander")})
			return d
		}
		state := func(d string) string {
			got, err := ioutil.ReadFile(filepath.Join(d, key))
			by, _ := ioutil.ReadFile(filepath.Join(d, "other"))
			switch {
			case string(by) != "bystander":
				return "another key changed"
			case os.IsNotExist(err):
				return ""
			case err != nil:
				return err.Error()
			case !bytes.Equal(got, old):
				allZero := len(got) > 0
				for _, b := range got {
					allZero = allZero && b == 0
				}
				return fmt.Sprintf("the key holds %d bytes that are not its value (all zero: %v)", len(got), allZero)
			}
			return ""
		}
		argv := func(d string) []string { return []string{probe, kind, d, arg} }
		d0 := prepare()
		calls, _, runErr, err := fstrace.Record(root, d0, argv(d0), "")
		if err != nil {
			fatal("strace: %v", err)
		}
		in := map[string]interface{}{"operation": map[string]string{"del": "Delete(key)", "delent": "DeleteEntity(pairing)"}[kind], "value_bytes": len(old), "system_calls": callDescr(calls)}
		if _, err := os.Stat(filepath.Join(d0, key)); runErr != nil || err == nil {
			c.Violate("a completed removal leaves the key behind", id, in, "gone", fmt.Sprint(runErr, err))
		}
		os.RemoveAll(filepath.Dir(d0))
		for j, call := range calls {
			d := prepare()
			_, _, kerr, err := fstrace.Record(root, d, argv(d), fmt.Sprintf("%s:signal=SIGKILL:when=%d", call.Name, call.Nth))
			if err != nil {
				fatal("strace: %v", err)
			}
			pin := map[string]interface{}{"operation": in["operation"], "value_bytes": len(old), "system_calls": callDescr(calls), "killed_on_entering_system_call": j, "call": call.Descr}
			if kerr == nil {
				c.Mismatch("kill-injection", id, pin, "process killed at "+call.Descr, "process ran to completion")
			} else if msg := state(d); msg != "" {
				c.Violate("crash during a removal leaves a value under the key that is neither its value nor nothing", id, pin, "the value in full, or no key", msg)
			}
			os.RemoveAll(filepath.Dir(d))
			c.Hist("kill:" + call.Name)
		}
		c.Count(id, true, "stream:delete-crash", fmt.Sprintf("delete-crash:syscalls=%d", len(calls)))
	}
}

func checkC19(c *Ctx) {
	storageFaults(c, "C19")
	c19Unstorable(c)
	c19DeleteCrash(c)
	c19ReaddCrash(c)
	c18ConcurrentSet(c) // two writers of one key (two storage objects on the directory): a reader — or a crash — sees whole values only
	c18TempSpellings(c) // a key whose file is another key's temporary file is damaged by that key's writes, crash or not
	c.SetRule("trace: one case = one real storage write (Set / SaveEntity / the three Sets of Config.save) on a seeded directory " +
		"(old value absent / empty / shorter / equal / longer, bystander files, sometimes a stale temporary sibling), recorded with strace; " +
		"per case: checkTrace on every write's segment, and for every prefix k a real-syscall replay read back through the real Get/KeysWithSuffix " +
		"vs the model's apply + the direct oracle (value ∈ {old,new}, rest unchanged); kill: real process killed at system call j. " +
		"non-trivial = the key had an old value of different length. fsrand: random operation lists, kernel vs apply.")
	c.Assume("process kill only (page cache survives): no power-loss / fsync-ordering claim")
	c.Assume("rename(2) replaces the target atomically (POSIX)")
	c.Assume("crash points are system-call boundaries; every boundary of the recorded trace is examined")
	probe := c19Probe(c)
	root := c.ScratchDir()
	dirN := 0
	fresh := func() string {
		dirN++
		return filepath.Join(root, fmt.Sprintf("s%d", dirN), "store")
	}

	// ---------------- stream "trace" (+ "kill")
	nCases := c.Pick(14, 60)
	corpus := []*c19Case{
		{id: "corpus#F14-new-key", kind: "set", argv: []string{probe, "set", "@DIR@", hx([]byte("k")), hx([]byte("value"))},
			writes: []c19Write{{File: "k", New: []byte("value")}}, init: map[string][]byte{"other": []byte("bystander")}, what: "Set(k) absent -> value"},
		{id: "corpus#F14-shorter-overwrite", kind: "set", argv: []string{probe, "set", "@DIR@", hx([]byte("k")), hx([]byte("s"))},
			writes: []c19Write{{File: "k", Old: []byte("longvalue"), HasOld: true, New: []byte("s")}},
			init:   map[string][]byte{"k": []byte("longvalue"), "other": []byte("bystander")}, what: "Set(k) longvalue -> s"},
		{id: "corpus#stale-temp-longer-than-new", kind: "set", argv: []string{probe, "set", "@DIR@", hx([]byte("k")), hx([]byte("new"))},
			writes: []c19Write{{File: "k", Old: []byte("old"), HasOld: true, New: []byte("new")}},
			init:   map[string][]byte{"k": []byte("old"), "k.tmp": []byte("stale-temporary-content")}, what: "Set(k) with a stale k.tmp"},
	}
	var cases []*c19Case
	cases = append(cases, corpus...)
	for i := 0; i < nCases; i++ {
		cases = append(cases, genC19Case(c, c.CaseRng("trace", i), c.CaseID("trace", i), probe))
	}
	for ci, cs := range cases {
		if c.Skip(cs.id) {
			continue
		}
		input := map[string]interface{}{"what": cs.what, "argv": cs.argv[1:], "initial_directory": showState(cs.init)}
		// record
		dirA := fresh()
		c19Populate(dirA, cs.init)
		calls, unsupported, runErr, err := fstrace.Record(root, dirA, cs.argvFor(dirA), "")
		if err != nil {
			fatal("strace: %v", err)
		}
		if runErr != nil {
			c.Violate("storage write fails on a usable key", cs.id, input, "exit 0", runErr.Error())
			continue
		}
		final, err := observe(dirA)
		if err != nil {
			c.Violate("directory unreadable after a completed storage write", cs.id, input, "readable", err.Error())
			continue
		}
		if cs.kind == "save" { // the new value is whatever a completed SaveEntity stored
			cs.writes[0].New = final[cs.writes[0].File]
		}
		ops, before := fstrace.Flatten(calls)
		input["system_calls"] = callDescr(calls)
		if len(unsupported) > 0 {
			c.Mismatch("trace-unmodelled-syscall", cs.id, input, "only create/truncate/write/rename/unlink/close on storage paths", strings.Join(unsupported, " ; "))
		}
		// completed write: direct oracle (new value in place)
		for _, w := range cs.writes {
			if got, ok := final[w.File]; !ok || !bytes.Equal(got, w.New) {
				c.Violate("completed storage write does not store the new value", cs.id, input, "val:"+hx(w.New), "val:"+hx(got))
			}
		}
		// segments: one per write, each ending with its rename
		segs := splitSegments(ops, len(cs.writes))
		var mlines []string
		for i, w := range cs.writes {
			seg := ""
			if i < len(segs) {
				seg = opsTokens(segs[i])
			}
			mlines = append(mlines, "fs check "+hx([]byte(w.File))+" "+hx(w.New)+" "+seg)
		}
		for k := 0; k <= len(ops); k++ {
			mlines = append(mlines, fmt.Sprintf("fs apply %d %s %s", k, showState(cs.init), opsTokens(ops)))
		}
		mres := c.Model(mlines)
		for i := range cs.writes {
			c.Same("checkTrace", cs.id, input, mres[i], "true")
		}
		// every prefix: real syscalls vs model + oracle
		for k := 0; k <= len(ops); k++ {
			d := fresh()
			c19Populate(d, cs.init)
			fstrace.Replay(d, ops[:k])
			st, err := observe(d)
			pin := map[string]interface{}{"what": cs.what, "argv": cs.argv[1:], "initial_directory": showState(cs.init),
				"system_calls": callDescr(calls), "crash_after_operations": k, "operations_done": strings.Fields(opsTokens(ops[:k]))}
			if err != nil {
				c.Violate("directory unreadable after a crash during a storage write", cs.id, pin, "readable", err.Error())
			} else {
				c.Same("fsmodel-prefix", cs.id, pin, mres[len(cs.writes)+k], showState(st))
				if sig, exp, obs := c19Oracle(cs, st); sig != "" {
					c.Violate(sig, cs.id, pin, exp, obs)
				}
				pin["directory_after_crash"] = showState(st)
			}
			os.RemoveAll(filepath.Dir(d))
			c.Trace()
		}
		// kill the real process at system call j
		killAll := c.Thorough() || ci < len(corpus)
		for j, call := range calls {
			if !killAll && j != (ci+j)%len(calls) && j != len(calls)-1 {
				continue
			}
			d := fresh()
			c19Populate(d, cs.init)
			_, _, kerr, err := fstrace.Record(root, d, cs.argvFor(d), fmt.Sprintf("%s:signal=SIGKILL:when=%d", call.Name, call.Nth))
			if err != nil {
				fatal("strace: %v", err)
			}
			pin := map[string]interface{}{"what": cs.what, "argv": cs.argv[1:], "initial_directory": showState(cs.init),
				"system_calls": callDescr(calls), "killed_on_entering_system_call": j, "call": call.Descr}
			if kerr == nil {
				c.Mismatch("kill-injection", cs.id, pin, "process killed at "+call.Descr, "process ran to completion")
				continue
			}
			st, err := observe(d)
			if err != nil {
				c.Violate("directory unreadable after a crash during a storage write", cs.id, pin, "readable", err.Error())
			} else {
				pin["directory_after_crash"] = showState(st)
				c.Same("fsmodel-kill", cs.id, pin, mres[len(cs.writes)+before[j]], showState(st))
				if sig, exp, obs := c19Oracle(cs, st); sig != "" {
					c.Violate(sig, cs.id, pin, exp, obs)
				}
			}
			os.RemoveAll(filepath.Dir(d))
			c.Hist("kill:" + call.Name)
			c.Trace()
		}
		os.RemoveAll(filepath.Dir(dirA))
		w0 := cs.writes[0]
		relB := "old=absent"
		if w0.HasOld {
			switch {
			case len(w0.Old) == 0:
				relB = "old=empty"
			case len(w0.New) < len(w0.Old):
				relB = "new-shorter"
			case len(w0.New) == len(w0.Old):
				relB = "new-equal-length"
			default:
				relB = "new-longer"
			}
		}
		if len(w0.New) == 0 {
			relB += "/new=empty"
		}
		stale := "stale-temp:no"
		if _, ok := cs.init[w0.File+".tmp"]; ok {
			stale = "stale-temp:yes"
		}
		c.Count(cs.what+showState(cs.init), w0.HasOld && len(w0.Old) != len(w0.New), "trace:"+cs.kind, "trace:"+relB, stale,
			fmt.Sprintf("trace:syscalls=%d", len(calls)), fmt.Sprintf("trace:newlen<=%d", bucket(len(w0.New), 0, 1, 64, 1024, 4096)))
		if ci%5 == 0 {
			c.Sample(cs.what + "  =>  " + strings.Join(callDescr(calls), "; "))
		}
	}

	// ---------------- stream "fsrand": the file-system model against the kernel
	names := []string{"a", "b", "a.tmp"}
	nr := c.Pick(150, 2000)
	var lines []string
	var obs []string
	var ids []string
	for i := 0; i < nr; i++ {
		id := c.CaseID("fsrand", i)
		if c.Skip(id) {
			continue
		}
		r := c.CaseRng("fsrand", i)
		init := map[string][]byte{}
		for _, n := range names {
			if r.Intn(2) == 0 {
				init[n] = randBytes(r, r.Intn(6))
			}
		}
		var ops []fstrace.Op
		for j := 0; j < 1+r.Intn(10); j++ {
			p := names[r.Intn(3)]
			switch r.Intn(7) {
			case 0:
				ops = append(ops, fstrace.Op{Kind: 'c', P: p})
			case 1:
				ops = append(ops, fstrace.Op{Kind: 't', P: p})
			case 2, 3:
				ops = append(ops, fstrace.Op{Kind: 'w', P: p, Off: int64(r.Intn(8)), Data: randBytes(r, r.Intn(5))})
			case 4:
				ops = append(ops, fstrace.Op{Kind: 'r', P: p, Q: names[r.Intn(3)]})
			case 5:
				ops = append(ops, fstrace.Op{Kind: 'u', P: p})
			default:
				ops = append(ops, fstrace.Op{Kind: 'x'})
			}
		}
		d := fresh()
		c19Populate(d, init)
		fstrace.Replay(d, ops)
		st, err := observe(d)
		if err != nil {
			c.Violate("the storage API does not show the directory as it is on disk", fmt.Sprintf("fsrand#%d", len(lines)), map[string]interface{}{"initial_directory": showState(init), "operations": opsTokens(ops)}, "files = keys, temporary siblings hidden and never read", err.Error())
			os.RemoveAll(filepath.Dir(d))
			continue
		}
		os.RemoveAll(filepath.Dir(d))
		lines = append(lines, fmt.Sprintf("fs apply %d %s %s", len(ops), showState(init), opsTokens(ops)))
		obs = append(obs, showState(st))
		ids = append(ids, id)
		c.Count(lines[len(lines)-1], len(ops) > 1, fmt.Sprintf("fsrand:ops<=%d", bucket(len(ops), 1, 3, 6, 10)))
	}
	for i, m := range c.Model(lines) {
		c.Same("fsmodel-random", ids[i], lines[i], m, obs[i])
	}
}

func callDescr(calls []fstrace.Call) []string {
	var s []string
	for _, cl := range calls {
		s = append(s, trunc(cl.Descr, 80))
	}
	return s
}

// splitSegments cuts the operation list after each rename (one segment per write); a trailing rest is
// appended to the last segment so that nothing is dropped.
func splitSegments(ops []fstrace.Op, want int) [][]fstrace.Op {
	var segs [][]fstrace.Op
	var cur []fstrace.Op
	for _, o := range ops {
		cur = append(cur, o)
		if o.Kind == 'r' {
			segs = append(segs, cur)
			cur = nil
		}
	}
	if len(cur) > 0 {
		if len(segs) > 0 && len(segs) >= want {
			segs[len(segs)-1] = append(segs[len(segs)-1], cur...)
		} else {
			segs = append(segs, cur)
		}
	}
	return segs
}

// c19ReaddCrash: a controller that is paired already is added again (POST /pairings, method add: its permissions or its key
// change). The request is killed on entering each of its system calls. The pairing is there afterwards — with the previous
// key or with the new one —, never gone: for the only admin controller "gone" means an unpaired, discoverable accessory.
func c19ReaddCrash(c *Ctx) {
	id := "readd-crash#0"
	if c.Skip(id) {
		return
	}
	probe := c19Probe(c)
	root := c.ScratchDir()
	r := c.CaseRng("readd-crash", 0)
	name := "ctrl-admin"
	key := hx([]byte(name)) + ".entity"
	oldPub, newPub := randBytes(r, 32), randBytes(r, 32)
	old, _ := json.Marshal(db.NewEntity(name, oldPub, nil))
	n := 0
	prepare := func() string {
		n++
		d := filepath.Join(root, fmt.Sprintf("ra%d", n), "store")
		c19Populate(d, map[string][]byte{key: old, "other": []byte("bystander")})
		return d
	}
	state := func(d string) string {
		database, err := db.NewDatabase(d)
		if err != nil {
			return err.Error()
		}
		e, err := database.EntityWithName(name)
		switch {
		case err != nil:
			return "the pairing is gone: " + err.Error()
		case !bytes.Equal(e.PublicKey, oldPub) && !bytes.Equal(e.PublicKey, newPub):
			return "the pairing has a key that is neither the previous nor the new one: " + hx(e.PublicKey)
		}
		return ""
	}
	argv := func(d string) []string { return []string{probe, "pairadd", d, hx([]byte(name)), hx(newPub)} }
	d0 := prepare()
	calls, _, runErr, err := fstrace.Record(root, d0, argv(d0), "")
	if err != nil {
		fatal("strace: %v", err)
	}
	in := map[string]interface{}{"operation": "PairingController.Handle(add) for a controller that is stored already", "system_calls": callDescr(calls)}
	if msg := state(d0); runErr != nil || msg != "" {
		c.Violate("a completed add of a pairing does not leave the pairing stored", id, in, "stored", fmt.Sprint(runErr, " ", msg))
	}
	os.RemoveAll(filepath.Dir(d0))
	for j, call := range calls {
		d := prepare()
		_, _, kerr, err := fstrace.Record(root, d, argv(d), fmt.Sprintf("%s:signal=SIGKILL:when=%d", call.Name, call.Nth))
		if err != nil {
			fatal("strace: %v", err)
		}
		pin := map[string]interface{}{"operation": in["operation"], "system_calls": callDescr(calls), "killed_on_entering_system_call": j, "call": call.Descr}
		if kerr == nil {
			c.Mismatch("kill-injection", id, pin, "process killed at "+call.Descr, "process ran to completion")
		} else if msg := state(d); msg != "" {
			c.Violate("a crash while a stored pairing is added again loses the pairing", id, pin, "the pairing with its previous or its new key", msg)
		}
		os.RemoveAll(filepath.Dir(d))
		c.Hist("kill:" + call.Name)
	}
	c.Count(id, true, "stream:readd-crash", fmt.Sprintf("readd-crash:syscalls=%d", len(calls)))
}
