package main

// C01 — protected endpoints serve only pair-verified connections.
//  (A) end-to-end over loopback TCP against a real hc.NewIPTransport (with /resource): plaintext and failed-verify
//      connections are refused everything, a paired+verified controller is served (positive control), and
//      verification does not carry over between connections.
//  (B) in-process histories over 1-4 connections through the real server mux, diffed against HcModel/Http.lean
//      (route table = Generated/Routes.lean), with direct oracles: canaries never disclosed, nothing changes.

import (
	"bytes"
	"crypto/ed25519"
	"encoding/json"
	"fmt"
	"github.com/brutella/hc/hap"
	"math/rand"
	"net"
	"strings"
	"sync"
	"time"

	"github.com/brutella/hc/accessory"
	"github.com/brutella/hc/crypto"
	"github.com/brutella/hc/db"
	"github.com/brutella/hc/hap/endpoint"
)

func init() { register("C01", checkC01) }

const canary = "CANARY7f3a"

type c01World struct {
	f        *accFixture
	sw       *accessory.Switch
	onUpd    int
	identify int
	serialID uint64
	onID     uint64
}

func newC01World(c *Ctx) (*c01World, error) {
	w := &c01World{}
	w.sw = accessory.NewSwitch(accessory.Info{Name: canary + "-name", SerialNumber: canary + "-serial", Manufacturer: canary + "-mf", Model: canary + "-model"})
	w.sw.Switch.On.OnValueRemoteUpdate(func(bool) { w.onUpd++ })
	w.sw.OnIdentify(func() { w.identify++ })
	f, err := newAccFixture(c, "00102003", w.sw.Accessory)
	if err != nil {
		return nil, err
	}
	w.f = f
	// /resource is registered by ip_transport.go (not by the server); mirror that registration. The (A) part and the
	// regenerated route table observe the real registration.
	f.server.Mux.Handle("/resource", f.server.Authenticate(endpoint.NewResource(f.ctx, snapshotFn)))
	w.serialID = w.sw.Info.SerialNumber.ID
	w.onID = w.sw.Switch.On.ID
	return w, nil
}

// snapshot of everything a refused request must not change
func (w *c01World) snapshot(addrs []string) string {
	j, _ := json.Marshal(w.f.container)
	var subs []string
	for _, a := range addrs {
		if s := w.f.Session(a); s != nil {
			subs = append(subs, fmt.Sprintf("%s:%v", a, s.IsSubscribedTo(w.sw.Switch.On.Characteristic)))
		}
	}
	return fmt.Sprintf("values=%s onUpd=%d entities=%s subs=%v paired=%d unpaired=%d", j, w.onUpd, showMap(w.f.Entities()), subs, w.f.paired, w.f.unpaired)
}

type c01Req struct {
	Ep      string // model endpoint name
	Variant string
	Method  string
	Target  string
	CType   string
	Body    []byte
}

func c01Requests(w *c01World, r *rand.Rand) []c01Req {
	pk := randBytes(r, 32)
	put := func(v string) []byte {
		return []byte(fmt.Sprintf(`{"characteristics":[{"aid":%d,"iid":%d,%s}]}`, w.sw.ID, w.onID, v))
	}
	return []c01Req{
		{"accessories", "get", "GET", "/accessories", "", nil},
		{"characteristics", "get", "GET", fmt.Sprintf("/characteristics?id=%d.%d,%d.%d", w.sw.ID, w.serialID, w.sw.ID, w.onID), "", nil},
		{"characteristics", "put-value", "PUT", "/characteristics", "application/hap+json", put(`"value":true`)},
		{"characteristics", "put-value-off", "PUT", "/characteristics", "application/hap+json", put(`"value":false`)},
		{"characteristics", "put-ev", "PUT", "/characteristics", "application/hap+json", put(`"ev":true`)},
		{"pairings", "add", "POST", "/pairings", "application/pairing+tlv8",
			tlvMsg(tlvOp{tState, b1(1)}, tlvOp{tMethod, b1(3)}, tlvOp{tID, []byte(fmt.Sprintf("intruder-%d", r.Intn(1000)))}, tlvOp{tPubKey, pk}, tlvOp{tPerm, b1(1)})},
		{"pairings", "remove", "POST", "/pairings", "application/pairing+tlv8",
			tlvMsg(tlvOp{tState, b1(1)}, tlvOp{tMethod, b1(4)}, tlvOp{tID, []byte("ctrl-1")})},
		{"resource", "image", "POST", "/resource", "application/hap+json", []byte(`{"resource-type":"image","image-width":4,"image-height":4}`)},
		{"identify", "post", "POST", "/identify", "", nil},
		{"other", "get", "GET", "/does-not-exist", "", nil},
	}
}

func classify(status int, body []byte, pm string) string {
	switch {
	case pm != "":
		return "panic"
	case status == 470:
		return "refused"
	case status == 404:
		return "notfound"
	}
	return "served"
}

func isRefusalBody(b []byte) bool {
	var m map[string]interface{}
	if json.Unmarshal(b, &m) != nil || len(m) != 1 {
		return false
	}
	for k, v := range m {
		if strings.ToLower(k) == "status" && v == float64(-70401) {
			return true
		}
	}
	return false
}

func checkC01(c *Ctx) {
	c.SetRule("(A) end-to-end TCP scenarios against hc.NewIPTransport: unverified / failed-verify / verified connections × every protected request variant; " +
		"(B) in-process histories of 3-40 events over 1-4 connections (requests to every endpoint × variants, honest and forged pair-verify exchanges, close/reopen) " +
		"diffed against the Lean dispatch model over the regenerated route table. non-trivial = history contains both a refused and a served protected request. " +
		"Direct oracle on every request of an unverified connection to a protected endpoint: status 470 with the constant body, no canary in the response, " +
		"and values / remote-update callbacks / subscriptions / stored pairings / pairing events unchanged")
	c.Assume("net/http request parsing and the remote-address → session mapping are exercised, not modelled; connection ids are unique in the model")
	checkC01E2E(c)
	c01SameRemote(c)
	c01EventLeak(c)
	c01ReconnectDuringCallback(c)
	c03VerifyInterleaved(c) // another connection's request in the middle of a genuine finish (shared handler state)
	c03Revocation(c)        // a removed controller must not be verified again (stale lookups)

	// ---------------- (B) in-process histories
	n := c.Pick(150, 12000)
	type evt struct {
		tok  string
		conn int
		req  *c01Req
		pv   *pvMsg
		cls  bool
	}
	results := make([][2]string, n)
	inputs := make([][]string, n)
	parallel(n, func(i int) {
		id := c.CaseID("hist", i)
		if c.Skip(id) {
			return
		}
		r := c.CaseRng("hist", i)
		w, err := newC01World(c)
		if err != nil {
			c.Violate("C01 fixture cannot be built", id, nil, "fixture", err.Error())
			return
		}
		defer w.f.Close()
		nconn := 1 + r.Intn(4)
		env := &pvEnv{f: w.f, r: r, esk: map[int][]byte{}, ids: map[int]*refIdentity{}, names: map[int]string{}, probes: map[crypto.Cryptographer]uint64{}}
		for k := 0; k < nconn; k++ {
			env.addrs = append(env.addrs, fmt.Sprintf("10.0.2.%d:7000", k+1))
			env.accPub = append(env.accPub, nil)
		}
		// a stored controller "ctrl-1" (key pair 11); name 1 maps to "ctrl-1"
		w.f.db.SaveEntity(db.NewEntity(env.name(1), env.ident(11).Pub, nil))
		es := make([]int, nconn)
		started := make([]bool, nconn)
		lastE := make([]int, nconn)
		orphaned := make([]bool, nconn) // the connection's session was deleted (by the Close of an older connection with the same remote address) but the connection lives on
		var toks, outs []string
		sawRefused, sawServed := false, false
		steps := 3 + r.Intn(38)
		reqs := c01Requests(w, r)
		for s := 0; s < steps; s++ {
			conn := r.Intn(nconn)
			addr := env.addrs[conn]
			var tok, out string
			k := r.Intn(20)
			var rq c01Req
			if k < 11 {
				rq = reqs[r.Intn(len(reqs))]
			}
			if orphaned[conn] && (k >= 11 || rq.Ep == "identify" || rq.Ep == "other") {
				// anything but a protected request: the peer reconnects first (for the model the state is already fresh)
				w.f.CloseConn(addr)
				orphaned[conn] = false
			}
			switch {
			case k < 11: // plain request
				tok = fmt.Sprintf("req %d plain %s", conn, rq.Ep)
				verified := !orphaned[conn] && env.installed(addr) != "plain"
				before := w.snapshot(env.addrs)
				st, body, _, pm := w.f.Do(addr, rq.Method, rq.Target, rq.CType, rq.Body)
				out = classify(st, body, pm)
				protected := rq.Ep != "identify" && rq.Ep != "other"
				if orphaned[conn] && out == "panic" {
					out = "refused" // no session: the request is dropped (the handler's panic is recovered by net/http) — nothing is served
				}
				if protected && !verified {
					// ---- direct oracles
					if out != "refused" || (!isRefusalBody(body) && !orphaned[conn]) {
						c.Violate("unverified connection was not refused a protected operation", id, append(append([]string{}, toks...), tok+" ["+rq.Variant+"]"),
							"HTTP 470 {status:-70401}", fmt.Sprintf("%d %s %s", st, trunc(string(body), 120), pm))
					}
					if bytes.Contains(body, []byte(canary)) {
						c.Violate("response to an unverified connection discloses attribute data", id, append(append([]string{}, toks...), tok+" ["+rq.Variant+"]"), "no canary", trunc(string(body), 200))
					}
					if after := w.snapshot(env.addrs); after != before {
						c.Violate("refused request changed accessory state", id, append(append([]string{}, toks...), tok+" ["+rq.Variant+"]"), before, after)
					}
					sawRefused = true
				}
				if protected && verified && out == "served" {
					sawServed = true
				}
				c.Hist(fmt.Sprintf("req:%s/%s verified=%v -> %s", rq.Ep, rq.Variant, verified, out))
			case k < 18: // pair-verify message
				var m pvMsg
				for try := 0; try < 20; try++ {
					m = genPvMsg(r, conn, nconn, &es[conn], started[conn])
					want := "v1"
					if started[conn] {
						want = "v3"
					}
					if m.Kind == want || r.Intn(5) == 0 {
						break
					}
				}
				if m.Kind == "v3" && m.Short < 0 && !m.Malformed {
					m.Name = 1 + r.Intn(2) // ctrl-1 (stored) or ctrl-2
					if m.SigName < 4 {
						m.SigName = m.Name
					}
					if r.Intn(3) > 0 { // mostly: the store really holds what it holds
						m.Entry, m.EntryPk, m.Signer = "key", 11, 11
						if m.Name != 1 {
							m.Entry = "none"
						}
					}
				}
				if len(env.accPub[conn]) == 0 && (m.Kind == "v3") {
					// accessory ephemeral key of this connection not known yet: a finish cannot be built; send a start instead
					m = pvMsg{Kind: "v1", Good: true, E: es[conn]}
				}
				env.setEntry(m)
				verifiedBefore := env.installed(addr) != "plain"
				tok = fmt.Sprintf("req %d verify %s", conn, m.tok())
				st, body, _, pm := w.f.Do(addr, "POST", "/pair-verify", "application/pairing+tlv8", env.concretise(conn, m))
				if m.Kind == "v1" && m.Good {
					env.learn(conn, st, body)
				}
				wasVerified := verifiedBefore
				out = "verify " + env.observe(addr, st, body, pm)
				// ---- direct oracle: only the genuine finish of the running exchange may verify the connection
				genuine := started[conn] && m.Kind == "v3" && m.tok() == genuineV3(conn, lastE[conn], m.Name, m.EntryPk).tok()
				if nowVerified := !strings.HasSuffix(out, " plain"); nowVerified && !wasVerified && !genuine {
					c.Violate("connection became verified without a valid pair-verify finish (protected endpoints are now served to it)", id,
						append(append([]string{}, toks...), tok), "still unverified", out)
				}
				if !m.noop() {
					started[conn] = m.Kind == "v1" && m.Good && strings.HasPrefix(out, "verify tlv 2 - ")
					if started[conn] {
						lastE[conn] = m.E
					}
				}
				c.Hist("verify:" + firstWords(out, 4))
			default:
				tok = fmt.Sprintf("close %d", conn)
				if r.Intn(3) == 0 {
					// what the Close of an OLDER connection from the same remote address does to this one: the session disappears
					// from the context, the connection itself stays open. For the model this is a close (fresh, unverified state).
					w.f.Conn(addr)
					w.f.ctx.DeleteSessionForConnection(w.f.raw[addr])
					orphaned[conn] = true
					c.Hist("session deleted under a live connection")
				} else {
					w.f.CloseConn(addr)
					orphaned[conn] = false
				}
				env.accPub[conn] = nil
				started[conn] = false
				out = "closed"
			}
			toks = append(toks, tok)
			outs = append(outs, out)
		}
		inputs[i] = toks
		results[i] = [2]string{"http run " + strings.Join(toks, " ; "), strings.Join(outs, " ; ")}
		c.Count(strings.Join(toks, ";"), sawRefused && sawServed, fmt.Sprintf("conns=%d", nconn), fmt.Sprintf("events<=%d", (steps/10+1)*10))
		c.Trace()
	})
	var lines []string
	var idx []int
	for i := range results {
		if results[i][0] != "" {
			lines = append(lines, results[i][0])
			idx = append(idx, i)
		}
	}
	model := c.Model(lines)
	for k, i := range idx {
		m := model[k]
		if p := strings.LastIndex(m, " | served="); p >= 0 {
			m = m[:p]
		}
		c.Same("http", c.CaseID("hist", i), inputs[i], m, results[i][1])
		if k%60 == 0 {
			c.Sample(map[string]interface{}{"events": inputs[i], "observed": strings.Split(results[i][1], " ; ")})
		}
	}
}

// ---- (A) end-to-end ---------------------------------------------------------------------------------------

func checkC01E2E(c *Ctx) {
	for i := 0; i < c.Pick(2, 30); i++ {
		id := c.CaseID("e2e", i)
		if c.Skip(id) {
			continue
		}
		r := c.CaseRng("e2e", i)
		sw := accessory.NewSwitch(accessory.Info{Name: canary + "-name", SerialNumber: canary + "-serial"})
		onUpd := 0
		sw.Switch.On.OnValueRemoteUpdate(func(bool) { onUpd++ })
		dir := c.ScratchDir()
		acc, err := startE2E(dir, "00102003", true, sw.Accessory)
		if err != nil {
			c.Violate("transport does not start", id, nil, "started", err.Error())
			continue
		}
		func() {
			defer acc.Stop()
			database, _ := db.NewDatabase(dir)
			entities := func() string {
				es, _ := database.Entities()
				var names []string
				for _, e := range es {
					names = append(names, e.Name+"="+hx(e.PublicKey))
				}
				sortStrings(names)
				return strings.Join(names, ",")
			}
			state := func() string {
				j, _ := json.Marshal(sw.Accessory)
				return fmt.Sprintf("values=%s onUpd=%d entities=%s", j, onUpd, entities())
			}
			w := &c01World{sw: sw, serialID: sw.Info.SerialNumber.ID, onID: sw.Switch.On.ID}
			reqs := c01Requests(w, r)
			// the verified controller pairs first (pair-setup needs no verification)
			ident := newRefIdentity(r, "ctrl-1")
			good, err := acc.Dial()
			if err != nil {
				c.Violate("cannot connect", id, nil, "connect", err.Error())
				return
			}
			defer good.Close()
			sr := refPairSetup(r, good.Post(), "001-02-003", ident)
			if sr.ErrAt != "" {
				c.Violate("reference controller cannot pair (positive control of C01)", id, nil, "paired", sr.ErrAt)
				return
			}
			expectRefused := func(label string, cl *refClient) {
				for _, rq := range reqs {
					if rq.Ep == "identify" || rq.Ep == "other" {
						continue
					}
					before := state()
					m, err := cl.Do(rq.Method, rq.Target, rq.CType, rq.Body)
					tok := fmt.Sprintf("%s: %s %s [%s]", label, rq.Method, rq.Target, rq.Variant)
					c.Count("e2e:"+tok, true, "e2e:refusal-probe")
					if err != nil {
						// a dropped connection is also not a disclosure; but the property asks for a refusal answer
						c.Violate("unverified connection was not refused a protected operation", id, tok, "HTTP 470 {status:-70401}", "connection error: "+err.Error())
						return
					}
					if m.Status != 470 || !isRefusalBody(m.Body) {
						c.Violate("unverified connection was not refused a protected operation", id, tok, "HTTP 470 {status:-70401}", fmt.Sprintf("%d %s", m.Status, trunc(string(m.Body), 160)))
					}
					if bytes.Contains(m.Body, []byte(canary)) {
						c.Violate("response to an unverified connection discloses attribute data", id, tok, "no canary", trunc(string(m.Body), 200))
					}
					if after := state(); after != before {
						c.Violate("refused request changed accessory state", id, tok, before, after)
					}
				}
			}
			// 1. plaintext connection that never attempted verification
			p1, _ := acc.Dial()
			defer p1.Close()
			expectRefused("plaintext", p1)
			// 2. connection whose pair-verify failed (unknown controller; garbage signature handled by C03)
			p2, _ := acc.Dial()
			defer p2.Close()
			stranger := newRefIdentity(r, "stranger")
			if vr := refPairVerify(r, p2.Post(), stranger, nil); vr.Shared != nil {
				c.Violate("pair-verify succeeded for a controller that is not paired", id, "stranger", "error", "verified")
			}
			expectRefused("failed-verify", p2)
			// 3. positive control: the paired controller verifies and is served
			vr := refPairVerify(r, good.Post(), ident, sr.AccLTPK)
			if vr.Shared == nil {
				c.Violate("paired reference controller cannot verify (positive control of C01)", id, nil, "verified", vr.ErrAt)
				return
			}
			good.Upgrade(vr.Shared)
			served := 0
			for _, rq := range reqs {
				if rq.Variant == "remove" || rq.Variant == "add" {
					continue
				}
				m, err := good.Do(rq.Method, rq.Target, rq.CType, rq.Body)
				if err == nil && m.Status != 470 && (rq.Ep == "other" || m.Status < 400) {
					served++
				} else if rq.Ep != "other" {
					got := "error"
					if m != nil {
						got = fmt.Sprint(m.Status)
					} else if err != nil {
						got = err.Error()
					}
					c.Mismatch("e2e-positive-control", id, rq.Method+" "+rq.Target, "served", got)
				}
				c.Count("e2e:verified:"+rq.Target+rq.Variant, true, "e2e:served-probe")
			}
			// 4. verification does not carry over: the plaintext connections are still refused, also when they send what the
			//    verified connection sends, and a new connection starts unverified
			expectRefused("plaintext-after-other-verified", p1)
			p3, _ := acc.Dial()
			defer p3.Close()
			expectRefused("new-connection", p3)
			// 5. a peer without the setup code tries to plant its own key, then verifies with it: still refused
			for v := 0; v < 12; v++ {
				pf, err := acc.Dial()
				if err != nil {
					break
				}
				before := entities()
				intruder := c01Forge(r, pf.Post(), v)
				pf.Close()
				if after := entities(); after != before {
					c.Violate("a peer that does not know the setup code got a pairing stored", id, fmt.Sprintf("forged pair-setup, variant %d", v), before, after)
				}
				pv, err := acc.Dial()
				if err != nil {
					break
				}
				if vr := refPairVerify(r, pv.Post(), intruder, nil); vr.Shared != nil {
					pv.Upgrade(vr.Shared)
					if m, err := pv.Do("GET", "/accessories", "", nil); err == nil && m.Status == 200 {
						c.Violate("a peer that does not know the setup code obtained protected access (forged pairing, then pair-verify with its own key)", id,
							fmt.Sprintf("forged pair-setup, variant %d", v), "refused", "200 "+trunc(string(m.Body), 80))
					}
				} else {
					expectRefused(fmt.Sprintf("intruder-%d", v), pv)
				}
				pv.Close()
				c.Count(fmt.Sprint("e2e:forge:", v), true, "e2e:forge")
			}
			c.Trace()
		}()
	}
}

// c01Forge: a peer that does not know the setup code tries the known ways of getting a key stored without a proof
// (pair-setup with A ≡ 0 mod N and the proof anybody can compute from public values, then the key exchange sealed under
// the key derived from an empty / all-zero session key), and returns the identity it tried to plant.
func c01Forge(r *rand.Rand, post postFn, variant int) *refIdentity {
	id := newRefIdentity(r, fmt.Sprintf("intruder-%d", variant))
	st, body, err := post("/pair-setup", tlvMsg(tlvOp{tState, b1(1)}, tlvOp{tMethod, b1(0)}))
	if err != nil || st != 200 {
		return id
	}
	items, _ := refTlvParse(body)
	salt, B := tlvGet(items, tSalt), tlvGet(items, tPubKey)
	A := [][]byte{{0}, refSrpN.Bytes(), new(bigInt).Lsh(refSrpN, 1).Bytes(), nil}[variant%4]
	hn := new(bigInt).SetBytes(refH(refSrpN.Bytes()))
	hg := new(bigInt).SetBytes(refH(refSrpG.Bytes()))
	proof := refH(new(bigInt).Xor(hn, hg).Bytes(), refH([]byte("Pair-Setup")), salt, new(bigInt).SetBytes(A).Bytes(), B, nil)
	m3 := []tlvOp{{tState, b1(3)}}
	if A != nil {
		m3 = append(m3, tlvOp{tPubKey, A})
	}
	post("/pair-setup", tlvMsg(append(m3, tlvOp{tProof, proof})...))
	// the key exchange message, sealed under what the accessory holds when no session key was ever computed
	var k []byte // session key as the accessory's signature check sees it: empty …
	if variant/4 == 2 {
		k = make([]byte, 64) // … or all zero
	}
	encKey := refHKDF(k, "Pair-Setup-Encrypt-Salt", "Pair-Setup-Encrypt-Info")
	if variant/4 == 1 {
		encKey = make([]byte, 32) // the encryption key field that was never set
	}
	x := refHKDF(k, "Pair-Setup-Controller-Sign-Salt", "Pair-Setup-Controller-Sign-Info")
	info := append(append(append([]byte{}, x...), []byte(id.Name)...), id.Pub...)
	sub := tlvMsg(tlvOp{tID, []byte(id.Name)}, tlvOp{tPubKey, id.Pub}, tlvOp{tSig, ed25519.Sign(id.Priv, info)})
	post("/pair-setup", tlvMsg(tlvOp{tState, b1(5)}, tlvOp{tEnc, refSeal(encKey, []byte("PS-Msg05"), sub, nil)}))
	return id
}

// c01SameRemote: two connections that are open at the same time and have the SAME remote address (the accessory listens on
// several local addresses; the peer binds one source port for both). They are two connections: what one has proved does
// not count for the other — neither the verification (C01) nor the progress of a pair-setup exchange (C02).
func c01SameRemote(c *Ctx) {
	for i := 0; i < c.Pick(4, 60); i++ {
		id := c.CaseID("same-remote", i)
		if c.Skip(id) {
			continue
		}
		r := c.CaseRng("same-remote", i)
		w, err := newC01World(c)
		if err != nil {
			c.Violate("C01 fixture cannot be built", id, nil, "fixture", err.Error())
			continue
		}
		remote := fmt.Sprintf("10.0.7.%d:%d", 1+r.Intn(200), 1024+r.Intn(60000))
		a, b := remote+"#127.0.0.1:5001", remote+"#127.0.0.2:5001"
		ident := newRefIdentity(r, "ctrl-same")
		w.f.db.SaveEntity(db.NewEntity(ident.Name, ident.Pub, nil))
		// both connections are open
		w.f.Conn(a)
		w.f.Conn(b)
		vr := refPairVerify(r, w.f.Post(a), ident, w.f.device.PublicKey())
		responseWritten(w.f.ctx, w.f.raw[a])
		in := map[string]interface{}{"remote_address_of_both": remote, "local_addresses": []string{localOf(a), localOf(b)}}
		if vr.Shared == nil {
			c.Violate("paired reference controller cannot verify", id, in, "verified", vr.ErrAt)
		}
		before := w.snapshot([]string{a, b})
		st, body, _, pm := w.f.Do(b, "GET", "/accessories", "", nil)
		if out := classify(st, body, pm); out != "refused" || bytes.Contains(body, []byte(canary)) {
			c.Violate("one connection's verification carried over to another connection (same remote address, another local address)", id, in,
				"HTTP 470 {status:-70401}", fmt.Sprintf("%d %s %s", st, trunc(string(body), 120), pm))
		}
		if after := w.snapshot([]string{a, b}); after != before {
			c.Violate("refused request changed accessory state", id, in, before, after)
		}
		// a peer resets a connection and reconnects from the same address while the old connection's handler is still running:
		// the late Close of the old connection must not take the new connection's session away
		late := fmt.Sprintf("10.0.8.%d:%d", 1+r.Intn(200), 1024+r.Intn(60000))
		oldRaw, newRaw := &fakeConn{addr: late}, &fakeConn{addr: late}
		oldConn := hap.NewConnection(oldRaw, w.f.ctx)
		hap.NewConnection(newRaw, w.f.ctx)
		s2 := w.f.ctx.GetSessionForConnection(newRaw)
		oldConn.Close()
		if got := w.f.ctx.GetSessionForConnection(newRaw); got == nil || got != s2 {
			c.Violate("closing an old connection removes the session of the connection that replaced it (same addresses): the new connection stays open but is no longer served or notified", id,
				map[string]interface{}{"address": late}, "session of the new connection kept", fmt.Sprint(got))
		}
		c.Count(id, true, "stream:same-remote")
		w.f.Close()
	}
}

// c01EventLeak: events are messages the accessory writes on its own initiative: they carry characteristic values, so they
// are "protected data" as much as the answer to a GET. While a verified controller is subscribed and values change,
// connections that never verified (open at the same time; opened after the subscriber has gone) must receive NOTHING.
func c01EventLeak(c *Ctx) {
	for i := 0; i < c.Pick(1, 12); i++ {
		id := c.CaseID("event-leak", i)
		if c.Skip(id) {
			continue
		}
		r := c.CaseRng("event-leak", i)
		sw := accessory.NewSwitch(accessory.Info{Name: "Leak"})
		acc, err := startE2E(c.ScratchDir(), "00102003", false, sw.Accessory)
		if err != nil {
			c.Violate("transport does not start", id, nil, "started", err.Error())
			continue
		}
		func() {
			defer acc.Stop()
			ident := newRefIdentity(r, "ctrl-leak")
			setup, _ := acc.Dial()
			sr := refPairSetup(r, setup.Post(), "001-02-003", ident)
			setup.Close()
			if sr.ErrAt != "" {
				c.Violate("reference controller cannot pair", id, nil, "paired", sr.ErrAt)
				return
			}
			sub := fmt.Sprintf(`{"characteristics":[{"aid":%d,"iid":%d,"ev":true}]}`, sw.Accessory.ID, sw.Switch.On.ID)
			subscriber := func() *refClient {
				cl, err := acc.Dial()
				if err != nil {
					return nil
				}
				vr := refPairVerify(r, cl.Post(), ident, sr.AccLTPK)
				if vr.Shared == nil {
					cl.Close()
					return nil
				}
				cl.Upgrade(vr.Shared)
				if m, err := cl.Do("PUT", "/characteristics", "application/hap+json", []byte(sub)); err != nil || m.Status != 204 {
					cl.Close()
					return nil
				}
				return cl
			}
			strangers := func(n int) []net.Conn {
				var l []net.Conn
				for k := 0; k < n; k++ {
					if cn, err := net.DialTimeout("tcp", "127.0.0.1:"+acc.port, time.Second); err == nil {
						l = append(l, cn)
					}
				}
				time.Sleep(50 * time.Millisecond) // accepted and registered
				return l
			}
			leaked := func(l []net.Conn) string {
				msgs := make([]string, len(l))
				var wg sync.WaitGroup
				for k, cn := range l {
					wg.Add(1)
					go func(k int, cn net.Conn) {
						defer wg.Done()
						buf := make([]byte, 4096)
						cn.SetReadDeadline(time.Now().Add(150 * time.Millisecond))
						if n, _ := cn.Read(buf); n > 0 {
							msgs[k] = fmt.Sprintf("unverified connection %d of %d received %d bytes: %q", k+1, len(l), n, trunc(string(buf[:n]), 120))
						}
					}(k, cn)
				}
				wg.Wait()
				for _, m := range msgs {
					if m != "" {
						return m
					}
				}
				return ""
			}
			toggle := func(n int) {
				for k := 0; k < n; k++ {
					sw.Switch.On.SetValue(!sw.Switch.On.GetValue())
					time.Sleep(2 * time.Millisecond)
				}
			}
			nStr := 4 + r.Intn(6)
			// phase 1: the subscriber and the strangers are connected at the same time
			s1 := subscriber()
			if s1 == nil {
				c.Violate("verified reference controller cannot subscribe", id, nil, "subscribed", "failed")
				return
			}
			st1 := strangers(nStr)
			toggle(6)
			if msg := leaked(st1); msg != "" {
				c.Violate("a connection that never verified receives an event (a characteristic value, in plaintext) meant for a subscribed controller", id,
					map[string]interface{}{"verified_subscribers": 1, "unverified_connections_open": nStr, "local_value_changes": 6}, "nothing", msg)
			}
			// phase 2: the subscribers go away; connections opened afterwards. Several subscribers
			// and several rounds: whatever a closed connection leaves behind for the ones to come
			// may be kept per processor, and a stranger has to be served by the same one
			s1.Close()
			var st2 []net.Conn
			for round := 0; round < 3; round++ {
				var subs []*refClient
				for k := 0; k < 3; k++ {
					if s := subscriber(); s != nil {
						subs = append(subs, s)
					}
				}
				for _, s := range subs {
					s.Close()
				}
				time.Sleep(30 * time.Millisecond)
				st := strangers(nStr + 16)
				st2 = append(st2, st...)
				toggle(6)
				if msg := leaked(append(st, st1...)); msg != "" {
					c.Violate("a connection that never verified receives an event after the subscribed controller has disconnected", id,
						map[string]interface{}{"then": "subscribers disconnect; new connections; the value changes", "round": round + 1, "unverified_connections_open": len(st1) + len(st2)}, "nothing", msg)
					break
				}
			}
			for _, cn := range append(st1, st2...) {
				cn.Close()
			}
			c.Count(id, true, "stream:event-leak", fmt.Sprintf("event-leak:strangers=%d", nStr))
		}()
	}
}

// c01ReconnectDuringCallback: a verified controller writes a value and subscribes in one request (`value` + `ev`); the
// application's callback for the write takes its time; meanwhile the controller's connection is reset and a peer that
// never verified connects from the same address and port. When the request is through, nothing of it may have landed on
// the stranger's session: it is not subscribed (an event is a characteristic value in plaintext), not verified.
func c01ReconnectDuringCallback(c *Ctx) {
	for i := 0; i < c.Pick(3, 30); i++ {
		id := c.CaseID("reconnect-during-callback", i)
		if c.Skip(id) {
			continue
		}
		sw := accessory.NewSwitch(accessory.Info{Name: "Slow"})
		f, addr, err := verifiedFixture(c, []*accessory.Accessory{sw.Accessory})
		if err != nil {
			c.Violate("C01 fixture cannot be built", id, nil, "fixture", err.Error())
			continue
		}
		var stranger hap.Session
		sw.Switch.On.OnValueRemoteUpdate(func(bool) {
			// the connection goes away under the request that is being served; a new one takes its address
			f.CloseConn(addr)
			stranger = f.Session(addr)
		})
		how := []string{`"value":true,"ev":true`, `"ev":true,"value":true`, `"value":1,"ev":true`}[i%3]
		body := fmt.Sprintf(`{"characteristics":[{"aid":%d,"iid":%d,%s}]}`, sw.Accessory.ID, sw.Switch.On.ID, how)
		st, _, _, pm := f.Do(addr, "PUT", "/characteristics", "application/hap+json", []byte(body))
		in := map[string]interface{}{"request_of_the_verified_controller": "PUT /characteristics " + body,
			"during_the_application_callback": "the connection is closed; an unverified peer connects from the same address and port"}
		switch {
		case stranger == nil:
			c.Violate("remote write of a verified controller does not reach the application", id, in, "callback", fmt.Sprint(st, pm))
		case stranger.IsSubscribedTo(sw.Switch.On.Characteristic):
			c.Violate("a connection that never verified is subscribed to events by the request of another connection (it will receive characteristic values in plaintext)", id, in,
				"not subscribed", "subscribed")
		case stranger.Encrypter() != nil || stranger.Decrypter() != nil:
			c.Violate("connection became verified without a valid pair-verify finish", id, in, "no cryptographer", "cryptographer present")
		}
		c.Count(id, true, "stream:reconnect-during-callback")
		f.Close()
	}
}
