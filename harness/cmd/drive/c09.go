package main

// C09 — what the application sets is what a controller reads, and vice versa.
//  (A) id dispatch of GET /characteristics: id lists of 1-60 ids (existing readable / write-only, missing, repeated,
//      malformed) against databases of 1..150 accessories, through the real mux with a verified session; diffed with
//      HcModel/CharHttp.lean; direct oracle: one entry per id, in order, value or status, 207 ⇒ status everywhere.
//  (B) value round trips for EVERY characteristic constructor: application SetValue → GET /characteristics and
//      /accessories carry exactly that value; verified PUT → Value / typed getter / remote-update callback.
//  (C) end to end over TCP: a bridge whose /accessories answer spans > 100 HTTP chunks and many session frames,
//      read by the reference controller and compared with the accessory's own database.

import (
	"time"
	"bytes"
	"encoding/base64"
	"encoding/json"
	"fmt"
	"math"
	"math/rand"
	"net"
	"net/http"
	"net/http/httptest"
	"net/url"
	"reflect"
	"strings"

	"github.com/brutella/hc/accessory"
	"github.com/brutella/hc/characteristic"
	"github.com/brutella/hc/crypto"
	"github.com/brutella/hc/service"
	"github.com/xiam/to"
)

func init() { register("C09", checkC09) }

func c09Accessories(r *rand.Rand, n int) []*accessory.Accessory {
	var out []*accessory.Accessory
	for i := 0; i < n; i++ {
		info := accessory.Info{Name: fmt.Sprintf("Acc %d \"q\" <&>  ", i), SerialNumber: fmt.Sprintf("SN-%d", r.Intn(1000))}
		switch r.Intn(7) {
		case 0:
			out = append(out, accessory.NewSwitch(info).Accessory)
		case 1:
			out = append(out, accessory.NewColoredLightbulb(info).Accessory)
		case 2:
			out = append(out, accessory.NewOutlet(info).Accessory)
		case 3:
			out = append(out, accessory.NewThermostat(info, 20, 10, 30, 0.5).Accessory)
		case 4:
			out = append(out, accessory.NewTemperatureSensor(info, 21.5, -10, 50, 0.1).Accessory)
		case 5:
			out = append(out, accessory.NewLightbulb(info).Accessory)
		default:
			out = append(out, accessory.NewWindow(info, 1).Accessory)
		}
	}
	return out
}

func verifiedFixture(c *Ctx, accs []*accessory.Accessory) (*accFixture, string, error) {
	f, err := newAccFixture(c, "00102003", accs...)
	if err != nil {
		return nil, "", err
	}
	addr := "10.0.9.1:9000"
	var shared [32]byte
	cg, _ := crypto.NewSecureSessionFromSharedKey(shared)
	f.Session(addr).SetCryptographer(cg)
	responseWritten(f.ctx, f.raw[addr])
	return f, addr, nil
}

type getEntry struct {
	Aid    uint64      `json:"aid"`
	Iid    uint64      `json:"iid"`
	Value  interface{} `json:"value"`
	Status *int        `json:"status"`
	hasVal bool
}

func parseGetBody(b []byte) ([]getEntry, bool) {
	var raw struct {
		Characteristics []map[string]json.RawMessage `json:"characteristics"`
	}
	if json.Unmarshal(b, &raw) != nil {
		return nil, false
	}
	var out []getEntry
	for _, m := range raw.Characteristics {
		var e getEntry
		json.Unmarshal(m["aid"], &e.Aid)
		json.Unmarshal(m["iid"], &e.Iid)
		if v, ok := m["value"]; ok {
			e.hasVal = true
			json.Unmarshal(v, &e.Value)
		}
		if s, ok := m["status"]; ok {
			var x int
			json.Unmarshal(s, &x)
			e.Status = &x
		}
		out = append(out, e)
	}
	return out, true
}

func checkC09(c *Ctx) {
	c.SetRule("(A) GET id lists (1-60 ids mixing readable, write-only, missing, repeated and malformed ids) over databases of 1-150 accessories; " +
		"(B) every zero-argument characteristic constructor × boundary and random valid values of its format, both directions; " +
		"(C) /accessories of a bridge read end to end over TCP by the reference controller; " +
		"(chunkw) the chunked writer over response writers that take less than offered or fail, vs HcModel/ChunkedWriter.lean. " +
		"non-trivial = (A) list with at least one existing and one failing id, (B) a value different from the default that is stored and read back")
	c.Assume("encoding/json decode∘encode = id on bool/number/string values; net/http chunked transfer coding is transparent")
	c09Dispatch(c)
	c09Chunkw(c)
	c09Values(c)
	c09Scenes(c)
	c09PutAnswers(c)
	c09Nested(c)
	c09Reentrant(c)
	c09OtherPlatforms(c)
	c09Getter(c)
	c09AfterMalformed(c)
	c09EndToEnd(c)
}

// ---- (A) id dispatch -------------------------------------------------------------------------------------------

func c09Dispatch(c *Ctx) {
	n := c.Pick(60, 6000)
	type out struct{ line, impl string }
	res := make([]out, 0)
	var lines []string
	var ids []string
	var impls []string
	for i := -1; i < n; i++ {
		id := c.CaseID("get", i)
		if c.Skip(id) {
			continue
		}
		r := c.CaseRng("get", i)
		nacc := 1 + r.Intn(4)
		if r.Intn(6) == 0 {
			nacc = 5 + r.Intn(c.Pick(20, 146))
		}
		accs := c09Accessories(r, nacc)
		f, addr, err := verifiedFixture(c, accs)
		if err != nil {
			c.Violate("C09 fixture cannot be built", id, nil, "fixture", err.Error())
			continue
		}
		type cref struct {
			aid, iid uint64
			ch       *characteristic.Characteristic
		}
		var all []cref
		var dbSpec []string
		for _, a := range accs {
			for _, s := range a.GetServices() {
				for _, ch := range s.GetCharacteristics() {
					all = append(all, cref{a.ID, ch.ID, ch})
					fl := "w"
					if ch.IsReadable() {
						fl = "r"
					}
					dbSpec = append(dbSpec, fmt.Sprintf("%d.%d.%s", a.ID, ch.ID, fl))
				}
			}
		}
		k := 1 + r.Intn(60)
		var parts, toks []string
		if i == -1 { // corpus: DESIGN.md F8
			var ro, wo cref
			for _, x := range all {
				if x.ch.IsReadable() && ro.ch == nil {
					ro = x
				}
				if !x.ch.IsReadable() && wo.ch == nil {
					wo = x
				}
			}
			parts = []string{fmt.Sprintf("%d.%d", ro.aid, ro.iid), fmt.Sprintf("%d.999", ro.aid), fmt.Sprintf("%d.%d", wo.aid, wo.iid)}
		} else {
			clean := r.Intn(5) < 2 // a good share of requests name only existing readable characteristics (plain 200)
			for j := 0; j < k; j++ {
				x := all[r.Intn(len(all))]
				if clean {
					for !x.ch.IsReadable() {
						x = all[r.Intn(len(all))]
					}
					parts = append(parts, fmt.Sprintf("%d.%d", x.aid, x.iid))
					continue
				}
				switch q := r.Intn(40); {
				case q < 26:
					parts = append(parts, fmt.Sprintf("%d.%d", x.aid, x.iid))
				case q < 30:
					parts = append(parts, fmt.Sprintf("%d.%d", x.aid, 900+r.Intn(100)))
				case q < 33:
					parts = append(parts, fmt.Sprintf("%d.%d", 500+r.Intn(10), x.iid))
				case q < 35:
					parts = append(parts, fmt.Sprintf("0%d.%d", x.aid, x.iid)) // leading zero
				case q < 36:
					parts = append(parts, []string{"a.b", "1.x", "-1.2", " 1.2", "1e0.2", "0x1.2"}[r.Intn(6)])
				case q < 37 && r.Intn(3) == 0:
					parts = append(parts, []string{"1", "1.2.3", "", "1.", "."}[r.Intn(5)])
				default:
					parts = append(parts, fmt.Sprintf("%d.%d", x.aid, x.iid))
				}
			}
		}
		for _, p := range parts {
			sp := strings.Split(p, ".")
			if len(sp) != 2 {
				toks = append(toks, "bad")
				break // the handler stops at the first malformed element
			}
			toks = append(toks, fmt.Sprintf("%d.%d", to.Uint64(sp[0]), to.Uint64(sp[1])))
		}
		st, body, _, pm := f.Do(addr, "GET", "/characteristics?id="+url.QueryEscape(strings.Join(parts, ",")), "", nil)
		f.Close()
		impl := ""
		okSeen, errSeen := false, false
		switch {
		case pm != "":
			impl = "panic"
			c.Violate("GET /characteristics panics", id, parts, "answer", pm)
		case st == 500:
			impl = "500"
		case st == 200 || st == 207:
			es, ok := parseGetBody(body)
			if !ok {
				impl = "unparseable"
				c.Violate("GET /characteristics answer is not HAP JSON", id, parts, "JSON", trunc(string(body), 200))
				break
			}
			var ss []string
			for _, e := range es {
				v := ""
				if e.hasVal {
					v = "V"
				}
				s := ""
				if e.Status != nil {
					if v != "" {
						s = "/"
					}
					s += fmt.Sprint(*e.Status)
				}
				ss = append(ss, fmt.Sprintf("%d.%d=%s%s", e.Aid, e.Iid, v, s))
			}
			impl = fmt.Sprintf("%d %s", st, strings.Join(ss, " "))
			// ---- direct oracle
			if len(es) != len(toks) {
				c.Violate("GET /characteristics does not answer each requested id exactly once", id, parts, fmt.Sprint(len(toks), " entries"), fmt.Sprint(len(es), " entries: ", trunc(string(body), 300)))
				break
			}
			anyErr := false
			for j, e := range es {
				if fmt.Sprintf("%d.%d", e.Aid, e.Iid) != toks[j] {
					c.Violate("GET /characteristics answers ids out of order", id, parts, toks[j], fmt.Sprintf("%d.%d at %d", e.Aid, e.Iid, j))
				}
				var ref *cref
				for q := range all {
					if all[q].aid == e.Aid && all[q].iid == e.Iid {
						ref = &all[q]
						break
					}
				}
				isErr := e.Status != nil && *e.Status != 0
				switch {
				case ref != nil && ref.ch.IsReadable():
					okSeen = true
					if isErr || !e.hasVal || !jsonSame(e.Value, ref.ch.Value) {
						c.Violate("GET /characteristics does not carry the stored value of a readable characteristic", id, parts, fmt.Sprint(ref.ch.Value), fmt.Sprintf("entry %d: %+v", j, e))
					}
				default:
					errSeen = true
					if !isErr || e.hasVal {
						c.Violate("GET /characteristics answers a missing or unreadable id without an error status", id, parts, "status", fmt.Sprintf("entry %d: %+v %s", j, e, trunc(string(body), 200)))
					}
				}
				anyErr = anyErr || isErr
			}
			if (st == 207) != anyErr {
				c.Violate("GET /characteristics: 207 must be sent exactly when an entry failed", id, parts, fmt.Sprint("207=", anyErr), fmt.Sprint(st))
			}
			if st == 207 {
				for j, e := range es {
					if e.Status == nil {
						c.Violate("multi-status answer has an entry without status", id, parts, "status on every entry", fmt.Sprintf("entry %d of %s", j, trunc(string(body), 300)))
						break
					}
				}
			}
		default:
			impl = fmt.Sprint("http-", st)
		}
		lines = append(lines, "charhttp get "+strings.Join(dbSpec, " ")+" | "+strings.Join(toks, " "))
		ids = append(ids, id)
		impls = append(impls, impl)
		c.Count(strings.Join(parts, ","), okSeen && errSeen, fmt.Sprintf("get:ids<=%d", (len(parts)/10+1)*10), fmt.Sprintf("get:accessories<=%d", bucketLen2(nacc)), "get:"+firstWords(impl, 1))
		c.Trace()
		_ = res
	}
	model := c.Model(lines)
	for i := range lines {
		c.Same("charhttp-get", ids[i], trunc(lines[i], 2000), model[i], impls[i])
		if i%20 == 0 {
			c.Sample(map[string]interface{}{"request": trunc(lines[i][strings.Index(lines[i], "|"):], 200), "answer": trunc(impls[i], 200)})
		}
	}
}

func jsonSame(a, b interface{}) bool {
	ja, e1 := json.Marshal(a)
	jb, e2 := json.Marshal(b)
	if e1 != nil || e2 != nil {
		return false
	}
	var x, y interface{}
	json.Unmarshal(ja, &x)
	json.Unmarshal(jb, &y)
	return reflect.DeepEqual(x, y) // numbers compare with ==, so 0 and -0 (equal in Go and in IEEE 754) are the same value
}

// ---- (B) values, every constructor, both directions ------------------------------------------------------------

func c09ValuesFor(r *rand.Rand, ch *characteristic.Characteristic, wrapper string, thorough bool) []interface{} {
	var vs []interface{}
	switch wrapper {
	case "bool":
		vs = []interface{}{true, false, true}
	case "int":
		min, hasMin := ch.MinValue.(int)
		max, hasMax := ch.MaxValue.(int)
		if !hasMin {
			min = 0
		}
		if !hasMax {
			max = 255
			if ch.Format == characteristic.FormatUInt32 || ch.Format == characteristic.FormatInt32 {
				max = 1 << 30
			}
		}
		vs = []interface{}{min, max, min + (max-min)/2}
		if min <= 0 && 0 <= max {
			vs = append(vs, 0)
		}
		if min <= 1 && 1 <= max {
			vs = append(vs, 1)
		}
		if max > min {
			vs = append(vs, min+1, max-1, min+r.Intn(max-min+1))
		}
	case "float64":
		min, hasMin := ch.MinValue.(float64)
		max, hasMax := ch.MaxValue.(float64)
		if !hasMin {
			min = -1000
		}
		if !hasMax {
			max = 1000
		}
		step, _ := ch.StepValue.(float64)
		vs = []interface{}{min, max, (min + max) / 2, min + (max-min)*r.Float64()}
		if step > 0 {
			vs = append(vs, min+step, max-step, min+3*step)
		}
		if min <= 0 && 0 <= max {
			vs = append(vs, 0.0, math.Copysign(0, -1), 1e-7)
		}
		if min <= 0.1 && 0.1 <= max {
			vs = append(vs, 0.1, 1.0/3.0)
		}
	case "string":
		if ch.Format == characteristic.FormatTLV8 || ch.Format == characteristic.FormatData {
			for _, n := range []int{0, 1, 2, 3, 255, 1024, 3000} {
				vs = append(vs, base64.StdEncoding.EncodeToString(randBytes(r, n)))
			}
		} else {
			vs = []interface{}{"", "x", `quote " backslash \ slash /`, "<tag> & 'amp'", "line sep  para", "𝄞 non-BMP 😀", "tab\tnl\nnul\x00",
				strings.Repeat("long ", 1000), "ünï©ødé",
				"decomposed e\u0301 A\u030a, compatibility \u212b \u2126 \ufb01, jamo \u1100\u1161"} // not in any normal form: a value is bytes, not text
		}
	}
	if !thorough && len(vs) > 6 {
		last := vs[len(vs)-1]
		r.Shuffle(len(vs), func(i, j int) { vs[i], vs[j] = vs[j], vs[i] })
		vs = vs[:6]
		if ch.Format == characteristic.FormatString {
			vs[5] = last
		}
	}
	return vs
}

func sameGoValue(a, b interface{}) bool {
	fa, oka := a.(float64)
	fb, okb := b.(float64)
	if oka && okb {
		return fa == fb // 0 == -0: Go's == on the stored value
	}
	return fmt.Sprintf("%T:%v", a, a) == fmt.Sprintf("%T:%v", b, b)
}

func c09Values(c *Ctx) {
	ctors := allCharacteristicCtors
	results := make([]int, len(ctors))
	parallel(len(ctors), func(ci int) {
		e := ctors[ci]
		id := "values#" + e.Name
		if c.Skip(id) {
			return
		}
		r := c.CaseRng("values", ci)
		cc, pm := newCtorCase(e)
		if cc == nil {
			c.Violate("characteristic constructor panics", id, e.Name, "object", pm)
			return
		}
		ch := cc.C
		acc := accessory.New(accessory.Info{Name: "A"}, accessory.TypeOther)
		svc := service.New("F00D")
		svc.AddCharacteristic(ch)
		acc.AddService(svc)
		f, addr, err := verifiedFixture(c, []*accessory.Accessory{acc})
		if err != nil {
			c.Violate("C09 fixture cannot be built", id, e.Name, "fixture", err.Error())
			return
		}
		defer f.Close()
		var cbVals []interface{}
		ch.OnValueUpdateFromConn(func(_ net.Conn, _ *characteristic.Characteristic, n, o interface{}) { cbVals = append(cbVals, n) })
		target := fmt.Sprintf("/characteristics?id=%d.%d", acc.ID, ch.ID)
		for _, v := range c09ValuesFor(r, ch, cc.Wrapper, c.Thorough()) {
			desc := map[string]interface{}{"constructor": e.Name, "format": ch.Format, "perms": ch.Perms, "value": fmt.Sprintf("%T %v", v, trunc(fmt.Sprint(v), 80))}
			// ---- application sets → controller reads
			before := ch.Value
			ch.UpdateValue(v)
			stored := ch.Value
			if ch.IsReadable() {
				if !sameGoValue(stored, v) {
					c.Violate("valid value set by the application is not stored as it is", id, desc, fmt.Sprint(v), fmt.Sprintf("%T %v", stored, stored))
				}
				st, body, _, pmsg := f.Do(addr, "GET", target, "", nil)
				es, ok := parseGetBody(body)
				if pmsg != "" || st != 200 || !ok || len(es) != 1 || !es[0].hasVal || !jsonSame(es[0].Value, v) {
					c.Violate("GET /characteristics does not return the value the application set", id, desc, trunc(fmt.Sprint(v), 100), fmt.Sprint(st, " ", trunc(string(body), 200), pmsg))
				}
				st, body, _, pmsg = f.Do(addr, "GET", "/accessories", "", nil)
				var db struct {
					Accessories []struct {
						Services []struct {
							Characteristics []struct {
								Iid   uint64      `json:"iid"`
								Value interface{} `json:"value"`
							} `json:"characteristics"`
						} `json:"services"`
					} `json:"accessories"`
				}
				found := false
				if pmsg == "" && st == 200 && json.Unmarshal(body, &db) == nil {
					for _, a := range db.Accessories {
						for _, s := range a.Services {
							for _, k := range s.Characteristics {
								if k.Iid == ch.ID && jsonSame(k.Value, v) {
									found = true
								}
							}
						}
					}
				}
				if !found {
					c.Violate("/accessories does not carry the value the application set", id, desc, trunc(fmt.Sprint(v), 100), fmt.Sprint(st, " ", trunc(string(body), 300), pmsg))
				}
			}
			c.Count(fmt.Sprint(e.Name, "/set/", v), ch.IsReadable() && !sameGoValue(before, v), "values:set:"+cc.Wrapper)
			// ---- controller writes → application reads (write a different value back first so that it is a change)
			if ch.IsWritable() {
				other := c09ValuesFor(r, ch, cc.Wrapper, false)[0]
				ch.UpdateValue(other)
				prev := ch.Value
				cbVals = nil
				jb, _ := json.Marshal(v)
				// members of the HAP write request that this library does not act on (timed / remote / authorised writes,
				// write-response) are legal in a request and must not keep the value from being written
				extraE := []string{"", `,"remote":true`, `,"authData":"YXV0aA=="`, `,"r":true`, `,"remote":false,"authData":"AA=="`}[r.Intn(5)]
				extraT := []string{"", "", `,"pid":4711`}[r.Intn(3)]
				body := fmt.Sprintf(`{"characteristics":[{"aid":%d,"iid":%d,"value":%s%s}]%s}`, acc.ID, ch.ID, jb, extraE, extraT)
				desc["request_body"] = trunc(body, 200)
				st, resp, _, pmsg := f.Do(addr, "PUT", "/characteristics", "application/hap+json", []byte(body))
				if pmsg != "" || st != 204 {
					c.Violate("PUT of a valid value by a verified controller is not accepted", id, desc, "204", fmt.Sprint(st, " ", trunc(string(resp), 200), pmsg))
					continue
				}
				changed := !sameGoValue(prev, v) || cc.Same
				if ch.IsReadable() && !sameGoValue(ch.Value, v) {
					c.Violate("value written by a verified controller is not what the application reads", id, desc, fmt.Sprint(v), fmt.Sprintf("%T %v", ch.Value, ch.Value))
				}
				if b, isBool := v.(bool); isBool {
					// HAP lets a controller write a bool as the number 1 / 0 as well (the Home app does)
					ch.UpdateValue(!b)
					num := "0"
					if b {
						num = "1"
					}
					nb := fmt.Sprintf(`{"characteristics":[{"aid":%d,"iid":%d,"value":%s}]}`, acc.ID, ch.ID, num)
					st2, _, _, pm2 := f.Do(addr, "PUT", "/characteristics", "application/hap+json", []byte(nb))
					if pm2 != "" || st2 != 204 || (ch.IsReadable() && !sameGoValue(ch.Value, v)) {
						c.Violate("value written by a verified controller is not what the application reads", id,
							map[string]interface{}{"constructor": e.Name, "format": ch.Format, "value_as_sent": "the JSON number " + num}, fmt.Sprint(v), fmt.Sprintf("status %d, %T %v %s", st2, ch.Value, ch.Value, pm2))
					}
					ch.UpdateValue(other)
					cbVals = nil
					f.Do(addr, "PUT", "/characteristics", "application/hap+json", []byte(body))
				}
				if n, isInt := v.(int); isInt {
					// a JSON number has no integer / fraction distinction: 7, 7.0, 7e0 and 0.7e1 are one value,
					// and controllers (JavaScript ones above all) do send integers in the other spellings
					spell := []string{fmt.Sprintf("%d.0", n), fmt.Sprintf("%de0", n), fmt.Sprintf("%d.00E+0", n)}
					if n != 0 && n%10 == 0 {
						spell = append(spell, fmt.Sprintf("%de1", n/10), fmt.Sprintf("%d.0e+01", n/10))
					}
					num := spell[r.Intn(len(spell))]
					ch.UpdateValue(other)
					nb := fmt.Sprintf(`{"characteristics":[{"aid":%d,"iid":%d,"value":%s}]}`, acc.ID, ch.ID, num)
					st2, _, _, pm2 := f.Do(addr, "PUT", "/characteristics", "application/hap+json", []byte(nb))
					if pm2 != "" || st2 != 204 || (ch.IsReadable() && !sameGoValue(ch.Value, v)) {
						c.Violate("value written by a verified controller is not what the application reads", id,
							map[string]interface{}{"constructor": e.Name, "format": ch.Format, "value_as_sent": "the JSON number " + num}, fmt.Sprint(v), fmt.Sprintf("status %d, %T %v %s", st2, ch.Value, ch.Value, pm2))
					}
					c.Count(fmt.Sprint(e.Name, "/put-spelling/", num), true, "values:put:int-spelling")
					ch.UpdateValue(other)
					cbVals = nil
					f.Do(addr, "PUT", "/characteristics", "application/hap+json", []byte(body))
				}
				if changed && (len(cbVals) != 1 || !sameGoValue(cbVals[0], v)) {
					c.Violate("remote-update callback did not receive the written value exactly once", id, desc, fmt.Sprint(v), fmt.Sprint(cbVals))
				}
				if !changed && len(cbVals) != 0 {
					c.Violate("remote-update callback invoked although the value did not change", id, desc, "no call", fmt.Sprint(cbVals))
				}
				c.Count(fmt.Sprint(e.Name, "/put/", v), changed, "values:put:"+cc.Wrapper)
			}
			results[ci]++
		}
		c.Trace()
	})
}

// ---- (C) end to end ---------------------------------------------------------------------------------------------

func c09EndToEnd(c *Ctx) {
	for i := 0; i < c.Pick(1, 14); i++ {
		id := c.CaseID("e2e", i)
		if c.Skip(id) {
			continue
		}
		r := c.CaseRng("e2e", i)
		n := 40 + r.Intn(20)
		if c.Thorough() && i%2 == 1 {
			n = 150
		}
		accs := c09Accessories(r, n)
		bridge := accessory.NewBridge(accessory.Info{Name: "Bridge"})
		acc, err := startE2E(c.ScratchDir(), "00102003", false, bridge.Accessory, accs...)
		if err != nil {
			c.Violate("transport does not start", id, n, "started", err.Error())
			continue
		}
		func() {
			defer acc.Stop()
			ident := newRefIdentity(r, "ctrl-1")
			cl, err := acc.Dial()
			if err != nil {
				c.Violate("cannot connect", id, n, "connect", err.Error())
				return
			}
			defer cl.Close()
			sr := refPairSetup(r, cl.Post(), "001-02-003", ident)
			vr := refPairVerify(r, cl.Post(), ident, sr.AccLTPK)
			if sr.ErrAt != "" || vr.Shared == nil {
				c.Violate("reference controller cannot pair and verify", id, n, "verified", sr.ErrAt+" "+vr.ErrAt)
				return
			}
			cl.Upgrade(vr.Shared)
			// the application changes some values first
			all := append([]*accessory.Accessory{bridge.Accessory}, accs...)
			for k := 0; k < 20; k++ {
				a := all[r.Intn(len(all))]
				a.Info.Name.SetValue(fmt.Sprintf("renamed %d \"x\" <y> 𝄞 %s", k, strings.Repeat("n", r.Intn(300))))
			}
			want, _ := json.Marshal(struct {
				Accessories []*accessory.Accessory `json:"accessories"`
			}{all})
			m, err := cl.Do("GET", "/accessories", "", nil)
			if err != nil || m.Status != 200 {
				c.Violate("/accessories of a bridge is not served to a verified controller", id, n, "200", fmt.Sprint(err, m))
				return
			}
			if !jsonEqual(bytes.TrimSpace(m.Body), want) {
				c.Violate("decrypted /accessories answer differs from the accessory's attribute database", id, n, trunc(string(want), 200), trunc(string(m.Body), 200))
			}
			c.Extra(fmt.Sprintf("e2e_%d_body_bytes", i), len(m.Body))
			c.Count(fmt.Sprint("e2e/", n), true, fmt.Sprintf("e2e:accessories<=%d", bucketLen2(n)), fmt.Sprintf("e2e:chunks>=%d", len(m.Body)/2048))
			// a PUT whose body spans several session frames (a scene: many writes in one request), then read back
			type wref struct {
				aid uint64
				ch  *characteristic.Characteristic
			}
			var targets []wref
			for _, a := range all {
				for _, sv := range a.GetServices() {
					for _, ch := range sv.GetCharacteristics() {
						if ch.Format == characteristic.FormatBool && ch.IsWritable() && ch.IsReadable() {
							targets = append(targets, wref{a.ID, ch})
						}
					}
				}
			}
			for _, want := range []bool{true, false} {
				var ents []string
				for k, t := range targets {
					ents = append(ents, fmt.Sprintf(`{"aid":%d,"iid":%d,"value":%v}`, t.aid, t.ch.ID, want != (k%2 == 1)))
				}
				body := `{"characteristics":[` + strings.Join(ents, ",") + `]}`
				m, err := cl.Do("PUT", "/characteristics", "application/hap+json", []byte(body))
				if err != nil || m.Status != 204 {
					c.Violate("PUT of valid values spanning several session frames is not accepted", id, fmt.Sprintf("%d writes, body %d bytes", len(targets), len(body)), "204", fmt.Sprint(err, m))
					return
				}
				for k, t := range targets {
					if want := want != (k%2 == 1); t.ch.Value != want {
						c.Violate("value written by a verified controller is not what the application reads", id,
							fmt.Sprintf("PUT of %d writes (%d bytes): characteristic %d.%d", len(targets), len(body), t.aid, t.ch.ID), fmt.Sprint(want), fmt.Sprint(t.ch.Value))
						break
					}
				}
				c.Count(fmt.Sprint("e2e/put/", len(body), want), true, fmt.Sprintf("e2e:put-bytes<=%d", bucketLen2(len(body))))
			}
			// a controller that does not wait: a write, and the first bytes of the frame that carries the next write, arrive
			// together; the rest of that frame only after the first write was answered. Both writes reach the application.
			if len(targets) >= 2 {
				for _, cut := range []int{1, 2, 3, 19} {
					t1, t2 := targets[r.Intn(len(targets))], targets[r.Intn(len(targets))]
					w1, w2 := t1.ch.Value != true, t2.ch.Value != true
					if t1 == t2 {
						w2 = !w1
					}
					mk := func(t wref, v bool) []byte {
						b := fmt.Sprintf(`{"characteristics":[{"aid":%d,"iid":%d,"value":%v}]}`, t.aid, t.ch.ID, v)
						return cl.sess.Encrypt([]byte(fmt.Sprintf("PUT /characteristics HTTP/1.1\r\nHost: acc.local\r\nContent-Type: application/hap+json\r\nContent-Length: %d\r\n\r\n%s", len(b), b)))
					}
					a, b := mk(t1, w1), mk(t2, w2)
					cl.conn.Write(append(append([]byte{}, a...), b[:cut]...))
					ma, err := cl.next(cl.timeout)
					var mb *refMsg
					if err == nil && ma != nil {
						time.Sleep(3 * time.Millisecond)
						cl.conn.Write(b[cut:])
						mb, err = cl.next(cl.timeout)
					}
					in := map[string]interface{}{"two_writes": "the second one's frame starts in the segment that ends the first request", "bytes_of_the_second_frame_sent_early": cut}
					if err != nil || ma == nil || mb == nil || ma.Status != 204 || mb.Status != 204 {
						c.Violate("a write of a verified controller whose frame began before the previous request was answered is lost (no answer; the connection is gone)", id, in, "204 and 204", fmt.Sprint(err, ma, mb))
						return
					}
					if t2.ch.Value != w2 || (t1 != t2 && t1.ch.Value != w1) {
						c.Violate("value written by a verified controller is not what the application reads", id, in, fmt.Sprint(w1, w2), fmt.Sprint(t1.ch.Value, t2.ch.Value))
					}
					c.Count(fmt.Sprint("e2e/straddle/", i, cut), true, "e2e:straddling-write")
				}
			}
			// a GET for many ids over the encrypted session
			var ids []string
			for _, a := range all[:min(len(all), 30)] {
				ids = append(ids, fmt.Sprintf("%d.%d", a.ID, a.Info.Name.ID), fmt.Sprintf("%d.%d", a.ID, a.Info.Identify.ID))
			}
			m, err = cl.Do("GET", "/characteristics?id="+strings.Join(ids, ","), "", nil)
			if err != nil || m.Status != 207 {
				c.Violate("multi-status GET over the encrypted session", id, n, "207", fmt.Sprint(err, m))
				return
			}
			es, ok := parseGetBody(m.Body)
			if !ok || len(es) != len(ids) {
				c.Violate("GET /characteristics does not answer each requested id exactly once", id, ids, fmt.Sprint(len(ids)), trunc(string(m.Body), 300))
				return
			}
			for j, e := range es {
				if e.Status == nil {
					c.Violate("multi-status answer has an entry without status", id, ids, "status on every entry", fmt.Sprintf("entry %d", j))
					break
				}
				if j%2 == 0 && (!e.hasVal || e.Value != all[j/2].Info.Name.GetValue()) {
					c.Violate("GET /characteristics does not return the value the application set", id, ids[j], all[j/2].Info.Name.GetValue(), fmt.Sprint(e.Value))
				}
			}
			c.Trace()
		}()
	}
}

// ---- (D) scenes: one PUT that writes several characteristics of different formats with different values ----------------

// c09Scenes: 2-8 writable characteristics of mixed formats in one accessory; one PUT /characteristics carries one entry
// per characteristic, each with its own valid value (sometimes with an "ev" member in the same entry, sometimes followed
// by an ev-only entry). Every characteristic must end up with ITS value and its remote-update callback must have
// received exactly that value.
func c09Scenes(c *Ctx) {
	var writable []ctorEntry
	for _, e := range allCharacteristicCtors {
		if cc, _ := newCtorCase(e); cc != nil && cc.C.IsWritable() && cc.C.IsReadable() {
			writable = append(writable, e)
		}
	}
	n := c.Pick(40, 1500)
	parallel(n, func(i int) {
		id := c.CaseID("scene", i)
		if c.Skip(id) {
			return
		}
		r := c.CaseRng("scene", i)
		acc := accessory.New(accessory.Info{Name: "Scene"}, accessory.TypeOther)
		svc := service.New("F00D")
		type tgt struct {
			cc   *charCase
			want interface{}
			cb   []interface{}
			ev   string
		}
		var ts []*tgt
		for k := 0; k < 2+r.Intn(7); k++ {
			cc, _ := newCtorCase(writable[r.Intn(len(writable))])
			svc.AddCharacteristic(cc.C)
			ts = append(ts, &tgt{cc: cc})
		}
		acc.AddService(svc)
		f, addr, err := verifiedFixture(c, []*accessory.Accessory{acc})
		if err != nil {
			c.Violate("C09 fixture cannot be built", id, nil, "fixture", err.Error())
			return
		}
		defer f.Close()
		var ents, descr []string
		for _, t := range ts {
			t := t
			vals := c09ValuesFor(r, t.cc.C, t.cc.Wrapper, false)
			t.cc.C.UpdateValue(vals[0]) // start from one valid value …
			t.want = vals[r.Intn(len(vals))]
			t.cc.C.OnValueUpdateFromConn(func(_ net.Conn, _ *characteristic.Characteristic, nv, _ interface{}) { t.cb = append(t.cb, nv) })
			jb, _ := json.Marshal(t.want)
			e := fmt.Sprintf(`{"aid":%d,"iid":%d,"value":%s`, acc.ID, t.cc.C.ID, jb)
			if t.cc.C.IsObservable() && r.Intn(4) == 0 {
				t.ev = []string{"true", "false"}[r.Intn(2)]
				e += `,"ev":` + t.ev
			}
			ents = append(ents, e+"}")
			descr = append(descr, fmt.Sprintf("%s(%s)=%s", t.cc.Desc, t.cc.C.Format, trunc(string(jb), 40)))
		}
		if r.Intn(3) == 0 { // an ev-only entry at the end (for the first observable target)
			for _, t := range ts {
				if t.cc.C.IsObservable() {
					ents = append(ents, fmt.Sprintf(`{"aid":%d,"iid":%d,"ev":true}`, acc.ID, t.cc.C.ID))
					descr = append(descr, t.cc.Desc+":ev")
					t.ev = "true" // the later entry of the same request has the last word
					break
				}
			}
		}
		prev := make([]interface{}, len(ts))
		for k, t := range ts {
			prev[k] = t.cc.C.Value
		}
		body := `{"characteristics":[` + strings.Join(ents, ",") + `]}`
		st, resp, _, pmsg := f.Do(addr, "PUT", "/characteristics", "application/hap+json", []byte(body))
		if pmsg != "" || st != 204 {
			c.Violate("PUT of valid values by a verified controller is not accepted", id, descr, "204", fmt.Sprint(st, " ", trunc(string(resp), 200), pmsg))
			return
		}
		nontrivial := false
		seen := map[uint64]int{}
		for k, t := range ts {
			seen[t.cc.C.ID] = k
		}
		for k, t := range ts {
			if seen[t.cc.C.ID] != k {
				continue
			}
			if !sameGoValue(t.cc.C.Value, t.want) {
				c.Violate("value written by a verified controller is not what the application reads", id,
					map[string]interface{}{"entries": descr, "characteristic": t.cc.Desc}, fmt.Sprint(t.want), fmt.Sprintf("%T %v", t.cc.C.Value, t.cc.C.Value))
				return
			}
			changed := !sameGoValue(prev[k], t.want) || t.cc.Same
			if changed {
				nontrivial = true
			}
			if changed && (len(t.cb) != 1 || !sameGoValue(t.cb[0], t.want)) {
				c.Violate("remote-update callback did not receive the written value exactly once", id,
					map[string]interface{}{"entries": descr, "characteristic": t.cc.Desc}, fmt.Sprint(t.want), fmt.Sprint(t.cb))
				return
			}
			if !changed && len(t.cb) != 0 {
				c.Violate("remote-update callback invoked although the value did not change", id, map[string]interface{}{"entries": descr, "characteristic": t.cc.Desc}, "no call", fmt.Sprint(t.cb))
				return
			}
			if t.ev != "" {
				if sub := f.Session(addr).IsSubscribedTo(t.cc.C); sub != (t.ev == "true") {
					c.Violate("an entry carrying both a value and \"ev\" does not change the subscription", id,
						map[string]interface{}{"entries": descr, "characteristic": t.cc.Desc, "ev": t.ev}, t.ev, fmt.Sprint(sub))
					return
				}
			}
		}
		c.Count(strings.Join(descr, ";"), nontrivial, "stream:scene", fmt.Sprintf("scene:entries=%d", len(ents)))
	})
}

// ---- (E) an answer that is still being written while another request is answered ----------------------------------------

// nestWriter serves another request, completely and on the same goroutine, from inside its k-th Write call: what a
// second controller's request does to the first controller's answer when it is scheduled in the middle of the chunked
// write-out (same goroutine ⇒ same processor-local caches, so interference is deterministic, not a matter of luck).
type nestWriter struct {
	h      http.Header
	code   int
	buf    bytes.Buffer
	writes int
	at     int
	nested func()
}

func (w *nestWriter) Header() http.Header { return w.h }
func (w *nestWriter) WriteHeader(c int)   { w.code = c }
func (w *nestWriter) Write(b []byte) (int, error) {
	w.writes++
	if w.writes == w.at && w.nested != nil {
		f := w.nested
		w.nested = nil
		f()
	}
	return w.buf.Write(b)
}

func c09Nested(c *Ctx) {
	for i := 0; i < c.Pick(12, 300); i++ {
		id := c.CaseID("nested", i)
		if c.Skip(id) {
			continue
		}
		r := c.CaseRng("nested", i)
		// an accessory with several long string values (the answer takes several 2048-byte chunks)
		acc := accessory.New(accessory.Info{Name: "N"}, accessory.TypeOther)
		svc := service.New("F00E")
		var ids []string
		want := map[uint64]string{}
		var chars []*characteristic.String
		for k := 0; k < 3+r.Intn(5); k++ {
			s := characteristic.NewString(fmt.Sprintf("F2%02X", k))
			s.Perms = characteristic.PermsRead()
			svc.AddCharacteristic(s.Characteristic)
			chars = append(chars, s)
		}
		acc.AddService(svc)
		f, addr, err := verifiedFixture(c, []*accessory.Accessory{acc})
		if err != nil {
			c.Violate("C09 fixture cannot be built", id, nil, "fixture", err.Error())
			continue
		}
		for k, s := range chars {
			v := strings.Repeat(string(rune('a'+k)), 500+r.Intn(3000))
			s.SetValue(v)
			want[s.ID] = v
			ids = append(ids, fmt.Sprintf("%d.%d", acc.ID, s.ID))
		}
		// a second verified connection
		addr2 := "10.0.9.77:4000"
		f.Session(addr2)
		sec, _ := crypto.NewSecureSessionFromSharedKey([32]byte{9})
		f.Session(addr2).SetCryptographer(sec)
		responseWritten(f.ctx, f.raw[addr2])
		kind := []string{"characteristics", "accessories", "one"}[r.Intn(3)]
		nw := &nestWriter{h: http.Header{}, code: 200, at: 1 + r.Intn(3)}
		nw.nested = func() {
			switch kind {
			case "characteristics":
				rev := append([]string{}, ids...)
				for a, b := 0, len(rev)-1; a < b; a, b = a+1, b-1 {
					rev[a], rev[b] = rev[b], rev[a]
				}
				f.Do(addr2, "GET", "/characteristics?id="+strings.Join(rev, ","), "", nil)
			case "accessories":
				f.Do(addr2, "GET", "/accessories", "", nil)
			default:
				f.Do(addr2, "GET", "/characteristics?id="+ids[len(ids)-1], "", nil)
			}
		}
		req := withLocal(httptest.NewRequest("GET", "/characteristics?id="+strings.Join(ids, ","), nil))
		req.RemoteAddr = addr
		msg, pan := safely(func() { f.server.Mux.ServeHTTP(nw, req) })
		in := map[string]interface{}{"ids": len(ids), "another_request_answered_inside_write_call": nw.at, "other_request": kind, "answer_bytes": nw.buf.Len()}
		if pan {
			c.Violate("GET /characteristics panics", id, in, "answer", msg)
			f.Close()
			continue
		}
		es, ok := parseGetBody(bytes.TrimSpace(nw.buf.Bytes()))
		bad := !ok || len(es) != len(ids)
		for k := 0; !bad && k < len(es); k++ {
			if v, _ := es[k].Value.(string); es[k].Iid != chars[k].ID || v != want[chars[k].ID] {
				bad = true
			}
		}
		if bad {
			c.Violate("GET /characteristics does not return the value the application set (another controller's request was answered while this answer was being written)", id, in,
				fmt.Sprintf("%d entries with the values set", len(ids)), trunc(nw.buf.String(), 200))
		}
		c.Count(fmt.Sprint("nested/", len(ids), nw.at, kind), nw.writes >= nw.at, "stream:nested", "nested:"+kind)
		f.Close()
	}
}
