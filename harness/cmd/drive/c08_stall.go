package main

import (
	"bytes"
	gocontext "context"
	"fmt"
	"net"
	"runtime"
	"strings"
	"sync"
	"sync/atomic"
	"time"

	"github.com/brutella/hc/crypto"
	"github.com/brutella/hc/hap"
)

// c08StalledPeer: a controller that reads slowly (a few bytes, a pause, then everything) while the application
// writes a payload of many frames and the real hap.KeepAlive ticks at a short interval. The transport is net.Pipe,
// which has deadlines like a socket and hands a blocked Write's bytes over in pieces: whatever a writer does to the
// shared connection while another writer is waiting for the peer (deadlines, closing, writing around the lock) shows
// up as a torn frame. Afterwards every frame must authenticate in order, the payload must be there intact and
// contiguous, and the rest of the stream must be whole keep-alive events.
func c08StalledPeer(c *Ctx) {
	n := c.Pick(2, 10)
	for k := 0; k < n && c.NumViolations() < 3; k++ {
		id := c.CaseID("stalled-peer", k)
		if c.Skip(id) {
			continue
		}
		r := c.CaseRng("stalled-peer", k)
		a, b := net.Pipe()
		ctx := hap.NewContextForSecuredDevice(nil)
		ac := &addrConn{Conn: a, remote: fakeAddr(fmt.Sprintf("10.8.0.%d:%d", k+1, 6000+k))}
		conn := hap.NewConnection(ac, ctx)
		var shared [32]byte
		copy(shared[:], randBytes(r, 32))
		sec, _ := crypto.NewSecureSessionFromSharedKey(shared)
		ctx.GetSessionForConnection(ac).SetCryptographer(sec)
		responseWritten(ctx, ac)
		peer := newRefControllerSession(shared[:])

		size := []int{5000, 20000, 70000}[r.Intn(3)] + r.Intn(1024)
		payload := randBytes(r, size)
		interval := time.Duration(40+r.Intn(40)) * time.Millisecond
		stall := 5*interval + time.Duration(r.Intn(100))*time.Millisecond
		firstGulp := 1 + r.Intn(3000)

		kctx, cancel := gocontext.WithCancel(gocontext.Background())
		go hap.NewKeepAlive(interval, ctx).Start(kctx)

		var wg sync.WaitGroup
		var writeErr error
		var wrote int
		writeDone := make(chan struct{})
		wg.Add(1)
		go func() {
			defer wg.Done()
			defer close(writeDone)
			wrote, writeErr = conn.Write(payload)
		}()

		// the peer: a first gulp, a pause of several keep-alive intervals, then everything until the payload's write is
		// done and the stream has been quiet for two intervals
		var wire []byte
		buf := make([]byte, 65536)
		b.SetReadDeadline(time.Now().Add(2 * time.Second))
		if m, err := b.Read(buf[:firstGulp]); err == nil {
			wire = append(wire, buf[:m]...)
		}
		time.Sleep(stall)
		deadline := time.Now().Add(15 * time.Second)
		finished := false
		for time.Now().Before(deadline) {
			b.SetReadDeadline(time.Now().Add(2 * interval))
			m, err := b.Read(buf)
			wire = append(wire, buf[:m]...)
			if err != nil {
				if finished {
					break
				}
				if ne, ok := err.(net.Error); !ok || !ne.Timeout() {
					break
				}
			}
			select {
			case <-writeDone:
				if !finished {
					finished = true
					cancel() // no more keep-alives: drain what is on its way
				}
			default:
			}
		}
		cancel()
		b.Close()
		conn.Close()
		wg.Wait()

		in := map[string]interface{}{"payload_bytes": size, "keep_alive_interval_ms": interval.Milliseconds(), "peer_reads_first": firstGulp, "peer_pauses_ms": stall.Milliseconds()}
		pt, used, ok := peer.DecryptFrames(wire)
		switch {
		case !ok:
			c.Violate("C08 stalled peer: a frame does not authenticate after the peer paused while a payload was being written and the keep-alive ticked", id, in, "every frame authenticates in order",
				fmt.Sprintf("%d plaintext bytes decrypt, then the frame at wire offset %d of %d fails (payload Write returned n=%d err=%v)", len(pt), used, len(wire), wrote, writeErr))
		case writeErr == nil && wrote == len(payload):
			i := bytes.Index(pt, payload)
			if i < 0 {
				c.Violate("C08 stalled peer: a payload whose Write succeeded did not reach the peer intact and contiguous", id, in, "the payload, whole", fmt.Sprintf("%d plaintext bytes without it", len(pt)))
				break
			}
			rest := append(append([]byte{}, pt[:i]...), pt[i+len(payload):]...)
			ka := []byte("EVENT/1.0 200 OK\r\n")
			for len(rest) > 0 {
				j := bytes.Index(rest, []byte("\r\n\r\n"))
				if !bytes.HasPrefix(rest, ka) || j < 0 {
					c.Violate("C08 stalled peer: something other than whole keep-alive events surrounds the payload", id, in, "EVENT/1.0 200 OK … messages", fmt.Sprintf("%q", trunc(string(rest), 80)))
					break
				}
				rest = rest[j+4:]
			}
		default:
			// the write was refused as a whole (e.g. the run was too slow and the connection was closed): nothing to compare
		}
		c.Count(id, ok, "stream:stalled-peer", fmt.Sprintf("stalled-peer:write-ok=%v", writeErr == nil))
	}
}

// c08QueuedEvents: events written from several goroutines while a request of that connection is being served (net/http
// reports StateActive → SetServing(true), and StateIdle after the response → SetServing(false)). While the request is
// served nothing but the response reaches the socket; afterwards every event that was handed to WriteEvent (it returned
// success) arrives exactly once, whole, in frames that authenticate in order.
func c08QueuedEvents(c *Ctx) { queuedEvents(c, "C08") }

func queuedEvents(c *Ctx, who string) {
	for i := 0; i < c.Pick(6, 60); i++ {
		id := c.CaseID("queued-events", i)
		if c.Skip(id) {
			continue
		}
		r := c.CaseRng("queued-events", i)
		raw := &sinkConn{remote: fakeAddr(fmt.Sprintf("10.8.1.%d:%d", i%250+1, 7000+i))}
		ctx := hap.NewContextForSecuredDevice(nil)
		conn := hap.NewConnection(raw, ctx)
		var shared [32]byte
		copy(shared[:], randBytes(r, 32))
		sec, _ := crypto.NewSecureSessionFromSharedKey(shared)
		ctx.GetSessionForConnection(raw).SetCryptographer(sec)
		responseWritten(ctx, raw)
		peer := newRefControllerSession(shared[:])
		writers, per := 2+r.Intn(7), 10+r.Intn(40)
		mk := func(w, k int) []byte {
			return []byte(fmt.Sprintf("EVENT/1.0 200 OK\r\nX: w%02dk%03d %s\r\n\r\n", w, k, strings.Repeat("e", w*7+k%50)))
		}
		var wg sync.WaitGroup
		start := make(chan struct{})
		var failed int64
		for w := 0; w < writers; w++ {
			wg.Add(1)
			go func(w int) {
				defer wg.Done()
				<-start
				var own []byte // every second writer keeps ONE buffer for its events and fills it again after each call
				for k := 0; k < per; k++ {
					ev := mk(w, k)
					if w%2 == 0 {
						own = append(own[:0], ev...)
						ev = own
					}
					if n, err := conn.WriteEvent(ev); err != nil || n != len(mk(w, k)) {
						atomic.AddInt64(&failed, 1)
					}
					if k%7 == 0 {
						runtime.Gosched()
					}
				}
			}(w)
		}
		size := func() int { raw.mu.Lock(); defer raw.mu.Unlock(); return len(raw.out) }
		close(start)
		response := []byte("HTTP/1.1 204 No Content\r\n\r\n")
		duringServing := ""
		requests := 0
		for ; requests < 40; requests++ {
			conn.SetServing(true) // a request arrives
			before := size()
			time.Sleep(time.Duration(r.Intn(300)) * time.Microsecond) // the handler runs
			if after := size(); after != before && duringServing == "" {
				duringServing = fmt.Sprintf("request %d: %d bytes reached the socket while the request was being served, before its response", requests, after-before)
			}
			conn.Write(response)
			conn.SetServing(false)
		}
		wg.Wait()
		// every WriteEvent has returned and no request is being served: everything is on the wire — a listening controller
		// does not send another request to get the events that were kept back
		in := map[string]interface{}{"event_writers": writers, "events_each": per, "requests_served_meanwhile": requests}
		if duringServing != "" {
			c.Violate("an event is written while a request of the connection is being served (between the request and its response)", id, in, "events are kept back until the response was written", duringServing)
		}
		pt, _, ok := peer.DecryptFrames(raw.out)
		if !ok {
			c.Violate("C08 queued events: a frame does not authenticate", id, in, "every frame authenticates in order", fmt.Sprintf("after %d plaintext bytes", len(pt)))
			continue
		}
		text := strings.Replace(string(pt), string(response), "", -1)
		missing, dup := 0, 0
		for w := 0; w < writers; w++ {
			for k := 0; k < per; k++ {
				switch n := strings.Count(text, string(mk(w, k))); {
				case n == 0:
					missing++
				case n > 1:
					dup++
				}
			}
		}
		if (missing > 0 || dup > 0) && failed == 0 {
			c.Violate(who+": an event handed to a connection while a request was being served is lost, duplicated or kept back after the response", id, in,
				fmt.Sprintf("%d events, each exactly once", writers*per), fmt.Sprintf("%d missing, %d duplicated", missing, dup))
		}
		c.Count(id, true, "stream:queued-events", fmt.Sprintf("queued-events:writers=%d", writers))
	}
}

// c08EventInFlight: an event whose socket write is still in progress (a slow controller) when the next request of that
// connection arrives. The connection must not be reported as "serving a request" (after which the response — possibly
// the one that switches keys — is written) until that event is completely on the wire: forced with a gate inside the
// scripted socket's Write.
func c08EventInFlight(c *Ctx) {
	id := "event-in-flight#0"
	if c.Skip(id) {
		return
	}
	r := c.CaseRng("event-in-flight", 0)
	raw := newHoConn()
	ctx := hap.NewContextForSecuredDevice(nil)
	conn := hap.NewConnection(raw, ctx)
	var shared [32]byte
	copy(shared[:], randBytes(r, 32))
	sec, _ := crypto.NewSecureSessionFromSharedKey(shared)
	ctx.GetSessionForConnection(raw).SetCryptographer(sec)
	responseWritten(ctx, raw)
	gate := make(chan struct{})
	raw.mu.Lock()
	raw.gate = gate
	raw.mu.Unlock()
	evDone := make(chan struct{})
	go func() { defer close(evDone); conn.WriteEvent([]byte("EVENT/1.0 200 OK\r\n\r\n")) }()
	select {
	case <-raw.entered: // the event's socket write has begun and is held
	case <-time.After(2 * time.Second):
		c.Mismatch("event-in-flight", id, nil, "the event reaches the socket", "it does not")
		close(gate)
		return
	}
	served := make(chan struct{})
	go func() { defer close(served); conn.SetServing(true) }()
	early := false
	select {
	case <-served:
		early = true
	case <-time.After(150 * time.Millisecond):
	}
	close(gate)
	<-evDone
	select {
	case <-served:
	case <-time.After(2 * time.Second):
		c.Violate("a connection never starts serving a request that arrived while an event was being written", id, nil, "serving after the event is on the wire", "blocked")
	}
	if early {
		c.Violate("a request is taken up (its response may be written) while an event of the same connection is still on its way to the socket", id,
			map[string]interface{}{"order": "WriteEvent reaches the socket and is held; a request arrives (SetServing(true))"}, "the request waits until the event is written completely", "SetServing(true) returned while the event's socket write was pending")
	}
	conn.SetServing(false)
	raw.Close()
	c.Count(id, true, "stream:event-in-flight")
}

// eventDuringFlush: the response of a request has been written and the events that were kept back are being written out
// (the first one is held inside the socket's Write: a slow controller) when a new event is reported. It must reach the
// controller too — after the older ones, without waiting for the controller's next request.
func eventDuringFlush(c *Ctx, who string) {
	id := "event-during-flush#0"
	if c.Skip(id) {
		return
	}
	r := c.CaseRng("event-during-flush", 0)
	raw := newHoConn()
	ctx := hap.NewContextForSecuredDevice(nil)
	conn := hap.NewConnection(raw, ctx)
	var shared [32]byte
	copy(shared[:], randBytes(r, 32))
	sec, _ := crypto.NewSecureSessionFromSharedKey(shared)
	ctx.GetSessionForConnection(raw).SetCryptographer(sec)
	responseWritten(ctx, raw)
	peer := newRefControllerSession(shared[:])
	e1, e2 := []byte("EVENT/1.0 200 OK\r\nX: kept-back\r\n\r\n"), []byte("EVENT/1.0 200 OK\r\nX: reported-during-the-flush\r\n\r\n")
	conn.SetServing(true)
	conn.WriteEvent(e1)
	conn.Write([]byte("HTTP/1.1 204 No Content\r\n\r\n"))
	gate := make(chan struct{})
	raw.mu.Lock()
	raw.gate = gate
	raw.mu.Unlock()
	flushed, reported := make(chan struct{}), make(chan struct{})
	go func() { defer close(flushed); conn.SetServing(false) }()
	select {
	case <-raw.entered:
	case <-time.After(2 * time.Second):
		c.Mismatch("event-during-flush", id, nil, "the kept-back event reaches the socket after the response", "it does not")
		close(gate)
		return
	}
	go func() { defer close(reported); conn.WriteEvent(e2) }()
	time.Sleep(100 * time.Millisecond)
	raw.mu.Lock()
	raw.gate = nil
	raw.mu.Unlock()
	close(gate)
	for _, ch := range []chan struct{}{flushed, reported} {
		select {
		case <-ch:
		case <-time.After(3 * time.Second):
			c.Violate(who+": reporting an event while kept-back events are written out blocks for good", id, nil, "both calls return", "blocked")
			return
		}
	}
	time.Sleep(20 * time.Millisecond)
	raw.mu.Lock()
	var wire []byte
	for _, o := range raw.out {
		wire = append(wire, o...)
	}
	raw.mu.Unlock()
	pt, _, ok := peer.DecryptFrames(wire)
	i1, i2 := bytes.Index(pt, e1), bytes.Index(pt, e2)
	if !ok || i1 < 0 || i2 < i1 {
		c.Violate(who+": an event handed to a connection while a request was being served is lost, duplicated or kept back after the response", id,
			map[string]interface{}{"order": "request served; event 1 kept back; response; event 1 is being written (held); event 2 reported; event 1 completes"}, "event 1, then event 2, on the wire", fmt.Sprintf("authenticated=%v event1@%d event2@%d", ok, i1, i2))
	}
	raw.Close()
	c.Count(id, true, "stream:event-during-flush")
}
