package main

import (
	"bytes"
	gocontext "context"
	"fmt"
	"net"
	"sync"
	"time"

	"github.com/brutella/hc/crypto"
	"github.com/brutella/hc/hap"
)

// c08StalledPeer: a controller that reads slowly (a few bytes, a pause, then everything) while the application
// writes a payload of many frames and the real hap.KeepAlive ticks at a short interval. The transport is net.Pipe,
// which has deadlines like a socket and hands a blocked Write's bytes over in pieces: whatever a writer does to the
// shared connection while another writer is waiting for the peer (deadlines, closing, writing around the lock) shows
// up as a torn frame. Afterwards every frame must authenticate in order, the payload must be there intact and
// contiguous, and the rest of the stream must be whole keep-alive events.
func c08StalledPeer(c *Ctx) {
	n := c.Pick(2, 10)
	for k := 0; k < n && c.NumViolations() < 3; k++ {
		id := c.CaseID("stalled-peer", k)
		if c.Skip(id) {
			continue
		}
		r := c.CaseRng("stalled-peer", k)
		a, b := net.Pipe()
		ctx := hap.NewContextForSecuredDevice(nil)
		ac := &addrConn{Conn: a, remote: fakeAddr(fmt.Sprintf("10.8.0.%d:%d", k+1, 6000+k))}
		conn := hap.NewConnection(ac, ctx)
		var shared [32]byte
		copy(shared[:], randBytes(r, 32))
		sec, _ := crypto.NewSecureSessionFromSharedKey(shared)
		ctx.GetSessionForConnection(ac).SetCryptographer(sec)
		responseWritten(ctx, ac)
		peer := newRefControllerSession(shared[:])

		size := []int{5000, 20000, 70000}[r.Intn(3)] + r.Intn(1024)
		payload := randBytes(r, size)
		interval := time.Duration(40+r.Intn(40)) * time.Millisecond
		stall := 5*interval + time.Duration(r.Intn(100))*time.Millisecond
		firstGulp := 1 + r.Intn(3000)

		kctx, cancel := gocontext.WithCancel(gocontext.Background())
		go hap.NewKeepAlive(interval, ctx).Start(kctx)

		var wg sync.WaitGroup
		var writeErr error
		var wrote int
		writeDone := make(chan struct{})
		wg.Add(1)
		go func() {
			defer wg.Done()
			defer close(writeDone)
			wrote, writeErr = conn.Write(payload)
		}()

		// the peer: a first gulp, a pause of several keep-alive intervals, then everything until the payload's write is
		// done and the stream has been quiet for two intervals
		var wire []byte
		buf := make([]byte, 65536)
		b.SetReadDeadline(time.Now().Add(2 * time.Second))
		if m, err := b.Read(buf[:firstGulp]); err == nil {
			wire = append(wire, buf[:m]...)
		}
		time.Sleep(stall)
		deadline := time.Now().Add(15 * time.Second)
		finished := false
		for time.Now().Before(deadline) {
			b.SetReadDeadline(time.Now().Add(2 * interval))
			m, err := b.Read(buf)
			wire = append(wire, buf[:m]...)
			if err != nil {
				if finished {
					break
				}
				if ne, ok := err.(net.Error); !ok || !ne.Timeout() {
					break
				}
			}
			select {
			case <-writeDone:
				if !finished {
					finished = true
					cancel() // no more keep-alives: drain what is on its way
				}
			default:
			}
		}
		cancel()
		b.Close()
		conn.Close()
		wg.Wait()

		in := map[string]interface{}{"payload_bytes": size, "keep_alive_interval_ms": interval.Milliseconds(), "peer_reads_first": firstGulp, "peer_pauses_ms": stall.Milliseconds()}
		pt, used, ok := peer.DecryptFrames(wire)
		switch {
		case !ok:
			c.Violate("C08 stalled peer: a frame does not authenticate after the peer paused while a payload was being written and the keep-alive ticked", id, in, "every frame authenticates in order",
				fmt.Sprintf("%d plaintext bytes decrypt, then the frame at wire offset %d of %d fails (payload Write returned n=%d err=%v)", len(pt), used, len(wire), wrote, writeErr))
		case writeErr == nil && wrote == len(payload):
			i := bytes.Index(pt, payload)
			if i < 0 {
				c.Violate("C08 stalled peer: a payload whose Write succeeded did not reach the peer intact and contiguous", id, in, "the payload, whole", fmt.Sprintf("%d plaintext bytes without it", len(pt)))
				break
			}
			rest := append(append([]byte{}, pt[:i]...), pt[i+len(payload):]...)
			ka := []byte("EVENT/1.0 200 OK\r\n")
			for len(rest) > 0 {
				j := bytes.Index(rest, []byte("\r\n\r\n"))
				if !bytes.HasPrefix(rest, ka) || j < 0 {
					c.Violate("C08 stalled peer: something other than whole keep-alive events surrounds the payload", id, in, "EVENT/1.0 200 OK … messages", fmt.Sprintf("%q", trunc(string(rest), 80)))
					break
				}
				rest = rest[j+4:]
			}
		default:
			// the write was refused as a whole (e.g. the run was too slow and the connection was closed): nothing to compare
		}
		c.Count(id, ok, "stream:stalled-peer", fmt.Sprintf("stalled-peer:write-ok=%v", writeErr == nil))
	}
}
