package main

// Reference implementation of the HAP session framing used by the C07 / C08 oracles. It uses
// golang.org/x/crypto and the standard library directly, never hc's wrappers.
//
//   frame  = len(2, little endian) ‖ ChaCha20-Poly1305(key, nonce = 0000 ‖ LE64(counter), ad = len, chunk) ‖ tag(16)
//   keys   = HKDF-SHA-512(shared, salt "Control-Salt", info "Control-Read-Encryption-Key" (accessory → controller)
//                                                         / "Control-Write-Encryption-Key" (controller → accessory))

import (
	"crypto/sha512"
	"encoding/binary"
	"io"
	"regexp"
	"runtime"
	"strconv"

	"golang.org/x/crypto/chacha20poly1305"
	"golang.org/x/crypto/hkdf"
)

func crRefKey(shared [32]byte, info string) []byte {
	k := make([]byte, 32)
	if _, err := io.ReadFull(hkdf.New(sha512.New, shared[:], []byte("Control-Salt"), []byte(info)), k); err != nil {
		panic(err)
	}
	return k
}

// accessory → controller / controller → accessory
func crRefKeys(shared [32]byte) (accToCtl, ctlToAcc []byte) {
	return crRefKey(shared, "Control-Read-Encryption-Key"), crRefKey(shared, "Control-Write-Encryption-Key")
}

func crNonce(ctr uint64) []byte {
	n := make([]byte, 12)
	binary.LittleEndian.PutUint64(n[4:], ctr)
	return n
}

// crSealFrame seals one frame (chunk may be empty: a well-formed frame no hc encrypter emits).
func crSealFrame(key []byte, ctr uint64, chunk []byte) []byte {
	aead, err := chacha20poly1305.New(key)
	if err != nil {
		panic(err)
	}
	hdr := []byte{byte(len(chunk)), byte(len(chunk) >> 8)}
	out := append([]byte{}, hdr...)
	return aead.Seal(out, crNonce(ctr), chunk, hdr)
}

// crSealMessage frames a message like hc's Encrypt: chunks of 1024, consecutive counters. Returns frames and next counter.
func crSealMessage(key []byte, ctr uint64, msg []byte) ([][]byte, uint64) {
	var frames [][]byte
	for len(msg) > 0 {
		n := len(msg)
		if n > 1024 {
			n = 1024
		}
		frames = append(frames, crSealFrame(key, ctr, msg[:n]))
		ctr++
		msg = msg[n:]
	}
	return frames, ctr
}

type crFrame struct {
	Raw   []byte
	Ctr   int    // counter under which it authenticates (-1: none in the searched range)
	Plain []byte // plaintext when Ctr >= 0
}

// crSplitFrames cuts a ciphertext stream into frames by the length prefix; rest = trailing incomplete bytes.
func crSplitFrames(stream []byte) (frames [][]byte, rest []byte) {
	for len(stream) >= 2 {
		n := 2 + int(binary.LittleEndian.Uint16(stream)) + 16
		if len(stream) < n {
			break
		}
		frames = append(frames, stream[:n])
		stream = stream[n:]
	}
	return frames, stream
}

func crOpenFrame(key []byte, ctr uint64, frame []byte) ([]byte, bool) {
	aead, _ := chacha20poly1305.New(key)
	p, err := aead.Open(nil, crNonce(ctr), frame[2:], frame[:2])
	if err != nil {
		return nil, false
	}
	return p, true
}

// crIdentify finds, for every frame of the stream, the counter in [0,maxCtr] under which it authenticates.
func crIdentify(key []byte, stream []byte, maxCtr int) (out []crFrame, rest []byte) {
	frames, rest := crSplitFrames(stream)
	for _, f := range frames {
		cf := crFrame{Raw: f, Ctr: -1}
		for c := 0; c <= maxCtr; c++ {
			if p, ok := crOpenFrame(key, uint64(c), f); ok {
				cf.Ctr, cf.Plain = c, p
				break
			}
		}
		out = append(out, cf)
	}
	return out, rest
}

// ---- goroutine identity / state (used to tell a parked writer from a slow one) ---------------------------

var crGidRe = regexp.MustCompile(`^goroutine (\d+) \[`)

func crGid() int64 {
	var buf [64]byte
	n := runtime.Stack(buf[:], false)
	m := crGidRe.FindSubmatch(buf[:n])
	if m == nil {
		return -1
	}
	id, _ := strconv.ParseInt(string(m[1]), 10, 64)
	return id
}

// crGoroutineState returns the scheduler state of goroutine gid ("running", "runnable", "sync.Mutex.Lock", "chan receive", …).
func crGoroutineState(gid int64) string {
	buf := make([]byte, 1<<16)
	for {
		n := runtime.Stack(buf, true)
		if n < len(buf) {
			buf = buf[:n]
			break
		}
		buf = make([]byte, 2*len(buf))
	}
	re := regexp.MustCompile(`(?m)^goroutine ` + strconv.FormatInt(gid, 10) + ` \[([^\],]+)`)
	m := re.FindSubmatch(buf)
	if m == nil {
		return "gone"
	}
	return string(m[1])
}
