package main

// C08 — concurrent writers on one encrypted hap.Connection.
//
// The real hap.Connection / hap.Context / hap.Session are used. Two public seams give the instrumentation points:
//   * Session.SetCryptographer: a wrapper around the real secure session signals entry to / return from Encrypt,
//   * the net.Conn handed to hap.NewConnection: its Write is the socket.
// forced mode: every writer stops at three points (before Write, inside Encrypt, inside the socket write); a controller
//   decides which stopped writer moves next and thereby enumerates schedules. A writer that was released into Write
//   but does not reach Encrypt within 20 ms while another writer is inside, and whose goroutine is in a wait state,
//   is recorded as parked ("B").
// free mode: no stops, random Gosched/sleep noise at the same points (plus hap.KeepAlive as an additional writer).
// Every observed event trace is given to the Lean model (HcModel/ConnWrite.lean `accept`), which must accept it as one
// of its runs and predict the frames on the socket; the captured stream is decrypted with the reference framing.

import (
	"bytes"
	gocontext "context"
	"fmt"
	"io"
	"io/ioutil"
	"math/rand"
	"net"
	"runtime"
	"sort"
	"strconv"
	"strings"
	"sync"
	"time"

	"github.com/brutella/hc/crypto"
	"github.com/brutella/hc/hap"
)

func init() { register("C08", checkC08) }

type c08Arr struct{ tid, point int }

type c08Chunk struct {
	Tid int
	B   []byte
}

type c08Run struct {
	mu      sync.Mutex
	events  []string
	chunks  []c08Chunk       // socket writes in arrival order
	plains  map[int][][]byte // payloads as seen by Encrypt, per writer
	gids    map[int64]int
	gidOf   map[int]int64
	nextDyn int
	forced  bool
	arrive  chan c08Arr
	resume  []chan struct{}
	noise   []*rand.Rand
	errs    []string
}

func (r *c08Run) tid() int {
	g := crGid()
	r.mu.Lock()
	defer r.mu.Unlock()
	t, ok := r.gids[g]
	if !ok { // a goroutine the harness did not start (keep-alive): next free writer id
		t = r.nextDyn
		r.nextDyn++
		r.gids[g] = t
		r.gidOf[t] = g
	}
	return t
}

func (r *c08Run) log(kind string, tid int) {
	r.mu.Lock()
	r.events = append(r.events, kind+strconv.Itoa(tid))
	r.mu.Unlock()
}

func (r *c08Run) pause(tid, point int) {
	if r.forced {
		r.arrive <- c08Arr{tid, point}
		<-r.resume[tid]
		return
	}
	if tid >= len(r.noise) || r.noise[tid] == nil {
		runtime.Gosched()
		return
	}
	rng := r.noise[tid]
	for k := rng.Intn(4); k > 0; k-- {
		runtime.Gosched()
	}
	if rng.Intn(3) == 0 {
		time.Sleep(time.Duration(rng.Intn(60)) * time.Microsecond)
	}
}

// wrapper around the real secure session
type c08Crypt struct {
	inner crypto.Cryptographer
	run   *c08Run
}

func (w *c08Crypt) Encrypt(rd io.Reader) (io.Reader, error) {
	t := w.run.tid()
	b, _ := ioutil.ReadAll(rd)
	w.run.mu.Lock()
	w.run.plains[t] = append(w.run.plains[t], append([]byte{}, b...))
	w.run.events = append(w.run.events, "E"+strconv.Itoa(t))
	w.run.mu.Unlock()
	w.run.pause(t, 2)
	out, err := w.inner.Encrypt(bytes.NewBuffer(b))
	w.run.log("S", t)
	return out, err
}

func (w *c08Crypt) Decrypt(rd io.Reader) (io.Reader, error) { return w.inner.Decrypt(rd) }

// the socket
type c08Conn struct{ run *c08Run }

type c08Addr string

func (a c08Addr) Network() string { return "tcp" }
func (a c08Addr) String() string  { return string(a) }

func (g *c08Conn) Write(b []byte) (int, error) {
	t := g.run.tid()
	g.run.pause(t, 4)
	g.run.mu.Lock()
	g.run.chunks = append(g.run.chunks, c08Chunk{t, append([]byte{}, b...)})
	g.run.events = append(g.run.events, "K"+strconv.Itoa(t))
	g.run.mu.Unlock()
	return len(b), nil
}
func (g *c08Conn) Read(b []byte) (int, error)         { select {} }
func (g *c08Conn) Close() error                       { return nil }
func (g *c08Conn) LocalAddr() net.Addr                { return c08Addr("10.0.0.1:1") }
func (g *c08Conn) RemoteAddr() net.Addr               { return c08Addr("10.0.0.2:2") }
func (g *c08Conn) SetDeadline(t time.Time) error      { return nil }
func (g *c08Conn) SetReadDeadline(t time.Time) error  { return nil }
func (g *c08Conn) SetWriteDeadline(t time.Time) error { return nil }

type c08Cfg struct {
	Name string
	Lens [][]int // payload lengths per writer
}

func c08Payload(tid, w, n int) []byte {
	r := rand.New(rand.NewSource(int64(tid*131 + w*17 + 1)))
	p := randBytes(r, n)
	for j := 0; j*1024 < n; j++ {
		p[j*1024] = byte(tid<<5 | (w&7)<<2 | j&3)
	}
	return p
}

var c08Shared = [32]byte{1, 2, 3, 4, 5, 6, 7, 8, 9, 10, 11, 12, 13, 14, 15, 16, 17, 18, 19, 20, 21, 22, 23, 24, 25, 26, 27, 28, 29, 30, 31, 32}

type c08Result struct {
	Cfg      c08Cfg
	Taken    []int
	Nopts    []int
	Events   []string
	Chunks   []c08Chunk
	Plains   map[int][][]byte
	Deadlock string
	Errs     []string
	Parked   int
	Dyn      int // writers not started by the harness (keep-alive)
}

func c08Setup(run *c08Run) net.Conn {
	ctx := hap.NewContextForSecuredDevice(nil)
	gate := &c08Conn{run}
	hcConn := hap.NewConnection(gate, ctx)
	sess := ctx.GetSessionForConnection(gate)
	sec, err := crypto.NewSecureSessionFromSharedKey(c08Shared)
	if err != nil {
		panic(err)
	}
	sess.SetCryptographer(&c08Crypt{sec, run})
	responseWritten(ctx, gate) // promotes the cryptographer (hap/session.go)
	return hcConn
}

func (r *c08Run) writer(tid int, conn net.Conn, lens []int, start chan struct{}, wg *sync.WaitGroup) {
	defer wg.Done()
	g := crGid()
	r.mu.Lock()
	r.gids[g] = tid
	r.gidOf[tid] = g
	r.mu.Unlock()
	if start != nil {
		<-start
	}
	for w, n := range lens {
		r.pause(tid, 1)
		var err error
		if hc, ok := conn.(*hap.Connection); ok && !r.forced && tid%3 == 2 {
			// (round 9, C08-r9m2) the exported EncryptedWrite is a writer too: it must take the same lock as Write / WriteEvent
			_, err = hc.EncryptedWrite(c08Payload(tid, w, n))
		} else {
			_, err = conn.Write(c08Payload(tid, w, n))
		}
		r.log("R", tid)
		if err != nil {
			r.mu.Lock()
			r.errs = append(r.errs, fmt.Sprintf("writer %d write %d: %v", tid, w, err))
			r.mu.Unlock()
		}
	}
	if r.forced {
		r.arrive <- c08Arr{tid, 9}
	}
}

const (
	c08Running = iota
	c08P1
	c08Parked
	c08P2
	c08P4
	c08Done
)

// c08Forced runs one schedule: choose(step, nopts) picks which stopped writer moves next.
func c08Forced(cfg c08Cfg, choose func(step, nopts int) int) *c08Result {
	n := len(cfg.Lens)
	run := &c08Run{plains: map[int][][]byte{}, gids: map[int64]int{}, gidOf: map[int]int64{}, nextDyn: n, forced: true,
		arrive: make(chan c08Arr, 4*n+4)}
	for i := 0; i < n; i++ {
		run.resume = append(run.resume, make(chan struct{}, 1))
	}
	conn := c08Setup(run)
	var wg sync.WaitGroup
	for i := 0; i < n; i++ {
		wg.Add(1)
		go run.writer(i, conn, cfg.Lens[i], nil, &wg)
	}
	res := &c08Result{Cfg: cfg}
	pos := make([]int, n)
	absorb := func(a c08Arr) {
		switch a.point {
		case 1:
			pos[a.tid] = c08P1
		case 2:
			pos[a.tid] = c08P2
		case 4:
			pos[a.tid] = c08P4
		case 9:
			pos[a.tid] = c08Done
		}
	}
	drain := func() {
		for {
			select {
			case a := <-run.arrive:
				absorb(a)
				continue
			default:
			}
			return
		}
	}
	waitFor := func(pred func() bool, d time.Duration) bool {
		deadline := time.After(d)
		for {
			drain()
			if pred() {
				return true
			}
			select {
			case a := <-run.arrive:
				absorb(a)
			case <-deadline:
				drain()
				return pred()
			}
		}
	}
	holder := func(except int) bool {
		for t, p := range pos {
			if t != except && (p == c08P2 || p == c08P4) {
				return true
			}
		}
		return false
	}
	anyParked := func() bool {
		for _, p := range pos {
			if p == c08Parked {
				return true
			}
		}
		return false
	}
	const long = 5 * time.Second
	fail := func(msg string) *c08Result {
		res.Deadlock = msg
		// let everything run to the end so no goroutine is left behind where possible
		run.forced = false
		for i := 0; i < n; i++ {
			select {
			case run.resume[i] <- struct{}{}:
			default:
			}
		}
		return res
	}
	if !waitFor(func() bool {
		for _, p := range pos {
			if p == c08Running {
				return false
			}
		}
		return true
	}, long) {
		return fail("writers did not start")
	}
	for step := 0; ; {
		drain()
		if anyParked() && !holder(-1) {
			if !waitFor(func() bool { return holder(-1) || !anyParked() }, long) {
				return fail("parked writers are not resumed although nobody is inside the write section")
			}
			continue
		}
		var opts []int
		alldone := true
		for t, p := range pos {
			if p == c08P1 || p == c08P2 || p == c08P4 {
				opts = append(opts, t)
			}
			if p != c08Done {
				alldone = false
			}
		}
		if len(opts) == 0 {
			if alldone {
				break
			}
			return fail("no writer can move")
		}
		k := choose(step, len(opts))
		if k >= len(opts) {
			k = len(opts) - 1
		}
		res.Taken = append(res.Taken, k)
		res.Nopts = append(res.Nopts, len(opts))
		step++
		t := opts[k]
		from := pos[t]
		pos[t] = c08Running
		run.resume[t] <- struct{}{}
		arrived := func() bool { return pos[t] != c08Running }
		if from == c08P1 {
			began := time.Now()
			for {
				if waitFor(arrived, 20*time.Millisecond) {
					break
				}
				run.mu.Lock()
				g := run.gidOf[t]
				run.mu.Unlock()
				st := crGoroutineState(g)
				drain()
				if arrived() {
					break
				}
				if st != "running" && st != "runnable" && holder(t) {
					pos[t] = c08Parked
					res.Parked++
					run.log("B", t)
					break
				}
				if time.Since(began) > long {
					return fail(fmt.Sprintf("writer %d neither reaches Encrypt nor is anybody inside the write section (goroutine state %s)", t, st))
				}
			}
		} else if !waitFor(arrived, long) {
			return fail(fmt.Sprintf("writer %d stuck inside the write section", t))
		}
	}
	wg.Wait()
	res.Events, res.Chunks, res.Plains, res.Errs = run.events, run.chunks, run.plains, run.errs
	return res
}

// c08Free: free-running writers with scheduling noise; keepAlive > 0 adds hap.KeepAlive as an extra writer.
func c08Free(cfg c08Cfg, rng *rand.Rand, keepAlive bool) *c08Result {
	n := len(cfg.Lens)
	run := &c08Run{plains: map[int][][]byte{}, gids: map[int64]int{}, gidOf: map[int]int64{}, nextDyn: n}
	for i := 0; i < n; i++ {
		run.noise = append(run.noise, rand.New(rand.NewSource(rng.Int63())))
	}
	res := &c08Result{Cfg: cfg}
	ctx := hap.NewContextForSecuredDevice(nil)
	gate := &c08Conn{run}
	conn := hap.NewConnection(gate, ctx)
	sess := ctx.GetSessionForConnection(gate)
	sec, _ := crypto.NewSecureSessionFromSharedKey(c08Shared)
	sess.SetCryptographer(&c08Crypt{sec, run})
	responseWritten(ctx, gate)
	start := make(chan struct{})
	var wg sync.WaitGroup
	for i := 0; i < n; i++ {
		wg.Add(1)
		go run.writer(i, conn, cfg.Lens[i], start, &wg)
	}
	var kaDone chan struct{}
	var cancel gocontext.CancelFunc
	if keepAlive {
		var kctx gocontext.Context
		kctx, cancel = gocontext.WithCancel(gocontext.Background())
		kaDone = make(chan struct{})
		ka := hap.NewKeepAlive(150*time.Microsecond, ctx)
		go func() { ka.Start(kctx); close(kaDone) }()
	}
	close(start)
	fin := make(chan struct{})
	go func() { wg.Wait(); close(fin) }()
	select {
	case <-fin:
	case <-time.After(10 * time.Second):
		res.Deadlock = "free-running writers did not finish within 10 s"
	}
	if keepAlive {
		cancel()
		select {
		case <-kaDone:
		case <-time.After(10 * time.Second):
			res.Deadlock = "keep-alive writer did not finish within 10 s"
		}
	}
	run.mu.Lock()
	res.Events, res.Chunks, res.Plains, res.Errs = append([]string{}, run.events...), run.chunks, run.plains, run.errs
	res.Dyn = run.nextDyn - n
	run.mu.Unlock()
	return res
}

type c08Eval struct {
	line string
	impl string
}

// c08Judge applies the direct oracles and computes what the model has to predict.
func c08Judge(c *Ctx, id string, res *c08Result) c08Eval {
	accKey, _ := crRefKeys(c08Shared)
	input := map[string]interface{}{"config": res.Cfg, "choices": res.Taken, "events": strings.Join(res.Events, " ")}
	// payloads per writer: the configured ones, and what Encrypt saw for writers the harness did not start
	nw := len(res.Cfg.Lens) + res.Dyn
	payloads := make([][][]byte, nw)
	for t := range payloads {
		if t < len(res.Cfg.Lens) {
			for w, n := range res.Cfg.Lens[t] {
				payloads[t] = append(payloads[t], c08Payload(t, w, n))
			}
		} else {
			payloads[t] = res.Plains[t]
		}
	}
	if res.Deadlock != "" {
		c.Violate("C08 writers deadlocked / starved: "+firstWords(res.Deadlock, 6), id, input, "every Write returns", res.Deadlock)
	}
	for _, e := range res.Errs {
		c.Violate("C08 Write returned an error although the socket accepts everything", id, input, "nil error", e)
	}
	var stream []byte
	total := 0
	for _, ch := range res.Chunks {
		stream = append(stream, ch.B...)
	}
	for _, ps := range payloads {
		for _, p := range ps {
			total += (len(p) + 1023) / 1024
		}
	}
	frames, rest := crIdentify(accKey, stream, total+4)
	// oracle 1: the peer opens frame n with nonce n
	var ctrs []string
	inOrder := len(rest) == 0
	for i, f := range frames {
		ctrs = append(ctrs, strconv.Itoa(f.Ctr))
		if f.Ctr != i {
			inOrder = false
		}
	}
	if !inOrder {
		c.Violate("C08 frame counters on the wire are not 0,1,2,… (the peer cannot decrypt the frames in arrival order)", id, input,
			"0,1,2,…", strings.Join(ctrs, ",")+fmt.Sprintf(" (+%d trailing bytes)", len(rest)))
	}
	// oracle 2: plaintext = concatenation of whole payloads, each writer's in program order, every payload exactly once
	var plain []byte
	for _, f := range frames {
		plain = append(plain, f.Plain...)
	}
	next := make([]int, nw)
	pos := 0
	intact := true
	for pos < len(plain) {
		found := false
		for t := 0; t < nw && !found; t++ {
			for next[t] < len(payloads[t]) && len(payloads[t][next[t]]) == 0 {
				next[t]++
			}
			if next[t] < len(payloads[t]) && bytes.HasPrefix(plain[pos:], payloads[t][next[t]]) {
				pos += len(payloads[t][next[t]])
				next[t]++
				found = true
			}
		}
		if !found {
			intact = false
			break
		}
	}
	if !intact {
		c.Violate("C08 a payload does not arrive intact and contiguous", id, input, "concatenation of whole payloads",
			fmt.Sprintf("plaintext stream diverges at byte %d of %d", pos, len(plain)))
	} else if res.Deadlock == "" {
		for t := 0; t < nw; t++ {
			for next[t] < len(payloads[t]) && len(payloads[t][next[t]]) == 0 {
				next[t]++
			}
			if next[t] != len(payloads[t]) {
				c.Violate("C08 a payload is missing from the wire after its Write returned", id, input,
					fmt.Sprintf("writer %d: %d payloads", t, len(payloads[t])), fmt.Sprintf("%d on the wire", next[t]))
			}
		}
	}
	// what the model must predict: frames (tid.w.j.ctr) and socket writes (tid.w.len)
	used := map[[3]int]bool{}
	var fs []string
	for _, f := range frames {
		idn := "?"
		if f.Ctr >= 0 {
		search:
			for t := 0; t < nw; t++ {
				for w, p := range payloads[t] {
					for j := 0; j*1024 < len(p); j++ {
						end := (j + 1) * 1024
						if end > len(p) {
							end = len(p)
						}
						if !used[[3]int{t, w, j}] && bytes.Equal(p[j*1024:end], f.Plain) {
							used[[3]int{t, w, j}] = true
							idn = fmt.Sprintf("%d.%d.%d", t, w, j)
							break search
						}
					}
				}
			}
		}
		fs = append(fs, fmt.Sprintf("%s.%d", idn, f.Ctr))
	}
	var lg []string
	cnt := make(map[int]int)
	for _, ch := range res.Chunks {
		w := cnt[ch.Tid]
		cnt[ch.Tid]++
		l := -1
		if ch.Tid < nw && w < len(payloads[ch.Tid]) {
			l = len(payloads[ch.Tid][w])
		}
		lg = append(lg, fmt.Sprintf("%d.%d.%d", ch.Tid, w, l))
	}
	dash := func(l []string) string {
		if len(l) == 0 {
			return "-"
		}
		return strings.Join(l, ",")
	}
	var todos []string
	for _, ps := range payloads {
		var ls []string
		for _, p := range ps {
			ls = append(ls, strconv.Itoa(len(p)))
		}
		todos = append(todos, dash(ls))
	}
	impl := fmt.Sprintf("ok ctr=%d lock=- sock=%s log=%s", len(frames), dash(fs), dash(lg))
	if len(rest) != 0 {
		impl += " trailing-bytes"
	}
	// writers the harness did not start (keep-alive) are not instrumented at the return of Write: their return is
	// taken to follow their socket write immediately
	var evs []string
	for _, e := range res.Events {
		evs = append(evs, e)
		if t, _ := strconv.Atoi(e[1:]); e[0] == 'K' && t >= len(res.Cfg.Lens) {
			evs = append(evs, "R"+e[1:])
		}
	}
	return c08Eval{line: "connwrite trace " + strings.Join(todos, ";") + " " + strings.Join(evs, " "), impl: impl}
}

func c08Bucket(n int) int {
	for _, b := range []int{1, 2, 3, 4, 6, 9, 14, 24} {
		if n <= b {
			return b
		}
	}
	return 999
}

func c08Contended(events []string) bool {
	// at least one writer entered Write (or was parked) while another was between E and R
	inside := map[string]bool{}
	for _, e := range events {
		switch e[0] {
		case 'E':
			if len(inside) > 0 {
				return true
			}
			inside[e[1:]] = true
		case 'R':
			delete(inside, e[1:])
		case 'B':
			return true
		}
	}
	return false
}

func checkC08(c *Ctx) {
	duplexStress(c, "C08")
	sealBurst(c, "C08")
	stackedWriters(c, "C08")
	c08CloseRace(c)
	c08StalledPeer(c)
	c08StaleConnection(c)
	c08QueuedEvents(c)
	c08EventInFlight(c)
	eventDuringFlush(c, "C08")
	c03Rekey(c) // a second pair-verify on an encrypted connection: the answer under the old keys, everything after it under the new ones
	// events of the application meet large answers, two requests sent in one frame, and a second pair-verify of the
	// subscribed connection, through the real server
	c10DuringResponse(c)
	c.SetRule("one case = one schedule of 2..6 concurrent Connection.Write calls on a real hap.Connection (forced: enumerated " +
		"choice sequences over the stop points before-Write / in-Encrypt / in-socket-write; free: Gosched/sleep noise, optional " +
		"hap.KeepAlive writer). non-trivial = a writer was parked or entered while another was inside. distinct = distinct event traces per configuration")
	c.Assume("atomicity granularity: the four instrumentation points (Encrypt entered / returned, bytes on the socket, Write returned); the Go scheduler itself is not modelled")
	c.Assume("a writer released into Write that does not reach Encrypt within 20 ms, whose goroutine is in a wait state while another writer is inside, is parked on the connection's lock")

	type job struct {
		id  string
		cfg c08Cfg
		pre []int
		rnd bool
	}
	var evals []c08Eval
	var ids []string
	var inputs []interface{}
	var mu sync.Mutex
	record := func(id string, res *c08Result) {
		ev := c08Judge(c, id, res)
		mu.Lock()
		evals = append(evals, ev)
		ids = append(ids, id)
		inputs = append(inputs, map[string]interface{}{"config": res.Cfg, "choices": res.Taken, "events": strings.Join(res.Events, " ")})
		mu.Unlock()
		key := res.Cfg.Name + "|" + strings.Join(res.Events, " ")
		nfr := 0
		for _, l := range res.Cfg.Lens {
			for _, n := range l {
				nfr += (n + 1023) / 1024
			}
		}
		c.Count(key, c08Contended(res.Events), "writers="+strconv.Itoa(len(res.Cfg.Lens)+res.Dyn), fmt.Sprintf("frames<=%d", c08Bucket(nfr)),
			fmt.Sprintf("parked=%d", res.Parked), "mode="+strings.FieldsFunc(id, func(r rune) bool { return r == '/' || r == '#' })[0])
		c.Trace()
	}

	// ---- forced schedules -------------------------------------------------------------------------
	cfgs := []c08Cfg{
		{"2x1:f1,f1", [][]int{{5}, {7}}},
		{"2x1:f1,f2+f1", [][]int{{1024}, {1025, 3}}},
		{"2x1:f3,f2", [][]int{{3000}, {2048}}},
		{"3x1:f1,f2,f0", [][]int{{10}, {1500}, {0}}},
		{"3x1:f1,f1,f3", [][]int{{1}, {2}, {2049}}},
		{"2x2:f1+f2,f3+f1", [][]int{{7, 1100}, {2050, 1024}}},
		{"3x2,1,1", [][]int{{3, 1025}, {1024}, {9}}},
		{"2x1:f34,f1", [][]int{{34000}, {7}}}, // a payload of more than 32 frames (the accessory database of a bridge) against an event
		{"3x1:f70,f1,f40", [][]int{{70000}, {12}, {40001}}},
	}
	budget := []int{c.Pick(60, 400), c.Pick(40, 400), c.Pick(40, 400), c.Pick(120, 1500), c.Pick(120, 1500), c.Pick(80, 800), c.Pick(80, 2500), c.Pick(40, 400), c.Pick(60, 1500)}
	par := 6
	runWave := func(jobs []job, f func(j job) *c08Result) []*c08Result {
		out := make([]*c08Result, len(jobs))
		var wg sync.WaitGroup
		sem := make(chan struct{}, par)
		for i := range jobs {
			wg.Add(1)
			sem <- struct{}{}
			go func(i int) {
				defer wg.Done()
				out[i] = f(jobs[i])
				<-sem
			}(i)
		}
		wg.Wait()
		return out
	}
	vec := func(v []int) string {
		var s []string
		for _, x := range v {
			s = append(s, strconv.Itoa(x))
		}
		return strings.Join(s, ".")
	}
	forcedRun := func(j job) *c08Result {
		return c08Forced(j.cfg, func(step, n int) int {
			if step < len(j.pre) {
				return j.pre[step]
			}
			return 0
		})
	}
	if c.Only != "" && strings.HasPrefix(c.Only, "forced/") {
		// replay: forced/<cfg index>/<choice vector>
		parts := strings.Split(c.Only, "/")
		if len(parts) == 3 {
			ci, _ := strconv.Atoi(parts[1])
			var pre []int
			for _, s := range strings.Split(parts[2], ".") {
				v, _ := strconv.Atoi(s)
				pre = append(pre, v)
			}
			if ci >= 0 && ci < len(cfgs) {
				record(c.Only, forcedRun(job{cfg: cfgs[ci], pre: pre}))
			}
		}
	} else if c.Only == "" {
		explored := map[string]int{}
		for ci, cfg := range cfgs {
			wave := []job{{cfg: cfg}}
			done := 0
			for len(wave) > 0 && done < budget[ci] && c.NumViolations() < 5 { // once the defect is established, stop (deadlocked runs cost 10 s each)
				if done+len(wave) > budget[ci] {
					wave = wave[:budget[ci]-done]
				}
				results := runWave(wave, forcedRun)
				var next []job
				for wi, res := range results {
					record(fmt.Sprintf("forced/%d/%s", ci, vec(res.Taken)), res)
					done++
					for s := len(wave[wi].pre); s < len(res.Taken); s++ {
						for k := res.Taken[s] + 1; k < res.Nopts[s]; k++ {
							pre := append(append([]int{}, res.Taken[:s]...), k)
							next = append(next, job{cfg: cfg, pre: pre})
						}
					}
				}
				sort.Slice(next, func(a, b int) bool { return vec(next[a].pre) < vec(next[b].pre) })
				wave = next
			}
			explored[cfg.Name] = done
			if len(wave) == 0 {
				c.Hist("forced-exhaustive:" + cfg.Name)
			}
		}
		c.Extra("forced_schedules_explored", explored)
	}

	// ---- forced, random choice sequences over larger configurations ---------------------------------
	lensPool := []int{0, 1, 5, 1023, 1024, 1025, 2048, 2049, 3000, 1, 7, 1024, 32768, 32769, 33797, 66000}
	genCfg := func(r *rand.Rand, maxW, maxWr int) c08Cfg {
		n := 2 + r.Intn(maxW-1)
		var lens [][]int
		for i := 0; i < n; i++ {
			var l []int
			for k := 1 + r.Intn(maxWr); k > 0; k-- {
				l = append(l, lensPool[r.Intn(len(lensPool))])
			}
			lens = append(lens, l)
		}
		return c08Cfg{fmt.Sprintf("%dw", n), lens}
	}
	{
		var jobs []job
		for i := 0; i < c.Pick(24, 300); i++ {
			id := c.CaseID("forcedrnd", i)
			if c.Skip(id) {
				continue
			}
			jobs = append(jobs, job{id: id, cfg: genCfg(c.CaseRng("forcedrnd-cfg", i), 4, 3), rnd: true, pre: []int{i}})
		}
		for b := 0; b < len(jobs) && c.NumViolations() < 5; b += 24 { // in batches: stop once the defect is established
			batch := jobs[b:min(b+24, len(jobs))]
			results := runWave(batch, func(j job) *c08Result {
				r := c.CaseRng("forcedrnd", j.pre[0])
				return c08Forced(j.cfg, func(step, n int) int { return r.Intn(n) })
			})
			for i, res := range results {
				record(batch[i].id, res)
			}
		}
	}

	// ---- free running ------------------------------------------------------------------------------
	{
		var jobs []job
		for i := 0; i < c.Pick(300, 4000); i++ {
			id := c.CaseID("free", i)
			if c.Skip(id) {
				continue
			}
			jobs = append(jobs, job{id: id, cfg: genCfg(c.CaseRng("free-cfg", i), c.Pick(4, 6), 4), pre: []int{i}})
		}
		par = 4
		for b := 0; b < len(jobs) && c.NumViolations() < 5; b += 40 {
			batch := jobs[b:min(b+40, len(jobs))]
			results := runWave(batch, func(j job) *c08Result {
				return c08Free(j.cfg, c.CaseRng("free", j.pre[0]), j.pre[0]%5 == 4)
			})
			for i, res := range results {
				record(batch[i].id, res)
			}
		}
	}

	// ---- correspondence: the model accepts every observed trace and predicts the socket content --------
	lines := make([]string, len(evals))
	for i, e := range evals {
		lines[i] = e.line
	}
	model := c.Model(lines)
	for i := range evals {
		c.Same("trace", ids[i], inputs[i], model[i], evals[i].impl)
		if i%41 == 0 {
			c.Sample(trunc(lines[i], 160) + "  =>  " + trunc(model[i], 160))
		}
	}
}
