package main

// C20 — "across any sequence of restarts on the same storage the accessory keeps its device id, long-term key pair and
// pairings": also when the storage was written by another installation of the library (an earlier version, a restored
// backup), i.e. with an id and names in spellings this version would not generate itself — lower-case hexadecimal ids, ids
// that are no MAC-like strings at all. Stream `foreign-storage`: such a storage (id, the accessory's entity under that id,
// one controller pairing), then two starts: the id that is advertised is the stored one, byte for byte, the paired
// reference controller verifies against the STORED long-term key, and nothing in the directory changed its name.

import (
	"bytes"
	"crypto/ed25519"
	"fmt"
	"io/ioutil"
	"path/filepath"

	"github.com/brutella/hc"
	"github.com/brutella/hc/accessory"
	"github.com/brutella/hc/db"
)

func c20ForeignStorage(c *Ctx) {
	ids := []string{"3e:7a:91:0c:5d:f2", "3E:7a:91:0C:5d:F2", "my-lamp-01", "3E:7A:91:0C:5D:F2"}
	for i, devID := range ids {
		id := c.CaseID("foreign-storage", i)
		if c.Skip(id) {
			continue
		}
		r := c.CaseRng("foreign-storage", i)
		dir := c.ScratchDir()
		database, err := dbFor(dir)
		if err != nil {
			fatal("db: %v", err)
		}
		seed := randBytes(r, 32)
		priv := ed25519.NewKeyFromSeed(seed)
		pub := priv.Public().(ed25519.PublicKey)
		ioutil.WriteFile(filepath.Join(dir, "uuid"), []byte(devID), 0644)
		database.SaveEntity(db.NewEntity(devID, pub, priv))
		ident := newRefIdentity(r, "ctrl-old")
		database.SaveEntity(db.NewEntity(ident.Name, ident.Pub, nil))
		in := map[string]interface{}{"stored_device_id": devID, "stored": "uuid, the accessory's entity (key pair) under that id, one controller pairing"}
		for start := 1; start <= 2; start++ {
			sw := accessory.NewSwitch(accessory.Info{Name: "Old"})
			acc, err := startE2E(dir, "00102003", false, sw.Accessory)
			if err != nil {
				c.Violate("transport does not start", id, in, "started", err.Error())
				break
			}
			bad := false
			if got := hc.VerifTxtRecords(acc.t)["id"]; got != devID {
				c.Violate("the accessory does not keep the device id of its storage", id, in, devID, fmt.Sprintf("%s (start %d)", got, start))
				bad = true
			}
			if cl, err := acc.Dial(); err == nil {
				if vr := refPairVerify(r, cl.Post(), ident, pub); vr.Shared == nil {
					c.Violate("the accessory does not keep its long-term key pair and pairings: the paired controller cannot verify against the stored accessory key", id, in,
						"verified", fmt.Sprintf("%s (start %d)", vr.ErrAt, start))
					bad = true
				}
				cl.Close()
			}
			acc.Stop()
			if b, _ := ioutil.ReadFile(filepath.Join(dir, "uuid")); !bytes.Equal(b, []byte(devID)) {
				c.Violate("the accessory does not keep the device id of its storage", id, in, devID, fmt.Sprintf("uuid file: %q (after start %d)", b, start))
				bad = true
			}
			c.Count(fmt.Sprint(id, start), true, "stream:foreign-storage")
			if bad {
				break
			}
		}
	}
}
