package main

// C20 — "it advertises itself as discoverable exactly when no controller pairing is stored": also when the stored pairings
// cannot be listed (F66). Stream `unlisted-pairings`: a storage with 0, 1 or 2 controller pairings and one entity file
// that cannot be read — empty (what a power loss can leave), no JSON, a directory in its place —, or none; the accessory
// starts on it, and later a pairing event makes it look again. Model: `config sf` (`Config.advertised`); the model-free
// oracle: with a pairing stored the advertisement never says `sf=1`.

import (
	"bytes"
	"fmt"
	"io/ioutil"
	"os"
	"path/filepath"

	"github.com/brutella/hc"
	"github.com/brutella/hc/accessory"
	"github.com/brutella/hc/db"
	"github.com/brutella/hc/event"
)

func c20UnlistedPairings(c *Ctx) {
	damages := []string{"none", "empty-file", "no-json", "directory", "truncated-json"}
	type ucase struct {
		id, damage string
		n          int
		late       bool // the damage appears while the accessory runs
	}
	var cases []ucase
	var lines []string
	for _, dmg := range damages {
		for n := 0; n <= 2; n++ {
			for _, late := range []bool{false, true} {
				// (no damage, "late": a pairing event without a change of the storage — what pair-setup emits when its last
				// step FAILS, M6 with an error, as well as when it succeeds)
				id := fmt.Sprintf("unlisted-pairings#%s.%d.%v", dmg, n, late)
				if c.Skip(id) {
					continue
				}
				cases = append(cases, ucase{id, dmg, n, late})
				lines = append(lines, fmt.Sprintf("config sf %d %d", map[bool]int{false: 0, true: 1}[dmg != "none" && dmg != "directory"], n)) // a directory is no key: it is not listed
			}
		}
	}
	model := c.Model(lines)
	for i, uc := range cases {
		dir := c.ScratchDir()
		// a first run creates the identity
		if _, err := hc.NewIPTransport(hc.Config{StoragePath: dir, Pin: "00102003"}, accessory.NewSwitch(accessory.Info{Name: "U"}).Accessory); err != nil {
			fatal("start: %v", err)
		}
		database, _ := dbFor(dir)
		for k := 0; k < uc.n; k++ {
			database.SaveEntity(db.NewEntity(fmt.Sprintf("ctrl-%d", k), bytes.Repeat([]byte{byte(k + 1)}, 32), nil))
		}
		damage := func() {
			p := filepath.Join(dir, "7a7a.entity") // the entity "zz"
			switch uc.damage {
			case "empty-file":
				ioutil.WriteFile(p, nil, 0644)
			case "no-json":
				ioutil.WriteFile(p, []byte("\x00\x00\x00\x00"), 0644)
			case "directory":
				os.Mkdir(p, 0755)
			case "truncated-json":
				ioutil.WriteFile(p, []byte(`{"Name":"zz","PublicKey":"AQID`), 0644)
			}
		}
		if !uc.late {
			damage()
		}
		in := map[string]interface{}{"stored_controller_pairings": uc.n, "one_more_entity_file_is": uc.damage, "it_appears_while_the_accessory_runs": uc.late}
		t, err := hc.NewIPTransport(hc.Config{StoragePath: dir, Pin: "00102003"}, accessory.NewSwitch(accessory.Info{Name: "U"}).Accessory)
		if err != nil {
			c.Violate("transport does not start", uc.id, in, "started", err.Error())
			continue
		}
		sf := hc.VerifTxtRecords(t)["sf"]
		if uc.late {
			damage()
			if uc.damage == "none" {
				hc.VerifEmitter(t).Emit(event.DevicePaired{})
			} else {
				hc.VerifEmitter(t).Emit(event.DeviceUnpaired{})
			}
			sf = hc.VerifTxtRecords(t)["sf"]
		}
		if uc.n == 0 && uc.damage == "none" && sf != "1" {
			c.Violate("the accessory does not advertise itself as discoverable although no controller pairing is stored (after a pairing event that stored nothing: a pair-setup that failed in its last step)", uc.id, in, "sf=1", "sf="+sf)
		}
		if uc.n > 0 && sf != "0" {
			c.Violate("the accessory advertises itself as discoverable while a controller pairing is stored (the stored entities cannot all be read)", uc.id, in, "sf=0", "sf="+sf)
		}
		c.Same("unlisted-pairings", uc.id, lines[i], model[i], "sf="+sf)
		// the pairings are still there
		left := 0
		for k := 0; k < uc.n; k++ {
			if _, err := database.EntityWithName(fmt.Sprintf("ctrl-%d", k)); err == nil {
				left++
			}
		}
		if left != uc.n {
			c.Violate("the accessory does not keep its pairings across a restart with an unreadable entity file", uc.id, in, fmt.Sprint(uc.n), fmt.Sprint(left))
		}
		c.Count(uc.id, uc.damage != "none", "stream:unlisted-pairings", "unlisted-pairings:"+uc.damage, "unlisted-pairings:=>sf="+sf)
	}
}
