package main

// C05 / C06 — a session is used in both directions at once, and `Decrypt` takes any reader: one that has delivered a part
// of a frame and waits for the rest (a socket) is one of "all reader chunkings". Stream `gated-decrypt`: while Decrypt waits
// in the middle of a genuine in-order frame — after 0, 1, 2, … bytes of it —, the same session encrypts messages; then the
// rest of the frame arrives. The frame is accepted and yields exactly what the peer sealed; what was encrypted meanwhile
// opens at the peer in order. (The directions of a session share nothing but the keys' origin.)

import (
	"bytes"
	"fmt"
	"io"
	"io/ioutil"
	"net"
	"time"

	"github.com/brutella/hc/crypto"
	"github.com/brutella/hc/hap"
)

// pauseReader delivers `head`, runs `between` once, then delivers `tail`.
type pauseReader struct {
	head, tail []byte
	between    func()
	fired      bool
}

func (p *pauseReader) Read(b []byte) (int, error) {
	if len(p.head) > 0 {
		n := copy(b, p.head)
		p.head = p.head[n:]
		return n, nil
	}
	if !p.fired {
		p.fired = true
		p.between()
	}
	if len(p.tail) == 0 {
		return 0, io.EOF
	}
	n := copy(b, p.tail)
	p.tail = p.tail[n:]
	return n, nil
}

func gatedDecrypt(c *Ctx, who string) {
	for i := 0; i < c.Pick(12, 200); i++ {
		id := c.CaseID("gated-decrypt", i)
		if c.Skip(id) {
			continue
		}
		r := c.CaseRng("gated-decrypt", i)
		var shared [32]byte
		copy(shared[:], randBytes(r, 32))
		acc, err := crypto.NewSecureSessionFromSharedKey(shared)
		if err != nil {
			fatal("session: %v", err)
		}
		peer := newRefControllerSession(shared[:])
		// bring the two counters of the session apart
		nEnc, nDec := r.Intn(5), r.Intn(5)
		var sent []byte
		for k := 0; k < nEnc; k++ {
			rd, _ := acc.Encrypt(bytes.NewReader(randBytes(r, 1+r.Intn(300))))
			b, _ := ioutil.ReadAll(rd)
			sent = append(sent, b...)
		}
		for k := 0; k < nDec; k++ {
			if _, err := acc.Decrypt(bytes.NewReader(peer.Encrypt(randBytes(r, 1+r.Intn(300))))); err != nil {
				c.Violate(who+": Decrypt rejects unaltered in-order frames", id, nil, "accepted", err.Error())
			}
		}
		msg := randBytes(r, 1+r.Intn(1500))
		frames := peer.Encrypt(msg)
		cut := r.Intn(len(frames))
		if i%4 == 0 {
			cut = []int{0, 1, 2, 3}[r.Intn(4)] // inside the length field / right behind it
		}
		var meanwhile [][]byte
		pr := &pauseReader{head: append([]byte{}, frames[:cut]...), tail: append([]byte{}, frames[cut:]...)}
		pr.between = func() {
			for k := 0; k < 1+r.Intn(3); k++ {
				m := randBytes(r, 1+r.Intn(1200))
				meanwhile = append(meanwhile, m)
				rd, err := acc.Encrypt(bytes.NewReader(m))
				if err != nil {
					continue
				}
				b, _ := ioutil.ReadAll(rd)
				sent = append(sent, b...)
			}
		}
		in := map[string]interface{}{"frames_encrypted_before": nEnc, "frames_decrypted_before": nDec, "message_bytes": len(msg),
			"then": fmt.Sprintf("Decrypt has read %d of %d bytes of the next genuine message when the same session encrypts %d messages; then the rest arrives", cut, len(frames), len(meanwhile))}
		var got []byte
		finished := make(chan struct{})
		go func() {
			defer close(finished)
			var rd io.Reader
			if rd, err = acc.Decrypt(pr); err == nil {
				got, _ = ioutil.ReadAll(rd)
			}
		}()
		select {
		case <-finished:
		case <-time.After(5 * time.Second):
			c.Violate(who+": a session cannot encrypt while its Decrypt waits for the rest of a frame (both directions of a connection stall: the peer waits for the answer before it sends more)", id, in,
				"Encrypt returns", "neither call has returned after 5 s")
			return
		}
		in["then"] = fmt.Sprintf("Decrypt has read %d of %d bytes of the next genuine message when the same session encrypts %d messages; then the rest arrives", cut, len(frames), len(meanwhile))
		if err != nil {
			c.Violate(who+": Decrypt rejects unaltered in-order frames (the session encrypted while the frame was arriving)", id, in, "accepted", err.Error())
		} else if !bytes.Equal(got, msg) {
			c.Violate(who+": Decrypt does not yield what the peer sealed (the session encrypted while the frame was arriving)", id, in, fmt.Sprintf("%d bytes", len(msg)), fmt.Sprintf("%d bytes", len(got)))
		}
		if pt, _, ok := peer.DecryptFrames(sent); !ok {
			c.Violate(who+": the peer cannot decrypt what the session encrypted while a frame was arriving", id, in, "frames in order", fmt.Sprintf("%d plaintext bytes, not authenticated", len(pt)))
		}
		c.Count(id, true, "stream:gated-decrypt", fmt.Sprintf("gated-decrypt:cut<=3=%v", cut <= 3))
	}
}

// sourceReuse: Encrypt takes an io.Reader and consumes it. A caller that keeps ONE buffer for its outgoing messages
// (write a message into it, Encrypt it, write the next one …) must see each message sent once: what Encrypt has sealed is
// gone from the source.
func sourceReuse(c *Ctx, who string) {
	for i := 0; i < c.Pick(6, 60); i++ {
		id := c.CaseID("source-reuse", i)
		if c.Skip(id) {
			continue
		}
		r := c.CaseRng("source-reuse", i)
		var shared [32]byte
		copy(shared[:], randBytes(r, 32))
		acc, err := crypto.NewSecureSessionFromSharedKey(shared)
		if err != nil {
			fatal("session: %v", err)
		}
		peer := newRefControllerSession(shared[:])
		var buf bytes.Buffer
		var wire, want []byte
		var sizes []int
		for k := 0; k < 2+r.Intn(4); k++ {
			m := randBytes(r, 1+r.Intn(2500))
			sizes = append(sizes, len(m))
			want = append(want, m...)
			buf.Write(m)
			rd, err := acc.Encrypt(&buf)
			if err != nil {
				c.Violate(who+": Encrypt fails on a valid message", id, sizes, "frames", err.Error())
				break
			}
			b, _ := ioutil.ReadAll(rd)
			wire = append(wire, b...)
			if buf.Len() != 0 {
				c.Violate(who+": Encrypt does not consume its source (a reused buffer sends its earlier messages again)", id,
					map[string]interface{}{"source": "*bytes.Buffer", "message_sizes": sizes}, "source empty after Encrypt", fmt.Sprintf("%d bytes left", buf.Len()))
				break
			}
		}
		pt, _, ok := peer.DecryptFrames(wire)
		if !ok || !bytes.Equal(pt, want) {
			c.Violate(who+": the peer does not receive each message once (one buffer reused as the source of every Encrypt)", id,
				map[string]interface{}{"source": "*bytes.Buffer, reused", "message_sizes": sizes}, fmt.Sprintf("%d bytes", len(want)), fmt.Sprintf("%d bytes, authenticated=%v", len(pt), ok))
		}
		c.Count(id, true, "stream:source-reuse")
	}
}

// cipherLooksLikeHeader: a read is waiting on a plaintext connection when pair-verify negotiates the session; what arrives
// next is the controller's first encrypted frame. Ciphertext is arbitrary bytes: here it is chosen (by searching over
// requests) to contain an empty line — "\n\n", "\r\n\r\n" — the end of a plaintext request header. It must be decrypted
// and delivered like every other frame; nothing may look at it as text.
func cipherLooksLikeHeader(c *Ctx, who string) {
	for i := 0; i < c.Pick(3, 30); i++ {
		id := c.CaseID("cipher-header", i)
		if c.Skip(id) {
			continue
		}
		r := c.CaseRng("cipher-header", i)
		var key [32]byte
		copy(key[:], randBytes(r, 32))
		var request, frame []byte
		marker := [][]byte{[]byte("\n\n"), []byte("\r\n\r\n"), []byte("\n\r\n")}[i%3]
		for try := 0; try < 200000 && frame == nil; try++ {
			p := newRefControllerSession(key[:])
			req := []byte(fmt.Sprintf("PUT /characteristics HTTP/1.1\r\nHost: x\r\nContent-Length: 900\r\n\r\n{\"characteristics\":[{\"aid\":1,\"iid\":%d,\"value\":1}]}%s", try, bytes.Repeat([]byte(" "), 850)))
			if f := p.Encrypt(req[:1000]); bytes.Contains(f, marker) {
				request, frame = req[:1000], f
			}
		}
		if frame == nil {
			continue
		}
		raw := newHoConn()
		ctx := hap.NewContextForSecuredDevice(nil)
		conn := hap.NewConnection(raw, ctx)
		sess := ctx.GetSessionForConnection(raw)
		sec, _ := crypto.NewSecureSessionFromSharedKey(key)
		type rd struct {
			b   []byte
			err error
		}
		done := make(chan rd, 1)
		go func() {
			buf := make([]byte, 4096)
			n, err := conn.Read(buf)
			done <- rd{buf[:n], err}
		}()
		select {
		case <-raw.started:
		case <-time.After(2 * time.Second):
		}
		sess.SetCryptographer(sec)
		responseWritten(ctx, raw)
		raw.push(frame)
		in := map[string]interface{}{"read_waiting_when_the_cryptographer_is_negotiated": true, "read_buffer": 4096,
			"first_encrypted_frame": fmt.Sprintf("%d bytes of ciphertext that contain %q", len(frame), marker)}
		select {
		case x := <-done:
			if x.err != nil || !bytes.Equal(x.b, request) {
				c.Violate(who+" bytes sent by the controller under the newly negotiated session do not arrive decrypted (read was already waiting; the ciphertext contains an empty line)", id, in,
					fmt.Sprintf("%d request bytes", len(request)), fmt.Sprintf("%d bytes err=%v", len(x.b), x.err))
			}
		case <-time.After(4 * time.Second):
			c.Violate(who+" read on the connection does not return after bytes arrived", id, in, "request bytes", "timeout")
		}
		raw.Close()
		c.Count(id, true, "stream:cipher-header")
	}
}

// waitingReadCoalesced: a read is waiting on a plaintext connection when pair-verify negotiates the session; the
// controller's first encrypted request is longer than one frame and arrives in ONE segment (or: its second frame arrives
// in two parts with a read timeout in between, as when net/http aborts its background read). Everything the controller
// sent is delivered, in order: what the connection has read ahead while it served the waiting read is not lost.
func waitingReadCoalesced(c *Ctx, who string) {
	for i := 0; i < c.Pick(6, 60); i++ {
		id := c.CaseID("waiting-read-coalesced", i)
		if c.Skip(id) {
			continue
		}
		r := c.CaseRng("waiting-read-coalesced", i)
		var key [32]byte
		copy(key[:], randBytes(r, 32))
		peer := newRefControllerSession(key[:])
		request := randBytes(r, 1100+r.Intn(2500))
		frames := peer.Encrypt(request)
		raw := newHoConn()
		ctx := hap.NewContextForSecuredDevice(nil)
		conn := hap.NewConnection(raw, ctx)
		sess := ctx.GetSessionForConnection(raw)
		sec, _ := crypto.NewSecureSessionFromSharedKey(key)
		type rd struct {
			b   []byte
			err error
		}
		results := make(chan rd, 64)
		bufSize := []int{1, 64, 4096}[i%3]
		stop := make(chan struct{})
		go func() {
			for {
				buf := make([]byte, bufSize)
				n, err := conn.Read(buf)
				results <- rd{buf[:n], err}
				select {
				case <-stop:
					return
				default:
				}
				if err != nil {
					return
				}
			}
		}()
		select {
		case <-raw.started:
		case <-time.After(2 * time.Second):
		}
		sess.SetCryptographer(sec)
		responseWritten(ctx, raw)
		how := "all frames in one segment"
		if i%2 == 0 {
			raw.push(frames)
		} else {
			how = "the first frame and a part of the second in one segment, the rest later"
			cut := 1024 + 18 + 1 + r.Intn(len(frames)-1024-18-1)
			raw.push(frames[:cut])
			time.Sleep(5 * time.Millisecond)
			raw.push(frames[cut:])
		}
		var got []byte
		var rerr error
		deadline := time.After(4 * time.Second)
	collect:
		for len(got) < len(request) {
			select {
			case x := <-results:
				got = append(got, x.b...)
				if x.err != nil {
					rerr = x.err
					break collect
				}
			case <-deadline:
				break collect
			}
		}
		close(stop)
		in := map[string]interface{}{"read_waiting_when_the_cryptographer_is_negotiated": true, "read_buffer": bufSize, "request_bytes": len(request), "delivery": how}
		if rerr != nil || !bytes.Equal(got, request) {
			c.Violate(who+" bytes sent by the controller under the newly negotiated session do not all arrive (read was already waiting; more than one frame was delivered at once)", id, in,
				fmt.Sprintf("%d request bytes", len(request)), fmt.Sprintf("%d bytes, err=%v", len(got), rerr))
		}
		raw.Close()
		c.Count(id, true, "stream:waiting-read-coalesced")
	}
}

// cutInsideFrame (F65): the adversary truncates the stream — the connection ends after any number of bytes. What was released
// is the plaintext of the whole frames before the cut (C05's prefix clause); and a cut INSIDE a frame is reported as an
// error, not as the end of the stream: `io.EOF` means "the peer closed between two frames" (which no receiver can tell
// from a cut exactly there). Every cut position of a stream of a few frames, the bytes arriving in one or several segments.
func cutInsideFrame(c *Ctx, who string) {
	for i := 0; i < c.Pick(6, 60); i++ {
		r := c.CaseRng("cut-inside-frame", i)
		var key [32]byte
		copy(key[:], randBytes(r, 32))
		peer := newRefControllerSession(key[:])
		var stream []byte
		var ends []int // stream offsets behind each frame
		var plain [][]byte
		for k := 0; k < 1+r.Intn(3); k++ {
			m := randBytes(r, 1+r.Intn(40))
			if i%3 == 0 && k == 0 {
				m = randBytes(r, 1024+r.Intn(700)) // two frames
			}
			fr := peer.Encrypt(m)
			for off := 0; off < len(m); off += 1024 {
				end := off + 1024
				if end > len(m) {
					end = len(m)
				}
				plain = append(plain, m[off:end])
				last := 0
				if len(ends) > 0 {
					last = ends[len(ends)-1]
				}
				ends = append(ends, last+2+(end-off)+16)
			}
			stream = append(stream, fr...)
		}
		var cuts []int
		for cut := 0; cut <= len(stream); cut++ {
			atEdge := cut < 4
			for _, e := range ends {
				if cut >= e-3 && cut <= e+3 {
					atEdge = true
				}
			}
			if atEdge || c.Thorough() || r.Intn(40) == 0 {
				cuts = append(cuts, cut)
			}
		}
		for _, cut := range cuts {
			id := fmt.Sprintf("%s.%d", c.CaseID("cut-inside-frame", i), cut)
			if c.Skip(id) {
				continue
			}
			var script []c07Ev
			for off := 0; off < cut; {
				n := cut - off
				if r.Intn(2) == 0 {
					n = 1 + r.Intn(n)
				}
				script = append(script, c07Ev{Kind: 's', B: stream[off : off+n]})
				off += n
			}
			script = append(script, c07Ev{Kind: 'c'})
			sc := &c07Conn{script: script}
			ctx := hap.NewContextForSecuredDevice(nil)
			conn := hap.NewConnection(sc, ctx)
			sec, _ := crypto.NewSecureSessionFromSharedKey(key)
			ctx.GetSessionForConnection(sc).SetCryptographer(sec)
			responseWritten(ctx, sc)
			var got []byte
			var rerr error
			msg, pan := safely(func() { got, rerr = readAllBounded(conn, 20000) })
			whole, want := 0, []byte{}
			for k, e := range ends {
				if e <= cut {
					whole = e
					want = append(want, plain[k]...)
				}
			}
			inside := cut > whole
			in := map[string]interface{}{"frames_end_at_stream_offsets": ends, "the_stream_ends_after_bytes": cut, "segments": len(script) - 1,
				"inside_a_frame": inside}
			switch {
			case pan:
				c.Violate(who+" reading a truncated stream panics", id, in, "data, then an error", msg)
			case !bytes.Equal(got, want):
				c.Violate(who+" what is released of a truncated stream is not the plaintext of the whole frames before the cut", id, in, fmt.Sprintf("%d bytes", len(want)), fmt.Sprintf("%d bytes", len(got)))
			case inside && rerr == nil:
				c.Violate(who+" a stream that ends inside a frame is reported as a clean end of stream (ioutil.ReadAll: no error): the reader cannot tell the cut frame from an orderly close", id, in,
					"an error (io.ErrUnexpectedEOF)", fmt.Sprintf("%d bytes released, err=nil", len(got)))
			case !inside && rerr != nil:
				c.Violate(who+" a stream that ends between two frames is reported as an error", id, in, "end of stream", rerr.Error())
			}
			if inside && !sc.closed {
				c.Violate(who+" the connection is not closed after the stream ended inside a frame", id, in, "closed", "open")
			}
			c.Count(id, inside, "stream:cut-inside-frame", fmt.Sprintf("cut-inside-frame:inside=%v", inside))
		}
	}
}

// failingSource (F70): "however the source reader delivers it" — also a source that fails after it delivered a part of the
// message (a pipe whose writer died, a file with an I/O error). Encrypt returns that error, seals nothing and counts no
// frame: the next message opens at the peer under the next counter in line. (Before: the part was sealed and sent as if
// it were the message, without an error.)
type failingReader struct {
	data []byte
	err  error
}

func (f *failingReader) Read(b []byte) (int, error) {
	if len(f.data) == 0 {
		return 0, f.err
	}
	n := copy(b, f.data)
	if len(b) > 7 && n > 7 {
		n = 7 + len(f.data)%5 // short reads
		if n > len(f.data) {
			n = len(f.data)
		}
	}
	f.data = f.data[n:]
	return n, nil
}

func failingSource(c *Ctx, who string) {
	for i := 0; i < c.Pick(8, 80); i++ {
		id := c.CaseID("failing-source", i)
		if c.Skip(id) {
			continue
		}
		r := c.CaseRng("failing-source", i)
		var shared [32]byte
		copy(shared[:], randBytes(r, 32))
		acc, err := crypto.NewSecureSessionFromSharedKey(shared)
		if err != nil {
			fatal("session: %v", err)
		}
		peer := newRefControllerSession(shared[:])
		var sent []byte
		var want []byte
		before := r.Intn(3)
		for k := 0; k < before; k++ {
			m := randBytes(r, 1+r.Intn(1500))
			rd, _ := acc.Encrypt(bytes.NewReader(m))
			b, _ := ioutil.ReadAll(rd)
			sent = append(sent, b...)
			want = append(want, m...)
		}
		delivered := []int{0, 1, 500, 1023, 1024, 1025, 2048, 3000}[i%8]
		srcErr := fmt.Errorf("read /dev/sensor: input/output error")
		in := map[string]interface{}{"messages_encrypted_before": before, "the_source_delivers_bytes": delivered, "then_fails_with": srcErr.Error()}
		rd, eerr := acc.Encrypt(&failingReader{data: randBytes(r, delivered), err: srcErr})
		if eerr == nil {
			n := 0
			if rd != nil {
				b, _ := ioutil.ReadAll(rd)
				n = len(b)
				sent = append(sent, b...)
			}
			c.Violate(who+": Encrypt reports no error although its source failed (what the source delivered before is sealed and sent as if it were the whole message)", id, in,
				"the error of the source, nothing sealed", fmt.Sprintf("nil error, %d bytes of frames", n))
		}
		last := randBytes(r, 1+r.Intn(1500))
		rd, eerr = acc.Encrypt(bytes.NewReader(last))
		if eerr != nil {
			c.Violate(who+": Encrypt fails after a call whose source failed", id, in, "frames", eerr.Error())
			continue
		}
		b, _ := ioutil.ReadAll(rd)
		sent = append(sent, b...)
		want = append(want, last...)
		pt, _, ok := peer.DecryptFrames(sent)
		if eerr == nil && (!ok || !bytes.Equal(pt, want)) && c.NumViolations() == 0 {
			c.Violate(who+": after an Encrypt whose source failed, the peer cannot decrypt the next message (a frame counter was used up)", id, in,
				fmt.Sprintf("%d bytes", len(want)), fmt.Sprintf("%d bytes, authenticated=%v", len(pt), ok))
		}
		c.Count(id, true, "stream:failing-source", fmt.Sprintf("failing-source:delivered=%d", delivered))
	}
}

// timeoutInsideFrame: a read deadline that fires while a part of a frame has arrived (net/http aborts its background
// read that way before every request; an application sets deadlines of its own). The read reports the timeout; the
// bytes that had arrived are not lost: what was written into the other end still comes out, whole.
func timeoutInsideFrame(c *Ctx, who string) {
	for i := 0; i < c.Pick(10, 120); i++ {
		id := c.CaseID("timeout-inside-frame", i)
		if c.Skip(id) {
			continue
		}
		r := c.CaseRng("timeout-inside-frame", i)
		var key [32]byte
		copy(key[:], randBytes(r, 32))
		peer := newRefControllerSession(key[:])
		msg := randBytes(r, 1+r.Intn(2600))
		stream := peer.Encrypt(msg)
		var script []c07Ev
		timeouts := 0
		for off := 0; off < len(stream); {
			n := 1 + r.Intn(len(stream)-off)
			if r.Intn(2) == 0 && n > 40 {
				n = 1 + r.Intn(40)
			}
			script = append(script, c07Ev{Kind: 's', B: stream[off : off+n]})
			off += n
			if off < len(stream) && r.Intn(2) == 0 {
				script = append(script, c07Ev{Kind: 'i'})
				timeouts++
			}
		}
		sc := &c07Conn{script: script}
		ctx := hap.NewContextForSecuredDevice(nil)
		conn := hap.NewConnection(sc, ctx)
		sec, _ := crypto.NewSecureSessionFromSharedKey(key)
		ctx.GetSessionForConnection(sc).SetCryptographer(sec)
		responseWritten(ctx, sc)
		var got []byte
		var rerr error
		bufSize := []int{1, 333, 4096}[i%3]
		pmsg, pan := safely(func() {
			buf := make([]byte, bufSize)
			for iter := 0; len(got) < len(msg) && !sc.blocked; iter++ {
				if iter > 20000 {
					rerr = fmt.Errorf("no progress after %d reads", iter)
					return
				}
				n, err := conn.Read(buf)
				got = append(got, buf[:n]...)
				if err != nil {
					if ne, ok := err.(net.Error); ok && ne.Timeout() {
						continue
					}
					rerr = err
					return
				}
			}
		})
		in := map[string]interface{}{"message_bytes": len(msg), "segments": len(script) - timeouts, "read_deadlines_firing_inside_the_stream": timeouts, "read_buffer": bufSize}
		if pan {
			c.Violate(who+" reading panics when a read deadline fires inside a frame", id, in, "data", pmsg)
		} else if rerr != nil || !bytes.Equal(got, msg) {
			c.Violate(who+" bytes written into one end do not come out at the other when a read deadline fires while a part of a frame has arrived", id, in,
				fmt.Sprintf("%d bytes", len(msg)), fmt.Sprintf("%d bytes, err=%v", len(got), rerr))
		}
		c.Count(id, timeouts > 0, "stream:timeout-inside-frame")
	}
}

// readAllBounded is ioutil.ReadAll with a limit on the number of reads: code under test that returns (0, nil) or the same
// error for ever must not hang the check.
func readAllBounded(r io.Reader, maxReads int) ([]byte, error) {
	var out []byte
	buf := make([]byte, 512)
	for i := 0; i < maxReads; i++ {
		n, err := r.Read(buf)
		out = append(out, buf[:n]...)
		if err == io.EOF {
			return out, nil
		}
		if err != nil {
			return out, err
		}
	}
	return out, fmt.Errorf("no end of stream after %d reads", maxReads)
}
