package main

// C06 — secure framing round-trips every payload in the specified wire format.
// Real crypto.NewSecureSessionFromSharedKey / NewSecureClientSessionFromSharedKey pairs; correspondence with
// HcModel/Framing.lean (frame descriptors sealed here with x/crypto; byte-level decrypt with the ideal-AEAD table)
// and direct oracles: reference wire format, round trip through the peer session, counters.

import (
	"bytes"
	"errors"
	"fmt"
	"io"
	"io/ioutil"
	"math/rand"
	"reflect"
	"strings"
	"testing/iotest"
)

func init() { register("C06", checkC06) }

type c06Msg struct {
	payload []byte
	mode    string
}

type c06Case struct {
	id       string
	stream   string
	role     string // "s": accessory encrypts, controller decrypts; "c": the other way round
	start    uint64
	msgs     []c06Msg
	useModel bool
}

var c06Modes = []string{"full", "one", "half", "dataerr", "dataerr-one", "bursts", "zeros", "bursts-eof", "bursts-err"}

// c06Reader builds the source reader of one message. planned != nil: the model gets these bursts (and splits
// them itself); otherwise the deliveries are recorded.
func c06Reader(r *rand.Rand, m c06Msg) (rd io.Reader, planned [][]byte, rec *recReader) {
	switch m.mode {
	case "full":
		rd = bytes.NewBuffer(append([]byte{}, m.payload...))
	case "one":
		rd = iotest.OneByteReader(bytes.NewReader(m.payload))
	case "half":
		rd = iotest.HalfReader(bytes.NewReader(m.payload))
	case "dataerr":
		rd = iotest.DataErrReader(bytes.NewReader(m.payload))
	case "dataerr-one":
		rd = iotest.DataErrReader(iotest.OneByteReader(bytes.NewReader(m.payload)))
	case "bursts", "bursts-eof", "bursts-err":
		planned = splitBursts(r, m.payload, "random")
		br := &burstReader{bursts: cloneBursts(planned), final: io.EOF, eofWithLast: m.mode == "bursts-eof"}
		if m.mode == "bursts-err" {
			br.final = errors.New("scripted reader failure")
		}
		return br, planned, nil
	case "zeros":
		planned = splitBursts(r, m.payload, "zeros")
		return &burstReader{bursts: cloneBursts(planned), final: io.EOF}, planned, nil
	default:
		panic("mode " + m.mode)
	}
	rec = &recReader{r: rd}
	return rec, nil, rec
}

func c06Lengths(c *Ctx) []int {
	var ls []int
	if c.Thorough() {
		for i := 0; i <= 4097; i++ {
			ls = append(ls, i)
		}
		return ls
	}
	add := func(a, b int) {
		for i := a; i <= b; i++ {
			ls = append(ls, i)
		}
	}
	add(0, 40)
	add(1000, 1050)
	add(2040, 2060)
	add(3070, 3075)
	add(4090, 4097)
	return ls
}

func c06BiasedLen(r *rand.Rand, max int) int {
	switch r.Intn(8) {
	case 0:
		return 0
	case 1:
		return 1 + r.Intn(3)
	case 2:
		return 1024 * (1 + r.Intn(max/1024+1)) % (max + 1)
	case 3:
		return (1024*(1+r.Intn(max/1024+1)) + r.Intn(3) - 1) % (max + 1)
	case 4:
		return 1021 + r.Intn(7)
	}
	return r.Intn(max + 1)
}

func checkC06(c *Ctx) {
	duplexStress(c, "C06")
	alternatingReads(c, "C06")
	gatedDecrypt(c, "C06")
	failingSource(c, "C06")
	timeoutInsideFrame(c, "C06")
	sourceReuse(c, "C06")
	c03Rekey(c)    // a second pair-verify on an encrypted connection (reads and writes change keys at the right moment)
	c03Handover(c) // reads that are waiting while the first cryptographer is negotiated
	c.SetRule("one case = one session pair with 1..20 messages; every message goes real Encrypt -> (reference wire format, model descriptors " +
		"sealed with x/crypto, peer Decrypt, byte-level model decrypt). non-trivial = more than one frame, or a reader that does not deliver " +
		"the payload in one Read, or more than one message, or a non-zero start counter. distinct = distinct canonical model lines")
	c.Assume("the AEAD and HKDF are parameters of the model (hypothesis open∘seal = id, tag 16 bytes); the reference evaluation uses golang.org/x/crypto directly")
	c.Assume("frame counters other than 0 are installed by reflection on the unexported uint64 fields (as hc's own tests do in-package)")
	c06Queued(c)
	c06StreamOfMessages(c)

	var cases []c06Case
	quickLens := map[int]bool{}
	if c.Thorough() {
		save := c.Tier
		c.Tier = "quick"
		for _, l := range c06Lengths(c) {
			quickLens[l] = true
		}
		c.Tier = save
	}
	// corpus first: witnesses of F5 and boundary cases named in DESIGN.md
	corpus := []c06Case{
		{id: "corpus#F5-hello-one-byte", role: "s", msgs: []c06Msg{{[]byte("hello world"), "one"}}},
		{id: "corpus#F5-short-first-read", role: "c", msgs: []c06Msg{{bytes.Repeat([]byte{7}, 1500), "half"}}},
		{id: "corpus#zero-read-in-the-middle", role: "s", msgs: []c06Msg{{bytes.Repeat([]byte{9}, 700), "zeros"}}},
		{id: "corpus#empty", role: "s", msgs: []c06Msg{{nil, "full"}}},
		{id: "corpus#exact-1024", role: "s", msgs: []c06Msg{{bytes.Repeat([]byte{1}, 1024), "full"}}},
		{id: "corpus#exact-2048-one-byte", role: "c", msgs: []c06Msg{{bytes.Repeat([]byte{2}, 2048), "one"}}},
		{id: "corpus#1025-dataerr", role: "s", msgs: []c06Msg{{bytes.Repeat([]byte{3}, 1025), "dataerr"}}},
		{id: "corpus#counter-wrap", role: "s", start: 1<<64 - 2, msgs: []c06Msg{{bytes.Repeat([]byte{4}, 3000), "full"}, {[]byte{5}, "full"}}},
		{id: "corpus#counter-byte-order", role: "c", start: 0x0102030405060708, msgs: []c06Msg{{[]byte{1, 2, 3}, "full"}}},
	}
	for i := range corpus {
		corpus[i].stream = "corpus"
		corpus[i].useModel = true
	}
	cases = append(cases, corpus...)
	for _, l := range c06Lengths(c) {
		for mi, mode := range c06Modes {
			r := c.CaseRng("len-"+mode, l)
			cs := c06Case{id: c.CaseID("len-"+mode, l), stream: "len", role: "sc"[l%2 : l%2+1], msgs: []c06Msg{{randBytes(r, l), mode}}}
			cs.useModel = true
			_ = mi
			cases = append(cases, cs)
		}
	}
	for i := 0; i < c.Pick(200, 1000); i++ {
		r := c.CaseRng("rand", i)
		l := c06BiasedLen(r, 70000)
		cases = append(cases, c06Case{id: c.CaseID("rand", i), stream: "rand", role: "sc"[r.Intn(2):][:1], start: pickCounter(r),
			msgs: []c06Msg{{randBytes(r, l), c06Modes[r.Intn(len(c06Modes))]}}, useModel: !c.Thorough() || i%2 == 0})
	}
	for i := 0; i < c.Pick(150, 1500); i++ {
		r := c.CaseRng("seq", i)
		n := 1 + r.Intn(20)
		cs := c06Case{id: c.CaseID("seq", i), stream: "seq", role: "sc"[r.Intn(2):][:1], start: pickCounter(r), useModel: true}
		for j := 0; j < n; j++ {
			cs.msgs = append(cs.msgs, c06Msg{randBytes(r, c06BiasedLen(r, 3000)), c06Modes[r.Intn(len(c06Modes))]})
		}
		cases = append(cases, cs)
	}

	counterAccess := true
	const block = 400
	for b0 := 0; b0 < len(cases); b0 += block {
		b1 := b0 + block
		if b1 > len(cases) {
			b1 = len(cases)
		}
		type pending struct {
			cs       c06Case
			encLine  string
			decLine  string
			enc      [][]byte // hc's output per message
			decImpl  string
			shared   []byte
			encCount string // sender's counter after the case ("" = not observable)
		}
		var pend []*pending
		var lines []string
		for _, cs := range cases[b0:b1] {
			if c.Skip(cs.id) {
				continue
			}
			cs := cs
			p := &pending{cs: cs}
			r := c.CaseRng("run-"+cs.id, 0)
			pair := newSessPair(r)
			p.shared = pair.shared[:]
			sender, receiver, key := pair.server, pair.client, pair.readKey
			if cs.role == "c" {
				sender, receiver, key = pair.client, pair.server, pair.wrKey
			}
			start := cs.start
			if start != 0 {
				if !(setCounter(sender, "encryptCount", start) && setCounter(receiver, "decryptCount", start)) {
					counterAccess = false
					start = 0
				}
			}
			ctr := start
			var encToks, tbl, streams, decRes []string
			total, frames := 0, 0
			nonFull := false
			msg, pan := safely(func() {
				for mi, m := range cs.msgs {
					rd, planned, rec := c06Reader(r, m)
					enc, err := hcEncrypt(sender, rd)
					in := map[string]interface{}{"role": cs.role, "start_counter": start, "message": mi, "reader": m.mode, "payload": hx(m.payload)}
					if m.mode == "bursts-err" {
						// a source that fails behind its last burst (F70): the error is returned, nothing is sealed, no frame is
						// counted — the messages around it are encrypted as if this call had not happened
						if err == nil {
							c.Violate("Encrypt reports no error although its source failed (what the source delivered before is sealed and sent as if it were the whole message)", cs.id, in, "the error of the source, nothing sealed", "nil error")
							return
						}
						continue
					}
					if err != nil {
						c.Violate("Encrypt returns an error for a well-behaved reader", cs.id, in, "nil", err.Error())
						return
					}
					p.enc = append(p.enc, enc)
					bursts := planned
					if rec != nil {
						bursts = rec.bursts
					}
					_ = mi
					if len(p.enc) > 1 {
						encToks = append(encToks, " /")
					}
					encToks = append(encToks, burstTokens(bursts))
					// direct oracle 1: the specified wire format, independently computed
					want, wframes := refEncrypt(key, ctr, m.payload)
					if !bytes.Equal(enc, want) {
						c.Violate(c06WireSignature(enc, want, m), cs.id, in, trunc(hx(want), 400), trunc(hx(enc), 400))
					}
					// direct oracle 2: the peer session returns the payload
					var wrap func(io.Reader) io.Reader // how the receiving side's source delivers the ciphertext
					switch (mi + len(m.payload)) % 4 {
					case 1:
						wrap = iotest.OneByteReader
					case 2:
						wrap = iotest.HalfReader
					case 3:
						wrap = iotest.DataErrReader
					}
					out, left, derr := hcDecryptVia(receiver, bytes.NewReader(enc), wrap)
					switch {
					case derr != nil:
						c.Violate("peer session rejects what Encrypt produced", cs.id, in, "payload", "error "+derr.Error())
						decRes = append(decRes, "err "+decErrClass(derr))
					case !bytes.Equal(out, m.payload):
						c.Violate(fmt.Sprintf("payload does not round-trip (reader %s)", c06ModeClass(m.mode)), cs.id, in,
							fmt.Sprintf("%d bytes %s", len(m.payload), trunc(hx(m.payload), 200)), fmt.Sprintf("%d bytes %s", len(out), trunc(hx(out), 200)))
						decRes = append(decRes, "ok "+hx(out))
					default:
						decRes = append(decRes, "ok "+hx(out))
					}
					if derr == nil && left != 0 {
						c.Violate("Decrypt leaves bytes of a single message unread", cs.id, in, "0", fmt.Sprint(left))
					}
					for i, f := range wframes {
						ch := refChunks(m.payload)[i]
						tbl = append(tbl, fmt.Sprintf("%s.%s.%s.%s", hx(frNonce(ctr+uint64(i))), hx(f[:2]), hx(f[2:]), hx(ch)))
					}
					streams = append(streams, hx(enc))
					ctr += uint64(len(wframes))
					frames += len(wframes)
					total += len(m.payload)
					if m.mode != "full" && len(m.payload) > 1 {
						nonFull = true
					}
					// direct oracle 3: counters advance by the number of frames, on both sides
					if ec, ok := getCounter(sender, "encryptCount"); ok {
						dc, _ := getCounter(receiver, "decryptCount")
						if ec != ctr || (derr == nil && dc != ctr) {
							c.Violate("frame counters do not advance by one per frame", cs.id, in, fmt.Sprintf("enc=%d dec=%d", ctr, ctr), fmt.Sprintf("enc=%d dec=%d", ec, dc))
						}
						p.encCount = fmt.Sprint(ec)
						decRes[len(decRes)-1] += fmt.Sprintf(" cnt=%d rest=%d", dc, left)
					} else {
						counterAccess = false
						decRes[len(decRes)-1] += fmt.Sprintf(" rest=%d", left)
					}
				}
			})
			if pan {
				c.Violate("Encrypt/Decrypt panics", cs.id, cs.id, "no panic", msg)
				continue
			}
			p.encLine = fmt.Sprintf("frame enc %s %d%s", cs.role, start, strings.Join(encToks, ""))
			nontriv := frames > 1 || nonFull || len(cs.msgs) > 1 || start != 0
			c.Count(p.encLine, nontriv, "stream:"+cs.stream, "msgs<="+fmt.Sprint(bucketOf(len(cs.msgs), 1, 2, 5, 10, 20)),
				"frames<="+fmt.Sprint(bucketOf(frames, 0, 1, 2, 4, 8, 69)), "counter:"+counterClass(start))
			for _, m := range cs.msgs {
				c.Hist("reader:" + m.mode)
				c.Hist("len:" + lenBucket(len(m.payload)))
			}
			if cs.useModel && len(p.enc) > 0 { // (a case whose only message came from a failing source sealed nothing)
				lines = append(lines, p.encLine)
				if total <= 6000 {
					p.decLine = fmt.Sprintf("frame dec %d %s | %s", start, strings.Join(tbl, " "), strings.Join(streams, " "))
					p.decImpl = strings.Join(decRes, " | ")
					lines = append(lines, p.decLine)
				}
				pend = append(pend, p)
			}
			c.Trace()
		}
		ans := c.Model(lines)
		k := 0
		for _, p := range pend {
			a := ans[k]
			k++
			ea, err := parseEncAnswer(a)
			if err != nil || len(ea.msgs) != len(p.enc) {
				c.Mismatch("enc", p.cs.id, trunc(p.encLine, 600), trunc(a, 300), fmt.Sprintf("%d messages", len(p.enc)))
			} else {
				for mi := range p.enc {
					got := sealDescs(p.shared, ea, mi)
					if !bytes.Equal(got, p.enc[mi]) {
						c.Mismatch("enc", p.cs.id, trunc(p.encLine, 600), fmt.Sprintf("message %d key %s/%s: %s", mi, ea.salt, ea.info, trunc(hx(got), 300)), trunc(hx(p.enc[mi]), 300))
						break
					}
				}
				if p.encCount != "" {
					if mc, ok := mod64(ea.cnt); !ok || fmt.Sprint(mc) != p.encCount {
						c.Mismatch("enc-counter", p.cs.id, trunc(p.encLine, 600), ea.cnt, p.encCount)
					}
				}
				if len(c.samples) < 4 && len(p.encLine) < 300 {
					c.Sample(p.encLine + "  =>  " + trunc(a, 300))
				}
			}
			if p.decLine != "" {
				m := ans[k]
				k++
				if p.encCount == "" {
					m = stripCnt(m)
				} else {
					m = modCnt(m)
				}
				sameLong(c, "dec", p.cs.id, p.decLine, m, p.decImpl)
			}
		}
	}
	if !counterAccess {
		c.Hist("counter-fields-not-accessible")
	}
	c.Extra("counter_access_by_reflection", counterAccess)
}

func c06ModeClass(mode string) string {
	if mode == "full" {
		return "delivering everything in one Read"
	}
	return "with short reads"
}

// c06WireSignature names what differs from the reference wire format (stable, coarse).
func c06WireSignature(got, want []byte, m c06Msg) string {
	what := "content"
	switch {
	case len(got) < len(want):
		what = "shorter"
	case len(got) > len(want):
		what = "longer"
	}
	return fmt.Sprintf("Encrypt output differs from the reference wire format: %s (reader %s)", what, c06ModeClass(m.mode))
}

func bucketOf(n int, bs ...int) int {
	for _, b := range bs {
		if n <= b {
			return b
		}
	}
	return 1 << 30
}

func counterClass(v uint64) string {
	switch {
	case v == 0:
		return "0"
	case v <= 5000:
		return "1..5000"
	case v < 1<<32:
		return "<2^32"
	case v >= 1<<64-70:
		return "near-wrap"
	}
	return ">=2^32"
}

// stripCnt removes the " cnt=N" parts of a model answer (when the real counter is not observable).
func stripCnt(s string) string {
	f := strings.Fields(s)
	var out []string
	for _, t := range f {
		if !strings.HasPrefix(t, "cnt=") {
			out = append(out, t)
		}
	}
	return strings.Join(out, " ")
}

// modCnt reduces the model's unbounded counters modulo 2^64.
func modCnt(s string) string {
	f := strings.Fields(s)
	for i, t := range f {
		if strings.HasPrefix(t, "cnt=") {
			if v, ok := mod64(strings.TrimPrefix(t, "cnt=")); ok {
				f[i] = fmt.Sprintf("cnt=%d", v)
			}
		}
	}
	return strings.Join(f, " ")
}

// c06Queued: several messages are encrypted before any of the returned readers is drained (messages queued, then sent;
// or a big message still being sent while a notification is encrypted). Each returned reader must still yield exactly
// the frames of its own message.
func c06Queued(c *Ctx) {
	for i := 0; i < c.Pick(40, 400); i++ {
		id := c.CaseID("queued", i)
		if c.Skip(id) {
			continue
		}
		r := c.CaseRng("queued", i)
		pair := newSessPair(r)
		n := 2 + r.Intn(4)
		var payloads [][]byte
		var outs []io.Reader
		ctr := uint64(0)
		var want [][]byte
		msg, pan := safely(func() {
			for k := 0; k < n; k++ {
				p := randBytes(r, c06BiasedLen(r, 3000))
				payloads = append(payloads, p)
				out, err := pair.server.Encrypt(bytes.NewReader(p))
				if err != nil {
					c.Violate("Encrypt returns an error for a well-behaved reader", id, hx(p), "nil", err.Error())
					return
				}
				outs = append(outs, out)
				w, frames := refEncrypt(pair.readKey, ctr, p)
				ctr += uint64(len(frames))
				want = append(want, w)
				// sometimes a part of the previous message is read before the next one is encrypted
				if k > 0 && r.Intn(3) == 0 {
					buf := make([]byte, 1+r.Intn(40))
					nn, _ := outs[k-1].Read(buf)
					if !bytes.HasPrefix(want[k-1], buf[:nn]) {
						c.Violate("ciphertext of a queued message is damaged by a later Encrypt call", id, fmt.Sprintf("message %d of %d", k-1, n), "its own frames", "different bytes")
					}
					want[k-1] = want[k-1][nn:]
				}
			}
			for k := 0; k < n; k++ {
				got, _ := ioutil.ReadAll(outs[k])
				if !bytes.Equal(got, want[k]) {
					c.Violate("ciphertext of a queued message is damaged by a later Encrypt call", id,
						map[string]interface{}{"message": k, "messages": n, "lengths": lensOf(payloads)}, fmt.Sprintf("%d bytes", len(want[k])), fmt.Sprintf("%d bytes", len(got)))
					return
				}
			}
		})
		if pan {
			c.Violate("Encrypt/Decrypt panics", id, id, "no panic", msg)
		}
		c.Count(fmt.Sprint("queued/", lensOf(payloads)), true, "stream:queued")
		c.Trace()
	}
}

func lensOf(ps [][]byte) []int {
	var l []int
	for _, p := range ps {
		l = append(l, len(p))
	}
	return l
}

// c06StreamOfMessages: several messages of one sender arrive back to back in ONE stream (a bytes.Reader, or a reader
// that hands out a few bytes at a time) and are decrypted by successive Decrypt calls on that same stream. A call ends
// with the first frame shorter than 1024 bytes (or at the end of the stream), so the calls must return the payloads
// grouped accordingly, nothing lost and nothing repeated.
func c06StreamOfMessages(c *Ctx) {
	for i := 0; i < c.Pick(60, 1500); i++ {
		id := c.CaseID("msgstream", i)
		if c.Skip(id) {
			continue
		}
		r := c.CaseRng("msgstream", i)
		pair := newSessPair(r)
		n := 2 + r.Intn(6)
		var payloads [][]byte
		var wire []byte
		var groups [][]byte
		var cur []byte
		for k := 0; k < n; k++ {
			l := []int{1, 3, 70, 100, 1023, 1024, 1025, 2048, 2100}[r.Intn(9)]
			p := randBytes(r, l)
			payloads = append(payloads, p)
			out, err := hcEncrypt(pair.client, bytes.NewReader(p))
			if err != nil {
				c.Violate("Encrypt returns an error for a well-behaved reader", id, hx(p), "nil", err.Error())
				return
			}
			wire = append(wire, out...)
			cur = append(cur, p...)
			if l%1024 != 0 {
				groups = append(groups, cur)
				cur = nil
			}
		}
		if cur != nil {
			groups = append(groups, cur)
		}
		rd := bytes.NewReader(wire)
		var wrap func(io.Reader) io.Reader
		mode := "whole"
		if r.Intn(2) == 0 {
			mode = "dribble"
			rr := rand.New(rand.NewSource(int64(i)))
			wrap = func(x io.Reader) io.Reader { return &dribbleReader{x, rr} }
		}
		var src io.Reader = rd
		if wrap != nil {
			src = wrap(rd)
		}
		in := map[string]interface{}{"message_lengths": lensOf(payloads), "stream": mode}
		msg, pan := safely(func() {
			for g, want := range groups {
				o, err := pair.server.Decrypt(src)
				var got []byte
				if o != nil && !reflect.ValueOf(o).IsNil() {
					got, _ = ioutil.ReadAll(o)
				}
				if err != nil || !bytes.Equal(got, want) {
					c.Violate("messages that arrive back to back in one stream are not all decrypted (a Decrypt call consumed or lost bytes of the next message)", id, in,
						fmt.Sprintf("call %d returns %d bytes", g, len(want)), fmt.Sprintf("%d bytes, err=%v, %d wire bytes left", len(got), err, rd.Len()))
					return
				}
			}
		})
		if pan {
			c.Violate("Encrypt/Decrypt panics", id, in, "no panic", msg)
		}
		c.Count(fmt.Sprint("msgstream/", lensOf(payloads), mode), true, "stream:msgstream", "msgstream:"+mode)
	}
}

// dribbleReader hands out 1-7 bytes per Read.
type dribbleReader struct {
	r   io.Reader
	rnd *rand.Rand
}

func (d *dribbleReader) Read(p []byte) (int, error) {
	n := 1 + d.rnd.Intn(7)
	if n > len(p) {
		n = len(p)
	}
	return d.r.Read(p[:n])
}
