package main

import (
	"bytes"
	"fmt"
	"math/rand"
	"net"
	"sync/atomic"
	"time"

	"github.com/brutella/hc/accessory"
)

// c05Inject: an on-path adversary inserts a PLAINTEXT request into the byte stream of a genuine controller at the points
// where the stream changes over to the encrypted session: glued behind the pair-verify finish request (same TCP segment),
// as a segment of its own right after it, after the answer M4 and before the first frame, and between frames of a
// running session. Real accessory over loopback TCP, real reference controller. The accessory must never serve that
// request: it is not part of what the peer sent through the session.
func c05Inject(c *Ctx) {
	id0 := "inject"
	if c.Skip(id0) {
		return
	}
	r := c.CaseRng("inject", 0)
	sw := accessory.NewSwitch(accessory.Info{Name: "Inject"})
	var remote int32
	sw.Switch.On.OnValueRemoteUpdate(func(bool) { atomic.AddInt32(&remote, 1) })
	acc, err := startE2E(c.ScratchDir(), "00102003", false, sw.Accessory)
	if err != nil {
		c.Violate("transport does not start", id0, nil, "started", err.Error())
		return
	}
	defer acc.Stop()
	ident := newRefIdentity(r, "ctrl-inject")
	setup, _ := acc.Dial()
	sr := refPairSetup(r, setup.Post(), "001-02-003", ident)
	setup.Close()
	if sr.ErrAt != "" {
		c.Violate("reference controller cannot pair", id0, nil, "paired", sr.ErrAt)
		return
	}
	aid, iid := sw.Accessory.ID, sw.Switch.On.ID
	variants := []string{"glued-behind-finish", "segment-after-finish", "after-answer", "between-frames", "none"}
	for i := 0; i < c.Pick(3, 60); i++ {
		for _, v := range variants {
			id := fmt.Sprintf("inject#%s.%d", v, i)
			if c.Skip(id) {
				continue
			}
			body := fmt.Sprintf(`{"characteristics":[{"aid":%d,"iid":%d,"value":%v}]}`, aid, iid, i%2 == 0)
			foreign := []byte(fmt.Sprintf("PUT /characteristics HTTP/1.1\r\nHost: acc.local\r\nContent-Type: application/hap+json\r\nContent-Length: %d\r\n\r\n%s", len(body), body))
			before := atomic.LoadInt32(&remote)
			cl, err := acc.Dial()
			if err != nil {
				c.Violate("cannot connect", id, nil, "connected", err.Error())
				continue
			}
			n := 0
			post := func(path string, b []byte) (int, []byte, error) {
				n++
				var sb bytes.Buffer
				fmt.Fprintf(&sb, "POST %s HTTP/1.1\r\nHost: acc.local\r\nContent-Type: application/pairing+tlv8\r\nContent-Length: %d\r\n\r\n", path, len(b))
				sb.Write(b)
				if n == 2 && v == "glued-behind-finish" {
					sb.Write(foreign)
				}
				if err := cl.send(sb.Bytes()); err != nil {
					return 0, nil, err
				}
				if n == 2 && v == "segment-after-finish" {
					time.Sleep(time.Duration(r.Intn(400)) * time.Microsecond)
					cl.send(foreign)
				}
				m, err := cl.next(cl.timeout)
				if err != nil {
					return 0, nil, err
				}
				if m == nil {
					return 0, nil, fmt.Errorf("no answer")
				}
				return m.Status, m.Body, nil
			}
			vr := refPairVerify(r, post, ident, sr.AccLTPK)
			outcome := "verify:" + vr.ErrAt
			if vr.Shared != nil {
				outcome = "verified"
				if v != "none" {
					cl.timeout = 400 * time.Millisecond // an accessory that waits for the rest of a "frame" does not answer; do not wait long
				}
				switch v {
				case "after-answer":
					cl.send(foreign) // still without the session: plaintext on the wire
					cl.Upgrade(vr.Shared)
				case "between-frames":
					cl.Upgrade(vr.Shared)
					if m, err := cl.Do("GET", "/accessories", "", nil); err != nil || m.Status != 200 {
						c.Violate("verified reference controller cannot list accessories", id, v, "200", fmt.Sprint(m, err))
					}
					cl.conn.Write(foreign) // raw, bypassing the session
				default:
					cl.Upgrade(vr.Shared)
				}
				// the genuine controller goes on (or finds the connection closed)
				m, err := cl.Do("GET", fmt.Sprintf("/characteristics?id=%d.%d", aid, iid), "", nil)
				switch {
				case err != nil || m == nil:
					outcome += ",then-closed"
				default:
					outcome += fmt.Sprintf(",then-%d", m.Status)
				}
				if v == "none" && (err != nil || m.Status != 200) {
					c.Violate("verified reference controller cannot read a characteristic", id, v, "200", fmt.Sprint(m, err))
				}
			} else if v == "none" || v == "after-answer" || v == "between-frames" {
				c.Violate("paired reference controller cannot verify", id, v, "verified", vr.ErrAt)
			}
			time.Sleep(20 * time.Millisecond)
			cl.Close()
			if got := atomic.LoadInt32(&remote); got != before {
				c.Violate("a plaintext request inserted into the stream of a verified controller is served (bytes that never went through the session's Decrypt are released to the application)", id,
					map[string]interface{}{"where": v, "inserted": string(foreign)}, "request not served (stream error / connection closed)", fmt.Sprintf("remote update callback ran %d time(s); %s", got-before, outcome))
			}
			c.Count(id, v != "none", "stream:inject", "inject:"+v+":"+outcome)
		}
	}
	c05ReverifyReplay(c, acc, ident, sr.AccLTPK, aid, iid, sw, &remote)
	// ---- cross-session replay: everything a genuine controller put on the wire in one session (pair-verify start and
	// finish, then the encrypted request that switches the lamp) is sent again, byte for byte, on a new connection
	for i := 0; i < c.Pick(3, 40); i++ {
		id := fmt.Sprintf("inject#replay-session.%d", i)
		if c.Skip(id) {
			continue
		}
		cl, err := acc.Dial()
		if err != nil {
			continue
		}
		rec := &recConn{Conn: cl.conn}
		cl.conn = rec
		vr := refPairVerify(r, cl.Post(), ident, sr.AccLTPK)
		if vr.Shared == nil {
			c.Violate("paired reference controller cannot verify", id, nil, "verified", vr.ErrAt)
			cl.Close()
			continue
		}
		cl.Upgrade(vr.Shared)
		body := fmt.Sprintf(`{"characteristics":[{"aid":%d,"iid":%d,"value":%v}]}`, aid, iid, i%2 == 0)
		if m, err := cl.Do("PUT", "/characteristics", "application/hap+json", []byte(body)); err != nil || m.Status != 204 {
			c.Violate("verified reference controller cannot write a characteristic", id, nil, "204", fmt.Sprint(m, err))
		}
		cl.Close()
		sw.Switch.On.SetValue(i%2 != 0) // the owner switches back; the replayed write would be a change again
		before := atomic.LoadInt32(&remote)
		ad, err := acc.Dial()
		if err != nil {
			continue
		}
		answered := 0
		buf := make([]byte, 65536)
		for _, w := range rec.writes {
			ad.conn.SetDeadline(time.Now().Add(700 * time.Millisecond))
			if _, err := ad.conn.Write(w); err != nil {
				break
			}
			if n, err := ad.conn.Read(buf); err != nil || n == 0 {
				break
			}
			answered++
		}
		time.Sleep(20 * time.Millisecond)
		ad.Close()
		if got := atomic.LoadInt32(&remote); got != before {
			c.Violate("a recorded session replayed on a new connection is accepted (frames of another session are decrypted and executed)", id,
				map[string]interface{}{"recorded_writes": len(rec.writes)}, "pair-verify finish refused on the new connection; nothing executed", fmt.Sprintf("remote update callback ran %d time(s); %d of %d replayed messages were answered", got-before, answered, len(rec.writes)))
		}
		c.Count(id, true, "stream:inject", fmt.Sprintf("inject:replay-session:answered=%d/%d", answered, len(rec.writes)))
	}
}

// c05ReverifyReplay: a controller verifies, writes a characteristic, and verifies AGAIN on the same connection with the
// same ephemeral key (the library's own client controller does that when it is used twice). The second exchange must
// end in a session of its own: if it has the keys of the first one, with the frame counters back at zero, the
// adversary's copy of the first session's frame 0 is a valid frame 0 of the second.
func c05ReverifyReplay(c *Ctx, acc *e2eAcc, ident *refIdentity, accLTPK []byte, aid, iid uint64, sw *accessory.Switch, remote *int32) {
	for i := 0; i < c.Pick(2, 12); i++ {
		id := fmt.Sprintf("inject#reverify-replay.%d", i)
		if c.Skip(id) {
			continue
		}
		cl, err := acc.Dial()
		if err != nil {
			continue
		}
		rec := &recConn{Conn: cl.conn}
		cl.conn = rec
		seed := c.CaseRng("reverify-replay", i).Int63()
		vr := refPairVerify(rand.New(rand.NewSource(seed)), cl.Post(), ident, accLTPK)
		if vr.Shared == nil {
			c.Violate("paired reference controller cannot verify", id, nil, "verified", vr.ErrAt)
			cl.Close()
			continue
		}
		cl.Upgrade(vr.Shared)
		body := fmt.Sprintf(`{"characteristics":[{"aid":%d,"iid":%d,"value":%v}]}`, aid, iid, i%2 == 0)
		nBefore := len(rec.writes)
		if m, err := cl.Do("PUT", "/characteristics", "application/hap+json", []byte(body)); err != nil || m.Status != 204 {
			c.Violate("verified reference controller cannot write a characteristic", id, nil, "204", fmt.Sprint(m, err))
			cl.Close()
			continue
		}
		var frame0 []byte
		for _, w := range rec.writes[nBefore:] {
			frame0 = append(frame0, w...)
		}
		// the second exchange, through the first session, with the same ephemeral key (same seed)
		vr2 := refPairVerify(rand.New(rand.NewSource(seed)), cl.Post(), ident, accLTPK)
		in := map[string]interface{}{"steps": []string{"pair-verify", "PUT (recorded by the adversary)", "pair-verify again on the same connection, same controller ephemeral key", "the adversary sends the recorded bytes of the PUT"}}
		if vr2.Shared == nil {
			// refusing a second exchange is a way of having no second session
			c.Count(id, true, "stream:inject", "inject:reverify-replay:second-verify-refused")
			cl.Close()
			continue
		}
		cl.Upgrade(vr2.Shared)
		if bytes.Equal(vr.Shared, vr2.Shared) {
			c.Violate("two pair-verify exchanges on one connection end in the same session keys (the accessory's ephemeral key is not renewed): the frame counters restart under the same key", id, in, "a shared secret of its own per exchange", "the same shared secret")
		}
		sw.Switch.On.SetValue(i%2 != 0) // the owner switches back; the replayed write would be a change again
		before := atomic.LoadInt32(remote)
		rec.Conn.SetDeadline(time.Now().Add(700 * time.Millisecond))
		rec.Conn.Write(frame0)
		buf := make([]byte, 65536)
		n, _ := rec.Conn.Read(buf)
		time.Sleep(20 * time.Millisecond)
		cl.Close()
		if got := atomic.LoadInt32(remote); got != before {
			c.Violate("a frame of an earlier session of the same connection, sent again after a second pair-verify, is decrypted and executed", id, in, "stream error; nothing executed",
				fmt.Sprintf("remote update callback ran %d time(s); %d answer bytes", got-before, n))
		}
		c.Count(id, true, "stream:inject", fmt.Sprintf("inject:reverify-replay:answer-bytes=%d", n))
	}
}

// recConn records what is written to a connection.
type recConn struct {
	net.Conn
	writes [][]byte
}

func (r *recConn) Write(b []byte) (int, error) {
	r.writes = append(r.writes, append([]byte{}, b...))
	return r.Conn.Write(b)
}
