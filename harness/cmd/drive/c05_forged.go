package main

// forgedFrameOnConnection (round 9, seed C05-r9m2): frames the peer never sealed, INSERTED between genuine frames on a
// real hap.Connection — where the connection's own frame splitting (length field, `buffered`) sits in front of the
// decrypter. Kinds: a frame without data (`00 00` + any 16 bytes: random, zero, the tag of the previous genuine
// frame), a short frame of random bytes, a genuine frame whose length field was changed. The session itself
// (crypto.Decrypt) sees these only if the connection hands them on; a connection that drops a frame "because there is
// nothing to decrypt" accepts an alteration without an error.
// Oracle (C05 as stated): what Read releases is the plaintext of the genuine frames before the inserted one, and the
// reads report an error — the stream is never read to a clean end.

import (
	"bytes"
	"fmt"

	"github.com/brutella/hc/crypto"
	"github.com/brutella/hc/hap"
)

func forgedFrameOnConnection(c *Ctx, who string) {
	kinds := []string{"empty-random-tag", "empty-zero-tag", "empty-previous-tag", "short-random", "length-field-changed", "empty-frames-x3"}
	for i := 0; i < c.Pick(48, 600); i++ {
		id := c.CaseID("forged-on-connection", i)
		if c.Skip(id) {
			continue
		}
		r := c.CaseRng("forged-on-connection", i)
		var key [32]byte
		copy(key[:], randBytes(r, 32))
		peer := newRefControllerSession(key[:])
		nfr := 1 + r.Intn(4)
		var frames, plain [][]byte
		for k := 0; k < nfr; k++ {
			m := randBytes(r, 1+r.Intn(60))
			frames = append(frames, peer.Encrypt(m))
			plain = append(plain, m)
		}
		kind := kinds[i%len(kinds)]
		at := r.Intn(nfr + 1) // the forged frame stands in front of genuine frame `at` (nfr: behind the last one)
		var forged []byte
		switch kind {
		case "empty-random-tag":
			forged = append([]byte{0, 0}, randBytes(r, 16)...)
		case "empty-zero-tag":
			forged = make([]byte, 18)
		case "empty-previous-tag":
			src := frames[max(at-1, 0)]
			forged = append([]byte{0, 0}, src[len(src)-16:]...)
		case "short-random":
			n := 1 + r.Intn(30)
			forged = append([]byte{byte(n), 0}, randBytes(r, n+16)...)
		case "length-field-changed":
			if at == nfr {
				at = nfr - 1
			}
			g := append([]byte{}, frames[at]...)
			g[0] ^= byte(1 + r.Intn(7))
			forged = g
			// the changed frame replaces the genuine one
		case "empty-frames-x3":
			for j := 0; j < 3; j++ {
				forged = append(forged, append([]byte{0, 0}, randBytes(r, 16)...)...)
			}
		}
		var stream, want []byte
		for k := 0; k < nfr; k++ {
			if k == at {
				stream = append(stream, forged...)
				if kind == "length-field-changed" {
					continue
				}
			}
			stream = append(stream, frames[k]...)
		}
		if at == nfr {
			stream = append(stream, forged...)
		}
		for k := 0; k < at; k++ {
			want = append(want, plain[k]...)
		}
		var script []c07Ev
		for off := 0; off < len(stream); {
			n := len(stream) - off
			if r.Intn(2) == 0 {
				n = 1 + r.Intn(n)
			}
			script = append(script, c07Ev{Kind: 's', B: stream[off : off+n]})
			off += n
		}
		script = append(script, c07Ev{Kind: 'c'})
		sc := &c07Conn{script: script}
		ctx := hap.NewContextForSecuredDevice(nil)
		conn := hap.NewConnection(sc, ctx)
		sec, _ := crypto.NewSecureSessionFromSharedKey(key)
		ctx.GetSessionForConnection(sc).SetCryptographer(sec)
		responseWritten(ctx, sc)
		var got []byte
		var rerr error
		msg, pan := safely(func() { got, rerr = readAllBounded(conn, 20000) })
		in := map[string]interface{}{"genuine_frames": nfr, "kind": kind, "inserted_in_front_of_frame": at, "forged_hex": fmt.Sprintf("%x", forged[:min(len(forged), 40)]),
			"segments": len(script) - 1}
		switch {
		case pan:
			c.Violate(who+" a frame the peer never sealed makes the connection's read panic", id, in, "an error", msg)
		case !bytes.Equal(got, want):
			c.Violate(who+" connection: what is released of a stream with an inserted frame is not the plaintext of the genuine frames before it", id, in,
				fmt.Sprintf("%d bytes", len(want)), fmt.Sprintf("%d bytes (first difference at %d)", len(got), firstDiff(got, want)))
		case rerr == nil:
			c.Violate(who+" connection: a stream with an inserted frame the peer never sealed is read to its end without an error", id, in, "an error at the inserted frame",
				fmt.Sprintf("%d bytes released, err=nil", len(got)))
		}
		c.Count(id, at > 0 || nfr > 1, "stream:forged-on-connection", "forged-on-connection:"+kind, fmt.Sprintf("forged-on-connection:at=%d/%d", at, nfr))
	}
}

// forgedFrameVsModel: the same adversary, against the byte model of the connection's read path (HcModel/ConnRead.lean,
// driver op `connread run`, the model `error_at_first_alteration` and `bytes_refine_frames` are theorems of): genuine frames
// `<len>`, the inserted frame `<len>x` (does not authenticate) — also `0x`, the frame without data —, the sender's later
// frames under the counters the SENDER used. The real hap.Connection is driven by c07Run; tokens are compared read by read.
func forgedFrameVsModel(c *Ctx, who string) {
	_, ctlKey := crRefKeys(c08Shared)
	var cases []*c07Case
	for i := 0; i < c.Pick(40, 400); i++ {
		id := c.CaseID("forged-vs-model", i)
		if c.Skip(id) {
			continue
		}
		r := c.CaseRng("forged-vs-model", i)
		nfr := 1 + r.Intn(4)
		at := r.Intn(nfr + 1)
		flen := []int{0, 0, 0, 1 + r.Intn(30)}[i%4]
		nforged := 1 + (i/4)%2*2 // one, or three in a row
		cs := &c07Case{ID: id, Kind: "forged-insert", BadAt: at, Bufs: []int{[]int{1, 7, 64, 512, 2048}[r.Intn(5)]}}
		var stream []byte
		ctr := uint64(0)
		put := func(fr []byte, l int, bad bool) {
			stream = append(stream, fr...)
			cs.Frames = append(cs.Frames, c07Frame{Len: l, Bad: bad})
			cs.Ends = append(cs.Ends, len(stream))
		}
		for k := 0; k <= nfr; k++ {
			if k == at {
				for j := 0; j < nforged; j++ {
					put(append([]byte{byte(flen), 0}, randBytes(r, flen+16)...), flen, true)
				}
			}
			if k == nfr {
				break
			}
			m := randBytes(r, 1+r.Intn(60))
			put(crSealFrame(ctlKey, ctr, m), len(m), false) // behind the insertion the next genuine frame WOULD authenticate (the refused frame used no counter): the error must be final
			ctr++
			cs.Plain = append(cs.Plain, m...)
		}
		tot := 0
		for _, f := range cs.Frames {
			tot += f.Len
			cs.PEnds = append(cs.PEnds, tot)
		}
		for off := 0; off < len(stream); {
			n := len(stream) - off
			if r.Intn(2) == 0 {
				n = 1 + r.Intn(n)
			}
			cs.Script = append(cs.Script, c07Ev{Kind: 's', B: stream[off : off+n]})
			off += n
		}
		cs.Script = append(cs.Script, c07Ev{Kind: 'c'})
		cases = append(cases, cs)
		c.Count(cs.line(), true, "stream:forged-vs-model", fmt.Sprintf("forged-vs-model:len=%d×%d", flen, nforged), fmt.Sprintf("forged-vs-model:at=%d/%d", at, nfr))
	}
	impl := make([]string, len(cases))
	parallel(len(cases), func(i int) { impl[i] = c07Run(c, cases[i]) })
	lines := make([]string, len(cases))
	for i, cs := range cases {
		lines[i] = cs.line()
	}
	model := c.Model(lines)
	for i, cs := range cases {
		c.Same("forged-vs-model", cs.ID, lines[i], model[i], impl[i])
	}
}
