package main

// C15 — the catalog matches the HomeKit metadata. The regenerated table IS the behaviour (there is no hand-written
// model to correspond with); the driver re-runs the same scan + constructor dump the extractor used, re-evaluates the
// Lean checkers in Go to name a concrete failing row (constructor + field) when an obligation is false, and
// (thorough) runs the dump a second time in a fresh process and diffs (nondeterminism guard).

import (
	"bytes"
	"encoding/json"
	"fmt"
	"math"
	"path/filepath"
	"runtime"
	"sync"
	"time"

	"github.com/brutella/hc/accessory"
	"github.com/brutella/hc/characteristic"
	"github.com/brutella/hc/service"

	"hcverif/harness/internal/catalog"
)

func init() { register("C15", checkC15) }

// catalogOf scans c.Repo and runs the generated constructor dump in a scratch module.
func catalogOf(c *Ctx) (*catalog.Scan, *catalog.Dump) {
	s, err := catalog.ScanRepo(c.Repo)
	if err != nil {
		fatal("catalog scan of %s: %v", c.Repo, err)
	}
	d, err := s.RunDump(c.Repo, c.ScratchDir())
	if err != nil {
		fatal("catalog dump: %v", err)
	}
	return s, d
}

func rowCase(r catalog.Row) string {
	a := ""
	if r.Args != "" {
		a = fmt.Sprintf("%x", []byte(r.Args))
		if len(a) > 16 {
			a = a[len(a)-16:]
		}
		a = "." + a
	}
	return "ctor#" + r.Pkg + "." + r.Ctor + a
}

func checkC15(c *Ctx) {
	c.SetRule("one evaluation per constructor call of the dump (every exported New* function of characteristic/, service/, accessory/; " +
		"generic and accessory constructors with synthesised arguments, accessory.New once per AccessoryType constant) and per metadata entry; " +
		"non-trivial = the row did not panic and carries a type id; the Lean theorems quantify over exactly these rows")
	c.Assume("the tables of HcModel/Generated/Catalog.lean are produced by harness/internal/catalog from the same working tree (trusted translator)")
	corpusC15(c)
	c15Usable(c)
	c15RangedCtors(c)
	c15ConcurrentCtors(c)
	c15GenericCtors(c)
	s, d := catalogOf(c)
	n := map[string]int{}
	for _, r := range d.Rows {
		b, _ := json.Marshal(r)
		c.Count(string(b), !r.Panicked && r.Kind != "other", "rows:"+r.Pkg, fmt.Sprintf("rows:nargs=%d", r.NArgs), fmt.Sprintf("rows:panicked=%v", r.Panicked))
		n[r.Pkg]++
		c.Trace()
	}
	for _, m := range s.MetaChars {
		c.Count("metachar "+m.UUID, true, "metadata:characteristic format="+m.Format)
	}
	for _, m := range s.MetaSvcs {
		c.Count("metasvc "+m.UUID, true, "metadata:service")
	}
	c.Extra("catalog_rows", n)
	c.Extra("metadata_entries", map[string]int{"characteristics": len(s.MetaChars), "services": len(s.MetaSvcs), "categories": len(s.MetaCats)})
	for i, r := range d.Rows {
		if i%40 == 0 {
			c.Sample(r)
		}
	}
	// re-evaluate the Lean checkers per row: every false row is a concrete failing input
	for _, f := range catalog.Check(s, d) {
		id := "catalog#" + f.Theorem + "/" + f.Ctor + "/" + f.Field
		if c.Skip(id) {
			continue
		}
		c.Violate(f.Signature(), id, map[string]string{"theorem": "Hc.Props.C15." + f.Theorem, "constructor": f.Ctor, "field": f.Field,
			"reproduce": "call the constructor in a program importing github.com/brutella/hc and print the field"}, f.Expected, f.Observed)
	}
	// the same dump on a 32-bit build (GOARCH=386 binaries run on the amd64 host): the rules hold there too and the rows
	// are the same — the catalog does not depend on the width of `int`
	if runtime.GOARCH == "amd64" && !c.Skip("catalog-386") {
		d32, err := s.RunDumpArch(c.Repo, filepath.Join(c.ScratchDir(), "dump386"), "386")
		if err != nil {
			c.Mismatch("dump-386", "catalog-386", "constructor dump built with GOARCH=386", "builds and runs", trunc(err.Error(), 400))
		} else {
			for _, f := range catalog.Check(s, d32) {
				c.Violate(f.Signature()+" (32-bit build)", "catalog386#"+f.Theorem+"/"+f.Ctor+"/"+f.Field, map[string]string{"theorem": "Hc.Props.C15." + f.Theorem, "constructor": f.Ctor, "field": f.Field,
					"reproduce": "GOARCH=386: call the constructor in a program importing github.com/brutella/hc and print the field"}, f.Expected, f.Observed)
			}
			for i := range d.Rows {
				if i >= len(d32.Rows) {
					break
				}
				x, _ := json.Marshal(d.Rows[i])
				y, _ := json.Marshal(d32.Rows[i])
				if string(x) != string(y) {
					c.Violate("a constructor yields something else on a 32-bit build: "+d.Rows[i].Pkg+"."+d.Rows[i].Ctor, "catalog386#row/"+rowCase(d.Rows[i]), map[string]string{"constructor": d.Rows[i].Pkg + "." + d.Rows[i].Ctor, "reproduce": "build with GOARCH=386 and with GOARCH=amd64, call the constructor, print the object"}, string(x), string(y))
					break
				}
			}
			c.Count("catalog-386", len(d32.Rows) == len(d.Rows), "stream:dump-386")
		}
	}
	if c.Thorough() && c.Only == "" {
		_, d2 := catalogOf(c)
		a, _ := json.Marshal(d)
		b, _ := json.Marshal(d2)
		if string(a) != string(b) {
			for i := range d.Rows {
				if i < len(d2.Rows) {
					x, _ := json.Marshal(d.Rows[i])
					y, _ := json.Marshal(d2.Rows[i])
					if string(x) != string(y) {
						c.Violate("catalog nondeterministic: "+d.Rows[i].Pkg+"."+d.Rows[i].Ctor, rowCase(d.Rows[i]), d.Rows[i].Pkg+"."+d.Rows[i].Ctor,
							string(x), string(y))
						break
					}
				}
			}
			c.Same("dump-twice", "dump#2", "second run of the constructor dump", trunc(string(a), 300), trunc(string(b), 300))
		}
		c.Hist("dump-twice:compared")
	}
}

// corpusC15: the witnesses of finding F11 (repaired by fix: commits), called in-process before anything else.
func corpusC15(c *Ctx) {
	type tc struct {
		id   string
		name string
		f    func() string // returns "" when fine, else what is wrong
	}
	cases := []tc{
		{"corpus#F11-cooler", "service.NewCooler()", func() string {
			if s := service.NewCooler(); s.Service == nil || s.Type != service.TypeHeaterCooler {
				return "no HeaterCooler service inside"
			}
			return ""
		}},
		{"corpus#F11-heater", "service.NewHeater()", func() string {
			if s := service.NewHeater(); s.Service == nil || s.Type != service.TypeHeaterCooler {
				return "no HeaterCooler service inside"
			}
			return ""
		}},
		{"corpus#F11-wifi-type", "characteristic.NewWifiConfigurationControl()", func() string {
			if t := characteristic.NewWifiConfigurationControl().Type; t != characteristic.TypeWifiConfigurationControl {
				return "type " + t + " instead of TypeWifiConfigurationControl " + characteristic.TypeWifiConfigurationControl
			}
			return ""
		}},
		{"corpus#F11-wifi-value", "characteristic.NewWifiConfigurationControl()", func() string {
			ch := characteristic.NewWifiConfigurationControl()
			if _, ok := ch.Value.(string); !ok && ch.IsReadable() {
				return fmt.Sprintf("readable but default value is %v", ch.Value)
			}
			return ""
		}},
		{"corpus#F11-wifitransport-dup", "service.NewWifiTransport()", func() string {
			seen := map[string]bool{}
			for _, ch := range service.NewWifiTransport().Characteristics {
				if seen[ch.Type] {
					return "two characteristics of type " + ch.Type
				}
				seen[ch.Type] = true
			}
			return ""
		}},
	}
	for _, t := range cases {
		if c.Skip(t.id) {
			continue
		}
		var bad string
		msg, pan := safely(func() { bad = t.f() })
		if pan {
			bad = "panic: " + msg
		}
		c.Count(t.id, true, "corpus")
		if bad != "" {
			c.Violate("catalog corpus F11: "+t.name+" unusable or mistyped", t.id, t.name, "a usable object of its own type", bad)
		}
	}
}

// c15Usable: "returns a usable object" taken at its word, for every characteristic constructor of the catalog: a valid
// value of its format, set by the application (typed) and written by a controller (as the JSON decoder hands it over: a
// float64 for every number), is accepted without panic and is what the object then holds.
func c15Usable(c *Ctx) {
	for ci, e := range allCharacteristicCtors {
		id := "usable#" + e.Name
		if c.Skip(id) {
			continue
		}
		r := c.CaseRng("usable", ci)
		cc, pm := newCtorCase(e)
		if cc == nil {
			c.Violate("characteristic constructor panics", id, e.Name, "object", pm)
			continue
		}
		ch := cc.C
		for _, v := range c09ValuesFor(r, ch, cc.Wrapper, false) {
			in := map[string]interface{}{"constructor": e.Name, "format": ch.Format, "min": fmt.Sprint(ch.MinValue), "max": fmt.Sprint(ch.MaxValue), "value": fmt.Sprintf("%T %v", v, trunc(fmt.Sprint(v), 60))}
			if msg, pan := safely(func() { ch.UpdateValue(v) }); pan {
				c.Violate("a valid value set by the application makes the characteristic panic", id, in, "stored", trunc(msg, 100))
				break
			}
			if ch.IsReadable() && !sameGoValue(ch.Value, v) {
				c.Violate("valid value set by the application is not stored as it is", id, in, fmt.Sprint(v), fmt.Sprintf("%T %v", ch.Value, ch.Value))
				break
			}
			// as a controller sends it
			var jv interface{} = v
			if n, isInt := v.(int); isInt {
				jv = float64(n)
			}
			perms := ch.Perms
			ch.Perms = characteristic.PermsAll()
			msg, pan := safely(func() { ch.UpdateValueFromConnection(jv, characteristic.TestConn) })
			stored := ch.Value
			ch.Perms = perms
			if pan {
				c.Violate("a valid value written by a controller makes the characteristic panic", id, in, "stored", trunc(msg, 100))
				break
			}
			if !sameGoValue(stored, v) {
				c.Violate("value written by a verified controller is not what the application reads", id, in, fmt.Sprint(v), fmt.Sprintf("%T %v", stored, stored))
				break
			}
		}
		c.Count(id, true, "stream:usable", "usable:"+cc.Wrapper)
	}
}

// c15RangedCtors: the accessory constructors that take a value and a range (thermometer, thermostat): whatever the
// arguments — rooms below zero, ranges outside the metadata's default range, values outside the given range — the object
// is usable: the value is the given one when it lies inside the given range and the nearest bound otherwise; and the
// constructors are safe to call from several goroutines at once (each call builds its own object).
func c15RangedCtors(c *Ctx) {
	vals := []float64{-273.15, -90, -20, -5, -0.5, 0, 0.1, 1, 8, 10, 25.5, 30, 38, 50, 60, 80, 100, 120, 200, 1e6}
	for i := 0; i < c.Pick(200, 4000); i++ {
		id := c.CaseID("ranged-ctors", i)
		if c.Skip(id) {
			continue
		}
		r := c.CaseRng("ranged-ctors", i)
		a, b, temp := vals[r.Intn(len(vals))], vals[r.Intn(len(vals))], vals[r.Intn(len(vals))]
		if a > b {
			a, b = b, a
		}
		want := math.Min(math.Max(temp, a), b)
		var got []float64
		name := "NewTemperatureSensor"
		if i%2 == 0 {
			name = "NewThermostat"
			t := accessory.NewThermostat(accessory.Info{Name: "T"}, temp, a, b, 0.5)
			got = []float64{t.Thermostat.CurrentTemperature.GetValue(), t.Thermostat.TargetTemperature.GetValue()}
		} else {
			t := accessory.NewTemperatureSensor(accessory.Info{Name: "T"}, temp, a, b, 0.5)
			got = []float64{t.TempSensor.CurrentTemperature.GetValue()}
		}
		for _, g := range got {
			if g != want {
				c.Violate("an accessory constructor that takes a value and a range returns an object with another value (not the given one, although it lies inside the given range, or one outside the range)", id,
					fmt.Sprintf("accessory.%s(info, %v, %v, %v, 0.5)", name, temp, a, b), fmt.Sprint(want), fmt.Sprint(g))
				break
			}
		}
		c.Count(fmt.Sprint(name, temp, a, b), true, "stream:ranged-ctors")
	}
}

// c15ConcurrentCtors: constructors called from several goroutines at the same time (an application that builds its
// accessories in parallel, or one that builds a new accessory while the running ones update their values): every object is
// what the constructor yields when it is called alone.
func c15ConcurrentCtors(c *Ctx) {
	id := "concurrent-ctors#0"
	if c.Skip(id) {
		return
	}
	type mk struct {
		name string
		fn   func() *characteristic.Characteristic
	}
	mks := []mk{
		{"NewSetupEndpoints", func() *characteristic.Characteristic { return characteristic.NewSetupEndpoints().Characteristic }},
		{"NewSupportedVideoStreamConfiguration", func() *characteristic.Characteristic { return characteristic.NewSupportedVideoStreamConfiguration().Characteristic }},
		{"NewSelectedRTPStreamConfiguration", func() *characteristic.Characteristic { return characteristic.NewSelectedRTPStreamConfiguration().Characteristic }},
		{"NewName", func() *characteristic.Characteristic { return characteristic.NewName().Characteristic }},
		{"NewBrightness", func() *characteristic.Characteristic { return characteristic.NewBrightness().Characteristic }},
	}
	alone := map[string]string{}
	for _, m := range mks {
		alone[m.name] = fmt.Sprintf("%T %v", m.fn().Value, m.fn().Value)
	}
	stop := make(chan struct{})
	var wg sync.WaitGroup
	var mu sync.Mutex
	bad := ""
	// meanwhile: a running camera keeps setting tlv8 values of its own
	for g := 0; g < 4; g++ {
		wg.Add(1)
		go func(g int) {
			defer wg.Done()
			busy := characteristic.NewSupportedAudioStreamConfiguration()
			payload := bytes.Repeat([]byte{byte(0xA0 + g)}, 300+g*37)
			for {
				select {
				case <-stop:
					return
				default:
				}
				if msg, pan := safely(func() { busy.SetValue(payload) }); pan {
					mu.Lock()
					if bad == "" {
						bad = "SetValue of a tlv8 characteristic panics: " + trunc(msg, 120)
					}
					mu.Unlock()
					return
				}
			}
		}(g)
	}
	for g := 0; g < 6; g++ {
		wg.Add(1)
		go func(g int) {
			defer wg.Done()
			for k := 0; k < 4000; k++ {
				m := mks[(g+k)%len(mks)]
				var got string
				msg, pan := safely(func() { v := m.fn().Value; got = fmt.Sprintf("%T %v", v, v) })
				if pan {
					got = "panic: " + msg
				}
				if got != alone[m.name] {
					mu.Lock()
					if bad == "" {
						bad = fmt.Sprintf("characteristic.%s(): %s (alone: %s)", m.name, trunc(got, 120), trunc(alone[m.name], 60))
					}
					mu.Unlock()
					return
				}
			}
		}(g)
	}
	time.Sleep(300 * time.Millisecond)
	close(stop)
	wg.Wait()
	if bad != "" {
		c.Violate("a constructor called while other goroutines build or update characteristics does not return the object it returns when called alone", id,
			map[string]interface{}{"goroutines_calling_constructors": 6, "goroutines_setting_tlv8_values": 4}, "the constructor's default", bad)
	}
	c.Count(id, true, "stream:concurrent-ctors")
}
