package main

import (
	"fmt"
	"os"
	"path/filepath"

	"hcverif/harness/internal/fstrace"

	"github.com/brutella/hc"
	"github.com/brutella/hc/accessory"
)

// c20FirstStartCrash: the very first start on an empty storage is killed at every file-system call it makes (real child
// process, strace kill injection). Whatever the point: the next start keeps (or draws) ONE identity — one entity, stored
// under the id in `uuid` — and, no controller having ever paired, the accessory is discoverable.
func c20FirstStartCrash(c *Ctx) {
	id0 := "first-start-crash"
	if c.Skip(id0) {
		return
	}
	probe := c19Probe(c)
	root := c.ScratchDir()
	n := 0
	fresh := func() string {
		n++
		d := filepath.Join(root, fmt.Sprintf("fs%d", n), "store")
		os.MkdirAll(filepath.Dir(d), 0755)
		return d
	}
	argv := func(d string) []string { return []string{probe, "start", d, "00102003", "Crash Switch"} }
	d0 := fresh()
	calls, _, runErr, err := fstrace.Record(root, d0, argv(d0), "")
	if err != nil {
		fatal("strace: %v", err)
	}
	if runErr != nil {
		c.Violate("first start on an empty storage fails", id0, nil, "exit 0", runErr.Error())
		return
	}
	os.RemoveAll(filepath.Dir(d0))
	for j, call := range calls {
		id := fmt.Sprintf("first-start-crash#%d", j)
		if c.Skip(id) {
			continue
		}
		d := fresh()
		_, _, kerr, err := fstrace.Record(root, d, argv(d), fmt.Sprintf("%s:signal=SIGKILL:when=%d", call.Name, call.Nth))
		if err != nil {
			fatal("strace: %v", err)
		}
		in := map[string]interface{}{"first_start_killed_on_entering": call.Descr, "system_call_index": j, "system_calls_of_a_first_start": callDescr(calls)}
		if kerr == nil {
			c.Mismatch("kill-injection", id, in, "process killed at "+call.Descr, "process ran to completion")
			continue
		}
		// the next start, in this process (not started: no mDNS traffic)
		sw := accessory.NewSwitch(accessory.Info{Name: "Crash Switch"})
		t, err := hc.NewIPTransport(hc.Config{StoragePath: d, Pin: "00102003"}, sw.Accessory)
		if err != nil {
			c.Violate("the start after a first start that was killed fails", id, in, "started", err.Error())
			continue
		}
		es := readEntities(d)
		uuid, _ := os.ReadFile(filepath.Join(d, "uuid"))
		txt := hc.VerifTxtRecords(t)
		var names []string
		for _, e := range es {
			names = append(names, e.Name)
		}
		if len(es) != 1 || es[0].Name != string(uuid) || txt["id"] != string(uuid) {
			c.Violate("after a first start that was killed the accessory does not have exactly one identity (an orphaned entity of the killed start is left behind)", id, in,
				"one entity, stored under the id in uuid", fmt.Sprintf("entities %q, uuid %q, advertised id %q", names, uuid, txt["id"]))
		}
		if txt["sf"] != "1" {
			c.Violate("discoverable flag sf is not (no controller pairing stored) after a first start that was killed", id, in, "sf=1", "sf="+txt["sf"])
		}
		c.Count(id, true, "stream:first-start-crash", "first-start-crash:"+call.Name)
		os.RemoveAll(filepath.Dir(d))
	}
}

// c20HashPrecision: structures that differ only in an integer above 2^53 (an explicit accessory id) are different
// structures: the configuration hash must differ. And the hash does not depend on values, nor change between two
// computations.
func c20HashPrecision(c *Ctx) {
	mk := func(id uint64, v bool) *accessory.Container {
		sw := accessory.NewSwitch(accessory.Info{Name: "H", ID: id})
		sw.Switch.On.SetValue(v)
		cont := accessory.NewContainer()
		cont.AddAccessory(sw.Accessory)
		return cont
	}
	for i, p := range [][2]uint64{{1 << 53, 1<<53 + 1}, {1<<53 + 1, 1<<53 + 2}, {1<<63 - 1, 1 << 63}, {1<<64 - 2, 1<<64 - 1}, {5, 6}} {
		id := fmt.Sprintf("hash-precision#%d", i)
		if c.Skip(id) {
			continue
		}
		h1, h2, h1v := mk(p[0], false).ContentHash(), mk(p[1], false).ContentHash(), mk(p[0], true).ContentHash()
		in := map[string]interface{}{"accessory_ids": []string{fmt.Sprint(p[0]), fmt.Sprint(p[1])}}
		if string(h1) == string(h2) {
			c.Violate("configuration hash does not change although the structure of the accessory database changed (the configuration number would not increase)", id, in, "different hashes", hx(h1))
		}
		if string(h1) != string(h1v) {
			c.Violate("configuration hash depends on a characteristic value", id, in, hx(h1), hx(h1v))
		}
		c.Count(id, true, "stream:hash-precision")
	}
}
