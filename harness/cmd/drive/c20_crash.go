package main

import (
	"bytes"
	"encoding/hex"
	"fmt"
	"os"
	"os/exec"
	"path/filepath"
	"strconv"
	"strings"
	"sync"
	"time"

	"hcverif/harness/internal/fstrace"

	"github.com/brutella/hc"
	"github.com/brutella/hc/accessory"
	"github.com/brutella/hc/db"
	"github.com/brutella/hc/event"
)

// c20FirstStartCrash: the very first start on an empty storage is killed at every file-system call it makes (real child
// process, strace kill injection). Whatever the point: the next start keeps (or draws) ONE identity — one entity, stored
// under the id in `uuid` — and, no controller having ever paired, the accessory is discoverable.
func c20FirstStartCrash(c *Ctx) {
	id0 := "first-start-crash"
	if c.Skip(id0) {
		return
	}
	probe := c19Probe(c)
	root := c.ScratchDir()
	n := 0
	fresh := func() string {
		n++
		d := filepath.Join(root, fmt.Sprintf("fs%d", n), "store")
		os.MkdirAll(filepath.Dir(d), 0755)
		return d
	}
	argv := func(d string) []string { return []string{probe, "start", d, "00102003", "Crash Switch"} }
	d0 := fresh()
	calls, _, runErr, err := fstrace.Record(root, d0, argv(d0), "")
	if err != nil {
		fatal("strace: %v", err)
	}
	if runErr != nil {
		c.Violate("first start on an empty storage fails", id0, nil, "exit 0", runErr.Error())
		return
	}
	os.RemoveAll(filepath.Dir(d0))
	for j, call := range calls {
		id := fmt.Sprintf("first-start-crash#%d", j)
		if c.Skip(id) {
			continue
		}
		d := fresh()
		_, _, kerr, err := fstrace.Record(root, d, argv(d), fmt.Sprintf("%s:signal=SIGKILL:when=%d", call.Name, call.Nth))
		if err != nil {
			fatal("strace: %v", err)
		}
		in := map[string]interface{}{"first_start_killed_on_entering": call.Descr, "system_call_index": j, "system_calls_of_a_first_start": callDescr(calls)}
		if kerr == nil {
			c.Mismatch("kill-injection", id, in, "process killed at "+call.Descr, "process ran to completion")
			continue
		}
		// the next start, in this process (not started: no mDNS traffic)
		sw := accessory.NewSwitch(accessory.Info{Name: "Crash Switch"})
		t, err := hc.NewIPTransport(hc.Config{StoragePath: d, Pin: "00102003"}, sw.Accessory)
		if err != nil {
			c.Violate("the start after a first start that was killed fails", id, in, "started", err.Error())
			continue
		}
		es := readEntities(d)
		uuid, _ := os.ReadFile(filepath.Join(d, "uuid"))
		txt := hc.VerifTxtRecords(t)
		var names []string
		for _, e := range es {
			names = append(names, e.Name)
		}
		if len(es) != 1 || es[0].Name != string(uuid) || txt["id"] != string(uuid) {
			c.Violate("after a first start that was killed the accessory does not have exactly one identity (an orphaned entity of the killed start is left behind)", id, in,
				"one entity, stored under the id in uuid", fmt.Sprintf("entities %q, uuid %q, advertised id %q", names, uuid, txt["id"]))
		}
		if txt["sf"] != "1" {
			c.Violate("discoverable flag sf is not (no controller pairing stored) after a first start that was killed", id, in, "sf=1", "sf="+txt["sf"])
		}
		c.Count(id, true, "stream:first-start-crash", "first-start-crash:"+call.Name)
		os.RemoveAll(filepath.Dir(d))
	}
}

// c20RestructureCrash: the accessory ran as a switch; the application is changed to a lightbulb (another structure) and the
// start that notices the change is killed at every file-system call it makes; then the lightbulb application starts
// normally, twice. The configuration number must then be greater than the one announced for the switch — controllers that
// cached the switch's database must refetch — and stay the same on the second start. Compared with Hc.CfgCrash
// (`config cfgcrash`), where the number of completed configuration writes is read off the disk after the kill.
func c20RestructureCrash(c *Ctx) {
	id0 := "restructure-crash"
	if c.Skip(id0) {
		return
	}
	probe := c19Probe(c)
	root := c.ScratchDir()
	n := 0
	prepared := func() (string, string, string) {
		n++
		d := filepath.Join(root, fmt.Sprintf("rs%d", n), "store")
		os.MkdirAll(filepath.Dir(d), 0755)
		sw := accessory.NewSwitch(accessory.Info{Name: "Crash Acc"})
		if _, err := hc.NewIPTransport(hc.Config{StoragePath: d, Pin: "00102003"}, sw.Accessory); err != nil {
			fatal("start: %v", err)
		}
		v, _ := os.ReadFile(filepath.Join(d, "version"))
		h, _ := os.ReadFile(filepath.Join(d, "configHash"))
		return d, string(v), string(h)
	}
	argv := func(d string) []string { return []string{probe, "start", d, "00102003", "Crash Acc", "lightbulb"} }
	d0, _, _ := prepared()
	calls, _, runErr, err := fstrace.Record(root, d0, argv(d0), "")
	if err != nil {
		fatal("strace: %v", err)
	}
	if runErr != nil {
		c.Violate("a start with a changed accessory structure fails", id0, nil, "exit 0", runErr.Error())
		return
	}
	newHash, _ := os.ReadFile(filepath.Join(d0, "configHash"))
	os.RemoveAll(filepath.Dir(d0))
	restart := func(d string) (string, error) {
		lb := accessory.NewLightbulb(accessory.Info{Name: "Crash Acc"})
		t, err := hc.NewIPTransport(hc.Config{StoragePath: d, Pin: "00102003"}, lb.Accessory)
		if err != nil {
			return "", err
		}
		return hc.VerifTxtRecords(t)["c#"], nil
	}
	for j, call := range calls {
		id := fmt.Sprintf("restructure-crash#%d", j)
		if c.Skip(id) {
			continue
		}
		d, v0, h0 := prepared()
		_, _, kerr, err := fstrace.Record(root, d, argv(d), fmt.Sprintf("%s:signal=SIGKILL:when=%d", call.Name, call.Nth))
		if err != nil {
			fatal("strace: %v", err)
		}
		in := map[string]interface{}{"version_announced_for_the_old_structure": v0, "start_with_new_structure_killed_on_entering": call.Descr, "system_call_index": j, "system_calls_of_that_start": callDescr(calls)}
		if kerr == nil {
			c.Mismatch("kill-injection", id, in, "process killed at "+call.Descr, "process ran to completion")
			continue
		}
		vk, _ := os.ReadFile(filepath.Join(d, "version"))
		hk, _ := os.ReadFile(filepath.Join(d, "configHash"))
		k := 0
		if string(vk) != v0 {
			k++
		}
		if string(hk) != h0 {
			k++
		}
		hashFirstOnDisk := string(hk) != h0 && string(vk) == v0
		c1, err := restart(d)
		if err != nil {
			c.Violate("the start after a killed start fails", id, in, "started", err.Error())
			continue
		}
		c2, _ := restart(d)
		var a, b int
		fmt.Sscan(v0, &a)
		fmt.Sscan(c1, &b)
		if b <= a || c2 != c1 {
			c.Violate("the configuration number does not increase although the structure of the accessory database changed (the start that noticed the change was killed)", id, in,
				fmt.Sprintf("c# > %s on the next start and the same on the one after", v0), fmt.Sprintf("c#=%s then c#=%s (after the kill: version file %q, hash file changed: %v)", c1, c2, vk, string(hk) != h0))
		}
		if !hashFirstOnDisk {
			model := c.Model1(fmt.Sprintf("config cfgcrash 0 %d 1 2 %d", a, k))
			hs := 1
			if hNow, _ := os.ReadFile(filepath.Join(d, "configHash")); string(hNow) == string(newHash) {
				hs = 2
			}
			vNow, _ := os.ReadFile(filepath.Join(d, "version"))
			c.Same("restructure-crash", id, in, model, fmt.Sprintf("version=%s hash=%d", vNow, hs))
		} else {
			c.Mismatch("restructure-crash", id, in, "the version reaches the disk before the hash (Generated/CfgSave.lean)", "after the kill the hash is new and the version old")
		}
		c.Count(id, true, "stream:restructure-crash", fmt.Sprintf("restructure-crash:writes-done=%d", k))
		os.RemoveAll(filepath.Dir(d))
	}
}

// c20HashPrecision: structures that differ only in an integer above 2^53 (an explicit accessory id) are different
// structures: the configuration hash must differ. And the hash does not depend on values, nor change between two
// computations.
func c20HashPrecision(c *Ctx) {
	mk := func(id uint64, v bool) *accessory.Container {
		sw := accessory.NewSwitch(accessory.Info{Name: "H", ID: id})
		sw.Switch.On.SetValue(v)
		cont := accessory.NewContainer()
		cont.AddAccessory(sw.Accessory)
		return cont
	}
	for i, p := range [][2]uint64{{1 << 53, 1<<53 + 1}, {1<<53 + 1, 1<<53 + 2}, {1<<63 - 1, 1 << 63}, {1<<64 - 2, 1<<64 - 1}, {5, 6}} {
		id := fmt.Sprintf("hash-precision#%d", i)
		if c.Skip(id) {
			continue
		}
		h1, h2, h1v := mk(p[0], false).ContentHash(), mk(p[1], false).ContentHash(), mk(p[0], true).ContentHash()
		in := map[string]interface{}{"accessory_ids": []string{fmt.Sprint(p[0]), fmt.Sprint(p[1])}}
		if string(h1) == string(h2) {
			c.Violate("configuration hash does not change although the structure of the accessory database changed (the configuration number would not increase)", id, in, "different hashes", hx(h1))
		}
		if string(h1) != string(h1v) {
			c.Violate("configuration hash depends on a characteristic value", id, in, hx(h1), hx(h1v))
		}
		c.Count(id, true, "stream:hash-precision")
	}
}

// c20ConcurrentUnpair: on a STARTED transport (announcing new TXT records takes the responder about a second) two
// controllers are removed a moment apart, by the handlers of two connections. When both removals are done no pairing is
// stored — and that is what the accessory advertises.
func c20ConcurrentUnpair(c *Ctx) {
	id := "concurrent-unpair#0"
	if c.Skip(id) {
		return
	}
	dir := c.ScratchDir()
	sw := accessory.NewSwitch(accessory.Info{Name: "Unpair"})
	acc, err := startE2E(dir, "00102003", false, sw.Accessory)
	if err != nil {
		c.Violate("transport does not start", id, nil, "started", err.Error())
		return
	}
	defer acc.Stop()
	database, err := dbFor(dir)
	if err != nil {
		fatal("db: %v", err)
	}
	em := hc.VerifEmitter(acc.t)
	database.SaveEntity(db.NewEntity("ctrl-A", bytes.Repeat([]byte{1}, 32), nil))
	database.SaveEntity(db.NewEntity("ctrl-B", bytes.Repeat([]byte{2}, 32), nil))
	em.Emit(event.DevicePaired{})
	in := map[string]interface{}{"stored_controllers": 2, "then": "DeleteEntity(ctrl-A)+event and, 200 ms later from another goroutine, DeleteEntity(ctrl-B)+event"}
	if sf := hc.VerifTxtRecords(acc.t)["sf"]; sf != "0" {
		c.Violate("discoverable flag sf is not (no controller pairing stored)", id, in, "sf=0 with two pairings", "sf="+sf)
	}
	var wg sync.WaitGroup
	for k, name := range []string{"ctrl-A", "ctrl-B"} {
		wg.Add(1)
		go func(k int, name string) {
			defer wg.Done()
			time.Sleep(time.Duration(k) * 200 * time.Millisecond)
			database.DeleteEntity(db.NewEntity(name, nil, nil))
			em.Emit(event.DeviceUnpaired{})
		}(k, name)
	}
	wg.Wait()
	time.Sleep(50 * time.Millisecond)
	if sf := hc.VerifTxtRecords(acc.t)["sf"]; sf != "1" {
		c.Violate("discoverable flag sf is not (no controller pairing stored)", id, in, "sf=1: no controller pairing is stored any more", "sf="+sf)
	}
	c.Count(id, true, "stream:concurrent-unpair")
}

// c20StartFaults: restarts during which stored values cannot be read (F64). A storage holds the identity of a first
// start and one controller pairing; the next start (a child under strace) gets an injected error – no descriptor left, an
// I/O error, no permission – from the opens or the reads of any subset of the four files it reads (id, configuration
// number, content hash, the accessory's own entity). Model: `config startf` (HcModel/Config.lean `startF`); the oracle
// does not use the model: whatever failed, the stored id, key pair and pairing are the ones of before, and the number
// is not lower.
func c20StartFaults(c *Ctx) {
	id0 := "start-faults"
	if c.Skip(id0) {
		return
	}
	probe := c19Probe(c)
	root := c.ScratchDir()
	n := 0
	type prep struct {
		dir, uuid string
		pub       []byte
	}
	prepared := func() prep {
		n++
		d := filepath.Join(root, fmt.Sprintf("sf%d", n), "store")
		os.MkdirAll(filepath.Dir(d), 0755)
		sw := accessory.NewSwitch(accessory.Info{Name: "Fault Acc"})
		if _, err := hc.NewIPTransport(hc.Config{StoragePath: d, Pin: "00102003"}, sw.Accessory); err != nil {
			fatal("start: %v", err)
		}
		database, _ := dbFor(d)
		database.SaveEntity(db.NewEntity("ctrl-paired", bytes.Repeat([]byte{7}, 32), nil))
		uuid, _ := os.ReadFile(filepath.Join(d, "uuid"))
		e, err := database.EntityWithName(string(uuid))
		if err != nil {
			fatal("own entity: %v", err)
		}
		return prep{d, string(uuid), e.PublicKey}
	}
	type fcase struct {
		flags        string // id, number, hash, own entity
		restructured bool
		call, errno  string
		first        bool // only the first matching call fails
	}
	var cases []fcase
	errnos := []string{"EMFILE", "EIO", "EACCES"}
	k := 0
	for m := 0; m < 16; m++ {
		flags := fmt.Sprintf("%04b", m)
		for _, restructured := range []bool{false, true} {
			for _, call := range []string{"openat", "read"} {
				for _, errno := range errnos {
					if call == "read" && errno != "EIO" {
						continue
					}
					k++
					single := strings.Count(flags, "1") == 1
					if !c.Thorough() && !(single && (call == "read" || errno == errnos[k%3]) && restructured == (m == 4)) && !(m == 0 && call == "openat" && errno == "EIO") && k%11 != 0 {
						continue
					}
					cases = append(cases, fcase{flags, restructured, call, errno, false})
					if single && c.Thorough() {
						cases = append(cases, fcase{flags, restructured, call, errno, true})
					}
				}
			}
		}
	}
	var lines []string
	for _, fc := range cases {
		lines = append(lines, fmt.Sprintf("config startf %s %d", fc.flags, map[bool]int{false: 0, true: 1}[fc.restructured]))
	}
	model := c.Model(lines)
	for i, fc := range cases {
		id := fmt.Sprintf("start-faults#%s.%v.%s.%s.%v", fc.flags, fc.restructured, fc.call, fc.errno, fc.first)
		if c.Skip(id) {
			continue
		}
		p := prepared()
		files := []string{"uuid", "version", "configHash", hex.EncodeToString([]byte(p.uuid)) + ".entity"}
		args := []string{"-f", "-o", "/dev/null", "-e", "trace=openat,read"}
		var failing []string
		for j, f := range files {
			if fc.flags[j] == '1' {
				args = append(args, "-P", filepath.Join(p.dir, f))
				failing = append(failing, f)
			}
		}
		if len(failing) > 0 {
			inj := "inject=" + fc.call + ":error=" + fc.errno
			if fc.first {
				inj += ":when=1"
			}
			args = append(args, "-e", inj)
		}
		args = append(args, probe, "start", p.dir, "00102003", "Fault Acc")
		if fc.restructured {
			args = append(args, "lightbulb")
		}
		cmd := exec.Command("strace", args...)
		var stderr bytes.Buffer
		cmd.Stderr = &stderr
		runErr := cmd.Run()
		outcome := "started"
		if runErr != nil {
			outcome = "error"
			if ee, ok := runErr.(*exec.ExitError); !ok || ee.ExitCode() != 1 {
				fatal("start-faults: %v: %s", runErr, stderr.String())
			}
		}
		in := map[string]interface{}{"restart_during_which_this_call_fails": fc.call, "with": fc.errno, "on_the_files": failing,
			"only_the_first_such_call": fc.first, "restart_with_another_structure": fc.restructured, "that_start": outcome + " " + strings.TrimSpace(stderr.String())}
		database, _ := dbFor(p.dir)
		uuid, _ := os.ReadFile(filepath.Join(p.dir, "uuid"))
		version, _ := os.ReadFile(filepath.Join(p.dir, "version"))
		es, _ := database.Entities()
		idS, keyS := "same", "none"
		if string(uuid) != p.uuid {
			idS = "other"
			c.Violate("the accessory does not keep its device id across a restart during which a stored value could not be read", id, in, p.uuid, string(uuid))
		}
		if e, eerr := database.EntityWithName(string(uuid)); eerr == nil {
			keyS = "other"
			if bytes.Equal(e.PublicKey, p.pub) && len(e.PrivateKey) > 0 {
				keyS = "same"
			}
		}
		if e, eerr := database.EntityWithName(p.uuid); eerr != nil || !bytes.Equal(e.PublicKey, p.pub) {
			got := "no entity under its id"
			if eerr == nil {
				got = hx(e.PublicKey) + " (a new key pair was stored over the old one)"
			}
			c.Violate("the accessory does not keep its long-term key pair across a restart during which a stored value could not be read", id, in, hx(p.pub), got)
		}
		if _, perr := database.EntityWithName("ctrl-paired"); perr != nil {
			c.Violate("the accessory does not keep its pairings across a restart during which a stored value could not be read", id, in, "ctrl-paired", perr.Error())
		}
		if v, _ := strconv.Atoi(string(version)); v < 1 || (fc.restructured && outcome == "started" && v < 2) {
			c.Violate("the configuration number goes down (or does not go up with the structure) across a restart during which a stored value could not be read", id, in, "1, or 2 after a start with the new structure", string(version))
		}
		impl := fmt.Sprintf("%s id=%s key=%s entities=%d version=%s", outcome, idS, keyS, len(es), version)
		c.Same("start-faults", id, lines[i], model[i], impl)
		os.RemoveAll(filepath.Dir(p.dir))
		c.Count(id, len(failing) > 0, "stream:start-faults", "start-faults:"+fc.call+"/"+fc.errno, "start-faults:=>"+outcome, fmt.Sprintf("start-faults:failing=%d", len(failing)))
	}
}
