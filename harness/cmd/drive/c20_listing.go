package main

// C20 — "discoverable exactly when no controller pairing is stored" goes through db.Entities(): the keys are listed and
// then read one by one. Stream `listing-race`: on the real db package over a real directory, another goroutine's removal
// (or several) runs in full at every storage boundary of a listing (hookStorage). Whatever the boundary: the listing
// succeeds, contains nothing that was never stored, and contains every entity that was not removed — so an accessory with
// a remaining controller pairing does not call itself unpaired. Model: HcModel/EntitiesRace.lean, theorem
// listing_survives_concurrent_removal (C20.lean).

import (
	"fmt"
	"sort"
	"strings"

	"github.com/brutella/hc/db"
	"github.com/brutella/hc/util"
)

func c20ListingDuringRemoval(c *Ctx) {
	for i := 0; i < c.Pick(4, 60); i++ {
		id := c.CaseID("listing-race", i)
		if c.Skip(id) {
			continue
		}
		r := c.CaseRng("listing-race", i)
		n := 2 + r.Intn(5)
		var names []string
		for k := 0; k < n; k++ {
			names = append(names, fmt.Sprintf("ctrl-%c%d", 'A'+k, r.Intn(1000)))
		}
		// which of them the other connections remove (never all: one pairing remains), fixed for this case
		removed := map[string]bool{}
		for _, k := range r.Perm(n)[:1+r.Intn(n-1)] {
			removed[names[k]] = true
		}
		// number of storage boundaries of one quiescent listing
		boundaries := 0
		probe := func(at int) (got []string, lerr error, points int) {
			st, err := util.NewFileStorage(c.ScratchDir())
			if err != nil {
				fatal("storage: %v", err)
			}
			hs := &hookStorage{Storage: st}
			database := db.NewDatabaseWithStorage(hs)
			for _, nm := range names {
				database.SaveEntity(db.NewEntity(nm, []byte(strings.Repeat("k", 32)), nil))
			}
			plain := db.NewDatabaseWithStorage(st) // the other connections' handle: no hooks, runs in full
			hs.hook = func(string) {
				if points == at {
					for nm := range removed {
						plain.DeleteEntity(db.NewEntity(nm, nil, nil))
					}
				}
				points++
			}
			es, lerr := database.Entities()
			hs.hook = nil
			for _, e := range es {
				got = append(got, e.Name)
			}
			sort.Strings(got)
			return got, lerr, points
		}
		_, _, boundaries = probe(-1)
		for at := 0; at < boundaries; at++ {
			got, lerr, _ := probe(at)
			in := map[string]interface{}{"stored": names, "removed_by_other_connections": keysOf(removed),
				"when": fmt.Sprintf("at storage boundary %d of %d of the listing (0 = before the first read)", at, boundaries)}
			if lerr != nil {
				c.Violate("the listing of the pairings fails because another connection removed a pairing meanwhile (discoverability reads a failed listing as: not paired)", id, in,
					"the entities that were not removed", "error: "+lerr.Error())
				break
			}
			have := map[string]bool{}
			for _, g := range got {
				have[g] = true
			}
			for _, nm := range names {
				if !removed[nm] && !have[nm] {
					c.Violate("the listing of the pairings misses an entity that nobody removed", id, in, nm, strings.Join(got, " "))
				}
			}
			for _, g := range got {
				found := false
				for _, nm := range names {
					found = found || nm == g
				}
				if !found {
					c.Violate("the listing of the pairings contains an entity that was never stored", id, in, strings.Join(names, " "), g)
				}
			}
			c.Count(fmt.Sprintf("%s@%d", id, at), true, "stream:listing-race", fmt.Sprintf("listing-race:entities=%d", n))
		}
	}
}

func keysOf(m map[string]bool) []string {
	var l []string
	for k := range m {
		l = append(l, k)
	}
	sort.Strings(l)
	return l
}
