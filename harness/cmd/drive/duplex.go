package main

import (
	"bufio"
	"bytes"
	"fmt"
	"io"
	"math/rand"
	"net"
	"sync"
	"time"

	"github.com/brutella/hc/crypto"
	"github.com/brutella/hc/hap"
)

// duplexStress: full-duplex traffic on several verified connections at once (free-running goroutines, real
// hap.Connection over net.Pipe): on every connection 3 writers send tagged payloads (responses / events) while the peer
// streams requests of other lengths in, and all connections (different session keys) do so simultaneously.
// Outbound: the peer must be able to decrypt every frame in arrival order and every payload must arrive intact and
// contiguous (C08). Inbound: the bytes Read hands on are exactly what the peer sent (C06/C07).
// A violation's replay is the configuration and seed; the interleaving itself is the Go scheduler's.
func duplexStress(c *Ctx, who string) {
	rounds := c.Pick(12, 150)
	for round := 0; round < rounds && c.NumViolations() < 3; round++ {
		id := c.CaseID("duplex", round)
		if c.Skip(id) {
			continue
		}
		r := c.CaseRng("duplex", round)
		nconn := 2 + r.Intn(2)
		type side struct {
			conn      *hap.Connection
			peerRaw   net.Conn
			peer      *refSession
			out       [][]byte // payloads per writer, concatenated in order
			in        []byte   // what the peer sends (plaintext)
			inChunks  [][]byte
			gotIn     []byte
			outPlain  []byte
			outErr    string
			inErr     string
			writerErr string
			peerSent  chan struct{} // closed when the accessory side has taken every byte the peer sent
			readDone  chan struct{} // closed when Read has handed all of them on
			withheld  string
		}
		var sides []*side
		ctx := hap.NewContextForSecuredDevice(nil)
		var wg sync.WaitGroup
		lens := []int{1, 2, 17, 100, 126, 127, 300, 1023, 1024, 1025, 2100}
		for k := 0; k < nconn; k++ {
			a, b := net.Pipe()
			s := &side{peerRaw: b, peerSent: make(chan struct{}), readDone: make(chan struct{})}
			// distinct remote addresses: the context keys sessions by them
			ac := &addrConn{Conn: a, remote: fakeAddr(fmt.Sprintf("10.9.0.%d:%d", k+1, 5000+k))}
			s.conn = hap.NewConnection(ac, ctx)
			var shared [32]byte
			copy(shared[:], randBytes(r, 32))
			sec, _ := crypto.NewSecureSessionFromSharedKey(shared)
			ctx.GetSessionForConnection(ac).SetCryptographer(sec)
			responseWritten(ctx, ac)
			s.peer = newRefControllerSession(shared[:])
			for i := 0; i < 8+r.Intn(25); i++ {
				s.inChunks = append(s.inChunks, randBytes(r, lens[r.Intn(len(lens))]))
				s.in = append(s.in, s.inChunks[len(s.inChunks)-1]...)
			}
			if (round+k)%2 == 0 {
				// the last message ends with a FULL frame and nothing follows (an HTTP client waiting for its answer)
				s.inChunks = append(s.inChunks, randBytes(r, []int{1024, 2048}[r.Intn(2)]))
				s.in = append(s.in, s.inChunks[len(s.inChunks)-1]...)
			}
			sides = append(sides, s)
		}
		mkPayload := func(k, tid, w, n int) []byte {
			p := make([]byte, 6+n)
			p[0], p[1], p[2], p[3], p[4], p[5] = 0xA5, byte(k), byte(tid), byte(w), byte(n>>8), byte(n)
			for i := 0; i < n; i++ {
				p[6+i] = byte(k*7 + tid*31 + w*13 + i)
			}
			return p
		}
		nw, nwr := 3, 6+r.Intn(10)
		plan := make([][][]int, nconn) // conn → writer → lengths
		for k := range sides {
			plan[k] = make([][]int, nw)
			for t := 0; t < nw; t++ {
				for w := 0; w < nwr; w++ {
					plan[k][t] = append(plan[k][t], lens[r.Intn(len(lens))])
				}
			}
		}
		start := make(chan struct{})
		for k, s := range sides {
			k, s := k, s
			// accessory side: writers
			var wwg sync.WaitGroup
			for t := 0; t < nw; t++ {
				t := t
				wwg.Add(1)
				go func() {
					defer wwg.Done()
					<-start
					for w, n := range plan[k][t] {
						if _, err := s.conn.Write(mkPayload(k, t, w, n)); err != nil {
							s.writerErr = err.Error()
							return
						}
					}
				}()
			}
			// accessory side: reader
			wg.Add(1)
			go func() {
				defer wg.Done()
				<-start
				// caller buffers smaller than a frame's plaintext on some connections: the rest of a frame stays with the
				// connection until the next Read (partial reads on one connection while others read and write)
				buf := make([]byte, []int{4096, 1, 100, 700, 1023, 4096}[(round+k)%6])
				defer close(s.readDone)
				for len(s.gotIn) < len(s.in) {
					n, err := s.conn.Read(buf)
					s.gotIn = append(s.gotIn, buf[:n]...)
					if err != nil || n == 0 {
						s.inErr = fmt.Sprintf("Read returned n=%d err=%v after %d of %d bytes", n, err, len(s.gotIn), len(s.in))
						return
					}
				}
			}()
			// peer: sends requests
			wg.Add(1)
			go func() {
				defer wg.Done()
				<-start
				for ci, ch := range s.inChunks {
					var wire []byte
					if ci%5 == 3 {
						wire = s.peer.EmptyFrame() // a frame without data in between (sealed first: counters follow the wire order): skipped, not the end of the stream
					}
					wire = append(wire, s.peer.Encrypt(ch)...)
					if _, err := s.peerRaw.Write(wire); err != nil {
						return
					}
				}
				close(s.peerSent)
			}()
			// peer: receives and decrypts everything the accessory writes
			total := 0
			for t := 0; t < nw; t++ {
				for _, n := range plan[k][t] {
					total += 6 + n
				}
			}
			wg.Add(1)
			go func() {
				defer wg.Done()
				var encbuf []byte
				buf := make([]byte, 65536)
				for len(s.outPlain) < total {
					s.peerRaw.SetReadDeadline(time.Now().Add(5 * time.Second))
					n, err := s.peerRaw.Read(buf)
					encbuf = append(encbuf, buf[:n]...)
					pt, used, ok := s.peer.DecryptFrames(encbuf)
					encbuf = encbuf[used:]
					s.outPlain = append(s.outPlain, pt...)
					if !ok {
						s.outErr = fmt.Sprintf("frame %d bytes into the stream does not authenticate under the session key and the next counter", len(s.outPlain))
						return
					}
					if err != nil {
						if err != io.EOF || len(s.outPlain) < total {
							s.outErr = fmt.Sprintf("peer read: %v after %d of %d plaintext bytes", err, len(s.outPlain), total)
						}
						return
					}
				}
			}()
			go func() { wwg.Wait() }()
		}
		close(start)
		done := make(chan struct{})
		go func() { wg.Wait(); close(done) }()
		// net.Pipe's Write returns when the other end has taken the bytes: once the peer has sent everything, handing the
		// bytes on needs no further input. A Read which still has not delivered them 10 s later is waiting for bytes that
		// the peer (which waits for its answer) will never send.
		for k, s := range sides {
			select {
			case <-s.peerSent:
				select {
				case <-s.readDone:
				case <-time.After(10 * time.Second):
					s.withheld = fmt.Sprintf("connection %d: the accessory took all %d inbound bytes off the wire (the last message ends with a %d-byte chunk) but Read has not handed them on 10 s later", k, len(s.in), len(s.inChunks[len(s.inChunks)-1]))
				}
			case <-time.After(20 * time.Second):
			}
		}
		select {
		case <-done:
		case <-time.After(20 * time.Second):
		}
		for _, s := range sides {
			s.peerRaw.Close()
			s.conn.Close()
		}
		select {
		case <-done:
		case <-time.After(5 * time.Second):
		}
		in := map[string]interface{}{"connections": nconn, "writers_per_connection": nw, "writes_per_writer": nwr, "payload_lengths": plan}
		for k, s := range sides {
			if s.outErr != "" {
				c.Violate(who+" duplex: the peer cannot decrypt what the accessory wrote while requests were arriving (and other connections were writing)", id, in, "every frame authenticates, in order", fmt.Sprintf("connection %d: %s (inbound: %s; writers: %s)", k, s.outErr, s.inErr, s.writerErr))
				continue
			}
			// parse the decrypted stream into whole payloads
			p := s.outPlain
			next := make([]int, nw)
			for len(p) > 0 {
				if len(p) < 6 || p[0] != 0xA5 || int(p[1]) != k || int(p[2]) >= nw {
					c.Violate(who+" duplex: a payload did not reach the peer intact and contiguous", id, in, "tagged payload header", fmt.Sprintf("connection %d: % x …", k, p[:min(8, len(p))]))
					break
				}
				t, w, n := int(p[2]), int(p[3]), int(p[4])<<8|int(p[5])
				if w != next[t] || len(p) < 6+n || !bytes.Equal(p[:6+n], mkPayload(k, t, w, n)) {
					c.Violate(who+" duplex: a payload did not reach the peer intact and contiguous", id, in, fmt.Sprintf("payload %d of writer %d whole", next[t], t), fmt.Sprintf("connection %d: header t=%d w=%d n=%d, %d bytes left", k, t, w, n, len(p)))
					break
				}
				next[t]++
				p = p[6+n:]
			}
			if s.withheld != "" {
				c.Violate(who+" duplex: received bytes are withheld until more bytes arrive", id, in, "a complete frame is decrypted and handed on when it has arrived", s.withheld)
				continue
			}
			if s.inErr != "" || !bytes.Equal(s.gotIn, s.in) {
				c.Violate(who+" duplex: Read does not hand on exactly what the peer sent while the connection was also being written to", id, in, fmt.Sprintf("%d bytes as sent", len(s.in)),
					fmt.Sprintf("connection %d: %s (first difference at %d)", k, s.inErr, firstDiff(s.gotIn, s.in)))
			}
		}
		c.Count(fmt.Sprint(id, plan), true, "stream:duplex", fmt.Sprintf("duplex:conns=%d", nconn))
	}
}

func firstDiff(a, b []byte) int {
	for i := 0; i < len(a) && i < len(b); i++ {
		if a[i] != b[i] {
			return i
		}
	}
	return min(len(a), len(b))
}

// addrConn gives a net.Conn a chosen remote address (net.Pipe's ends all share the address "pipe").
type addrConn struct {
	net.Conn
	remote net.Addr
}

func (a *addrConn) RemoteAddr() net.Addr { return a.remote }

var _ = rand.Int

// sinkConn records what is written to it (no peer to wait for: writers never block, so many Encrypt calls overlap).
type sinkConn struct {
	mu     sync.Mutex
	out    []byte
	remote net.Addr
}

func (s *sinkConn) Read(b []byte) (int, error) { select {} }
func (s *sinkConn) Write(b []byte) (int, error) {
	s.mu.Lock()
	s.out = append(s.out, b...)
	s.mu.Unlock()
	return len(b), nil
}
func (s *sinkConn) Close() error                       { return nil }
func (s *sinkConn) LocalAddr() net.Addr                { return fakeAddr("127.0.0.1:1") }
func (s *sinkConn) RemoteAddr() net.Addr               { return s.remote }
func (s *sinkConn) SetDeadline(t time.Time) error      { return nil }
func (s *sinkConn) SetReadDeadline(t time.Time) error  { return nil }
func (s *sinkConn) SetWriteDeadline(t time.Time) error { return nil }

// sealBurst: several verified connections with DIFFERENT session keys, several writers each, hundreds of small writes
// with nothing to wait for — the sealing of frames of different connections overlaps all the time. Afterwards every
// connection's byte stream must decrypt, frame by frame and in order, under ITS key, into whole tagged payloads.
func sealBurst(c *Ctx, who string) {
	for round := 0; round < c.Pick(6, 80) && c.NumViolations() < 3; round++ {
		id := c.CaseID("burst", round)
		if c.Skip(id) {
			continue
		}
		r := c.CaseRng("burst", round)
		nconn, nw, nwr := 3+r.Intn(3), 4, 150+r.Intn(200)
		ctx := hap.NewContextForSecuredDevice(nil)
		type side struct {
			sink *sinkConn
			conn *hap.Connection
			peer *refSession
		}
		var sides []*side
		for k := 0; k < nconn; k++ {
			sk := &sinkConn{remote: fakeAddr(fmt.Sprintf("10.9.1.%d:%d", k+1, 6000+k))}
			s := &side{sink: sk, conn: hap.NewConnection(sk, ctx)}
			var shared [32]byte
			copy(shared[:], randBytes(r, 32))
			sec, _ := crypto.NewSecureSessionFromSharedKey(shared)
			ctx.GetSessionForConnection(sk).SetCryptographer(sec)
			responseWritten(ctx, sk)
			s.peer = newRefControllerSession(shared[:])
			sides = append(sides, s)
		}
		payload := func(k, t, w int) []byte {
			n := 1 + (k*7+t*13+w*5)%90
			p := make([]byte, 4+n)
			p[0], p[1], p[2], p[3] = byte(k), byte(t), byte(w), byte(w>>8)
			for i := 0; i < n; i++ {
				p[4+i] = byte(k + t + w + i)
			}
			return p
		}
		var wg sync.WaitGroup
		start := make(chan struct{})
		for k, s := range sides {
			for t := 0; t < nw; t++ {
				wg.Add(1)
				go func(k, t int, s *side) {
					defer wg.Done()
					<-start
					for w := 0; w < nwr; w++ {
						s.conn.Write(payload(k, t, w))
					}
				}(k, t, s)
			}
		}
		close(start)
		wg.Wait()
		in := map[string]interface{}{"connections": nconn, "writers_per_connection": nw, "writes_per_writer": nwr}
		for k, s := range sides {
			pt, used, ok := s.peer.DecryptFrames(s.sink.out)
			if !ok || used != len(s.sink.out) {
				c.Violate(who+" burst: a frame written on one connection while other connections were sealing does not authenticate under this connection's key and counter", id, in,
					"every frame authenticates, in order", fmt.Sprintf("connection %d: stops after %d of %d bytes on the wire", k, used, len(s.sink.out)))
				continue
			}
			next := make([]int, nw)
			for len(pt) > 0 {
				if len(pt) < 4 || int(pt[0]) != k || int(pt[1]) >= nw {
					c.Violate(who+" burst: a payload did not reach the peer intact and contiguous", id, in, "tagged payload", fmt.Sprintf("connection %d: % x", k, pt[:min(8, len(pt))]))
					break
				}
				t, w := int(pt[1]), int(pt[2])|int(pt[3])<<8
				want := payload(k, t, w)
				if w != next[t] || len(pt) < len(want) || !bytes.Equal(pt[:len(want)], want) {
					c.Violate(who+" burst: a payload did not reach the peer intact and contiguous", id, in, fmt.Sprintf("payload %d of writer %d", next[t], t), fmt.Sprintf("connection %d: t=%d w=%d", k, t, w))
					break
				}
				next[t]++
				pt = pt[len(want):]
			}
		}
		c.Count(fmt.Sprint(id, nconn, nwr), true, "stream:burst", fmt.Sprintf("burst:conns=%d", nconn))
	}
}

// stackedWriters: what sits on top of a hap.Connection in net/http (a 4096-byte bufio.Writer) and in hc itself
// (hap.NewChunkedWriter) relies on the io.Writer contract: Write(p) returns len(p) and no more. Payloads around and above
// the buffer size written through such a writer must reach the peer byte for byte.
func stackedWriters(c *Ctx, who string) {
	sizes := []int{1, 100, 1024, 2048, 4095, 4096, 4097, 5000, 8192, 9000, 20000, 70000}
	for si, n := range sizes {
		for _, kind := range []string{"direct", "bufio4096", "chunked2048", "bufio4096-two-writes"} {
			id := fmt.Sprintf("stacked#%s.%d", kind, n)
			if c.Skip(id) {
				continue
			}
			r := c.CaseRng("stacked", si)
			sk := &sinkConn{remote: fakeAddr(fmt.Sprintf("10.9.2.%d:7000", si+1))}
			ctx := hap.NewContextForSecuredDevice(nil)
			conn := hap.NewConnection(sk, ctx)
			var shared [32]byte
			copy(shared[:], randBytes(r, 32))
			sec, _ := crypto.NewSecureSessionFromSharedKey(shared)
			ctx.GetSessionForConnection(sk).SetCryptographer(sec)
			responseWritten(ctx, sk)
			peer := newRefControllerSession(shared[:])
			payload := randBytes(r, n)
			var wn int
			var werr error
			msg, pan := safely(func() {
				switch kind {
				case "direct":
					wn, werr = conn.Write(payload)
				case "bufio4096":
					bw := bufio.NewWriterSize(conn, 4096)
					wn, werr = bw.Write(payload)
					if werr == nil {
						werr = bw.Flush()
					}
				case "bufio4096-two-writes":
					bw := bufio.NewWriterSize(conn, 4096)
					h := n / 3
					a, e1 := bw.Write(payload[:h])
					b, e2 := bw.Write(payload[h:])
					wn = a + b
					if werr = e1; werr == nil {
						werr = e2
					}
					if werr == nil {
						werr = bw.Flush()
					}
				case "chunked2048":
					wn, werr = hap.NewChunkedWriter(conn, 2048).Write(payload)
				}
			})
			in := map[string]interface{}{"writer": kind, "payload_bytes": n}
			if pan {
				c.Violate(who+": writing through a standard writer stacked on an encrypted connection panics (Write reports more bytes than it was given)", id, in, "payload delivered", trunc(msg, 200))
				continue
			}
			pt, used, ok := peer.DecryptFrames(sk.out)
			if werr != nil || wn != n || !ok || used != len(sk.out) || !bytes.Equal(pt, payload) {
				c.Violate(who+": a payload written to an encrypted connection does not reach the peer intact, or Write does not report exactly the bytes it was given", id, in,
					fmt.Sprintf("n=%d err=nil, %d bytes at the peer", n, n), fmt.Sprintf("n=%d err=%v, %d bytes at the peer (frames ok=%v)", wn, werr, len(pt), ok))
			}
			c.Count(id, n > 4096, "stream:stacked", "stacked:"+kind)
		}
	}
}

// alternatingReads: two (or three) verified connections read by ONE goroutine in turn — a whole frame from one, a part of
// a frame from the next (caller buffer smaller than the frame's plaintext), back to the first … . What a connection
// keeps between two Reads (the rest of a decrypted frame) is its own: every connection hands on exactly the bytes ITS
// peer sent, in order, whatever the other connections did in between. (One goroutine makes the order of the calls — and
// the reuse of anything the connections share, e.g. pooled buffers — deterministic.)
func alternatingReads(c *Ctx, who string) {
	for i := 0; i < c.Pick(10, 200); i++ {
		id := c.CaseID("alternating-reads", i)
		if c.Skip(id) {
			continue
		}
		r := c.CaseRng("alternating-reads", i)
		n := 2 + r.Intn(2)
		type side struct {
			raw  *hoConn
			conn *hap.Connection
			peer *refSession
			sent []byte
			got  []byte
		}
		ctx := hap.NewContextForSecuredDevice(nil)
		var sides []*side
		for k := 0; k < n; k++ {
			raw := newHoConn()
			ac := &addrConn{Conn: raw, remote: fakeAddr(fmt.Sprintf("10.9.1.%d:%d", k+1, 5100+k))}
			s := &side{raw: raw, conn: hap.NewConnection(ac, ctx)}
			var shared [32]byte
			copy(shared[:], randBytes(r, 32))
			sec, _ := crypto.NewSecureSessionFromSharedKey(shared)
			ctx.GetSessionForConnection(ac).SetCryptographer(sec)
			responseWritten(ctx, ac)
			s.peer = newRefControllerSession(shared[:])
			sides = append(sides, s)
		}
		var trace []string
		bad := ""
		steps := 6 + r.Intn(30)
		for step := 0; step < steps && bad == ""; step++ {
			k := r.Intn(n)
			s := sides[k]
			pending := len(s.sent) - len(s.got)
			if pending == 0 {
				msg := bytes.Repeat([]byte{byte('A' + k)}, []int{1, 40, 300, 1024, 1500}[r.Intn(5)])
				s.raw.push(s.peer.Encrypt(msg))
				s.sent = append(s.sent, msg...)
				pending = len(msg)
			}
			// a whole frame's worth, or only a part of what is pending
			want := pending
			if r.Intn(2) == 0 && pending > 1 {
				want = 1 + r.Intn(pending-1)
			}
			buf := make([]byte, want)
			m, err := s.conn.Read(buf)
			trace = append(trace, fmt.Sprintf("conn%d.Read(%d)=%d", k+1, want, m))
			s.got = append(s.got, buf[:m]...)
			if err != nil || m == 0 || !bytes.HasPrefix(s.sent, s.got) {
				bad = fmt.Sprintf("connection %d: Read returned n=%d err=%v; %d bytes handed on so far, first difference from what its peer sent at %d (byte %q)", k+1, m, err, len(s.got), firstDiff(s.got, s.sent), string(buf[:min(m, 1)]))
			}
		}
		if bad != "" {
			c.Violate(who+" alternating reads: a connection does not hand on exactly what its own peer sent (another connection read a part of a frame in between)", id,
				map[string]interface{}{"connections": n, "calls": trace}, "every connection: the bytes of its own peer, in order", bad)
		}
		for _, s := range sides {
			s.raw.Close()
		}
		c.Count(fmt.Sprint(id, trace), true, "stream:alternating-reads", fmt.Sprintf("alternating-reads:conns=%d", n))
	}
}
