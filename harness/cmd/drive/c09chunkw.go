package main

// C09 (stream "chunkw") — hap.NewChunkedWriter(w, n).Write(body) over a scripted writer whose calls take fewer bytes
// than they are offered or fail: the real loop of hap/chunked_writer.go against HcModel/ChunkedWriter.lean (the model
// of which C09.chunked_loop_is_chunks and C09.chunked_writer_loses_and_repeats_nothing are theorems).
// Direct oracle (the property, independent of the model): the bytes the writer took, in order, are body[:nn] where nn is
// the count Write returns; without an error nn = len(body); no call follows a failing one; no slice is empty or > n.

import (
	"bytes"
	"errors"
	"fmt"
	"strings"

	"github.com/brutella/hc/hap"
)

type scriptWriter struct {
	script   []struct{ acc int; err bool }
	calls    int
	offered  [][]byte
	accepted [][]byte
	afterErr bool
	late     int // calls made after a failing call
}

var errScripted = errors.New("scripted write error")

func (w *scriptWriter) Write(p []byte) (int, error) {
	if w.afterErr {
		w.late++
	}
	w.offered = append(w.offered, append([]byte{}, p...))
	k := len(p)
	if w.calls < len(w.script) {
		s := w.script[w.calls]
		w.calls++
		if s.err {
			w.afterErr = true
			return 0, errScripted
		}
		if s.acc < k {
			k = s.acc
		}
	}
	w.accepted = append(w.accepted, append([]byte{}, p[:k]...))
	return k, nil
}

func c09Chunkw(c *Ctx) {
	n := c.Pick(400, 20000)
	var lines, ids, impls []string
	for i := -3; i < n; i++ {
		id := c.CaseID("chunkw", i)
		if c.Skip(id) {
			continue
		}
		r := c.CaseRng("chunkw", i)
		chunk := []int{1, 2, 3, 7, 16, 2048, 2048, 2048}[r.Intn(8)]
		blen := r.Intn(40)
		if chunk == 2048 {
			blen = []int{0, 1, 2047, 2048, 2049, 4096, 4097, 5000 + r.Intn(9000)}[r.Intn(8)]
		}
		ns := r.Intn(6)
		switch i {
		case -3:
			chunk, blen, ns = 2048, 5000, 0 // the writers the library hands over keep the contract
		case -2:
			chunk, blen, ns = 2, 5, 3
		case -1:
			chunk, blen, ns = 2048, 4096, 2
		}
		w := &scriptWriter{}
		var toks []string
		nonprogress := 0
		for j := 0; j < ns; j++ {
			acc := r.Intn(chunk + 2)
			if r.Intn(4) == 0 {
				acc = chunk
			}
			if acc == 0 {
				nonprogress++
			}
			e := r.Intn(7) == 0
			w.script = append(w.script, struct{ acc int; err bool }{acc, e})
			if e {
				toks = append(toks, fmt.Sprint("e", acc))
			} else {
				toks = append(toks, fmt.Sprint("a", acc))
			}
		}
		body := make([]byte, blen)
		for j := range body {
			body[j] = byte(j % 251)
		}
		nn, err := hap.NewChunkedWriter(w, chunk).Write(body)
		st := "ok"
		if err != nil {
			st = "err"
		}
		in := fmt.Sprintf("chunk=%d len=%d script=%v", chunk, blen, toks)
		// ---- direct oracle
		got := bytes.Join(w.accepted, nil)
		if nn < 0 || nn > len(body) || !bytes.Equal(got, body[:min(max(nn, 0), len(body))]) {
			c.Violate("chunked writer: the bytes the response writer took are not the first nn bytes of the body (a byte lost or written twice)", id, in,
				fmt.Sprintf("body[:%d]", nn), fmt.Sprintf("%d bytes taken, first difference at %d", len(got), firstDiff(got, body)))
		}
		if err == nil && nn != len(body) {
			c.Violate("chunked writer: Write returns no error but not the whole body", id, in, fmt.Sprint(len(body)), fmt.Sprint(nn))
		}
		if err != nil && !w.afterErr {
			c.Violate("chunked writer: Write reports an error the response writer never returned", id, in, "nil", err.Error())
		}
		if err == nil && w.afterErr {
			c.Violate("chunked writer: an error of the response writer is swallowed", id, in, "error", "nil")
		}
		if w.late > 0 {
			c.Violate("chunked writer: writes after a failed write", id, in, "0", fmt.Sprint(w.late))
		}
		var off, acc []string
		for _, p := range w.offered {
			if len(p) == 0 || len(p) > chunk {
				c.Violate("chunked writer: a slice handed to the response writer is empty or longer than the chunk size", id, in, fmt.Sprint("1..", chunk), fmt.Sprint(len(p)))
			}
			fb := 999
			if len(p) > 0 {
				fb = int(p[0])
			}
			off = append(off, fmt.Sprintf("%d@%d", len(p), fb))
		}
		for _, p := range w.accepted {
			acc = append(acc, fmt.Sprint(len(p)))
		}
		impl := fmt.Sprintf("%d %s off=%s acc=%s", nn, st, strings.Join(off, ","), strings.Join(acc, ","))
		lines = append(lines, strings.TrimSpace(fmt.Sprintf("chunkw %d %d %s", chunk, blen, strings.Join(toks, " "))))
		ids = append(ids, id)
		impls = append(impls, impl)
		c.Count(in, ns > 0 && blen > chunk, fmt.Sprintf("chunkw:chunk=%d", chunk), "chunkw:"+st, fmt.Sprintf("chunkw:short-or-failing-calls<=%d", (ns+1)/2*2),
			fmt.Sprintf("chunkw:calls-that-take-nothing=%d", nonprogress))
		c.Trace()
	}
	model := c.Model(lines)
	for i := range lines {
		c.Same("chunkw", ids[i], lines[i], model[i], impls[i])
		if i%100 == 0 {
			c.Sample(map[string]interface{}{"op": lines[i], "answer": trunc(impls[i], 200)})
		}
	}
}
